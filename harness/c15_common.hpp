// Shared helpers of the C15 harnesses (c15.cpp, c15b.cpp, c15c.cpp): op-line parsing, dataset
// construction with an explicit batch partition, exact output, FE_INEXACT window, and the
// protocol loop.  A line is one op -- executed on freshly constructed trainer / model
// objects -- or a HISTORY `op ; op ; ... ; op`: the steps are executed one after the other
// on the SAME trainer, model and output objects (a `Session`), the observation line is
// `obs ;; obs ;; ... ;; obs`.  Every step of a history must give what a fresh object gives.
#ifndef VERIF_HARNESS_C15_COMMON_HPP
#define VERIF_HARNESS_C15_COMMON_HPP
#include "common.hpp"
#include <cfenv>
#include <cstdlib>
#include <memory>
#include <shark/Data/Dataset.h>
#include <shark/Data/WeightedDataset.h>

namespace c15 {
using namespace shark;

// every token after the op name is a (possibly negative) decimal integer
inline bool allInt(std::vector<std::string> const& t, std::size_t from, std::vector<long long>& out){
	out.clear();
	for(std::size_t i = from; i < t.size(); ++i){
		std::string const& s = t[i];
		std::size_t p = (s.size() > 1 && s[0] == '-') ? 1 : 0;
		if(s.size() == p) return false;
		for(std::size_t q = p; q < s.size(); ++q) if(s[q] < '0' || s[q] > '9') return false;
		out.push_back(std::stoll(s));
	}
	return true;
}

// cursor over the integer arguments of an op line
struct Args{
	std::vector<long long> a; std::size_t pos; bool bad;
	int shift;                 // op name suffix `@s`: every data value v of the table stands for v * 2^-s
	Args(): pos(0), bad(false), shift(0){}
	long long next(){ if(pos >= a.size()){ bad = true; return 0; } return a[pos++]; }
	std::size_t nat(){ long long v = next(); if(v < 0){ bad = true; return 0; } return (std::size_t)v; }
	bool done() const{ return !bad && pos == a.size(); }
};

// "n d nb s_1 .. s_nb" + row-major values, `extra` more columns per row (labels / class / weight).
// The d input columns (and the extra columns if `scaleExtra`: regression labels) are scaled by 2^-A.shift.
struct Table{
	std::size_t n, d, extra; std::vector<std::size_t> sizes;
	std::vector<std::vector<double> > rows;      // n rows of d+extra values
	bool read(Args& A, std::size_t extraCols, bool scaleExtra = false){
		n = A.nat(); d = A.nat(); extra = extraCols; std::size_t nb = A.nat();
		if(A.bad || nb > 4096 || n > 100000 || d > 4096) return false;
		sizes.clear(); std::size_t tot = 0;
		for(std::size_t i = 0; i < nb; ++i){ sizes.push_back(A.nat()); tot += sizes.back(); if(sizes.back() == 0) return false; }
		if(A.bad || tot != n || n == 0) return false;
		rows.assign(n, std::vector<double>(d + extra));
		for(std::size_t i = 0; i < n; ++i) for(std::size_t j = 0; j < d + extra; ++j){
			double v = (double)A.next();
			rows[i][j] = (j < d || scaleExtra) ? std::ldexp(v, -A.shift) : v;
		}
		return !A.bad;
	}
	std::vector<RealVector> points() const{
		std::vector<RealVector> p(n, RealVector(d));
		for(std::size_t i = 0; i < n; ++i) for(std::size_t j = 0; j < d; ++j) p[i](j) = rows[i][j];
		return p;
	}
	std::vector<RealVector> cols(std::size_t from, std::size_t k) const{
		std::vector<RealVector> p(n, RealVector(k));
		for(std::size_t i = 0; i < n; ++i) for(std::size_t j = 0; j < k; ++j) p[i](j) = rows[i][from + j];
		return p;
	}
	UnlabeledData<RealVector> unlabeled(std::vector<std::size_t> const& part) const{
		UnlabeledData<RealVector> data = createDataFromRange(points(), n);
		data.repartition(part);
		return data;
	}
	UnlabeledData<RealVector> unlabeled() const{ return unlabeled(sizes); }
	// alternative partitions of the same data for the batch-independence oracle
	std::vector<std::vector<std::size_t> > otherPartitions() const{
		std::vector<std::vector<std::size_t> > r;
		r.push_back(std::vector<std::size_t>(1, n));
		r.push_back(std::vector<std::size_t>(n, 1));
		if(n >= 3){ std::vector<std::size_t> p; p.push_back(1); p.push_back(n - 1); r.push_back(p); }
		return r;
	}
};

struct Out{
	std::ostringstream os; std::vector<std::string> oracle;
	void group(std::string const& name, std::size_t count){ os << " " << name << " " << count; }
	void val(double x){
		if(std::isnan(x)) os << " nan 0";
		else if(std::isinf(x)) os << (x > 0 ? " inf 0" : " -inf 0");
		else os << " " << vh::exactDouble(x);
	}
	template<class V> void vec(std::string const& name, V const& v){
		group(name, v.size()); for(std::size_t i = 0; i < v.size(); ++i) val(v(i));
	}
	template<class M> void mat(std::string const& name, M const& m){
		group(name, m.size1() * m.size2());
		for(std::size_t i = 0; i < m.size1(); ++i) for(std::size_t j = 0; j < m.size2(); ++j) val(m(i, j));
	}
	void nat(std::string const& name, std::size_t v){ os << " " << name << " 1 " << v << " 0"; }
	void fail(std::string const& tag){ oracle.push_back(tag); }
	std::string line(std::string const& status, bool inexact){
		std::ostringstream l; l << status << " I=" << (inexact ? 1 : 0) << os.str();
		for(std::size_t i = 0; i < oracle.size(); ++i) l << " !oracle " << oracle[i];
		return l.str();
	}
};

inline void fpClear(){ std::feclearexcept(FE_ALL_EXCEPT); }
inline bool fpInexact(){ return std::fetestexcept(FE_INEXACT) != 0; }

inline bool close(double a, double b, double tol, double scale = 1.0){
	if(std::isnan(a) || std::isnan(b)) return false;
	return std::fabs(a - b) <= tol * (scale + std::fabs(a) + std::fabs(b));
}
// matrices / vectors are compared relative to their largest entry (entries that cancel to ~0 carry
// absolute rounding noise proportional to the scale of the whole result)
template<class MA, class MB> bool closeMat(MA const& a, MB const& b, double tol){
	if(a.size1() != b.size1() || a.size2() != b.size2()) return false;
	double scale = 0;
	for(std::size_t i = 0; i < a.size1(); ++i) for(std::size_t j = 0; j < a.size2(); ++j){
		if(std::isnan(a(i, j)) || std::isnan(b(i, j))) return false;
		scale = std::max(scale, std::max(std::fabs(a(i, j)), std::fabs(b(i, j))));
	}
	for(std::size_t i = 0; i < a.size1(); ++i) for(std::size_t j = 0; j < a.size2(); ++j) if(!close(a(i, j), b(i, j), tol, 1.0 + scale)) return false;
	return true;
}
template<class VA, class VB> bool closeVec(VA const& a, VB const& b, double tol){
	if(a.size() != b.size()) return false;
	double scale = 0;
	for(std::size_t i = 0; i < a.size(); ++i){
		if(std::isnan(a(i)) || std::isnan(b(i))) return false;
		scale = std::max(scale, std::max(std::fabs(a(i)), std::fabs(b(i))));
	}
	for(std::size_t i = 0; i < a.size(); ++i) if(!close(a(i), b(i), tol, 1.0 + scale)) return false;
	return true;
}

// bit-for-bit comparison of a result of re-used objects with the result of fresh objects (same
// input, same code path: any difference is state that leaked from the earlier steps)
template<class VA, class VB> bool sameVec(VA const& a, VB const& b){
	if(a.size() != b.size()) return false;
	for(std::size_t i = 0; i < a.size(); ++i) if(!(a(i) == b(i)) && !(std::isnan(a(i)) && std::isnan(b(i)))) return false;
	return true;
}
template<class MA, class MB> bool sameMat(MA const& a, MB const& b){
	if(a.size1() != b.size1() || a.size2() != b.size2()) return false;
	for(std::size_t i = 0; i < a.size1(); ++i) for(std::size_t j = 0; j < a.size2(); ++j)
		if(!(a(i, j) == b(i, j)) && !(std::isnan(a(i, j)) && std::isnan(b(i, j)))) return false;
	return true;
}

// protocol loop; `dispatch(opname, args, session)` with session == 0 for a single op
template<class Session, class Dispatch>
int runProtocol(Dispatch dispatch){
	std::string line;
	while(std::getline(std::cin, line)){
		std::vector<std::string> t = vh::tokens(line);
		if(t.empty()){ std::cout << "@ \n"; continue; }
		std::vector<std::vector<std::string> > steps(1);
		for(std::size_t i = 0; i < t.size(); ++i){ if(t[i] == ";") steps.push_back(std::vector<std::string>()); else steps.back().push_back(t[i]); }
		std::unique_ptr<Session> S; if(steps.size() > 1) S.reset(new Session());
		std::string res;
		for(std::size_t k = 0; k < steps.size(); ++k){
			Args A; std::string r; std::string name = steps[k].empty() ? std::string() : steps[k][0];
			std::size_t at = name.find('@'); bool good = !name.empty();
			if(at != std::string::npos){
				std::vector<std::string> sh(1, name.substr(at + 1)); std::vector<long long> v;
				if(allInt(sh, 0, v) && v[0] >= -60 && v[0] <= 60) A.shift = (int)v[0]; else good = false;
				name = name.substr(0, at);
			}
			if(!good || !allInt(steps[k], 1, A.a)) r = "bad-op";
			else r = dispatch(name, A, S.get());
			if(k) res += " ;; ";
			res += r;
		}
		std::cout << "@ " << res << std::endl;   // "@ " marks protocol lines (BLAS may print warnings to stdout)
	}
	return 0;
}
}
#endif
