// K-C05 (second harness): the kernel classes over structured inputs —
//   GaussianTaskKernel / MultiTaskKernel (inputs: MultiTaskSample<RealVector>) and
//   MklKernel (inputs: a pair of vectors, adapted as a boost::fusion sequence).
// Same line protocol and the same kernel-expression parser / Session oracles as harness/c05.cpp
// (included below without its main).  The vector kernel of a `kern` line is the input kernel of the
// task kernel; an `mkl` line builds two vector kernels, one per component of the pair.
#define C05_NO_MAIN
#include "c05.cpp"
#include <shark/Models/Kernels/MultiTaskKernel.h>
#include <shark/Models/Kernels/MklKernel.h>

struct PairInput{
	shark::RealVector a;
	shark::RealVector b;
};
BOOST_FUSION_ADAPT_STRUCT(PairInput, (shark::RealVector, a)(shark::RealVector, b))
namespace shark{
template<> struct Batch<PairInput>{
	SHARK_CREATE_BATCH_INTERFACE_NO_TPL(PairInput, (shark::RealVector, a)(shark::RealVector, b))
};
}

typedef MultiTaskSample<RealVector> MTS;

struct TaskSession{
	Session<RealVector>* vs;
	std::vector<std::size_t> tasks, sizes;      // task of every point; batch partition of the task data
	std::size_t T; double gamma;
	boost::shared_ptr<Data<MTS> > data;
	boost::shared_ptr<GaussianTaskKernel<RealVector> > gk;
	boost::shared_ptr<MultiTaskKernel<RealVector> > mtk;
	Session<MTS> ms;
	TaskSession(): vs(0), T(0), gamma(0){}

	void build(){
		ms.pts.clear();
		for(std::size_t i = 0; i != vs->pts.size(); ++i) ms.pts.push_back(MTS(vs->pts[i], tasks[i]));
		data.reset(new Data<MTS>(ms.dataset(0, sizes)));
		gk.reset(new GaussianTaskKernel<RealVector>(*data, T, *vs->k, gamma));
		mtk.reset(new MultiTaskKernel<RealVector>(vs->k, gk.get()));
		ms.k = mtk.get(); ms.tolUlp = vs->tolUlp; ms.inexact = true;
	}
	// independent oracle: the table from its definition (mean elements of the tasks' empirical distributions) with the
	// CURRENT input-kernel parameters and bandwidth `g`
	std::string tableOracle(double g) const{
		std::size_t n = vs->pts.size();
		RealMatrix S(T, T, 0.0); std::vector<double> ell(T, 0.0);
		for(std::size_t i = 0; i != n; ++i) ell[tasks[i]] += 1;
		for(std::size_t i = 0; i != n; ++i) for(std::size_t j = 0; j != n; ++j) S(tasks[i], tasks[j]) += vs->k->eval(vs->pts[i], vs->pts[j]);
		std::ostringstream os;
		for(std::size_t a = 0; a != T; ++a) for(std::size_t b = 0; b != T; ++b){
			double got = gk->eval(a, b);
			if(a == b){ if(got != 1.0){ os << " !oracle task-table-diagonal (" << a << ") " << got; return os.str(); } continue; }
			if(ell[a] == 0 || ell[b] == 0) continue;
			double maa = S(a,a)/(ell[a]*ell[a]), mbb = S(b,b)/(ell[b]*ell[b]), mab = S(a,b)/(ell[a]*ell[b]);
			double d2 = maa + mbb - 2*mab, ref = std::exp(-g*d2);
			double tol = 1e-9*(1 + std::fabs(g)*(std::fabs(maa) + std::fabs(mbb) + 2*std::fabs(mab)));
			if(!(std::fabs(got - ref) <= tol)){ os << " !oracle task-table-stale (" << a << "," << b << ") got=" << got << " definition=" << ref; return os.str(); }
			if(got != gk->eval(b, a)){ os << " !oracle task-table-asymmetric (" << a << "," << b << ")"; return os.str(); }
		}
		return os.str();
	}
	std::string table() const{
		RealMatrix M(T, T);
		for(std::size_t a = 0; a != T; ++a) for(std::size_t b = 0; b != T; ++b) M(a,b) = gk->eval(a, b);
		return showMat(M);
	}
};

struct MklSession{
	Builder<RealVector> b1, b2;
	boost::shared_ptr<MklKernel<PairInput> > k;
	Session<PairInput> s;
	std::size_t split;
	MklSession(): split(0){}
};

int main(int, char**){
	Builder<RealVector>* builder = new Builder<RealVector>();
	Session<RealVector> vs;
	boost::shared_ptr<TaskSession> ts;
	boost::shared_ptr<MklSession> mk;
	std::string line;
	while(std::getline(std::cin, line)){
		std::vector<std::string> t = vh::tokens(line);
		std::string out;
		try{
			std::vector<std::size_t> a;
			if(t.empty()) out = "";
			else if(t[0] == "kern"){
				ts.reset(); mk.reset();
				delete builder; builder = new Builder<RealVector>();
				std::size_t p = 1;
				vs.k = builder->parse(t, p);
				if(!vs.k || p != t.size()){ vs.k = 0; out = "bad-op"; }
				else{ vs.tolUlp = builder->hasNorm ? 4 : 0; vs.inexact = builder->inexact; out = "ok"; }
			}
			else if(t[0] == "mkl"){
				// mkl da p K1 K2: MklKernel over pairs (x[0,da), x[da,d)), log-weight p of the second kernel
				ts.reset(); vs.k = 0;
				mk.reset(new MklSession());
				double pw; std::size_t p = 3;
				AbstractKernelFunction<RealVector> *k1 = 0, *k2 = 0;
				if(t.size() < 5 || !parseNat(t[1], mk->split) || !parseVal(t[2], pw) || !(k1 = mk->b1.parse(t, p)) || !(k2 = mk->b2.parse(t, p)) || p != t.size()){ mk.reset(); out = "bad-op"; }
				else{
					mk->k.reset(new MklKernel<PairInput>(boost::fusion::make_vector(k1, k2)));
					RealVector ps(1); ps(0) = pw; mk->k->setParameterVector(ps);
					mk->s.k = mk->k.get(); mk->s.tolUlp = (mk->b1.hasNorm || mk->b2.hasNorm) ? 4 : 0; mk->s.inexact = true;
					out = "ok";
				}
			}
			else if(t[0] == "pts"){
				std::size_t n, d;
				if(t.size() < 3 || !parseNat(t[1], n) || !parseNat(t[2], d) || t.size() != 3 + n*d) out = "bad-op";
				else{
					vs.pts.clear(); vs.pts.resize(n); bool ok = true; ts.reset();
					for(std::size_t i = 0; i != n; ++i){
						std::vector<double> v(d);
						for(std::size_t c = 0; c != d; ++c) ok = ok && parseVal(t[3 + i*d + c], v[c]);
						fillPoint<RealVector>(vs.pts[i], v);
					}
					if(mk){
						mk->s.pts.clear();
						for(std::size_t i = 0; i != n; ++i){
							PairInput q; q.a = subrange(vs.pts[i], 0, mk->split); q.b = subrange(vs.pts[i], mk->split, d);
							mk->s.pts.push_back(q);
						}
					}
					std::ostringstream os; os << "ok " << n << " " << d; out = ok ? os.str() : "bad-op";
				}
			}
			else if(t[0] == "mk"){
				std::vector<std::string> rest(t.begin()+1, t.end());
				if(!mk || rest.empty()) out = "bad-op";
				else if(rest[0] == "setparams") out = mk->s.setParams(rest);
				else if(!mk->s.dispatch(rest, out)) out = "bad-op";
			}
			else if(t[0] == "task"){
				// task T gamma t1..tn: GaussianTaskKernel over the current points (one batch) + MultiTaskKernel
				std::size_t T; double g;
				if(!vs.k || t.size() != 3 + vs.pts.size() || !parseNat(t[1], T) || !parseVal(t[2], g) || T == 0) out = "bad-op";
				else{
					ts.reset(new TaskSession()); ts->vs = &vs; ts->T = T; ts->gamma = g; bool ok = true;
					for(std::size_t i = 3; i != t.size(); ++i){ std::size_t v; ok = ok && parseNat(t[i], v) && v < T; ts->tasks.push_back(v); }
					if(!ok){ ts.reset(); out = "bad-op"; }
					else{ ts->sizes.assign(1, vs.pts.size()); ts->build(); out = ts->table() + ts->tableOracle(g); }
				}
			}
			else if(t[0] == "tbatch"){
				// the same data in another batch partition: a new kernel object, the table must not change
				std::size_t n = 0;
				if(!ts || !vh::allNat(t, 1, a) || a.empty()) out = "bad-op";
				else{
					for(std::size_t q: a) n += q;
					bool pos = true; for(std::size_t q: a) pos = pos && q > 0;
					if(n != vs.pts.size() || !pos) out = "bad-op";
					else{
						std::string before = ts->table();
						ts->sizes = a; ts->build();
						out = ts->table() + ts->tableOracle(ts->gamma);
						if(ts->table() != before) out += " !oracle task-table-batching";
					}
				}
			}
			else if(t[0] == "tsetparams"){
				// setParameterVector on the live GaussianTaskKernel: (input kernel parameters | gamma)
				if(!ts || t.size() - 1 != ts->gk->numberOfParameters()) out = "bad-op";
				else{
					RealVector p(t.size() - 1); bool ok = true;
					for(std::size_t i = 1; i != t.size(); ++i){ double v; ok = ok && parseVal(t[i], v); p(i-1) = v; }
					if(!ok) out = "bad-op";
					else{
						ts->gk->setParameterVector(p); ts->gamma = p(p.size() - 1);
						out = ts->table() + ts->tableOracle(ts->gamma);
						RealVector q = ts->gk->parameterVector();
						if(q.size() != p.size()) out += " !oracle parameter-vector-size";
					}
				}
			}
			else if(t[0] == "tsetgamma"){
				double g;
				if(!ts || t.size() != 2 || !parseVal(t[1], g)) out = "bad-op";
				else{ ts->gk->setGamma(g); ts->gamma = g; out = ts->table() + ts->tableOracle(g); }
			}
			else if(t[0] == "mt"){
				// mt 0 i j | mt 1 a b c d | mt 2 reg sizes..: MultiTaskKernel single / block / Gram matrix
				if(!ts || t.size() < 2) out = "bad-op";
				else if(t[1] == "0" && vh::allNat(t, 2, a) && a.size() == 2 && a[0] < vs.pts.size() && a[1] < vs.pts.size()) out = ts->ms.single(a[0], a[1]);
				else if(t[1] == "1" && vh::allNat(t, 2, a) && a.size() == 4) out = ts->ms.block(a[0], a[1], a[2], a[3], false);
				else if(t[1] == "2" && t.size() >= 4){
					double reg;
					if(!parseVal(t[2], reg) || !vh::allNat(t, 3, a)) out = "bad-op"; else out = ts->ms.gram(reg, a);
				}
				else if(t[1] == "3" && vh::allNat(t, 2, a) && a.size() == 2) out = ts->ms.gramThreads(a[0], a[1]);   // thread-count sweep (MultiTaskKernel IS a ProductKernel)
				else out = "bad-op";
			}
			else out = "bad-op";
		}catch(std::exception const& e){
			out = std::string("exception ") + e.what();
		}
		std::cout << out << "\n";
	}
	std::cout.flush();
	return 0;
}
