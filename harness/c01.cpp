// K-C01: main loop of the correspondence harness for remora expressions.
// Reads ops (one per line) from stdin, prints one observation line per op in the
// format of lean/Driver/C01.lean.  The statements themselves live in generated
// translation units (one function per statement, checks/c01.py) that register
// themselves in c01::registry().
#include "c01_harness.hpp"
#include <cfenv>
#include <unistd.h>

namespace c01{
std::map<std::size_t, Entry>& registry(){ static std::map<std::size_t, Entry> r; return r; }
}
using namespace c01;

// exact rendering of a double as an integer or a fraction num/2^k
static std::string showNum(double x){
	if(std::isnan(x)) return "nan";
	if(std::isinf(x)) return x > 0 ? "inf" : "-inf";
	if(x == 0) return "0";
	int e; double m = std::frexp(x, &e);
	long long mi = (long long)std::ldexp(m, 53); e -= 53;
	while(mi % 2 == 0){ mi /= 2; ++e; }
	std::ostringstream os;
	if(e >= 0){
		int bits = 0; for(long long a = mi < 0 ? -mi : mi; a; a >>= 1) ++bits;
		if(bits + e > 62){ os << mi << "*2^" << e; return os.str(); }
		os << mi * (1LL << e); return os.str();
	}
	if(-e > 62){ os << mi << "/2^" << -e; return os.str(); }
	os << mi << "/" << (1LL << -e);
	return os.str();
}
static bool parseNum(std::string const& t, double& out){
	try{
		std::size_t p = t.find('/');
		if(p == std::string::npos){ out = (double)std::stoll(t); return true; }
		out = (double)std::stoll(t.substr(0,p)) / (double)std::stoll(t.substr(p+1)); return true;
	}catch(...){ return false; }
}
template<class It> static std::string showList(It b, It e){
	std::string s = "["; bool first = true;
	for(; b != e; ++b){ if(!first) s += ","; first = false; s += showNum(*b); }
	return s + "]";
}
template<class M> static std::string showMat(M const& m){
	std::vector<double> x; for(std::size_t i = 0; i != m.size1(); ++i) for(std::size_t j = 0; j != m.size2(); ++j) x.push_back(m(i,j));
	std::ostringstream os; os << m.size1() << "x" << m.size2() << showList(x.begin(), x.end()); return os.str();
}
static std::string showStore(Store const& S){
	std::string s; bool first = true;
	for(auto const& v: S.v){ if(!first) s += " "; first = false; std::vector<double> x; for(std::size_t i = 0; i != v.size(); ++i) x.push_back(v(i)); s += showList(x.begin(), x.end()); }
	for(auto const& m: S.A){ if(!first) s += " "; first = false; s += showMat(m); }
	for(auto const& m: S.B){ if(!first) s += " "; first = false; s += showMat(m); }
	for(std::size_t k = 0; k != S.s.size(); ++k){ if(!first) s += " "; first = false; OV x = o_s(S, k); s += "s" + showList(x.begin(), x.end()); }
	for(std::size_t k = 0; k != S.C.size(); ++k){ if(!first) s += " "; first = false; OM m = o_C(S, k); std::ostringstream os; os << "s" << m.n1 << "x" << m.n2 << showList(m.x.begin(), m.x.end()); s += os.str(); }
	return s;
}
static bool same(double a, double b){ return a == b || (std::isnan(a) && std::isnan(b)); }
static std::string diffStore(Store const& a, Store const& b){
	std::ostringstream os;
	if(a.v.size() != b.v.size() || a.A.size() != b.A.size() || a.B.size() != b.B.size()) return "store-shape";
	for(std::size_t k = 0; k != a.v.size(); ++k){
		if(a.v[k].size() != b.v[k].size()){ os << "v" << k << ".size"; return os.str(); }
		for(std::size_t i = 0; i != a.v[k].size(); ++i) if(!same(a.v[k](i), b.v[k](i))){ os << "v" << k << "(" << i << ")=" << showNum(a.v[k](i)) << "!=" << showNum(b.v[k](i)); return os.str(); }
	}
	for(std::size_t k = 0; k != a.A.size(); ++k){
		if(a.A[k].size1() != b.A[k].size1() || a.A[k].size2() != b.A[k].size2()){ os << "A" << k << ".size"; return os.str(); }
		for(std::size_t i = 0; i != a.A[k].size1(); ++i) for(std::size_t j = 0; j != a.A[k].size2(); ++j)
			if(!same(a.A[k](i,j), b.A[k](i,j))){ os << "A" << k << "(" << i << "," << j << ")=" << showNum(a.A[k](i,j)) << "!=" << showNum(b.A[k](i,j)); return os.str(); }
	}
	for(std::size_t k = 0; k != a.B.size(); ++k){
		if(a.B[k].size1() != b.B[k].size1() || a.B[k].size2() != b.B[k].size2()){ os << "B" << k << ".size"; return os.str(); }
		for(std::size_t i = 0; i != a.B[k].size1(); ++i) for(std::size_t j = 0; j != a.B[k].size2(); ++j)
			if(!same(a.B[k](i,j), b.B[k](i,j))){ os << "B" << k << "(" << i << "," << j << ")=" << showNum(a.B[k](i,j)) << "!=" << showNum(b.B[k](i,j)); return os.str(); }
	}
	if(a.s.size() != b.s.size() || a.C.size() != b.C.size()) return "store-shape";
	for(std::size_t k = 0; k != a.s.size(); ++k){ OV x = o_s(a,k), y = o_s(b,k); if(x.size() != y.size()){ os << "s" << k << ".size"; return os.str(); } for(std::size_t i = 0; i != x.size(); ++i) if(!same(x[i],y[i])){ os << "s" << k << "(" << i << ")"; return os.str(); } }
	for(std::size_t k = 0; k != a.C.size(); ++k){ OM x = o_C(a,k), y = o_C(b,k); if(x.n1 != y.n1 || x.n2 != y.n2){ os << "C" << k << ".size"; return os.str(); } for(std::size_t i = 0; i != x.x.size(); ++i) if(!same(x.x[i],y.x[i])){ os << "C" << k << "[" << i << "]"; return os.str(); } }
	return "";
}

static unsigned long inexactCount = 0;
int main(){
	// protocol lines go to the original stdout; anything a library prints to fd 1 (OpenBLAS xerbla) goes to stderr
	int protocolFd = dup(1); dup2(2, 1);
	FILE* protocol = fdopen(protocolFd, "w");
	std::ostringstream line_out;
	Store S;
	std::string line;
	while(true){
		if(!line_out.str().empty()){ fputs(line_out.str().c_str(), protocol); line_out.str(""); }
		if(!std::getline(std::cin, line)) break;
		std::vector<std::string> t = vh::tokens(line);
		if(t.empty()){ line_out << "\n"; continue; }
		if(t[0] == "new" && t.size() == 1){ S = Store(); line_out << "ok\n"; continue; }
		if(t[0] == "vec" && t.size() >= 2){
			std::size_t n = std::stoull(t[1]);
			if(t.size() != n + 2){ line_out << "bad-op\n"; continue; }
			Vec v(n); bool ok = true;
			for(std::size_t i = 0; i != n; ++i){ double x; ok = ok && parseNum(t[2+i], x); v(i) = x; }
			if(!ok){ line_out << "bad-op\n"; continue; }
			S.v.push_back(v); line_out << "ok\n"; continue;
		}
		if(t[0] == "mat" && t.size() >= 4){
			std::size_t n1 = std::stoull(t[2]), n2 = std::stoull(t[3]);
			if(t.size() != n1*n2 + 4){ line_out << "bad-op\n"; continue; }
			bool ok = true;
			if(t[1] == "A"){ MatA m(n1,n2); for(std::size_t i = 0; i != n1; ++i) for(std::size_t j = 0; j != n2; ++j){ double x; ok = ok && parseNum(t[4+i*n2+j], x); m(i,j) = x; } S.A.push_back(m); }
			else if(t[1] == "B"){ MatB m(n1,n2); for(std::size_t i = 0; i != n1; ++i) for(std::size_t j = 0; j != n2; ++j){ double x; ok = ok && parseNum(t[4+i*n2+j], x); m(i,j) = x; } S.B.push_back(m); }
			else ok = false;
			line_out << (ok ? "ok\n" : "bad-op\n"); continue;
		}
		if(t[0] == "svec" && t.size() >= 2){
			// built the way client code builds sparse points: fill a local vector, store a copy
			std::size_t n = std::stoull(t[1]); bool ok = true;
			{
				SVec x(n);
				for(std::size_t k = 2; k < t.size(); ++k){
					std::size_t c = t[k].find(':'); double val;
					if(c == std::string::npos || !parseNum(t[k].substr(c+1), val)){ ok = false; break; }
					x.set_element(x.end(), std::stoull(t[k].substr(0,c)), val);
				}
				if(ok) S.s.push_back(x);
			}
			line_out << (ok ? "ok\n" : "bad-op\n"); continue;
		}
		if(t[0] == "smat" && t.size() >= 3){
			// default-construct, resize, fill row by row, copy-assign into the store
			std::size_t n1 = std::stoull(t[1]), n2 = std::stoull(t[2]); bool ok = true;
			{
				SMat m; m.resize(n1, n2);
				for(std::size_t k = 3; k < t.size(); ++k){
					std::size_t a = t[k].find(','), c = t[k].find(':'); double val;
					if(a == std::string::npos || c == std::string::npos || !parseNum(t[k].substr(c+1), val)){ ok = false; break; }
					std::size_t i = std::stoull(t[k].substr(0,a)), j = std::stoull(t[k].substr(a+1, c-a-1));
					m.set_element(m.major_end(i), j, val);
				}
				if(ok){ S.C.push_back(SMat(n1, n2)); S.C.back() = m; }
			}
			line_out << (ok ? "ok\n" : "bad-op\n"); continue;
		}
		if((t[0] == "stmt" || t[0] == "red") && t.size() >= 3){
			std::size_t k = std::stoull(t[1]);
			std::map<std::size_t, Entry>::iterator it = registry().find(k);
			if(it == registry().end()){ line_out << "bad-op unknown-statement\n"; continue; }
			Entry const& e = it->second;
			// the op text must be the text this function was generated from
			std::string rest; for(std::size_t i = 2; i < t.size(); ++i){ if(i > 2) rest += " "; rest += t[i]; }
			std::string mine; { std::vector<std::string> tt = vh::tokens(e.text); for(std::size_t i = 0; i < tt.size(); ++i){ if(i) mine += " "; mine += tt[i]; } }
			if(rest != mine){ line_out << "bad-op text-mismatch\n"; continue; }
			std::string orc;
			if(t[0] == "stmt"){
				Store old = S, exp = S;
				bool haveExp = true;
				try{ e.expect(old, exp); }catch(std::exception const& ex){ haveExp = false; orc = std::string(" !oracle precondition:") + ex.what(); }
				std::feclearexcept(FE_ALL_EXCEPT);
				e.run(S);
				bool inexact = std::fetestexcept(FE_INEXACT) != 0;
				if(haveExp){ std::string d = diffStore(S, exp); if(!d.empty()) orc += " !oracle wrong-value:" + d; }
				if(inexact) ++inexactCount;
				line_out << showStore(S) << orc << "\n";
			}else{
				double want = 0; bool haveExp = true;
				try{ want = e.redExpect(S); }catch(std::exception const& ex){ haveExp = false; orc = std::string(" !oracle precondition:") + ex.what(); }
				Store before = S;
				double got = e.red(S);
				if(haveExp && !same(got, want)) orc += " !oracle wrong-reduction:" + showNum(got) + "!=" + showNum(want);
				std::string d = diffStore(S, before); if(!d.empty()) orc += " !oracle reduction-modified-store:" + d;
				line_out << "R=" << showNum(got) << orc << "\n";
			}
			continue;
		}
		line_out << "bad-op\n";
	}
	fflush(protocol);
	if(inexactCount) std::cerr << "c01: statements raising FE_INEXACT: " << inexactCount << "\n";
	return 0;
}
