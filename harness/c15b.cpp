// K-C15 harness (part B): PCA (both branches of setData, encoder / decoder) and LDA
// (unweighted and weighted).  Same line protocol as c15.cpp.
#include "c15_common.hpp"
#include <shark/Data/Statistics.h>
#include <shark/Models/LinearModel.h>
#include <shark/Algorithms/Trainers/PCA.h>
#include <shark/Algorithms/Trainers/LDA.h>
using namespace shark;
using namespace c15;

// PCA with a selectable algorithm (m_algorithm is protected and otherwise always AUTO)
struct PCAx : public PCA{
	PCAx(bool whitening, int alg): PCA(whitening){ setAlgorithm(alg); }
	PCAx(UnlabeledData<RealVector> const& data, bool whitening): PCA(data, whitening){}
	void setAlgorithm(int alg){ m_algorithm = alg == 1 ? STANDARD : alg == 2 ? SMALL_SAMPLE : AUTO; }
	std::size_t nPoints() const{ return m_l; }
};

// objects that live as long as a history (`op ; op ; ...`)
struct Session{
	PCAx pca; LinearModel<> enc, dec;
	LDA lda; LinearClassifier<> cls;
	std::size_t step;
	Session(): pca(false, 0), lda(0.0), step(0){}
};

// pca|pcat|pcac whitening alg m | table
// entry 0 (pca): setData + encoder + decoder;  entry 1 (pcat): train(model) with a model of m outputs, then decoder;
// entry 2 (pcac): the constructor PCA(data, whitening) (algorithm AUTO), then encoder + decoder
static std::string opPca(Args& A, int entry, Session* S){
	std::size_t whitening = A.nat(), alg = A.nat(), m = A.nat();
	Table T; if(!T.read(A, 0) || !A.done() || T.d == 0 || whitening > 1 || alg > 2) return "bad-op";
	std::size_t n = T.d, l = T.n;
	std::size_t mEff = m ? m : std::min(n, l);
	bool small = alg == 2 || (alg == 0 && n > l);
	if(mEff > (small ? l : n)) return "bad-op";          // more components than computed directions
	Out o;
	UnlabeledData<RealVector> data = T.unlabeled();
	if(entry == 2 && alg != 0) return "bad-op";
	PCAx freshPca(whitening == 1, (int)alg);
	LinearModel<> freshEnc, freshDec;
	// history: the PCA object of the previous steps (holding their decomposition) is configured anew and given the
	// data of this step; the encoder / decoder models of the previous step are overwritten
	PCAx& pca = S ? S->pca : freshPca;
	LinearModel<>& enc = S ? S->enc : freshEnc; LinearModel<>& dec = S ? S->dec : freshDec;
	struct Run{
		static void go(PCAx& pca, LinearModel<>& enc, LinearModel<>& dec, UnlabeledData<RealVector> const& data, int entry, bool whitening, int alg, std::size_t m, std::size_t mEff, std::size_t n){
			if(entry == 2) pca = PCAx(data, whitening);
			else{ pca.setWhitening(whitening); pca.setAlgorithm(alg); }
			if(entry == 1){ enc.setStructure(n, mEff, true); pca.train(enc, data); }
			else{ if(entry == 0) pca.setData(data); pca.encoder(enc, m); }
			pca.decoder(dec, m);
		}
	};
	fpClear();
	try{ Run::go(pca, enc, dec, data, entry, whitening == 1, (int)alg, m, mEff, n); }
	catch(shark::Exception const&){ return "exc"; }
	bool inexact = fpInexact();
	if(S){
		PCAx p2(false, 0); LinearModel<> e2, d2;
		Run::go(p2, e2, d2, data, entry, whitening == 1, (int)alg, m, mEff, n);
		if(!sameVec(pca.mean(), p2.mean()) || !sameVec(pca.eigenvalues(), p2.eigenvalues()) || !sameMat(pca.eigenvectors(), p2.eigenvectors())
		   || !sameMat(enc.matrix(), e2.matrix()) || !sameVec(enc.offset(), e2.offset()) || !sameMat(dec.matrix(), d2.matrix()) || !sameVec(dec.offset(), d2.offset()))
			o.fail("reuse-dependent");
	}
	RealVector ev = pca.eigenvalues(); RealMatrix V = pca.eigenvectors();
	o.nat("cols", V.size2());
	o.vec("mean", pca.mean()); o.vec("eigenvalues", ev); o.mat("eigenvectors", V);
	o.mat("encW", enc.matrix()); o.vec("encb", enc.offset()); o.mat("decW", dec.matrix()); o.vec("decb", dec.offset());
	// ---- oracle
	{ bool fin = true;
	  RealMatrix const& EW = enc.matrix(); RealMatrix const& DW = dec.matrix();
	  for(std::size_t i = 0; i < EW.size1(); ++i) for(std::size_t j = 0; j < EW.size2(); ++j) if(!std::isfinite(EW(i, j))) fin = false;
	  for(std::size_t i = 0; i < DW.size1(); ++i) for(std::size_t j = 0; j < DW.size2(); ++j) if(!std::isfinite(DW(i, j))) fin = false;
	  for(std::size_t i = 0; i < enc.offset().size(); ++i) if(!std::isfinite(enc.offset()(i))) fin = false;
	  if(!fin) o.fail("pca-nonfinite-model"); }
	double top = ev.size() ? std::fabs(ev(0)) : 0.0;
	for(std::size_t i = 0; i + 1 < ev.size(); ++i) if(!(ev(i) >= ev(i + 1) - 1e-10 * (1 + top))) o.fail("pca-eigenvalues-not-sorted");
	for(std::size_t i = 0; i < ev.size(); ++i) if(!(ev(i) >= -1e-10 * (1 + top))) o.fail("pca-negative-eigenvalue");
	bool finite = true;
	for(std::size_t i = 0; i < mEff; ++i) for(std::size_t j = 0; j < n; ++j) if(!std::isfinite(V(j, i))) finite = false;
	if(!finite) o.fail("pca-nonfinite-direction");
	else{
		// a direction without variance may be returned as the zero vector (small-sample branch);
		// all others must be orthonormal
		std::vector<bool> zeroDir(mEff, true);
		for(std::size_t a = 0; a < mEff; ++a){
			for(std::size_t j = 0; j < n; ++j) if(V(j, a) != 0.0) zeroDir[a] = false;
			if(zeroDir[a] && !(std::fabs(ev(a)) <= 1e-9 * (1 + top))) o.fail("pca-zero-direction-with-variance");
		}
		for(std::size_t a = 0; a < mEff; ++a) for(std::size_t b = 0; b < mEff; ++b){
			if(zeroDir[a] || zeroDir[b]) continue;
			double s = 0; for(std::size_t j = 0; j < n; ++j) s += V(j, a) * V(j, b);
			if(!(std::fabs(s - (a == b ? 1.0 : 0.0)) <= 1e-8)) o.fail("pca-not-orthonormal");
		}
		if(!whitening){
			// decoder(encoder(x)) is the orthogonal projection of x onto mean + span(directions)
			RealMatrix EW = enc.matrix(), DW = dec.matrix(); RealVector eb = enc.offset(), db = dec.offset();
			double xs = 1; for(std::size_t i = 0; i < l; ++i) for(std::size_t j = 0; j < n; ++j) xs = std::max(xs, std::fabs(T.rows[i][j]));
			std::vector<double> var(mEff, 0.0);
			for(std::size_t i = 0; i < l; ++i){
				std::vector<double> z(mEff), p(n), z2(mEff);
				for(std::size_t a = 0; a < mEff; ++a){ z[a] = eb(a); for(std::size_t j = 0; j < n; ++j) z[a] += EW(a, j) * T.rows[i][j]; var[a] += z[a] * z[a]; }
				for(std::size_t j = 0; j < n; ++j){ p[j] = db(j); for(std::size_t a = 0; a < mEff; ++a) p[j] += DW(j, a) * z[a]; }
				for(std::size_t a = 0; a < mEff; ++a){ z2[a] = eb(a); for(std::size_t j = 0; j < n; ++j) z2[a] += EW(a, j) * p[j]; }
				for(std::size_t a = 0; a < mEff; ++a){
					if(!(std::fabs(z2[a] - z[a]) <= 1e-8 * xs * n)) o.fail("pca-projection-not-idempotent");
					double r = 0; for(std::size_t j = 0; j < n; ++j) r += V(j, a) * (T.rows[i][j] - p[j]);
					if(!(std::fabs(r) <= 1e-8 * xs * n)) o.fail("pca-residual-not-orthogonal");
				}
			}
			// the eigenvalues are the variances of the encoded training data
			for(std::size_t a = 0; a < mEff; ++a) if(!close(var[a] / (double)l, ev(a), 1e-8, 1 + top)) o.fail("pca-variance");
		}
	}
	// batch-partition independence of mean and eigenvalues
	std::vector<std::vector<std::size_t> > parts = T.otherPartitions();
	for(std::size_t p = 0; p < parts.size(); ++p){
		UnlabeledData<RealVector> other = T.unlabeled(parts[p]);
		PCAx q(whitening == 1, (int)alg); q.setData(other);
		if(!closeVec(pca.mean(), q.mean(), 1e-12)) o.fail("batch-dependent");
		for(std::size_t i = 0; i < ev.size(); ++i) if(!close(ev(i), q.eigenvalues()(i), 1e-9, 1 + top)) o.fail("batch-dependent");
	}
	return o.line("ok", inexact);
}

// lda regNum regShift | table + class column ; wlda regNum regShift | table + class + integer weight
static std::string opLda(Args& A, bool weighted, Session* Se){
	long long regNum = A.next(); std::size_t regShift = A.nat();
	if(A.bad || regNum < 0 || regShift > 40) return "bad-op";
	Table T; if(!T.read(A, weighted ? 2 : 1) || !A.done() || T.d == 0) return "bad-op";
	double reg = std::ldexp((double)regNum, -(int)regShift);
	std::size_t d = T.d, n = T.n;
	std::vector<RealVector> X = T.points(); std::vector<unsigned int> y(n); std::vector<double> w(n, 1.0);
	for(std::size_t i = 0; i < n; ++i){
		if(T.rows[i][d] < 0 || T.rows[i][d] > 64) return "bad-op";
		y[i] = (unsigned int)T.rows[i][d];
		if(weighted){ w[i] = T.rows[i][d + 1]; if(!(w[i] >= 0)) return "bad-op"; }   // zero weights are admissible
	}
	Out o;
	LDA freshTrainer(reg);
	LinearClassifier<> freshModel;
	// history: the trainer of the previous steps with a new regularisation (setter or parameter vector, alternating;
	// unweighted and weighted training mixed) and the classifier of the previous step
	LDA& trainer = Se ? Se->lda : freshTrainer;
	LinearClassifier<>& model = Se ? Se->cls : freshModel;
	if(Se){ if(Se->step++ % 2) trainer.setParameterVector(RealVector(1, reg)); else trainer.setRegularization(reg); }
	struct Mk{
		static LabeledData<RealVector, unsigned int> plain(std::vector<RealVector> const& X, std::vector<unsigned int> const& y, std::vector<std::size_t> const& part){
			LabeledData<RealVector, unsigned int> data = createLabeledDataFromRange(X, y, X.size());
			data.repartition(part); return data;
		}
		static WeightedLabeledData<RealVector, unsigned int> weightedData(std::vector<RealVector> const& X, std::vector<unsigned int> const& y,
				std::vector<double> const& w, double scale, std::vector<std::size_t> const& part){
			LabeledData<RealVector, unsigned int> data = plain(X, y, part);
			std::vector<double> ws(w); for(std::size_t i = 0; i < ws.size(); ++i) ws[i] *= scale;
			Data<double> wd = createDataFromRange(ws, ws.size()); wd.repartition(part);
			return WeightedLabeledData<RealVector, unsigned int>(data, wd);
		}
	};
	fpClear();
	try{
		if(weighted) trainer.train(model, Mk::weightedData(X, y, w, 1.0, T.sizes));
		else trainer.train(model, Mk::plain(X, y, T.sizes));
	}catch(shark::Exception const&){ return "exc"; }
	bool inexact = fpInexact();
	RealMatrix Z = model.decisionFunction().matrix(); RealVector b = model.decisionFunction().offset();
	o.mat("Z", Z); o.vec("bias", b);
	if(Se){
		LinearClassifier<> m2;
		if(weighted) freshTrainer.train(m2, Mk::weightedData(X, y, w, 1.0, T.sizes)); else freshTrainer.train(m2, Mk::plain(X, y, T.sizes));
		if(!sameMat(Z, m2.decisionFunction().matrix()) || !sameVec(b, m2.decisionFunction().offset())) o.fail("reuse-dependent");
		if(trainer.regularization() != reg || trainer.parameterVector().size() != 1 || trainer.parameterVector()(0) != reg) o.fail("reuse-configuration");
	}
	bool finite = true;
	for(std::size_t c = 0; c < Z.size1(); ++c){ if(!std::isfinite(b(c))) finite = false; for(std::size_t j = 0; j < d; ++j) if(!std::isfinite(Z(c, j))) finite = false; }
	if(!finite){ o.fail("lda-nonfinite"); return o.line("ok", inexact); }
	// ---- oracle: plain-loop class means / pooled covariance, solve residual and bias
	std::size_t C = Z.size1();
	std::vector<double> cw(C, 0.0); double wsum = 0;
	std::vector<std::vector<double> > mu(C, std::vector<double>(d, 0.0)), S(d, std::vector<double>(d, 0.0));
	for(std::size_t i = 0; i < n; ++i){ cw[y[i]] += w[i]; wsum += w[i]; for(std::size_t j = 0; j < d; ++j) mu[y[i]][j] += w[i] * T.rows[i][j]; }
	for(std::size_t c = 0; c < C; ++c) for(std::size_t j = 0; j < d; ++j) mu[c][j] /= cw[c];
	for(std::size_t i = 0; i < n; ++i) for(std::size_t j = 0; j < d; ++j) for(std::size_t k = 0; k < d; ++k)
		S[j][k] += w[i] * (T.rows[i][j] - mu[y[i]][j]) * (T.rows[i][k] - mu[y[i]][k]);
	double denom = weighted ? wsum : (double)n - (double)C;
	double tr = 0;
	for(std::size_t j = 0; j < d; ++j) for(std::size_t k = 0; k < d; ++k){ S[j][k] /= denom; if(j == k){ S[j][k] += reg; tr += S[j][k]; } }
	// is the pooled covariance safely non-singular? (plain Cholesky without pivoting)
	bool regular = true;
	{ std::vector<std::vector<double> > Lc(d, std::vector<double>(d, 0.0));
	  for(std::size_t j = 0; j < d && regular; ++j){
		double s = S[j][j]; for(std::size_t k = 0; k < j; ++k) s -= Lc[j][k] * Lc[j][k];
		if(!(s > 1e-7 * (1 + tr))){ regular = false; break; }
		Lc[j][j] = std::sqrt(s);
		for(std::size_t i = j + 1; i < d; ++i){ double t = S[i][j]; for(std::size_t k = 0; k < j; ++k) t -= Lc[i][k] * Lc[j][k]; Lc[i][j] = t / Lc[j][j]; }
	  } }
	if(regular){
		for(std::size_t c = 0; c < C; ++c){
			double mz = 0;
			for(std::size_t j = 0; j < d; ++j){
				double s = 0, sc = std::fabs(mu[c][j]); for(std::size_t k = 0; k < d; ++k){ s += Z(c, k) * S[k][j]; sc += std::fabs(Z(c, k) * S[k][j]); }
				if(!(std::fabs(s - mu[c][j]) <= 1e-7 * (1 + sc))) o.fail("lda-solve-residual");
				mz += mu[c][j] * Z(c, j);
			}
			double expect = -0.5 * mz + std::log(cw[c] / wsum);
			if(!close(b(c), expect, 1e-8, 1 + std::fabs(mz))) o.fail("lda-bias");
		}
	}
	// batch independence, weight-scale invariance
	std::vector<std::vector<std::size_t> > parts = T.otherPartitions();
	for(std::size_t p = 0; p < parts.size(); ++p){
		LinearClassifier<> m2;
		if(weighted) trainer.train(m2, Mk::weightedData(X, y, w, 1.0, parts[p])); else trainer.train(m2, Mk::plain(X, y, parts[p]));
		if(regular && (!closeMat(Z, m2.decisionFunction().matrix(), 1e-9) || !closeVec(b, m2.decisionFunction().offset(), 1e-9))) o.fail("batch-dependent");
	}
	if(weighted){
		double scales[3] = {2.0, 3.0, 0.125};
		for(int s = 0; s < 3; ++s){
			LinearClassifier<> m2; trainer.train(m2, Mk::weightedData(X, y, w, scales[s], T.sizes));
			if(regular && (!closeMat(Z, m2.decisionFunction().matrix(), 1e-9) || !closeVec(b, m2.decisionFunction().offset(), 1e-9))) o.fail("weight-scale-dependent");
		}
	}
	return o.line("ok", inexact);
}


static std::string dispatch(std::string const& op, Args& A, Session* S){
	if(op == "pca") return opPca(A, 0, S);
	if(op == "pcat") return opPca(A, 1, S);
	if(op == "pcac") return opPca(A, 2, S);
	if(op == "lda") return opLda(A, false, S);
	if(op == "wlda") return opLda(A, true, S);
	return "bad-op";
}

int main(){ return runProtocol<Session>(dispatch); }
