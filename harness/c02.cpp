// K-C02: correspondence harness for remora's triangular solvers, decompositions
// and the solve()/inv() expression front end.
//
// One op per input line, one observation line per op (format of lean/Driver/C02.lean):
//   trsv  <l|u> <n|u> <L|R> <r|c> n  A[n*n] b[n]
//   trsm  <l|u> <n|u> <L|R> <r|c> <r|c> n m  A[n*n] B[n*m | m*n]
//   potrf <l|u> <r|c> n A[n*n]
//   pstrf <l|u> <r|c> n A[n*n]
//   getrf <r|c> n A[n*n]
//   solve <tag> <L|R> <r|c> <v|r|c> <form> n m A[n*n] B      tag: spd semi lu tl tu tul tuu cg cg:<eps>:<maxit>
//        (form s = solve(A,B,tag,side); i = inv(A,tag) % B resp. B % inv(A,tag); ... see below;
//         cg = conjugate_gradient(1e-12, 0); cg:<eps>:<maxit> = conjugate_gradient(eps, maxit), eps written p/q)
//   cholup <r|c> n alpha beta A[n*n] v[n]
//   cholseq <r|c> n k A[n*n] (alpha beta v[n])*k <L|R|N> [b[n]]     k updates on one decomposition object, then solve
//   decomp <chol|chold|lu|semi|eig> <r|c> n q A[n*n] (<L|R> <v|r|c> m B)*q   one decomposition object, q solves
//   syev  <r|c> n A[n*n]
// numbers are `p` or `p/q` (exact dyadic rationals), matrices are listed row by row.
// Output: `ok ix=<FE_INEXACT raised during the call> <int fields> v= <m e>*`
// or `exc <what>`; ` !oracle <tag>` is appended when the independent property
// oracle (defining equation, evaluated in long double) fails.
//
// Built twice: default kernels (no REMORA_USE_CBLAS) and -DREMORA_USE_CBLAS.
#ifdef C02_USE_SHARK_H
#include <shark/Core/Shark.h>   // pinned configuration: SHARK_USE_CBLAS -> REMORA_USE_CBLAS
#endif
#include <shark/LinAlg/BLAS/remora.hpp>
#include "common.hpp"
#include <cfenv>
#include <cstdlib>
#include <stdexcept>

using namespace remora;
typedef long double ld;

static double parseNum(std::string const& t){
	std::size_t s = t.find('/');
	if(s == std::string::npos) return std::strtod(t.c_str(), 0);
	double p = std::strtod(t.substr(0, s).c_str(), 0), q = std::strtod(t.substr(s + 1).c_str(), 0);
	return p / q;
}

struct Args{
	std::vector<std::string> t; std::size_t pos;
	std::string word(){ if(pos >= t.size()) throw std::runtime_error("short"); return t[pos++]; }
	char ch(){ std::string w = word(); return w[0]; }
	std::size_t nat(){ return (std::size_t)std::strtoull(word().c_str(), 0, 10); }
	double num(){ return parseNum(word()); }
	std::vector<double> nums(std::size_t k){ std::vector<double> v(k); for(std::size_t i = 0; i != k; ++i) v[i] = num(); return v; }
	bool done() const{ return pos == t.size(); }
};

// dense row-major plain storage used by the oracles (independent of remora)
struct Dense{
	std::size_t r, c; std::vector<double> a;
	Dense(): r(0), c(0){}
	Dense(std::size_t r_, std::size_t c_): r(r_), c(c_), a(r_ * c_, 0.0){}
	Dense(std::size_t r_, std::size_t c_, std::vector<double> const& v): r(r_), c(c_), a(v){}
	double& operator()(std::size_t i, std::size_t j){ return a[i * c + j]; }
	double operator()(std::size_t i, std::size_t j) const{ return a[i * c + j]; }
};
template<class M> void toRemora(Dense const& d, M& m){
	m.resize(d.r, d.c);
	for(std::size_t i = 0; i != d.r; ++i) for(std::size_t j = 0; j != d.c; ++j) m(i, j) = d(i, j);
}
template<class M> Dense fromRemora(M const& m){
	Dense d(m.size1(), m.size2());
	for(std::size_t i = 0; i != d.r; ++i) for(std::size_t j = 0; j != d.c; ++j) d(i, j) = m(i, j);
	return d;
}
static Dense transpose(Dense const& a){
	Dense t(a.c, a.r);
	for(std::size_t i = 0; i != a.r; ++i) for(std::size_t j = 0; j != a.c; ++j) t(j, i) = a(i, j);
	return t;
}
static Dense triPart(Dense const& a, bool upper, bool unit){
	Dense t(a.r, a.c);
	for(std::size_t i = 0; i != a.r; ++i) for(std::size_t j = 0; j != a.c; ++j){
		if(i == j) t(i, j) = unit ? 1.0 : a(i, j);
		else if((j > i) == upper) t(i, j) = a(i, j);
	}
	return t;
}
static ld normInf(Dense const& a){
	ld m = 0;
	for(std::size_t i = 0; i != a.r; ++i){ ld s = 0; for(std::size_t j = 0; j != a.c; ++j) s += std::fabs((ld)a(i, j)); if(!(s <= m)) m = s; }
	return m;
}
static ld maxAbs(Dense const& a){
	ld m = 0; for(std::size_t k = 0; k != a.a.size(); ++k){ ld v = std::fabs((ld)a.a[k]); if(!(v <= m)) m = v; } return m;
}
// max |(A*X - B)_ij| in long double
static ld residual(Dense const& A, Dense const& X, Dense const& B){
	ld m = 0;
	for(std::size_t i = 0; i != A.r; ++i) for(std::size_t j = 0; j != X.c; ++j){
		ld s = -(ld)B(i, j);
		for(std::size_t k = 0; k != A.c; ++k) s += (ld)A(i, k) * (ld)X(k, j);
		s = std::fabs(s);
		if(s != s) return s;            // NaN is sticky
		if(!(s <= m)) m = s;
	}
	return m;
}
static Dense matmul(Dense const& A, Dense const& B){
	Dense C(A.r, B.c);
	for(std::size_t i = 0; i != A.r; ++i) for(std::size_t j = 0; j != B.c; ++j){
		ld s = 0; for(std::size_t k = 0; k != A.c; ++k) s += (ld)A(i, k) * (ld)B(k, j);
		C(i, j) = (double)s;
	}
	return C;
}
static const ld RTOL = 1e-9L;
// backward-error form of "residual at rounding level": |A X - B| <= RTOL (|A| |X| + |B|)
static bool allFinite(Dense const& a){
	for(std::size_t k = 0; k != a.a.size(); ++k) if(!std::isfinite(a.a[k])) return false;
	return true;
}
static bool residualOk(Dense const& A, Dense const& X, Dense const& B, ld extra = 1){
	if(!allFinite(X)) return false;     // a NaN anywhere in the result fails (the running maxima below would lose it)
	ld res = residual(A, X, B);
	ld bound = RTOL * extra * (normInf(A) * maxAbs(X) + maxAbs(B));
	return res <= bound;
}

static std::string showVals(Dense const& d){
	std::string s = " v=";
	for(std::size_t k = 0; k != d.a.size(); ++k){ s += " "; s += vh::exactDouble(d.a[k]); }
	return s;
}
template<class P> std::string showPerm(P const& p){
	std::ostringstream os; os << " P=";
	for(std::size_t i = 0; i != p.size(); ++i){ if(i) os << ","; os << p(i); }
	return os.str();
}

struct Flag{
	Flag(){ asm volatile("" ::: "memory"); std::feclearexcept(FE_ALL_EXCEPT); asm volatile("" ::: "memory"); }
	int read(){ asm volatile("" ::: "memory"); int f = std::fetestexcept(FE_INEXACT) ? 1 : 0; asm volatile("" ::: "memory"); return f; }
};
static std::string ixs(int f){ return f ? " ix=1" : " ix=0"; }

// ---------------------------------------------------------------- trsv / trsm
template<class Tri, class Side, class OA>
std::string runTrsv(Dense const& A, Dense const& b){
	matrix<double, OA> a; toRemora(A, a);
	vector<double> x(b.r); for(std::size_t i = 0; i != b.r; ++i) x(i) = b(i, 0);
	Flag fl;
	kernels::trsv<Tri, Side>(a, x);
	int ix = fl.read();
	Dense X(b.r, 1); for(std::size_t i = 0; i != b.r; ++i) X(i, 0) = x(i);
	Dense T = triPart(A, Tri::is_upper, Tri::is_unit);
	if(!Side::is_left) T = transpose(T);
	std::string out = "ok" + ixs(ix) + showVals(X);
	if(!residualOk(T, X, b)) out += " !oracle trsv-residual";
	return out;
}
template<class Tri, class Side, class OA, class OB>
std::string runTrsm(Dense const& A, Dense const& B){
	matrix<double, OA> a; toRemora(A, a);
	matrix<double, OB> x; toRemora(B, x);
	Flag fl;
	kernels::trsm<Tri, Side>(a, x);
	int ix = fl.read();
	Dense X = fromRemora(x);
	Dense T = triPart(A, Tri::is_upper, Tri::is_unit);
	std::string out = "ok" + ixs(ix) + showVals(X);
	bool ok = Side::is_left ? residualOk(T, X, B) : residualOk(transpose(T), transpose(X), transpose(B));
	if(!ok) out += " !oracle trsm-residual";
	return out;
}

#define TRI_DISPATCH(U, T, BODY) \
	if(U == 'l' && T == 'n'){ typedef lower Tri; BODY } \
	else if(U == 'l' && T == 'u'){ typedef unit_lower Tri; BODY } \
	else if(U == 'u' && T == 'n'){ typedef upper Tri; BODY } \
	else if(U == 'u' && T == 'u'){ typedef unit_upper Tri; BODY } \
	else throw std::runtime_error("bad-tri");
#define SIDE_DISPATCH(S, BODY) \
	if(S == 'L'){ typedef left Side; BODY } else if(S == 'R'){ typedef right Side; BODY } else throw std::runtime_error("bad-side");
#define OR_DISPATCH(O, NAME, BODY) \
	if(O == 'r'){ typedef row_major NAME; BODY } else if(O == 'c'){ typedef column_major NAME; BODY } else throw std::runtime_error("bad-orientation");

static std::string opTrsv(Args& a){
	char U = a.ch(), T = a.ch(), S = a.ch(), O = a.ch();
	std::size_t n = a.nat();
	Dense A(n, n, a.nums(n * n)), b(n, 1, a.nums(n));
	TRI_DISPATCH(U, T, SIDE_DISPATCH(S, OR_DISPATCH(O, OA, return (runTrsv<Tri, Side, OA>(A, b)); )))
}
static std::string opTrsm(Args& a){
	char U = a.ch(), T = a.ch(), S = a.ch(), O = a.ch(), O2 = a.ch();
	std::size_t n = a.nat(), m = a.nat();
	Dense A(n, n, a.nums(n * n));
	Dense B = S == 'L' ? Dense(n, m, a.nums(n * m)) : Dense(m, n, a.nums(n * m));
	TRI_DISPATCH(U, T, SIDE_DISPATCH(S, OR_DISPATCH(O, OA, OR_DISPATCH(O2, OB, return (runTrsm<Tri, Side, OA, OB>(A, B)); ))))
}

// -------------------------------------------------------------- decompositions
static Dense lowerOf(Dense const& a){ Dense l(a.r, a.c); for(std::size_t i = 0; i != a.r; ++i) for(std::size_t j = 0; j <= i; ++j) l(i, j) = a(i, j); return l; }
static Dense upperOf(Dense const& a){ Dense l(a.r, a.c); for(std::size_t i = 0; i != a.r; ++i) for(std::size_t j = i; j < a.c; ++j) l(i, j) = a(i, j); return l; }

template<class Tri, class OA>
std::string runPotrf(Dense const& A){
	matrix<double, OA> a; toRemora(A, a);
	Flag fl;
	std::size_t info = kernels::potrf<Tri>(a);
	int ix = fl.read();
	Dense R = fromRemora(a);
	std::ostringstream os; os << "ok" << ixs(ix) << " info=" << info;
	{	// oracle for the return code: own unblocked Cholesky in long double on the stored triangle;
		// expected = first k with pivot <= 0 (k+1), 0 if none. Skipped when a pivot is tiny but not exactly 0.
		std::size_t n = A.r; std::vector<ld> L(n * n, 0); std::size_t expect = 0; bool ambiguous = false;
		for(std::size_t j = 0; j != n && !expect; ++j){
			for(std::size_t i = j; i != n; ++i){
				ld s = Tri::is_upper ? A(j, i) : A(i, j), mag = std::fabs(s);
				for(std::size_t k = 0; k != j; ++k){ s -= L[i * n + k] * L[j * n + k]; mag += std::fabs(L[i * n + k] * L[j * n + k]); }
				if(i == j){
					if(s != 0 && std::fabs(s) < 1e-9L * mag) ambiguous = true;
					if(s <= 0){ expect = j + 1; break; }
					L[j * n + j] = std::sqrt(s);
				}else L[i * n + j] = s / L[j * n + j];
			}
		}
		if(!ambiguous && expect != info) os << " !oracle potrf-info expected=" << expect;
	}
	if(info != 0) return os.str();
	std::string out = os.str() + showVals(R);
	// oracle: F F^T = A on the stored triangle (F = lower factor)
	Dense F = Tri::is_upper ? transpose(upperOf(R)) : lowerOf(R);
	Dense Asym(A.r, A.c);
	for(std::size_t i = 0; i != A.r; ++i) for(std::size_t j = 0; j != A.c; ++j){
		bool stored = Tri::is_upper ? (j >= i) : (j <= i);
		Asym(i, j) = stored ? A(i, j) : A(j, i);
	}
	if(!residualOk(F, transpose(F), Asym)) out += " !oracle potrf-LLt";
	return out;
}
static std::string opPotrf(Args& a){
	char U = a.ch(), O = a.ch(); std::size_t n = a.nat();
	Dense A(n, n, a.nums(n * n));
	if(U == 'l'){ OR_DISPATCH(O, OA, return (runPotrf<lower, OA>(A)); ) }
	else { OR_DISPATCH(O, OA, return (runPotrf<upper, OA>(A)); ) }
}

// apply the transposition sequence P (row i <-> row P(i), i ascending) to the rows of a Dense
template<class P> Dense permRows(P const& p, Dense a){
	for(std::size_t i = 0; i != p.size(); ++i){
		std::size_t k = (std::size_t)p(i);
		if(k != i) for(std::size_t j = 0; j != a.c; ++j) std::swap(a(i, j), a(k, j));
	}
	return a;
}
template<class Tri, class OA>
std::string runPstrf(Dense const& A){
	matrix<double, OA> a; toRemora(A, a);
	permutation_matrix P(A.r);
	Flag fl;
	std::size_t rank = kernels::pstrf<Tri>(a, P);
	int ix = fl.read();
	Dense R = fromRemora(a);
	std::ostringstream os; os << "ok" << ixs(ix) << " rank=" << rank << showPerm(P);
	std::string out = os.str() + showVals(R);
	// oracle: P^T A P = F F^T, F = stored factor (lower: R, upper: R^T), up to the discarded remainder
	Dense F = Tri::is_upper ? transpose(R) : R;
	Dense PA = permRows(P, A); PA = transpose(permRows(P, transpose(PA)));
	Dense FFt = matmul(F, transpose(F));
	ld err = 0; for(std::size_t k = 0; k != PA.a.size(); ++k){ ld e = std::fabs((ld)PA.a[k] - (ld)FFt.a[k]); if(!(e <= err)) err = e; }
	ld scale = maxAbs(A);
	// discarded remainder is below n^2 eps max_diag; allow 1e-9 relative on top
	if(!(err <= (RTOL + (ld)A.r * A.r * 2.3e-16L) * (ld)A.r * scale) || !allFinite(R)) out += " !oracle pstrf-PAPt";
	for(std::size_t i = 0; i != R.r; ++i) for(std::size_t j = 0; j != R.c; ++j){
		bool strictOther = Tri::is_upper ? (j < i) : (j > i);
		bool beyondRank = Tri::is_upper ? (i >= rank) : (j >= rank);
		if((strictOther || beyondRank) && R(i, j) != 0){ out += " !oracle pstrf-zero-part"; i = R.r - 1; break; }
	}
	return out;
}
static std::string opPstrf(Args& a){
	char U = a.ch(), O = a.ch(); std::size_t n = a.nat();
	Dense A(n, n, a.nums(n * n));
	if(U == 'l'){ OR_DISPATCH(O, OA, return (runPstrf<lower, OA>(A)); ) }
	else { OR_DISPATCH(O, OA, return (runPstrf<upper, OA>(A)); ) }
}

template<class OA>
std::string runGetrf(Dense const& A){
	matrix<double, OA> a; toRemora(A, a);
	permutation_matrix P(A.r);
	Flag fl;
	kernels::getrf(a, P);
	int ix = fl.read();
	Dense R = fromRemora(a);
	std::string out = "ok" + ixs(ix) + showPerm(P) + showVals(R);
	Dense L = triPart(R, false, true), U = upperOf(R);
	Dense PA = permRows(P, A);
	if(!residualOk(L, U, PA)) out += " !oracle getrf-PA=LU";
	return out;
}
static std::string opGetrf(Args& a){
	char O = a.ch(); std::size_t n = a.nat();
	Dense A(n, n, a.nums(n * n));
	OR_DISPATCH(O, OA, return (runGetrf<OA>(A)); )
}

// ------------------------------------------------------------- solve / inv front end
// RHS kinds: 'v' vector, 'r'/'c' matrix of that orientation.
// form (how the solve expression is written and consumed; every form must yield the same X):
//   's' x = solve(A,B,tag,side)                 'i' x = inv(A,tag) % B   resp.  B % inv(A,tag)
//   'a' x = 1; noalias(x) += solve(...); x -= 1  'b' the same with the inv-product            (plus_assign_to path)
//   'e' operands are expressions: solve(trans(At), trans(Bt) | subrange(b'), tag, side)
//   matrix right-hand sides only (the expression is consumed lazily, never evaluated as a whole):
//   'r' row(solve(...),i) for every i           'j' row(inv-product,i) for every i           (matrix_row_optimizer)
//   'p' solve(...) % e_k for every column k     'q' inv-product % e_k                        (matrix_vector_prod_optimizer)
//   'm' x = solve(...) % I                      'n' x = inv-product % I                      (product with a dense identity)
//   every right-hand side kind, explicit inverse evaluated as a matrix (matrix_inverse::assign_to / plus_assign_to):
//   'x' Ainv = inv(A,tag); x = Ainv % B  resp.  B % Ainv      'y' Ainv = 1; noalias(Ainv) += inv(A,tag); Ainv -= 1; same product
//   only with -DC02_TRANS_FORMS=1|2 (the transpose rewrite of a solve expression does not compile in the pinned tree;
//   checks/c02.py probes this per tree and switches the forms on as soon as it does; 1: it instantiates for operands
//   of the same type only -- the right-hand side is copied to A's orientation first; 2: for any operands):
//   't' Xt = trans(solve(...)); x = trans(Xt)     'c' column(solve(...),k) for every k     'l' e_i % solve(...) for every i
//   every right-hand side kind:
//   'k' x = 1; noalias(x) -= solve(...); x = 1 - x                                              (minus_assign: -1 * solve, plus_assign_to)
//   'u' x = trans(inv(At, tag^T)) % B  resp.  B % trans(inv(At, tag^T)),  At = trans(A) stored   (explicit trans(inv(..)):
//       matrix_transpose_optimizer<matrix_inverse>, then the product rewrite)
static bool formKnown(char form, bool vec){
#ifdef C02_TRANS_FORMS
	if(!vec && (form == 't' || form == 'c' || form == 'l')) return true;
	if(form == 'u') return true;
#endif
	if(form == 's' || form == 'i' || form == 'a' || form == 'b' || form == 'e' || form == 'x' || form == 'y' || form == 'k') return true;
	if(vec) return false;
	return form == 'r' || form == 'j' || form == 'p' || form == 'q' || form == 'm' || form == 'n';
}
// the tag of the transposed system, state kept (written independently of solve.hpp's helper)
template<class T> T transposedTag(T t){ return t; }
template<bool U, bool Un> triangular_tag<!U, Un> transposedTag(triangular_tag<U, Un>){ return triangular_tag<!U, Un>(); }

template<class Tag, class Side, class OA>
Dense frontVec(Dense const& A, Dense const& b, Tag tag, char form, int& ix){
	matrix<double, OA> a; toRemora(A, a);
	vector<double> rhs(b.a.size()); for(std::size_t i = 0; i != b.a.size(); ++i) rhs(i) = b.a[i];
	vector<double> x;
	// operands of form 'e' (prepared outside the measured region)
	matrix<double, OA> at = trans(a);
	vector<double> big(rhs.size() + 3, 7.0); for(std::size_t i = 0; i != rhs.size(); ++i) big(i + 2) = rhs(i);
	// the += forms start from x = (1,...,1) (subtracted again afterwards; exact whenever the sum was exact)
	if(form == 'a' || form == 'b' || form == 'k') x = vector<double>(rhs.size(), 1.0);
	Flag fl;
	if(form == 's') x = solve(a, rhs, tag, Side());
	else if(form == 'k') noalias(x) -= solve(a, rhs, tag, Side());
#ifdef C02_TRANS_FORMS
	else if(form == 'u'){ if(Side::is_left) x = trans(inv(at, transposedTag(tag))) % rhs; else x = rhs % trans(inv(at, transposedTag(tag))); }
#endif
	else if(form == 'i'){ if(Side::is_left) x = inv(a, tag) % rhs; else x = rhs % inv(a, tag); }
	else if(form == 'a') noalias(x) += solve(a, rhs, tag, Side());
	else if(form == 'b'){ if(Side::is_left) noalias(x) += inv(a, tag) % rhs; else noalias(x) += rhs % inv(a, tag); }
	else if(form == 'e') x = solve(trans(at), subrange(big, 2, 2 + rhs.size()), tag, Side());
	else if(form == 'x' || form == 'y'){
		matrix<double> ainv(a.size1(), a.size2(), form == 'y' ? 1.0 : 0.0);
		if(form == 'x') ainv = inv(a, tag);
		else{ noalias(ainv) += inv(a, tag); for(std::size_t i = 0; i != ainv.size1(); ++i) for(std::size_t j = 0; j != ainv.size2(); ++j) ainv(i, j) -= 1.0; }
		if(Side::is_left) x = ainv % rhs; else x = rhs % ainv;
	}
	else throw std::runtime_error("bad-form");
	ix = fl.read();
	if(form == 'a' || form == 'b') for(std::size_t i = 0; i != x.size(); ++i) x(i) -= 1.0;
	if(form == 'k') for(std::size_t i = 0; i != x.size(); ++i) x(i) = 1.0 - x(i);
	Dense X(x.size(), 1); for(std::size_t i = 0; i != x.size(); ++i) X(i, 0) = x(i);
	return X;
}
template<class Tag, class Side, class OA, class OB>
Dense frontMat(Dense const& A, Dense const& B, Tag tag, char form, int& ix){
	matrix<double, OA> a; toRemora(A, a);
	matrix<double, OB> rhs; toRemora(B, rhs);
	std::size_t R = rhs.size1(), C = rhs.size2();
	matrix<double, OB> x(R, C, (form == 'a' || form == 'b' || form == 'k') ? 1.0 : 0.0);
	matrix<double, OA> at = trans(a);
	matrix<double, OB> bt = trans(rhs);
	matrix<double> I(C, C, 0.0); for(std::size_t k = 0; k != C; ++k) I(k, k) = 1.0;
#if defined(C02_TRANS_FORMS) && C02_TRANS_FORMS >= 2
	matrix<double, OB> const& rhsT = rhs;       // operands of different orientation instantiate too
#else
	matrix<double, OA> rhsT = rhs;              // level 1: the transpose rewrite only instantiates for operands of one type
#endif
	Flag fl;
	if(form == 's') x = solve(a, rhs, tag, Side());
	else if(form == 'i'){ if(Side::is_left) x = inv(a, tag) % rhs; else x = rhs % inv(a, tag); }
	else if(form == 'a') noalias(x) += solve(a, rhs, tag, Side());
	else if(form == 'k') noalias(x) -= solve(a, rhs, tag, Side());
	else if(form == 'b'){ if(Side::is_left) noalias(x) += inv(a, tag) % rhs; else noalias(x) += rhs % inv(a, tag); }
	else if(form == 'e') x = solve(trans(at), trans(bt), tag, Side());
#ifdef C02_TRANS_FORMS
	else if(form == 'u'){ if(Side::is_left) x = trans(inv(at, transposedTag(tag))) % rhs; else x = rhs % trans(inv(at, transposedTag(tag))); }
#endif
	else if(form == 'x' || form == 'y'){
		matrix<double> ainv(a.size1(), a.size2(), form == 'y' ? 1.0 : 0.0);
		if(form == 'x') ainv = inv(a, tag);
		else{ noalias(ainv) += inv(a, tag); for(std::size_t i = 0; i != ainv.size1(); ++i) for(std::size_t j = 0; j != ainv.size2(); ++j) ainv(i, j) -= 1.0; }
		if(Side::is_left) x = ainv % rhs; else x = rhs % ainv;
	}
	else if(form == 'r'){ for(std::size_t i = 0; i != R; ++i) noalias(row(x, i)) = row(solve(a, rhs, tag, Side()), i); }
	else if(form == 'j'){
		for(std::size_t i = 0; i != R; ++i){
			if(Side::is_left) noalias(row(x, i)) = row(inv(a, tag) % rhs, i);
			else noalias(row(x, i)) = row(rhs % inv(a, tag), i);
		}
	}
	else if(form == 'p' || form == 'q'){
		for(std::size_t k = 0; k != C; ++k){
			vector<double> e(C, 0.0); e(k) = 1.0;
			vector<double> col;
			if(form == 'p') col = solve(a, rhs, tag, Side()) % e;
			else if(Side::is_left) col = (inv(a, tag) % rhs) % e;
			else col = (rhs % inv(a, tag)) % e;
			noalias(column(x, k)) = col;
		}
	}
#ifdef C02_TRANS_FORMS
	else if(form == 't'){ matrix<double, OB> xt = trans(solve(a, rhsT, tag, Side())); x = trans(xt); }
	else if(form == 'c'){
		auto const e = solve(a, rhsT, tag, Side());
		for(std::size_t k = 0; k != C; ++k){ vector<double> col = column(e, k); noalias(column(x, k)) = col; }
	}
	else if(form == 'l'){
		for(std::size_t i = 0; i != R; ++i){
			vector<double> e(R, 0.0); e(i) = 1.0;
			vector<double> r = e % solve(a, rhsT, tag, Side());
			noalias(row(x, i)) = r;
		}
	}
#endif
	else if(form == 'm') x = solve(a, rhs, tag, Side()) % I;
	else if(form == 'n'){ if(Side::is_left) x = (inv(a, tag) % rhs) % I; else x = (rhs % inv(a, tag)) % I; }
	else throw std::runtime_error("bad-form");
	ix = fl.read();
	if(form == 'a' || form == 'b') for(std::size_t i = 0; i != R; ++i) for(std::size_t j = 0; j != C; ++j) x(i, j) -= 1.0;
	if(form == 'k') for(std::size_t i = 0; i != R; ++i) for(std::size_t j = 0; j != C; ++j) x(i, j) = 1.0 - x(i, j);
	return fromRemora(x);
}
template<class Tag, class Side, class OA>
Dense front(Dense const& A, Dense const& B, Tag tag, char rhsKind, char form, int& ix){
	if(rhsKind == 'v') return frontVec<Tag, Side, OA>(A, B, tag, form, ix);
	if(rhsKind == 'r') return frontMat<Tag, Side, OA, row_major>(A, B, tag, form, ix);
	if(rhsKind == 'c') return frontMat<Tag, Side, OA, column_major>(A, B, tag, form, ix);
	throw std::runtime_error("bad-rhs");
}
template<class Tag>
Dense frontAll(Dense const& A, Dense const& B, Tag tag, char S, char O, char rhsKind, char form, int& ix){
	SIDE_DISPATCH(S, OR_DISPATCH(O, OA, return (front<Tag, Side, OA>(A, B, tag, rhsKind, form, ix)); ))
}
// ---- conjugate gradient: independent reference and the "requested level" oracle
// own conjugate gradient in long double, started at zero, at most `maxit` passes (0: until the tolerance is met,
// capped); this is the textbook recurrence, written without looking at remora's kernels
static std::vector<ld> refCG(Dense const& M, std::vector<ld> const& b, ld eps, unsigned maxit){
	std::size_t n = b.size();
	std::vector<ld> x(n, 0), r(b), p(b), Ap(n);
	ld rn = 0; for(std::size_t i = 0; i != n; ++i) rn = std::max(rn, std::fabs(r[i]));
	if(rn < eps) return x;
	for(unsigned it = 0; it != 100000; ++it){
		if(maxit != 0 && it >= maxit) break;
		ld rs = 0, pAp = 0;
		for(std::size_t i = 0; i != n; ++i){ ld s = 0; for(std::size_t k = 0; k != n; ++k) s += (ld)M(i, k) * p[k]; Ap[i] = s; }
		for(std::size_t i = 0; i != n; ++i){ rs += r[i] * r[i]; pAp += p[i] * Ap[i]; }
		ld alpha = rs / pAp, rs2 = 0; rn = 0;
		for(std::size_t i = 0; i != n; ++i){ x[i] += alpha * p[i]; r[i] -= alpha * Ap[i]; rs2 += r[i] * r[i]; rn = std::max(rn, std::fabs(r[i])); }
		if(rn < eps) break;
		for(std::size_t i = 0; i != n; ++i) p[i] = rs2 / rs * p[i] + r[i];
	}
	return x;
}
// is the value of this form, by the identities documented in solve.hpp, ONE solve of the system with the given
// right-hand side (as opposed to a product of the right-hand side with solves of unit vectors / the evaluated inverse)?
// Only for such forms an iteration limit pins the result down to "the k-th conjugate-gradient iterate".
static bool singleSolveForm(char form, char S, char K){
	if(form == 'x' || form == 'y') return false;
	if(K == 'v') return true;
	if(form == 'r' || form == 'j') return S == 'R';
	if(form == 'p' || form == 'q') return S == 'L';
	if(form == 'c') return S == 'L';
	if(form == 'l') return S == 'R';
	return true;
}
// M XX = BB column by column.  Requested level: max |M x - b| <= eps (* the 1-norm of the right-hand sides involved
// for the product forms) + rounding.  Iteration limit k on a single-solve form: x must be the k-th CG iterate from zero
// (checked when zero is the library's starting point for every column: |b - M b| > |b|).
static std::string cgOracle(Dense const& M, Dense const& XX, Dense const& BB, double eps, unsigned maxit, char form, char S, char K){
	if(!allFinite(XX)) return " !oracle cg-nan";
	std::size_t n = M.r, m = XX.c;
	bool single = singleSolveForm(form, S, K);
	if(maxit == 0){
		ld F = 1;
		if(!single){
			// product forms: X = (solves of unit vectors) combined with the entries of B: the 1-norm of B's rows/columns enters
			ld rs = 0, cs = 0;
			for(std::size_t i = 0; i != BB.r; ++i){ ld t = 0; for(std::size_t j = 0; j != BB.c; ++j) t += std::fabs((ld)BB(i, j)); rs = std::max(rs, t); }
			for(std::size_t j = 0; j != BB.c; ++j){ ld t = 0; for(std::size_t i = 0; i != BB.r; ++i) t += std::fabs((ld)BB(i, j)); cs = std::max(cs, t); }
			F = std::max((ld)1, std::max(rs, cs));
			if(form == 'x' || form == 'y') F *= 1e3L * (ld)n;   // through the evaluated inverse: forward stable only
		}
		ld res = residual(M, XX, BB);
		ld bound = F * (ld)eps * 1.001L + 7e-15L * (ld)(n + 8) * (normInf(M) * maxAbs(XX) + maxAbs(BB));
		if(!(res <= bound)){ std::ostringstream os; os << " !oracle cg-residual-above-requested-level res=" << (double)res << " bound=" << (double)bound; return os.str(); }
		return "";
	}
	if(!single) return "";
	for(std::size_t j = 0; j != m; ++j){
		std::vector<ld> b(n); ld nb = 0, nr = 0;
		for(std::size_t i = 0; i != n; ++i){ b[i] = BB(i, j); nb = std::max(nb, std::fabs(b[i])); }
		for(std::size_t i = 0; i != n; ++i){ ld s = b[i]; for(std::size_t k = 0; k != n; ++k) s -= (ld)M(i, k) * b[k]; nr = std::max(nr, std::fabs(s)); }
		if(K == 'v' || form == 'r' || form == 'j' || form == 'p' || form == 'q' || form == 'c' || form == 'l')
			if(!(nr > nb * 1.000001L)) continue;       // the vector overload may start from x = b: not the iterate from zero
		std::vector<ld> xr = refCG(M, b, eps, maxit);
		ld sc = 1; for(std::size_t i = 0; i != n; ++i) sc = std::max(sc, std::fabs(xr[i]));
		for(std::size_t i = 0; i != n; ++i) if(!(std::fabs((ld)XX(i, j) - xr[i]) <= 1e-9L * sc)){
			std::ostringstream os; os << " !oracle cg-not-the-requested-iterate rhs=" << j << " got=" << XX(i, j) << " expected=" << (double)xr[i];
			return os.str();
		}
	}
	return "";
}

static std::string opSolve(Args& a){
	std::string tag = a.word();
	char S = a.ch(), O = a.ch(), K = a.ch(), form = a.ch();
	std::size_t n = a.nat(), m = a.nat();
	if(!formKnown(form, K == 'v')) throw std::runtime_error("bad-form");
	Dense A(n, n, a.nums(n * n));
	Dense B;
	if(K == 'v'){ B = Dense(n, 1, a.nums(n)); m = 1; }
	else B = S == 'L' ? Dense(n, m, a.nums(n * m)) : Dense(m, n, a.nums(n * m));
	int ix = 0; Dense X;
	Dense Aeff = A;      // the matrix the system is about
	bool lsq = false;    // least-squares oracle (normal equations) instead of residual
	bool cg = false; double cgEps = 1e-12; unsigned cgMaxit = 0;
	if(tag == "spd") X = frontAll(A, B, symm_pos_def(), S, O, K, form, ix);
	else if(tag == "semi"){ X = frontAll(A, B, symm_semi_pos_def(), S, O, K, form, ix); lsq = true; }
	else if(tag == "lu") X = frontAll(A, B, indefinite_full_rank(), S, O, K, form, ix);
	else if(tag.compare(0, 2, "cg") == 0){
		cg = true;
		if(tag.size() > 2){
			std::size_t c1 = tag.find(':'), c2 = tag.find(':', c1 + 1);
			if(c1 != 2 || c2 == std::string::npos) throw std::runtime_error("bad-tag");
			cgEps = parseNum(tag.substr(c1 + 1, c2 - c1 - 1));
			cgMaxit = (unsigned)std::strtoul(tag.substr(c2 + 1).c_str(), 0, 10);
			if(!(cgEps > 0)) throw std::runtime_error("bad-tag");
		}
		X = frontAll(A, B, conjugate_gradient(cgEps, cgMaxit), S, O, K, form, ix);
	}
	else if(tag == "tl"){ X = frontAll(A, B, lower(), S, O, K, form, ix); Aeff = triPart(A, false, false); }
	else if(tag == "tu"){ X = frontAll(A, B, upper(), S, O, K, form, ix); Aeff = triPart(A, true, false); }
	else if(tag == "tul"){ X = frontAll(A, B, unit_lower(), S, O, K, form, ix); Aeff = triPart(A, false, true); }
	else if(tag == "tuu"){ X = frontAll(A, B, unit_upper(), S, O, K, form, ix); Aeff = triPart(A, true, true); }
	else throw std::runtime_error("bad-tag");
	std::string out = "ok" + ixs(ix) + showVals(X);
	// oracle on the defining equation: left  Aeff X = B ; right  X Aeff = B  (vector rhs: x^T Aeff = b^T)
	Dense M = Aeff, XX = X, BB = B;
	if(S == 'R'){ M = transpose(Aeff); if(K != 'v'){ XX = transpose(X); BB = transpose(B); } }
	if(cg){
		out += cgOracle(M, XX, BB, cgEps, cgMaxit, form, S, K);
	}else if(!lsq){
		if(!residualOk(M, XX, BB)) out += " !oracle solve-residual";
	}else{
		// least squares: M^T (M X - B) = 0 ; for full rank this is the ordinary residual
		Dense R = matmul(M, XX);
		for(std::size_t k = 0; k != R.a.size(); ++k) R.a[k] -= BB.a[k];
		Dense Z(R.r, R.c);
		ld res = residual(transpose(M), R, Z);
		ld bound = 1e-7L * (normInf(M) * (normInf(M) * maxAbs(XX) + maxAbs(BB)));
		if(!(res <= bound)) out += " !oracle solve-normal-equations";
	}
	return out;
}

// ---------------------------------------------------------------- rank-one updates of a Cholesky factor
// own unblocked Cholesky of a symmetric long-double matrix: returns false if a pivot is <= 0;
// minRatio = smallest pivot / diagonal entry (how close to singular the matrix is)
static bool refChol(std::vector<ld> const& T, std::size_t n, ld& minRatio){
	std::vector<ld> L(n * n, 0); minRatio = 1;
	for(std::size_t j = 0; j != n; ++j){
		for(std::size_t i = j; i != n; ++i){
			ld s = T[i * n + j];
			for(std::size_t k = 0; k != j; ++k) s -= L[i * n + k] * L[j * n + k];
			if(i == j){
				ld ratio = T[j * n + j] > 0 ? s / T[j * n + j] : -1;
				if(ratio < minRatio) minRatio = ratio;
				if(!(s > 0)) return false;
				L[j * n + j] = std::sqrt(s);
			}else L[i * n + j] = s / L[j * n + j];
		}
	}
	return true;
}
struct Upd{ double alpha, beta; Dense v; };
// cholesky_decomposition(A); k times update(alpha_t, beta_t, v_t) on the same object; then optionally
// solve(b, side) through the updated decomposition.  Oracle (independent, long double): the target
// T_t = alpha_t T_{t-1} + beta_t v_t v_t^T (T_0 = A from the stored lower triangle) is accumulated
// without looking at the factor; after every update L L^T must equal T_t; an exception is right iff
// T_t is not positive definite (undecided when T_t is within 1e-6 of singular); the final solve
// must satisfy T_k x = b.
template<class OA>
std::string runCholseq(Dense const& A, std::vector<Upd> const& ups, char S, Dense const& b){
	std::size_t n = A.r;
	matrix<double, OA> a; toRemora(A, a);
	cholesky_decomposition<matrix<double, OA> > chol(a);
	std::vector<ld> T(n * n);
	for(std::size_t i = 0; i != n; ++i) for(std::size_t j = 0; j != n; ++j) T[i * n + j] = j <= i ? A(i, j) : A(j, i);
	int ix = 0; std::string bad;
	bool decided = true;   // false once a target came close to singular: later verdicts would not be sound
	for(std::size_t t = 0; t != ups.size(); ++t){
		Upd const& u = ups[t];
		for(std::size_t i = 0; i != n; ++i) for(std::size_t j = 0; j != n; ++j)
			T[i * n + j] = (ld)u.alpha * T[i * n + j] + (ld)u.beta * (ld)u.v(i, 0) * (ld)u.v(j, 0);
		ld minRatio; bool pd = refChol(T, n, minRatio);
		if(!(minRatio > 1e-6L) && !(minRatio < -1e-6L)) decided = false;
		if(pd && !(minRatio > 1e-6L)) decided = false;
		vector<double> vv(n); for(std::size_t i = 0; i != n; ++i) vv(i) = u.v(i, 0);
		bool threw = false;
		{
			Flag fl;
			try{ chol.update(u.alpha, u.beta, vv); }catch(std::invalid_argument const&){ threw = true; }
			ix |= fl.read();
		}
		if(threw){
			std::ostringstream os; os << "exc invalid_argument at=" << t;
			if(decided && pd) os << " !oracle cholupdate-spurious-exception";
			return os.str();
		}
		if(decided && !pd && bad.empty()) bad = " !oracle cholupdate-missed-indefinite";
		if(decided && pd && bad.empty()){
			Dense L = lowerOf(fromRemora(chol.lower_factor()));
			Dense TT(n, n); for(std::size_t k = 0; k != n * n; ++k) TT.a[k] = (double)T[k];
			bool finite = true; for(std::size_t k = 0; k != L.a.size(); ++k) if(!std::isfinite(L.a[k])) finite = false;
			if(!finite || !residualOk(L, transpose(L), TT, 10 * (ld)(t + 1))){
				std::ostringstream os; os << " !oracle cholupdate-LLt step=" << t; bad = os.str();
			}
		}
	}
	Dense L = lowerOf(fromRemora(chol.lower_factor()));
	std::string vals = showVals(L);
	if(S != 'N'){
		vector<double> x(n); for(std::size_t i = 0; i != n; ++i) x(i) = b(i, 0);
		{
			Flag fl;
			if(S == 'L') chol.solve(x, left()); else chol.solve(x, right());
			ix |= fl.read();
		}
		Dense X(n, 1); for(std::size_t i = 0; i != n; ++i) X(i, 0) = x(i);
		vals += showVals(X).substr(3);
		if(decided && bad.empty()){
			Dense TT(n, n); for(std::size_t k = 0; k != n * n; ++k) TT.a[k] = (double)T[k];
			if(!residualOk(TT, X, b, 1e3)) bad = " !oracle cholupdate-solve-residual";
		}
	}
	return "ok" + ixs(ix) + vals + bad;
}
// cholseq <r|c> n k A[n*n] (alpha beta v[n])*k <L|R|N> [b[n]]
static std::string opCholseq(Args& a){
	char O = a.ch(); std::size_t n = a.nat(), k = a.nat();
	Dense A(n, n, a.nums(n * n));
	std::vector<Upd> ups(k);
	for(std::size_t t = 0; t != k; ++t){ ups[t].alpha = a.num(); ups[t].beta = a.num(); ups[t].v = Dense(n, 1, a.nums(n)); }
	char S = a.ch();
	if(S != 'L' && S != 'R' && S != 'N') throw std::runtime_error("bad-side");
	Dense b(n, 1); if(S != 'N') b = Dense(n, 1, a.nums(n));
	OR_DISPATCH(O, OA, return (runCholseq<OA>(A, ups, S, b)); )
}
// cholup <r|c> n alpha beta A[n*n] v[n]   (one update, no solve; kept for old replay files)
static std::string opCholup(Args& a){
	char O = a.ch(); std::size_t n = a.nat();
	std::vector<Upd> ups(1);
	ups[0].alpha = a.num(); ups[0].beta = a.num();
	Dense A(n, n, a.nums(n * n)); ups[0].v = Dense(n, 1, a.nums(n));
	Dense b(n, 1);
	OR_DISPATCH(O, OA, return (runCholseq<OA>(A, ups, 'N', b)); )
}

// ---------------------------------------------------------------- decomposition objects used directly, reused
// decomp <chol|chold|lu|semi|eig> <r|c> n q A[n*n] (<L|R> <v|r|c> m B)*q
// One decomposition object is constructed from A and then serves q solve requests in sequence
// (vector / matrix right-hand sides, left / right) -- the object must not be changed by a solve.
// `chold`: default-constructed cholesky_decomposition, decompose() of an unrelated (n+1)x(n+1) matrix first,
// then decompose(A) (re-use of the object).  Oracle: residual of every request against A (semi: normal equations).
struct Req{ char S, K; std::size_t m; Dense B; };
template<class Dec>
std::string serveRequests(Dec const& dec, Dense const& A, std::vector<Req> const& reqs, bool lsq, ld extra, int& ix){
	std::string vals = " v=", bad;
	for(std::size_t t = 0; t != reqs.size(); ++t){
		Req const& r = reqs[t];
		Dense X;
		if(r.K == 'v'){
			vector<double> x(r.B.r); for(std::size_t i = 0; i != r.B.r; ++i) x(i) = r.B(i, 0);
			Flag fl;
			if(r.S == 'L') dec.solve(x, left()); else dec.solve(x, right());
			ix |= fl.read();
			X = Dense(x.size(), 1); for(std::size_t i = 0; i != x.size(); ++i) X(i, 0) = x(i);
		}else if(r.K == 'r'){
			matrix<double, row_major> x; toRemora(r.B, x);
			Flag fl;
			if(r.S == 'L') dec.solve(x, left()); else dec.solve(x, right());
			ix |= fl.read();
			X = fromRemora(x);
		}else{
			matrix<double, column_major> x; toRemora(r.B, x);
			Flag fl;
			if(r.S == 'L') dec.solve(x, left()); else dec.solve(x, right());
			ix |= fl.read();
			X = fromRemora(x);
		}
		vals += showVals(X).substr(3);
		Dense M = A, XX = X, BB = r.B;
		if(r.S == 'R'){ M = transpose(A); if(r.K != 'v'){ XX = transpose(X); BB = transpose(r.B); } }
		if(!bad.empty()) continue;
		std::ostringstream tg;
		if(!lsq){
			if(!residualOk(M, XX, BB, extra)) tg << " !oracle decomp-residual request=" << t;
		}else{
			Dense R = matmul(M, XX);
			for(std::size_t k = 0; k != R.a.size(); ++k) R.a[k] -= BB.a[k];
			Dense Z(R.r, R.c);
			ld res = residual(transpose(M), R, Z);
			ld bound = 1e-7L * (normInf(M) * (normInf(M) * maxAbs(XX) + maxAbs(BB)));
			if(!(res <= bound) || !allFinite(XX)) tg << " !oracle decomp-normal-equations request=" << t;
		}
		bad = tg.str();
	}
	return vals + bad;
}
template<class OA>
std::string runDecomp(std::string const& cls, Dense const& A, std::vector<Req> const& reqs){
	typedef matrix<double, OA> Mat;
	Mat a; toRemora(A, a);
	std::size_t n = A.r;
	// symmetric classes read one triangle only: the oracle uses the symmetrised lower triangle
	Dense Asym(n, n); for(std::size_t i = 0; i != n; ++i) for(std::size_t j = 0; j != n; ++j) Asym(i, j) = j <= i ? A(i, j) : A(j, i);
	int ix = 0; std::string rest;
	if(cls == "chol"){
		Flag fl; cholesky_decomposition<Mat> dec(a); ix |= fl.read();
		rest = serveRequests(dec, Asym, reqs, false, 1, ix);
	}else if(cls == "chold"){
		Mat g(n + 1, n + 1, 0.0); for(std::size_t i = 0; i != n + 1; ++i){ g(i, i) = 4.0 + i; if(i) g(i, i - 1) = g(i - 1, i) = 1.0; }
		cholesky_decomposition<Mat> dec;
		dec.decompose(g);
		Flag fl; dec.decompose(a); ix |= fl.read();
		rest = serveRequests(dec, Asym, reqs, false, 1, ix);
	}else if(cls == "lu"){
		Flag fl; pivoting_lu_decomposition<Mat> dec(a); ix |= fl.read();
		rest = serveRequests(dec, A, reqs, false, 1, ix);
	}else if(cls == "semi"){
		Flag fl; symm_pos_semi_definite_solver<Mat> dec(a); ix |= fl.read();
		rest = serveRequests(dec, A, reqs, true, 1, ix);
		// compute_inverse_factor: C (rank x n) with A^+ = C^T C.  Oracle: Moore-Penrose identity A A^+ A = A.
		std::size_t rank = dec.rank();
		Mat c(rank, n, 0.0);
		{ Flag f2; dec.compute_inverse_factor(c); ix |= f2.read(); }
		Dense C = fromRemora(c);
		std::string bad; std::size_t pos = rest.find(" !oracle");
		if(pos != std::string::npos){ bad = rest.substr(pos); rest = rest.substr(0, pos); }
		if(rank) rest += showVals(C).substr(3);
		std::ostringstream rk; rk << " rank=" << rank;
		if(bad.empty()){
			Dense Ap = matmul(transpose(C), C);
			Dense AApA = matmul(matmul(A, Ap), A);
			ld err = 0; for(std::size_t k = 0; k != AApA.a.size(); ++k){ ld e = std::fabs((ld)AApA.a[k] - (ld)A.a[k]); if(!(e <= err)) err = e; }
			ld bound = 1e-7L * (normInf(A) * normInf(Ap) + 1) * (maxAbs(A) + 1e-300L) * (ld)(n + 1);
			if(!(err <= bound) || !allFinite(C)) bad = " !oracle decomp-inverse-factor";
		}
		return "ok" + ixs(ix) + rk.str() + rest + bad;
	}else if(cls == "eig" || cls == "eigd"){
		symm_eigenvalue_decomposition<Mat> dec;
		if(cls == "eigd"){ Mat g(n + 2, n + 2, 0.0); for(std::size_t i = 0; i != n + 2; ++i) g(i, i) = 1.0 + i; dec.decompose(g); }
		dec.decompose(a); ix = 1;
		rest = serveRequests(dec, Asym, reqs, false, 1e3, ix);
	}else throw std::runtime_error("bad-class");
	return "ok" + ixs(ix) + rest;
}
static std::string opDecomp(Args& a){
	std::string cls = a.word(); char O = a.ch();
	std::size_t n = a.nat(), q = a.nat();
	Dense A(n, n, a.nums(n * n));
	std::vector<Req> reqs(q);
	for(std::size_t t = 0; t != q; ++t){
		Req& r = reqs[t]; r.S = a.ch(); r.K = a.ch(); r.m = a.nat();
		if((r.S != 'L' && r.S != 'R') || (r.K != 'v' && r.K != 'r' && r.K != 'c')) throw std::runtime_error("bad-request");
		if(r.K == 'v'){ r.m = 1; r.B = Dense(n, 1, a.nums(n)); }
		else r.B = r.S == 'L' ? Dense(n, r.m, a.nums(n * r.m)) : Dense(r.m, n, a.nums(n * r.m));
	}
	OR_DISPATCH(O, OA, return (runDecomp<OA>(cls, A, reqs)); )
}

template<class OA>
std::string runSyev(Dense const& A){
	matrix<double, OA> a; toRemora(A, a);
	symm_eigenvalue_decomposition<matrix<double, OA> > eig(a);
	Dense Q = fromRemora(eig.Q());
	std::size_t n = A.r;
	Dense D(n, n); for(std::size_t i = 0; i != n; ++i) D(i, i) = eig.D()(i);
	std::string out = "ok ix=1";
	Dense QD = matmul(Q, D);
	Dense Asym(n, n); for(std::size_t i = 0; i != n; ++i) for(std::size_t j = 0; j != n; ++j) Asym(i, j) = j <= i ? A(i, j) : A(j, i);
	ld tol = 1e-9L * (ld)n * (maxAbs(A) + 1e-300L);
	if(!(residual(QD, transpose(Q), Asym) <= tol) || !allFinite(Q) || !allFinite(D)) out += " !oracle syev-QDQt";
	Dense I(n, n); for(std::size_t i = 0; i != n; ++i) I(i, i) = 1;
	if(!(residual(transpose(Q), Q, I) <= 1e-9L * n)) out += " !oracle syev-orthonormal";
	for(std::size_t i = 0; i + 1 < n; ++i) if(!(D(i, i) >= D(i + 1, i + 1))){ out += " !oracle syev-order"; break; }
	return out;
}
static std::string opSyev(Args& a){
	char O = a.ch(); std::size_t n = a.nat();
	Dense A(n, n, a.nums(n * n));
	OR_DISPATCH(O, OA, return (runSyev<OA>(A)); )
}

int main(){
	std::string line;
	while(std::getline(std::cin, line)){
		Args a; a.t = vh::tokens(line); a.pos = 0;
		if(a.t.empty()){ std::cout << "\n"; continue; }
		std::string out;
		try{
			std::string op = a.word();
			if(op == "trsv") out = opTrsv(a);
			else if(op == "trsm") out = opTrsm(a);
			else if(op == "potrf") out = opPotrf(a);
			else if(op == "pstrf") out = opPstrf(a);
			else if(op == "getrf") out = opGetrf(a);
			else if(op == "solve") out = opSolve(a);
			else if(op == "cholup") out = opCholup(a);
			else if(op == "cholseq") out = opCholseq(a);
			else if(op == "decomp") out = opDecomp(a);
			else if(op == "syev") out = opSyev(a);
			else out = "bad-op";
			if(out != "bad-op" && !a.done()) out = "bad-op";
		}catch(std::invalid_argument const& e){
			out = std::string("exc invalid_argument");
		}catch(std::runtime_error const& e){
			out = std::string("bad-op");
		}catch(std::exception const& e){
			out = std::string("exc std");
		}
		std::cout << out << std::endl;
	}
	return 0;
}
