// K-C18: correspondence harness for serialization round trips.
// One op per line, one observation per line (same protocol as lean/Driver/C18.lean).
//
//   ds  <kind> <fmt> <dim> <seed> <batch sizes...>     kind: dense|sparse|dense-cls|sparse-cls|dense-reg
//   obj <label> <fmt> <Class1,Class2,...>              fmt: text|binary
//
// `ds`: build the dataset from the formula shared with the driver, write it to a
// polymorphic text/binary archive, read it into a fresh object, print the RESTORED
// object in canonical form (the driver prints what its codec round trip gives).
// `obj`: build an instance, write, read into a fresh instance of the same type
// (constructed differently), compare behaviour exactly; print `obj <label> same`
// or `obj <label> differs <what> !oracle behaviour-differs`.
#include <shark/Data/Dataset.h>
#include <shark/Models/LinearModel.h>
#include <shark/Models/ConcatenatedModel.h>
#include <shark/Models/Normalizer.h>
#include <shark/Models/RBFLayer.h>
#include <shark/Models/Kernels/KernelExpansion.h>
#include <shark/Models/Kernels/GaussianRbfKernel.h>
#include <shark/Models/Kernels/LinearKernel.h>
#include <shark/Models/Kernels/PolynomialKernel.h>
#include <shark/Models/Kernels/MonomialKernel.h>
#include <shark/Models/Kernels/ArdKernel.h>
#include <shark/Models/Kernels/ScaledKernel.h>
#include <shark/Models/Kernels/WeightedSumKernel.h>
#include <shark/Models/Kernels/ProductKernel.h>
#include <shark/Models/Kernels/ModelKernel.h>
#include <shark/Models/Kernels/NormalizedKernel.h>
#include <boost/archive/polymorphic_text_iarchive.hpp>
#include <boost/archive/polymorphic_text_oarchive.hpp>
#include <boost/archive/polymorphic_binary_iarchive.hpp>
#include <boost/archive/polymorphic_binary_oarchive.hpp>
#include "common.hpp"
#include "c18.hpp"

using namespace shark;

// ------------------------------------------------------------------ datasets
static long cell(std::size_t seed, std::size_t e, std::size_t j){ return long((seed * 7 + e * 3 + j * 5) % 11) - 5; }
static bool stored(std::size_t seed, std::size_t e, std::size_t j){ return (seed + e + j) % 3 == 0; }
static unsigned label(std::size_t seed, std::size_t e){ return unsigned((e * 2 + seed) % 3); }

static void fillDense(Data<RealVector>& d, std::vector<std::size_t> const& bs, std::size_t dim, std::size_t seed){
	d = Data<RealVector>(bs.size());
	std::size_t e = 0;
	for(std::size_t b = 0; b != bs.size(); ++b){
		d.batch(b).resize(bs[b], dim);
		for(std::size_t i = 0; i != bs[b]; ++i, ++e)
			for(std::size_t j = 0; j != dim; ++j) d.batch(b)(i,j) = double(cell(seed, e, j));
	}
	d.shape() = {dim};
}
static void fillSparse(Data<CompressedRealVector>& d, std::vector<std::size_t> const& bs, std::size_t dim, std::size_t seed){
	d = Data<CompressedRealVector>();
	std::size_t e = 0;
	for(std::size_t b = 0; b != bs.size(); ++b){
		// (compressed_matrix::resize on a default-constructed matrix leaves the column count 0 and
		//  compressed_matrix_impl::operator= has no return statement, so the batch is built by the
		//  sizing constructor and appended by copy construction)
		CompressedRealMatrix m(bs[b], dim);
		for(std::size_t i = 0; i != bs[b]; ++i, ++e){
			std::size_t nnz = 0;
			for(std::size_t j = 0; j != dim; ++j) if(stored(seed, e, j)) ++nnz;
			m.major_reserve(i, nnz);
			auto pos = m.major_end(i);
			for(std::size_t j = 0; j != dim; ++j)
				if(stored(seed, e, j)) pos = m.set_element(pos, j, double(cell(seed, e, j) == 0 ? 9 : cell(seed, e, j)));
		}
		d.push_back(m);
	}
	d.shape() = {dim};
}
static void fillLabels(Data<unsigned int>& d, std::vector<std::size_t> const& bs, std::size_t seed){
	d = Data<unsigned int>(bs.size());
	std::size_t e = 0;
	for(std::size_t b = 0; b != bs.size(); ++b){
		d.batch(b).resize(bs[b]);
		for(std::size_t i = 0; i != bs[b]; ++i, ++e) d.batch(b)(i) = label(seed, e);
	}
	d.shape() = {3};
}

static std::string shapeStr(Shape const& s){
	std::ostringstream os; os << "(";
	for(std::size_t i = 0; i != s.size(); ++i){ if(i) os << ","; os << s[i]; }
	os << ")"; return os.str();
}
static std::string show(Data<RealVector>& d){
	std::ostringstream os; os << "shape=" << shapeStr(d.shape()) << " batches=[";
	for(std::size_t b = 0; b != d.numberOfBatches(); ++b){
		auto& m = d.batch(b);
		if(b) os << ",";
		os << m.size1() << "x" << m.size2() << ":";
		for(std::size_t i = 0; i != m.size1(); ++i){ os << "["; for(std::size_t j = 0; j != m.size2(); ++j){ if(j) os << " "; os << vh::intval(m(i,j)); } os << "]"; }
	}
	os << "]"; return os.str();
}
static std::string show(Data<CompressedRealVector>& d){
	std::ostringstream os; os << "shape=" << shapeStr(d.shape()) << " batches=[";
	for(std::size_t b = 0; b != d.numberOfBatches(); ++b){
		auto& m = d.batch(b);
		if(b) os << ",";
		os << m.size1() << "x" << m.size2() << ":";
		for(std::size_t i = 0; i != m.size1(); ++i){
			os << "{"; bool first = true;
			for(auto it = m.major_begin(i); it != m.major_end(i); ++it){ if(!first) os << " "; first = false; os << it.index() << "=" << vh::intval(*it); }
			os << "}";
		}
	}
	os << "]"; return os.str();
}
static std::string show(Data<unsigned int>& d){
	std::ostringstream os; os << "shape=" << shapeStr(d.shape()) << " batches=[";
	for(std::size_t b = 0; b != d.numberOfBatches(); ++b){
		if(b) os << ",";
		os << d.batch(b).size() << ":[";
		for(std::size_t i = 0; i != d.batch(b).size(); ++i){ if(i) os << " "; os << d.batch(b)(i); }
		os << "]";
	}
	os << "]"; return os.str();
}

template<class D> std::string dsRound(D& orig, bool binary){
	D fresh;
	c18::roundTrip(orig, fresh, binary);
	std::string a = show(orig), b = show(fresh);
	return b + (a == b ? "" : " !oracle dataset-differs");
}
template<class I, class L> std::string dsRoundLabeled(Data<I>& in, Data<L>& lab, bool binary){
	LabeledData<I, L> orig(in, lab), fresh;
	c18::roundTrip(orig, fresh, binary);
	std::string a = show(orig.inputs()) + " labels " + show(orig.labels());
	std::string b = show(fresh.inputs()) + " labels " + show(fresh.labels());
	return b + (a == b ? "" : " !oracle dataset-differs");
}

static std::string runDs(std::vector<std::string> const& t){
	std::string kind = t[1]; bool binary = t[2] == "binary";
	std::size_t dim = std::stoull(t[3]), seed = std::stoull(t[4]);
	std::vector<std::size_t> bs;
	for(std::size_t i = 5; i < t.size(); ++i) bs.push_back(std::stoull(t[i]));
	Data<RealVector> dense; Data<CompressedRealVector> sparse; Data<unsigned int> labels; Data<RealVector> reg;
	if(kind == "dense"){ fillDense(dense, bs, dim, seed); return "ds " + kind + " " + dsRound(dense, binary); }
	if(kind == "sparse"){ fillSparse(sparse, bs, dim, seed); return "ds " + kind + " " + dsRound(sparse, binary); }
	if(kind == "dense-cls"){ fillDense(dense, bs, dim, seed); fillLabels(labels, bs, seed); return "ds " + kind + " " + dsRoundLabeled(dense, labels, binary); }
	if(kind == "sparse-cls"){ fillSparse(sparse, bs, dim, seed); fillLabels(labels, bs, seed); return "ds " + kind + " " + dsRoundLabeled(sparse, labels, binary); }
	if(kind == "dense-reg"){ fillDense(dense, bs, dim, seed); fillDense(reg, bs, 2, seed + 1); return "ds " + kind + " " + dsRoundLabeled(dense, reg, binary); }
	return "bad-op";
}

// ------------------------------------------------------------------ models and kernels
static RealMatrix points(std::size_t n, std::size_t dim, std::size_t seed){
	RealMatrix x(n, dim);
	for(std::size_t i = 0; i != n; ++i) for(std::size_t j = 0; j != dim; ++j) x(i,j) = double(cell(seed, i, j));
	return x;
}
static RealVector ramp(std::size_t n, double start, double step){
	RealVector v(n); for(std::size_t i = 0; i != n; ++i) v(i) = start + step * double(i); return v;
}
template<class V> static std::string vecStr(V const& v){
	std::ostringstream os; os << "(";
	for(std::size_t i = 0; i != v.size(); ++i){ if(i) os << ","; os << vh::exactDouble(v(i)); }
	os << ")"; return os.str();
}
template<class M> static std::string matStr(M const& m){
	std::ostringstream os;
	for(std::size_t i = 0; i != m.size1(); ++i){ os << "["; for(std::size_t j = 0; j != m.size2(); ++j){ if(j) os << ","; os << vh::exactDouble(m(i,j)); } os << "]"; }
	return os.str();
}
template<class Model> static std::string modelBehaviour(Model& m, std::size_t dim){
	RealMatrix x = points(4, dim, 3), y;
	m.eval(x, y);
	return "params=" + vecStr(m.parameterVector()) + " in=" + shapeStr(m.inputShape()) + " out=" + shapeStr(m.outputShape()) + " eval=" + matStr(y);
}
template<class K> static std::string kernelBehaviour(K& k, std::size_t dim){
	RealMatrix x = points(3, dim, 1), y = points(2, dim, 5);
	RealMatrix g = k(x, y);
	RealVector a = row(x, 0), b = row(y, 1);
	return "params=" + vecStr(k.parameterVector()) + " gram=" + matStr(g) + " single=" + vh::exactDouble(k.eval(a, b));
}
static std::string verdict(std::string const& label, std::string const& a, std::string const& b){
	if(a == b) return "obj " + label + " same";
	return "obj " + label + " differs original{" + a.substr(0, 300) + "} restored{" + b.substr(0, 300) + "} !oracle behaviour-differs";
}

static std::string runObj(std::string const& label, bool binary){
	// ---- models
	if(label == "LinearModel-offset" || label == "LinearModel-nooffset"){
		bool off = label == "LinearModel-offset";
		LinearModel<> a(3, 2, off), b(1, 1, !off);
		a.setParameterVector(ramp(a.numberOfParameters(), -2, 0.5));
		std::string A = modelBehaviour(a, 3);
		c18::roundTrip(a, b, binary);
		return verdict(label, A, modelBehaviour(b, 3));
	}
	if(label == "Normalizer"){
		Normalizer<> a(3, true), b;
		a.setParameterVector(ramp(a.numberOfParameters(), 1, 0.25));
		std::string A = modelBehaviour(a, 3);
		c18::roundTrip(a, b, binary);
		return verdict(label, A, modelBehaviour(b, 3));
	}
	if(label == "ConcatenatedModel" || label == "ConcatenatedModel-frozen-layer"){
		LinearModel<> a1(3, 2, true), a2(2, 2, false), b1(3, 2, true), b2(2, 2, false);
		a1.setParameterVector(ramp(a1.numberOfParameters(), -1, 0.5)); a2.setParameterVector(ramp(a2.numberOfParameters(), 2, -0.25));
		b1.setParameterVector(ramp(b1.numberOfParameters(), 0, 0)); b2.setParameterVector(ramp(b2.numberOfParameters(), 1, 0));
		ConcatenatedModel<RealVector> a = a1 >> a2, b = b1 >> b2;
		if(label == "ConcatenatedModel-frozen-layer") a.enableModelOptimization(0, false);
		std::string A = modelBehaviour(a, 3);
		c18::roundTrip(a, b, binary);
		return verdict(label, A, modelBehaviour(b, 3));
	}
	if(label == "LinearClassifier"){
		LinearClassifier<> a(Shape(3), 3, true), b(Shape(2), 2, false);
		a.setParameterVector(ramp(a.numberOfParameters(), -2, 0.75));
		RealMatrix x = points(5, 3, 2); UIntVector ya, yb;
		a.eval(x, ya);
		std::ostringstream A, B; A << "params=" << vecStr(a.parameterVector()) << " eval=";
		for(std::size_t i = 0; i != ya.size(); ++i) A << ya(i) << ",";
		c18::roundTrip(a, b, binary);
		b.eval(x, yb);
		B << "params=" << vecStr(b.parameterVector()) << " eval=";
		for(std::size_t i = 0; i != yb.size(); ++i) B << yb(i) << ",";
		return verdict(label, A.str(), B.str());
	}
	if(label == "LinearModel-float"){
		LinearModel<FloatVector> a(3, 2, true), b(1, 1, false);
		FloatVector p(a.numberOfParameters()); for(std::size_t i = 0; i != p.size(); ++i) p(i) = float(i) * 0.5f - 1.0f;
		a.setParameterVector(p);
		std::string A = "params=" + vecStr(a.parameterVector()) + " in=" + shapeStr(a.inputShape()) + " out=" + shapeStr(a.outputShape());
		c18::roundTrip(a, b, binary);
		return verdict(label, A, "params=" + vecStr(b.parameterVector()) + " in=" + shapeStr(b.inputShape()) + " out=" + shapeStr(b.outputShape()));
	}
	if(label == "RBFLayer"){
		RBFLayer a(2, 3), b(1, 1);
		a.setParameterVector(ramp(a.numberOfParameters(), -1, 0.25));
		RealMatrix x = points(4, 2, 3), ya, yb;
		a.eval(x, ya);
		std::string A = "params=" + vecStr(a.parameterVector()) + " eval=" + matStr(ya);
		c18::roundTrip(a, b, binary);
		b.eval(x, yb);
		return verdict(label, A, "params=" + vecStr(b.parameterVector()) + " eval=" + matStr(yb));
	}
	// ---- kernels
	if(label == "GaussianRbfKernel"){
		GaussianRbfKernel<> a(0.5), b(2.0);
		std::string A = kernelBehaviour(a, 2); c18::roundTrip(a, b, binary);
		return verdict(label, A, kernelBehaviour(b, 2));
	}
	if(label == "GaussianRbfKernel-unconstrained"){
		GaussianRbfKernel<> a(0.25, true), b(2.0, false);
		std::string A = kernelBehaviour(a, 2); c18::roundTrip(a, b, binary);
		return verdict(label, A, kernelBehaviour(b, 2));
	}
	if(label == "LinearKernel"){
		LinearKernel<> a, b;
		std::string A = kernelBehaviour(a, 2); c18::roundTrip(a, b, binary);
		return verdict(label, A, kernelBehaviour(b, 2));
	}
	if(label == "PolynomialKernel"){
		PolynomialKernel<> a(3, 1.5, true, false), b(2, 0.0, false, true);
		std::string A = kernelBehaviour(a, 2); c18::roundTrip(a, b, binary);
		return verdict(label, A, kernelBehaviour(b, 2));
	}
	if(label == "MonomialKernel"){
		MonomialKernel<> a(3), b(2);
		std::string A = kernelBehaviour(a, 2); c18::roundTrip(a, b, binary);
		return verdict(label, A, kernelBehaviour(b, 2));
	}
	if(label == "ARDKernel"){
		ARDKernelUnconstrained<> a(2, 0.5), b(2, 1.0);
		a.setParameterVector(ramp(2, 0.25, 0.5));
		std::string A = kernelBehaviour(a, 2); c18::roundTrip(a, b, binary);
		return verdict(label, A, kernelBehaviour(b, 2));
	}
	if(label == "ScaledKernel"){
		GaussianRbfKernel<> ga(0.5), gb(2.0);
		ScaledKernel<> a(&ga, 3.0), b(&gb, 1.0);
		std::string A = kernelBehaviour(a, 2); c18::roundTrip(a, b, binary);
		return verdict(label, A, kernelBehaviour(b, 2));
	}
	if(label == "NormalizedKernel"){
		PolynomialKernel<> pa(2, 1.0), pb(2, 3.0);
		NormalizedKernel<> a(&pa), b(&pb);
		std::string A = "params=" + vecStr(a.parameterVector()); c18::roundTrip(a, b, binary);
		return verdict(label, A, "params=" + vecStr(b.parameterVector()));
	}
	if(label == "WeightedSumKernel" || label == "ProductKernel"){
		GaussianRbfKernel<> ga(0.5), gb(2.0); PolynomialKernel<> pa(2, 1.0), pb(3, 0.5);
		std::vector<AbstractKernelFunction<RealVector>*> ka{&ga, &pa}, kb{&gb, &pb};
		if(label == "WeightedSumKernel"){
			WeightedSumKernel<> a(ka), b(kb);
			a.setAdaptiveAll(true); b.setAdaptiveAll(true);
			RealVector p = a.parameterVector(); p(0) = 0.75; a.setParameterVector(p);
			std::string A = kernelBehaviour(a, 2); c18::roundTrip(a, b, binary);
			return verdict(label, A, kernelBehaviour(b, 2));
		}
		ProductKernel<RealVector> a(ka), b(kb);
		std::string A = kernelBehaviour(a, 2); c18::roundTrip(a, b, binary);
		return verdict(label, A, kernelBehaviour(b, 2));
	}
	if(label == "ModelKernel"){
		GaussianRbfKernel<> ga(0.5), gb(2.0);
		LinearModel<> ma(2, 2, true), mb(2, 2, true);
		ma.setParameterVector(ramp(ma.numberOfParameters(), -1, 0.5)); mb.setParameterVector(ramp(mb.numberOfParameters(), 1, 0));
		ModelKernel<RealVector> a(&ga, &ma), b(&gb, &mb);
		std::string A = kernelBehaviour(a, 2); c18::roundTrip(a, b, binary);
		return verdict(label, A, kernelBehaviour(b, 2));
	}
	// ---- kernel expansions with their kernel
	if(label == "KernelExpansion-offset" || label == "KernelExpansion-nooffset" || label == "KernelExpansion-single-basis"){
		bool off = label != "KernelExpansion-nooffset";
		std::size_t nb = label == "KernelExpansion-single-basis" ? 1 : 5;
		GaussianRbfKernel<> ga(0.5), gb(2.0);
		Data<RealVector> basis;
		if(nb == 1) fillDense(basis, {1}, 2, 4); else fillDense(basis, {3, 2}, 2, 4);
		KernelExpansion<RealVector> a(&ga, basis, off, 2), b(&gb);
		a.setParameterVector(ramp(a.numberOfParameters(), -1, 0.25));
		RealMatrix x = points(4, 2, 3), ya, yb;
		a.eval(x, ya);
		std::string A = "params=" + vecStr(a.parameterVector()) + " kernel=" + vecStr(ga.parameterVector()) + " eval=" + matStr(ya);
		c18::roundTrip(a, b, binary);
		b.eval(x, yb);
		return verdict(label, A, "params=" + vecStr(b.parameterVector()) + " kernel=" + vecStr(gb.parameterVector()) + " eval=" + matStr(yb));
	}
	return c18::runOptimizer(label, binary);
}

int main(){
	std::string line;
	while(std::getline(std::cin, line)){
		std::vector<std::string> t = vh::tokens(line);
		if(t.empty()){ std::cout << "\n"; continue; }
		std::string out = "bad-op";
		try{
			if(t[0] == "ds" && t.size() >= 5) out = runDs(t);
			else if(t[0] == "obj" && t.size() == 4) out = runObj(t[1], t[2] == "binary");
		}catch(std::exception const& e){
			std::string what = e.what();
			for(char& c: what) if(c == '\n') c = ' ';
			out = (t[0] == "obj" ? "obj " + t[1] : t[0] + " " + t[1]) + " exception " + what.substr(0, 200) + " !oracle round-trip-throws";
		}
		std::cout << out << "\n" << std::flush;
	}
	return 0;
}
