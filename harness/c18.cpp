// K-C18: correspondence harness for serialization round trips.
// One op per line, one observation per line (same protocol as lean/Driver/C18.lean).
//
//   ds  <kind> <fmt> <dim> <seed> <batch sizes...>     kind: dense|sparse|sparse-loose|dense-cls|sparse-cls|dense-reg|
//                                                            dense-w|sparse-cls-w|dense-view
//   vec <fmt> <old length> <values...>                 remora::vector loaded into a used vector
//   wrap <fmt> <n> <seed>                              std::vector<std::pair<size_t,std::string>> + vector of vectors
//   obj <label> <fmt> <Class1,Class2,...>              fmt: text|binary
//
// `ds`: build the dataset from the formula shared with the driver, write it to a
// polymorphic text/binary archive, read it into a fresh object, print the RESTORED
// object in canonical form (the driver prints what its codec round trip gives).
// `obj`: build an instance, write, read into a fresh instance of the same type
// (constructed differently), compare behaviour exactly; print `obj <label> same`
// or `obj <label> differs <what> !oracle behaviour-differs`.
#include <shark/Data/Dataset.h>
#include <shark/Models/LinearModel.h>
#include <shark/Models/ConcatenatedModel.h>
#include <shark/Models/Normalizer.h>
#include <shark/Models/RBFLayer.h>
#include <shark/Models/Kernels/KernelExpansion.h>
#include <shark/Models/Kernels/GaussianRbfKernel.h>
#include <shark/Models/Kernels/LinearKernel.h>
#include <shark/Models/Kernels/PolynomialKernel.h>
#include <shark/Models/Kernels/MonomialKernel.h>
#include <shark/Models/Kernels/ArdKernel.h>
#include <shark/Models/Kernels/ScaledKernel.h>
#include <shark/Models/Kernels/WeightedSumKernel.h>
#include <shark/Models/Kernels/ProductKernel.h>
#include <shark/Models/Kernels/ModelKernel.h>
#include <shark/Models/Kernels/NormalizedKernel.h>
#include <boost/archive/polymorphic_text_iarchive.hpp>
#include <boost/archive/polymorphic_text_oarchive.hpp>
#include <boost/archive/polymorphic_binary_iarchive.hpp>
#include <boost/archive/polymorphic_binary_oarchive.hpp>
#include <shark/Data/WeightedDataset.h>
#include <shark/Data/DataView.h>
#include <shark/Models/Kernels/DiscreteKernel.h>
#include <shark/Models/Kernels/SubrangeKernel.h>
#include <boost/serialization/utility.hpp>
#include <boost/serialization/string.hpp>
#include "common.hpp"
#include "c18.hpp"
#include "c18_tok.hpp"
#include <functional>
#include <map>
#include <boost/archive/impl/basic_text_oarchive.ipp>
#include <boost/archive/impl/text_oarchive_impl.ipp>
#include <boost/archive/impl/archive_serializer_map.ipp>
namespace boost { namespace archive {
template class detail::archive_serializer_map<c18::tok_oarchive>;
template class basic_text_oarchive<c18::tok_oarchive>;
template class text_oarchive_impl<c18::tok_oarchive>;
}}

using namespace shark;

// ------------------------------------------------------------------ datasets
using c18::cell;
static bool stored(std::size_t seed, std::size_t e, std::size_t j){ return (seed + e + j) % 3 == 0; }
static unsigned label(std::size_t seed, std::size_t e){ return unsigned((e * 2 + seed) % 3); }

static void fillDense(Data<RealVector>& d, std::vector<std::size_t> const& bs, std::size_t dim, std::size_t seed){
	d = Data<RealVector>(bs.size());
	std::size_t e = 0;
	for(std::size_t b = 0; b != bs.size(); ++b){
		d.batch(b).resize(bs[b], dim);
		for(std::size_t i = 0; i != bs[b]; ++i, ++e)
			for(std::size_t j = 0; j != dim; ++j) d.batch(b)(i,j) = double(cell(seed, e, j));
	}
	d.shape() = {dim};
}
static void fillSparse(Data<CompressedRealVector>& d, std::vector<std::size_t> const& bs, std::size_t dim, std::size_t seed, bool packed = true){
	d = Data<CompressedRealVector>();
	std::size_t e = 0;
	for(std::size_t b = 0; b != bs.size(); ++b){
		// (compressed_matrix::resize on a default-constructed matrix leaves the column count 0 and
		//  compressed_matrix_impl::operator= has no return statement, so the batch is built by the
		//  sizing constructor and appended by copy construction)
		CompressedRealMatrix m(bs[b], dim);
		if(packed){
			// packed layout (capacity = stored elements, rows back to back): the layout the Lean model
			// (SparseStorage.packed) predicts token by token
			std::size_t total = 0;
			for(std::size_t i = 0; i != bs[b]; ++i) for(std::size_t j = 0; j != dim; ++j) if(stored(seed, e + i, j)) ++total;
			m.reserve(total);
		}
		for(std::size_t i = 0; i != bs[b]; ++i, ++e){
			std::size_t nnz = 0;
			for(std::size_t j = 0; j != dim; ++j) if(stored(seed, e, j)) ++nnz;
			m.major_reserve(i, nnz, packed);
			auto pos = m.major_end(i);
			for(std::size_t j = 0; j != dim; ++j)
				if(stored(seed, e, j)) pos = m.set_element(pos, j, double(cell(seed, e, j) == 0 ? 9 : cell(seed, e, j)));
		}
		d.push_back(m);
		// compressed_matrix_impl::m_minor_size is archived but set by resize() only (no constructor initialises
		// it, nothing reads it): give it a defined value so that the token streams are comparable (N-C18-1)
		if(packed) d.batch(b).resize(bs[b], dim);
	}
	d.shape() = {dim};
}
static void fillLabels(Data<unsigned int>& d, std::vector<std::size_t> const& bs, std::size_t seed){
	d = Data<unsigned int>(bs.size());
	std::size_t e = 0;
	for(std::size_t b = 0; b != bs.size(); ++b){
		d.batch(b).resize(bs[b]);
		for(std::size_t i = 0; i != bs[b]; ++i, ++e) d.batch(b)(i) = label(seed, e);
	}
	d.shape() = {3};
}

static void fillWeights(Data<double>& d, std::vector<std::size_t> const& bs, std::size_t seed){
	d = Data<double>(bs.size());
	std::size_t e = 0;
	for(std::size_t b = 0; b != bs.size(); ++b){
		d.batch(b).resize(bs[b]);
		for(std::size_t i = 0; i != bs[b]; ++i, ++e) d.batch(b)(i) = double((e + seed) % 4 + 1);
	}
}
using c18::shapeStr;
static std::string show(Data<RealVector>& d){
	std::ostringstream os; os << "shape=" << shapeStr(d.shape()) << " batches=[";
	for(std::size_t b = 0; b != d.numberOfBatches(); ++b){
		auto& m = d.batch(b);
		if(b) os << ",";
		os << m.size1() << "x" << m.size2() << ":";
		if(m.size1() * m.size2() != 0 && m.raw_storage().values == nullptr){ os << "NO-VALUES"; continue; }   // never read storage that is not there
		for(std::size_t i = 0; i != m.size1(); ++i){ os << "["; for(std::size_t j = 0; j != m.size2(); ++j){ if(j) os << " "; os << vh::intval(m(i,j)); } os << "]"; }
	}
	os << "]#" << d.shape().numElements(); return os.str();
}
static std::string show(Data<double>& d){
	std::ostringstream os; os << "shape=" << shapeStr(d.shape()) << "#" << d.shape().numElements() << " batches=[";
	for(std::size_t b = 0; b != d.numberOfBatches(); ++b){
		if(b) os << ",";
		os << d.batch(b).size() << ":[";
		for(std::size_t i = 0; i != d.batch(b).size(); ++i){ if(i) os << " "; os << vh::intval(d.batch(b)(i)); }
		os << "]";
	}
	os << "]"; return os.str();
}
static std::string show(Data<CompressedRealVector>& d){
	std::ostringstream os; os << "shape=" << shapeStr(d.shape()) << " batches=[";
	for(std::size_t b = 0; b != d.numberOfBatches(); ++b){
		auto& m = d.batch(b);
		if(b) os << ",";
		os << m.size1() << "x" << m.size2() << ":";
		for(std::size_t i = 0; i != m.size1(); ++i){
			os << "{"; bool first = true;
			for(auto it = m.major_begin(i); it != m.major_end(i); ++it){ if(!first) os << " "; first = false; os << it.index() << "=" << vh::intval(*it); }
			os << "}";
		}
	}
	os << "]#" << d.shape().numElements(); return os.str();
}
static std::string show(Data<unsigned int>& d){
	std::ostringstream os; os << "shape=" << shapeStr(d.shape()) << " batches=[";
	for(std::size_t b = 0; b != d.numberOfBatches(); ++b){
		if(b) os << ",";
		os << d.batch(b).size() << ":[";
		for(std::size_t i = 0; i != d.batch(b).size(); ++i){ if(i) os << " "; os << d.batch(b)(i); }
		os << "]";
	}
	os << "]#" << d.shape().numElements(); return os.str();
}

static std::string tokenString(std::string t){
	for(char& c: t) if(c == '\n' || c == '\r') c = ' ';
	while(!t.empty() && t.back() == ' ') t.pop_back();
	for(char& c: t) if(c == ' ') c = ',';
	return " tokens=" + t;
}
template<class T> static std::string tokensOf(T const& o){
	std::ostringstream ss;
	{ c18::polymorphic_tok_oarchive oa(ss); oa.emit_ptr = false; OutArchive& ar = oa; ar << o; }
	std::string t = ss.str();
	for(char& c: t) if(c == '\n' || c == '\r') c = ' ';
	while(!t.empty() && t.back() == ' ') t.pop_back();
	for(char& c: t) if(c == ' ') c = ',';
	return " tokens=" + t;
}
// dataset history: fresh target; a USED target (other contents, other batch structure, sharing its batches with a
// sibling copy) read twice; second generation; the sibling of the used target must keep its contents
template<class D, class Show, class MakeOther>
std::string dsHistory(D& orig, bool binary, Show showAll, MakeOther makeOther, bool tokens){
	std::string A = showAll(orig);
	std::string bytesA = c18::bytes(orig, binary);
	D fresh;
	c18::load(bytesA, fresh, binary);
	std::string B = showAll(fresh);
	std::string out = B + (tokens ? tokensOf(orig) : "");
	if(A != B) return out + " !oracle dataset-differs";
	D used; makeOther(used);
	D sibling = used;                         // shares the batches of `used`
	std::string S = showAll(sibling);
	c18::load(bytesA, used, binary);
	if(showAll(used) != A) return out + " !oracle stale-dataset-not-overwritten";
	if(showAll(sibling) != S) return out + " !oracle sibling-of-target-changed";
	c18::load(bytesA, used, binary);
	if(showAll(used) != A) return out + " !oracle read-twice-differs";
	std::string bytesB = c18::bytes(used, binary);
	if(bytesB != bytesA) return out + " !oracle rewritten-archive-differs";
	c18::load(bytesB, sibling, binary);
	if(showAll(sibling) != A) return out + " !oracle second-generation-differs";
	if(showAll(orig) != A) return out + " !oracle original-changed-by-write";
	return out;
}

static std::string runDs(std::vector<std::string> const& t){
	std::string kind = t[1]; bool binary = t[2] == "binary";
	std::size_t dim = std::stoull(t[3]), seed = std::stoull(t[4]);
	std::vector<std::size_t> bs;
	for(std::size_t i = 5; i < t.size(); ++i) bs.push_back(std::stoull(t[i]));
	std::vector<std::size_t> other{2, 0, 3};
	Data<RealVector> dense; Data<CompressedRealVector> sparse; Data<unsigned int> labels; Data<RealVector> reg; Data<double> weights;
	bool loose = kind == "sparse-loose";
	fillDense(dense, bs, dim, seed); fillSparse(sparse, bs, dim, seed, !loose); fillLabels(labels, bs, seed);
	fillDense(reg, bs, 2, seed + 1); fillWeights(weights, bs, seed);
	std::string head = "ds " + kind + " ";
	if(kind == "dense" || kind == "dense-view"){
		typedef Data<RealVector> D;
		if(kind == "dense-view"){ DataView<D> view(dense); D conv = toDataset(view, 2); dense = conv; }
		return head + dsHistory(dense, binary, [](D& d){ return show(d); }, [&](D& d){ fillDense(d, other, dim + 1, seed + 7); }, true);
	}
	if(kind == "sparse" || loose){
		typedef Data<CompressedRealVector> D;
		return head + dsHistory(sparse, binary, [](D& d){ return show(d); }, [&](D& d){ fillSparse(d, other, dim + 2, seed + 7, false); }, !loose);
	}
	if(kind == "dense-cls"){
		typedef LabeledData<RealVector, unsigned int> D; D orig(dense, labels);
		return head + dsHistory(orig, binary, [](D& d){ return show(d.inputs()) + " labels " + show(d.labels()); },
			[&](D& d){ Data<RealVector> x; Data<unsigned int> y; fillDense(x, other, dim + 1, seed + 7); fillLabels(y, other, seed + 3); d = D(x, y); }, true);
	}
	if(kind == "sparse-cls"){
		typedef LabeledData<CompressedRealVector, unsigned int> D; D orig(sparse, labels);
		return head + dsHistory(orig, binary, [](D& d){ return show(d.inputs()) + " labels " + show(d.labels()); },
			[&](D& d){ Data<CompressedRealVector> x; Data<unsigned int> y; fillSparse(x, other, dim + 1, seed + 7, false); fillLabels(y, other, seed + 3); d = D(x, y); }, true);
	}
	if(kind == "dense-reg"){
		typedef LabeledData<RealVector, RealVector> D; D orig(dense, reg);
		return head + dsHistory(orig, binary, [](D& d){ return show(d.inputs()) + " labels " + show(d.labels()); },
			[&](D& d){ Data<RealVector> x, y; fillDense(x, other, dim + 1, seed + 7); fillDense(y, other, 1, seed + 3); d = D(x, y); }, true);
	}
	if(kind == "dense-w"){
		typedef WeightedUnlabeledData<RealVector> D; D orig(dense, weights);
		return head + dsHistory(orig, binary, [](D& d){ return show(d.data()) + " weights " + show(d.weights()); },
			[&](D& d){ Data<RealVector> x; Data<double> w; fillDense(x, other, dim + 1, seed + 7); fillWeights(w, other, seed + 3); d = D(x, w); }, true);
	}
	if(kind == "sparse-cls-w"){
		typedef LabeledData<CompressedRealVector, unsigned int> L; typedef WeightedLabeledData<CompressedRealVector, unsigned int> D;
		D orig(L(sparse, labels), weights);
		return head + dsHistory(orig, binary, [](D& d){ return show(d.data().inputs()) + " labels " + show(d.data().labels()) + " weights " + show(d.weights()); },
			[&](D& d){ Data<CompressedRealVector> x; Data<unsigned int> y; Data<double> w; fillSparse(x, other, dim + 1, seed + 7, false); fillLabels(y, other, seed + 3); fillWeights(w, other, seed + 3); d = D(L(x, y), w); }, true);
	}
	return "bad-op";
}

// ---- several objects that SHARE batches in ONE archive (copies of Data are shallow) -------------------------
//   shr <variant> <fmt> <dense|sparse> <dim> <seed> <batch sizes...>
//   autoenc     LabeledData<E,E>(x, x)                      labels = inputs
//   copy        x and a copy of x                            written one after the other
//   subset      x, a copy, the subset of the even batches    three objects sharing batches
//   selfappend  y = x; y.append(x)                           the same batch at two positions of one container
//   twolabeled  LabeledData(x, r1), LabeledData(x, r2)       two labelled sets with the same inputs
// The targets are USED objects that share batches among themselves in another pattern. Oracle: EVERY object of
// the archive comes back with the same elements, batch structure and shape. Printed: every restored container,
// the identity pattern of the restored batches (ordinal of the batch object per position), the token stream.
template<class E, class Fill>
static std::string sharedCase(std::string const& variant, bool binary, Fill fill){
	typedef Data<E> D; typedef LabeledData<E, E> L;
	D x, r1, r2, y, z; fill(x, 0); fill(r1, 1); fill(r2, 2);
	D tx, ty, tz; fill(tx, 5); ty = tx; tz = tx;          // used targets, sharing all their batches
	L l1, l2, tl1(tx, tx), tl2(tx, tx);
	std::vector<D*> orig, rest;
	std::function<void(OutArchive&)> wr; std::function<void(InArchive&)> rd;
	if(variant == "autoenc"){
		l1 = L(x, x);
		wr = [&](OutArchive& o){ o << l1; }; rd = [&](InArchive& i){ i >> tl1; };
		orig = {&l1.inputs(), &l1.labels()}; rest = {&tl1.inputs(), &tl1.labels()};
	}else if(variant == "copy" || variant == "subset"){
		y = x;
		std::vector<std::size_t> even; for(std::size_t b = 0; b < x.numberOfBatches(); b += 2) even.push_back(b);
		z = x.indexedSubset(even);
		bool sub = variant == "subset";
		wr = [&, sub](OutArchive& o){ o << x; o << y; if(sub) o << z; }; rd = [&, sub](InArchive& i){ i >> tx; i >> ty; if(sub) i >> tz; };
		orig = {&x, &y}; rest = {&tx, &ty}; if(sub){ orig.push_back(&z); rest.push_back(&tz); }
	}else if(variant == "selfappend"){
		y = x; y.append(x);
		wr = [&](OutArchive& o){ o << y; }; rd = [&](InArchive& i){ i >> ty; };
		orig = {&y}; rest = {&ty};
	}else if(variant == "twolabeled"){
		l1 = L(x, r1); l2 = L(x, r2);
		wr = [&](OutArchive& o){ o << l1; o << l2; }; rd = [&](InArchive& i){ i >> tl1; i >> tl2; };
		orig = {&l1.inputs(), &l1.labels(), &l2.inputs(), &l2.labels()}; rest = {&tl1.inputs(), &tl1.labels(), &tl2.inputs(), &tl2.labels()};
	}else return "bad-op";
	std::vector<std::string> A; for(D* d: orig) A.push_back(show(*d));
	std::stringstream ss(std::ios::in | std::ios::out | std::ios::binary);
	if(binary){
		{ boost::archive::polymorphic_binary_oarchive oa(ss); OutArchive& o = oa; wr(o); }
		{ boost::archive::polymorphic_binary_iarchive ia(ss); InArchive& i = ia; rd(i); }
	}else{
		{ boost::archive::polymorphic_text_oarchive oa(ss); OutArchive& o = oa; wr(o); }
		{ boost::archive::polymorphic_text_iarchive ia(ss); InArchive& i = ia; rd(i); }
	}
	std::ostringstream ts; { c18::polymorphic_tok_oarchive oa(ts); OutArchive& o = oa; wr(o); }
	std::string out = "objs=", tag;
	std::map<const void*, std::size_t> ord; std::string ids = " ids=";
	for(std::size_t k = 0; k != rest.size(); ++k){
		std::string B = show(*rest[k]);
		out += (k ? " || " : "") + B;
		if(B != A[k] && tag.empty()) tag = " !oracle shared-batches-object-" + std::to_string(k) + "-differs";
		ids += k ? "|" : "";
		for(std::size_t b = 0; b != rest[k]->numberOfBatches(); ++b){
			const void* addr = &rest[k]->batch(b);
			std::size_t id = ord.emplace(addr, ord.size()).first->second;
			ids += (b ? " " : "") + std::to_string(id);
		}
	}
	// the originals share exactly where the restored ones do
	std::map<const void*, std::size_t> ordO; std::string idsO = " ids=";
	for(std::size_t k = 0; k != orig.size(); ++k){
		idsO += k ? "|" : "";
		for(std::size_t b = 0; b != orig[k]->numberOfBatches(); ++b){
			std::size_t id = ordO.emplace(&orig[k]->batch(b), ordO.size()).first->second;
			idsO += (b ? " " : "") + std::to_string(id);
		}
	}
	if(tag.empty() && ids != idsO) tag = " !oracle sharing-pattern-differs";
	for(std::size_t k = 0; k != orig.size(); ++k) if(tag.empty() && show(*orig[k]) != A[k]) tag = " !oracle original-changed-by-write";
	return out + ids + tokenString(ts.str()) + tag;
}
static std::string runShared(std::vector<std::string> const& t){
	std::string variant = t[1]; bool binary = t[2] == "binary"; std::string kind = t[3];
	std::size_t dim = std::stoull(t[4]), seed = std::stoull(t[5]);
	std::vector<std::size_t> bs;
	for(std::size_t i = 6; i < t.size(); ++i) bs.push_back(std::stoull(t[i]));
	std::vector<std::size_t> other{1, 2};
	std::string head = "shr " + variant + " " + kind + " ";
	if(kind == "dense")
		return head + sharedCase<RealVector>(variant, binary, [&](Data<RealVector>& d, std::size_t k){ if(k == 5) fillDense(d, other, dim + 1, seed + 11); else fillDense(d, bs, dim, seed + 13 * k); });
	if(kind == "sparse")
		return head + sharedCase<CompressedRealVector>(variant, binary, [&](Data<CompressedRealVector>& d, std::size_t k){ if(k == 5) fillSparse(d, other, dim + 1, seed + 11, false); else fillSparse(d, bs, dim, seed + 13 * k, true); });
	return "bad-op";
}

// remora::vector written and loaded into a vector that already holds `oldLen` nines
static std::string runVec(std::vector<std::string> const& t){
	bool binary = t[1] == "binary";
	std::size_t oldLen = std::stoull(t[2]);
	RealVector v(t.size() - 3), used(oldLen, 9.0);
	for(std::size_t i = 3; i < t.size(); ++i) v(i - 3) = double(std::stol(t[i]));
	c18::load(c18::bytes(v, binary), used, binary);
	std::ostringstream os; os << "vec " << used.size() << ":[";
	for(std::size_t i = 0; i != used.size(); ++i){ if(i) os << " "; os << vh::intval(used(i)); }
	os << "]" << tokensOf(v);
	bool same = used.size() == v.size(); for(std::size_t i = 0; same && i != v.size(); ++i) same = used(i) == v(i);
	return os.str() + (same ? "" : " !oracle stale-vector-not-overwritten");
}
// standard-library wrappers: vector of pairs with strings, vector of vectors
static std::string runWrap(std::vector<std::string> const& t){
	bool binary = t[1] == "binary";
	std::size_t n = std::stoull(t[2]), seed = std::stoull(t[3]);
	typedef std::pair<std::vector<std::pair<std::size_t, std::string> >, std::vector<std::vector<double> > > W;
	W w, used;
	for(std::size_t i = 0; i != n; ++i){
		w.first.push_back(std::make_pair((i * 3 + seed) % 7, std::string((i + seed) % 3, 'a')));
		std::vector<double> r; for(std::size_t j = 0; j != (i + seed) % 3; ++j) r.push_back(double(cell(seed, i, j)));
		w.second.push_back(r);
	}
	used.first.assign(4, std::make_pair(std::size_t(99), std::string("stale"))); used.second.assign(5, std::vector<double>(2, 9.0));
	c18::load(c18::bytes(w, binary), used, binary);
	std::ostringstream os; os << "wrap ";
	for(std::size_t i = 0; i != used.first.size(); ++i){ if(i) os << ","; os << used.first[i].first << ":" << used.first[i].second; }
	os << " | ";
	for(std::size_t i = 0; i != used.second.size(); ++i){ if(i) os << ","; os << "["; for(std::size_t j = 0; j != used.second[i].size(); ++j){ if(j) os << " "; os << vh::intval(used.second[i][j]); } os << "]"; }
	return os.str() + tokensOf(w) + (used == w ? "" : " !oracle stale-container-not-overwritten");
}

// ------------------------------------------------------------------ kernels and kernel expansions
using c18::points; using c18::ramp; using c18::vecStr; using c18::matStr; using c18::kernelBehaviour; using c18::history;

template<class D> static std::string showCopy(D const& d){ D c = d; return show(c); }
template<class K> static std::string kernelHistory(std::string const& label, K& a, K& a2, K& b, std::size_t dim, bool binary){
	return history(label, a, a2, b, [dim](K& k){ return kernelBehaviour(k, dim); }, binary);
}

static std::string runObj(std::string const& label, bool binary){
	typedef AbstractKernelFunction<RealVector> AK;
	if(label == "GaussianRbfKernel"){
		GaussianRbfKernel<> a(0.5), a2(0.125), b(2.0);
		return kernelHistory(label, a, a2, b, 2, binary);
	}
	if(label == "GaussianRbfKernel-unconstrained"){
		GaussianRbfKernel<> a(0.25, true), a2(1.5, true), b(2.0, false);
		return kernelHistory(label, a, a2, b, 2, binary);
	}
	if(label == "LinearKernel"){
		LinearKernel<> a, a2, b;
		return kernelHistory(label, a, a2, b, 2, binary);
	}
	if(label == "PolynomialKernel"){
		PolynomialKernel<> a(3, 1.5, true, false), a2(2, 0.5, true, true), b(2, 0.0, false, true);
		return kernelHistory(label, a, a2, b, 2, binary);
	}
	if(label == "MonomialKernel"){
		MonomialKernel<> a(3), a2(4), b(2);
		return kernelHistory(label, a, a2, b, 2, binary);
	}
	if(label == "ARDKernel"){
		ARDKernelUnconstrained<> a(2, 0.5), a2(2, 0.75), b(2, 1.0);
		a.setParameterVector(ramp(2, 0.25, 0.5)); a2.setParameterVector(ramp(2, 1.0, -0.25));
		return kernelHistory(label, a, a2, b, 2, binary);
	}
	if(label == "ARDKernel-resized"){   // the target has another dimension
		ARDKernelUnconstrained<> a(2, 0.5), a2(2, 0.75), b(5, 1.0);
		a.setParameterVector(ramp(2, 0.25, 0.5));
		return kernelHistory(label, a, a2, b, 2, binary);
	}
	if(label == "ScaledKernel"){
		GaussianRbfKernel<> ga(0.5), ga2(0.25), gb(2.0);
		ScaledKernel<> a(&ga, 3.0), a2(&ga2, 0.5), b(&gb, 1.0);
		return kernelHistory(label, a, a2, b, 2, binary);
	}
	if(label == "NormalizedKernel"){
		PolynomialKernel<> pa(2, 1.0), pa2(2, 2.0), pb(2, 3.0);
		NormalizedKernel<> a(&pa), a2(&pa2), b(&pb);
		return kernelHistory(label, a, a2, b, 2, binary);
	}
	if(label == "WeightedSumKernel" || label == "ProductKernel" || label == "WeightedSumKernel-of-composites"){
		GaussianRbfKernel<> ga(0.5), ga2(0.75), gb(2.0); PolynomialKernel<> pa(2, 1.0), pa2(2, 0.25), pb(3, 0.5);
		std::vector<AK*> ka{&ga, &pa}, ka2{&ga2, &pa2}, kb{&gb, &pb};
		if(label == "WeightedSumKernel"){
			WeightedSumKernel<> a(ka), a2(ka2), b(kb);
			a.setAdaptiveAll(true); a2.setAdaptiveAll(true); b.setAdaptiveAll(true);
			RealVector p = a.parameterVector(); p(0) = 0.75; a.setParameterVector(p);
			p = a2.parameterVector(); p(0) = -0.5; a2.setParameterVector(p);
			return kernelHistory(label, a, a2, b, 2, binary);
		}
		if(label == "ProductKernel"){
			ProductKernel<RealVector> a(ka), a2(ka2), b(kb);
			return kernelHistory(label, a, a2, b, 2, binary);
		}
		// nested: weighted sum over (scaled Gaussian, product of (Gaussian, polynomial))
		ScaledKernel<> sa(&ga, 2.0), sa2(&ga2, 3.0), sb(&gb, 1.0);
		GaussianRbfKernel<> ha(0.125), ha2(0.375), hb(1.0);
		std::vector<AK*> qa{&ha, &pa}, qa2{&ha2, &pa2}, qb{&hb, &pb};
		ProductKernel<RealVector> prA(qa), prA2(qa2), prB(qb);
		std::vector<AK*> na{&sa, &prA}, na2{&sa2, &prA2}, nb{&sb, &prB};
		WeightedSumKernel<> a(na), a2(na2), b(nb);
		a.setAdaptiveAll(true); a2.setAdaptiveAll(true); b.setAdaptiveAll(true);
		RealVector p = a.parameterVector(); p(0) = 0.5; a.setParameterVector(p);
		return kernelHistory(label, a, a2, b, 2, binary);
	}
	if(label == "ModelKernel"){
		GaussianRbfKernel<> ga(0.5), ga2(0.25), gb(2.0);
		LinearModel<> ma(2, 2, true), ma2(2, 2, true), mb(2, 2, true);
		ma.setParameterVector(ramp(ma.numberOfParameters(), -1, 0.5)); ma2.setParameterVector(ramp(ma2.numberOfParameters(), 2, -0.5)); mb.setParameterVector(ramp(mb.numberOfParameters(), 1, 0));
		ModelKernel<RealVector> a(&ga, &ma), a2(&ga2, &ma2), b(&gb, &mb);
		return kernelHistory(label, a, a2, b, 2, binary);
	}
	if(label == "DiscreteKernel"){
		RealMatrix ma(3, 3), ma2(3, 3), mb(2, 2, 1.0);
		for(std::size_t i = 0; i != 3; ++i) for(std::size_t j = 0; j != 3; ++j){ ma(i,j) = 1.0 + double(std::min(i,j)) * 0.5; ma2(i,j) = i == j ? 2.0 : 0.25; }
		DiscreteKernel a(ma), a2(ma2), b(mb);
		auto beh = [](DiscreteKernel& k){
			std::string s = "params=" + vecStr(k.parameterVector()) + " k=";
			for(std::size_t i = 0; i != 3; ++i) for(std::size_t j = 0; j != 3; ++j) s += vh::exactDouble(k.eval(i, j)) + ",";
			return s;
		};
		return history(label, a, a2, b, beh, binary);
	}
	if(label == "SubrangeKernel"){
		GaussianRbfKernel<> ga(0.5), ga2(0.75), gb(2.0); PolynomialKernel<> pa(2, 1.0), pa2(2, 0.25), pb(3, 0.5);
		std::vector<AK*> ka{&ga, &pa}, ka2{&ga2, &pa2}, kb{&gb, &pb};
		std::vector<std::pair<std::size_t, std::size_t> > ranges{{0, 2}, {1, 3}};
		SubrangeKernel<RealVector> a(ka, ranges), a2(ka2, ranges), b(kb, ranges);
		a.setAdaptiveAll(true); a2.setAdaptiveAll(true); b.setAdaptiveAll(true);
		RealVector p = a.parameterVector(); p(0) = 0.75; a.setParameterVector(p);
		return kernelHistory(label, a, a2, b, 3, binary);
	}
	// ---- kernel expansions with their kernel
	if(label.compare(0, 15, "KernelExpansion") == 0 || label == "KernelClassifier"){
		bool off = label != "KernelExpansion-nooffset";
		std::size_t nb = label == "KernelExpansion-single-basis" ? 1 : 5;
		if(label == "KernelExpansion-sparse"){
			typedef KernelExpansion<CompressedRealVector> KE;
			LinearKernel<CompressedRealVector> ka, ka2, kb;
			Data<CompressedRealVector> basis, basis2;
			fillSparse(basis, {3, 2}, 4, 4, false); fillSparse(basis2, {1, 2}, 4, 9, false);
			KE a(&ka, basis, true, 2), a2(&ka2, basis2, false, 1), b(&kb);
			a.setParameterVector(ramp(a.numberOfParameters(), -1, 0.25)); a2.setParameterVector(ramp(a2.numberOfParameters(), 2, -0.5));
			auto beh = [](KE& k){
				Data<CompressedRealVector> x; fillSparse(x, {3}, 4, 2, false);
				RealMatrix y; k.eval(x.batch(0), y);
				return "params=" + vecStr(k.parameterVector()) + " offset=" + std::string(k.hasOffset() ? "1" : "0") + " basis=" + showCopy(k.basis()) + " eval=" + matStr(y);
			};
			return history(label, a, a2, b, beh, binary);
		}
		typedef KernelExpansion<RealVector> KE;
		Data<RealVector> basis, basis2;
		if(nb == 1) fillDense(basis, {1}, 2, 4); else fillDense(basis, {3, 2}, 2, 4);
		fillDense(basis2, {2, 0, 2}, 2, 8);
		if(label == "KernelExpansion-composite-kernel"){
			GaussianRbfKernel<> ga(0.5), ga2(0.75), gb(2.0); PolynomialKernel<> pa(2, 1.0), pa2(2, 0.25), pb(3, 0.5);
			std::vector<AK*> ka{&ga, &pa}, ka2{&ga2, &pa2}, kb{&gb, &pb};
			WeightedSumKernel<> wa(ka), wa2(ka2), wb(kb);
			wa.setAdaptiveAll(true); wa2.setAdaptiveAll(true); wb.setAdaptiveAll(true);
			RealVector p = wa.parameterVector(); p(0) = 0.75; wa.setParameterVector(p);
			KE a(&wa, basis, true, 2), a2(&wa2, basis2, false, 1), b(&wb);
			a.setParameterVector(ramp(a.numberOfParameters(), -1, 0.25)); a2.setParameterVector(ramp(a2.numberOfParameters(), 2, -0.5));
			auto beh = [](KE& k){
				RealMatrix x = points(4, 2, 3), y; k.eval(x, y);
				return "params=" + vecStr(k.parameterVector()) + " kernel=" + vecStr(k.kernel()->parameterVector()) + " basis=" + showCopy(k.basis()) + " eval=" + matStr(y);
			};
			return history(label, a, a2, b, beh, binary);
		}
		GaussianRbfKernel<> ga(0.5), ga2(0.125), gb(2.0);
		KE a(&ga, basis, off, 2), a2(&ga2, basis2, !off, 1), b(&gb);
		a.setParameterVector(ramp(a.numberOfParameters(), -1, 0.25)); a2.setParameterVector(ramp(a2.numberOfParameters(), 2, -0.5));
		auto beh = [](KE& k){
			RealMatrix x = points(4, 2, 3), y; k.eval(x, y);
			return "params=" + vecStr(k.parameterVector()) + " kernel=" + vecStr(k.kernel()->parameterVector()) + " offset=" + std::string(k.hasOffset() ? "1" : "0") + " basis=" + showCopy(k.basis()) + " eval=" + matStr(y);
		};
		if(label == "KernelClassifier"){
			typedef KernelClassifier<RealVector> KC;
			KC ca(a), ca2(a2), cb(&gb);
			auto cbeh = [](KC& k){
				RealMatrix x = points(5, 2, 3); UIntVector y; k.eval(x, y);
				std::string s = "params=" + vecStr(k.parameterVector()) + " eval=";
				for(std::size_t i = 0; i != y.size(); ++i) s += std::to_string(y(i)) + ",";
				return s;
			};
			return history(label, ca, ca2, cb, cbeh, binary);
		}
		return history(label, a, a2, b, beh, binary);
	}
	std::string r = c18::runModel(label, binary);
	if(r != "bad-op") return r;
	r = c18::runMoo(label, binary);
	if(r != "bad-op") return r;
	r = c18::runMisc(label, binary);
	if(r != "bad-op") return r;
	return c18::runOptimizer(label, binary);
}

int main(){
	std::string line;
	while(std::getline(std::cin, line)){
		std::vector<std::string> t = vh::tokens(line);
		if(t.empty()){ std::cout << "\n"; continue; }
		std::string out = "bad-op";
		try{
			if(t[0] == "ds" && t.size() >= 5) out = runDs(t);
			else if(t[0] == "obj" && t.size() == 4) out = runObj(t[1], t[2] == "binary");
			else if(t[0] == "shr" && t.size() >= 6) out = runShared(t);
			else if(t[0] == "vec" && t.size() >= 3) out = runVec(t);
			else if(t[0] == "wrap" && t.size() == 4) out = runWrap(t);
		}catch(std::exception const& e){
			std::string what = e.what();
			for(char& c: what) if(c == '\n') c = ' ';
			out = (t[0] == "obj" ? "obj " + t[1] : t[0] + " " + t[1]) + " exception " + what.substr(0, 200) + " !oracle round-trip-throws";
		}
		std::cout << out << "\n" << std::flush;
	}
	return 0;
}
