// compile probe (finding F12): export_libsvm of Libsvm.h must be instantiable; checked with -fsyntax-only by checks/c19.py
#include <shark/Data/Libsvm.h>
int main(){
	using namespace shark;
	std::vector<RealVector> in(2, RealVector(2, 1.0)); std::vector<unsigned int> lab = {0, 1};
	LabeledData<RealVector, unsigned int> d = createLabeledDataFromRange(in, lab);
	export_libsvm(d, "/dev/null");
	return 0;
}
