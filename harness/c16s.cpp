// K-C16 (part 2): adversarial op sequences on the real QpMcBoxDecomp (protected members
// through a subclass) over a synthetic symmetric kernel matrix given entry by entry.
// Same line protocol as lean/Driver/C16.lean (`box`, `smo`, `deactvar`, `deactex`, `shrink`,
// `unshrink`, `adddelta`, `label`, `select1`).  After every op the complete state is printed
// (doubles as bit patterns) followed by ` #x=<1|0>`: 1 iff no floating-point operation since
// the construction of the problem raised FE_INEXACT (then the Rat model must agree exactly).
// An independent oracle recomputes tables / box / gradient and appends ` !oracle <tag>`.
// everything the header needs is included first, so that the access override touches QpMcBoxDecomp.h only
// (it exposes BiasSolver::performBiasUpdate, a private member, to a subclass)
#include <shark/Algorithms/QP/QpSolver.h>
#include <shark/Algorithms/QP/QpSparseArray.h>
#include <shark/Algorithms/QP/Impl/AnalyticProblems.h>
#include <shark/Core/Timer.h>
#include <shark/Data/Dataset.h>
#define private protected
#include <shark/Algorithms/QP/QpMcBoxDecomp.h>
#undef private
#include <shark/Algorithms/QP/QpSolver.h>
#include "common.hpp"
#include <cfenv>
#include <cstring>
#include <memory>

using namespace shark;

// provided by c16.cpp (the only TU that sees CSvmTrainer's private members)
void c16MakeTables(std::string const& f, std::size_t c, QpSparseArray<double>& nu, QpSparseArray<double>& M);

namespace {

std::string bits(double x){
	std::uint64_t u; std::memcpy(&u, &x, sizeof u);
	std::ostringstream os; os << u; return os.str();
}

// symmetric matrix given by its entries on original indices; flips are a permutation
struct SynthMatrix{
	typedef double QpFloatType;
	std::size_t n;
	std::vector<double> k;              // original entries
	std::vector<std::size_t> perm;      // current position -> original index
	std::vector<std::vector<double> > rows;
	SynthMatrix(std::size_t n, std::vector<double> const& k): n(n), k(k), perm(n), rows(n, std::vector<double>(n)){
		for(std::size_t i = 0; i != n; ++i) perm[i] = i;
	}
	std::size_t size() const{ return n; }
	double entry(std::size_t i, std::size_t j) const{ return k[perm[i]*n + perm[j]]; }
	double operator()(std::size_t i, std::size_t j) const{ return entry(i,j); }
	double* row(std::size_t i, std::size_t start, std::size_t end){
		for(std::size_t j = start; j < end; ++j) rows[i][j] = entry(i,j);
		for(std::size_t j = end; j < n; ++j) rows[i][j] = std::nan("");        // reading beyond `end` poisons the result
		return &rows[i][0];
	}
	void row(std::size_t i, std::size_t start, std::size_t end, double* storage) const{
		for(std::size_t j = start; j < end; ++j) storage[j-start] = entry(i,j);
	}
	void flipColumnsAndRows(std::size_t i, std::size_t j){ std::swap(perm[i], perm[j]); }
};

struct Probe: public QpMcBoxDecomp<SynthMatrix>{
	typedef QpMcBoxDecomp<SynthMatrix> Base;
	Probe(SynthMatrix& km, QpSparseArray<double> const& M, Data<unsigned int> const& t, RealMatrix const& lin, double C)
	: Base(km, M, t, lin, C){}
	void dvar(std::size_t v){ this->deactivateVariable(v); }
	void dex(std::size_t e){ this->deactivateExample(e); }
	std::size_t aE() const{ return this->m_activeEx; }
	std::size_t aV() const{ return this->m_activeVar; }
	std::size_t exActive(std::size_t e) const{ return this->m_examples[e].active; }
	void killex(std::size_t e){ while(this->m_examples[e].active > 0) this->deactivateVariable(this->m_examples[e].avar[this->m_examples[e].active - 1]); }

	std::string dump() const{
		std::ostringstream os;
		std::size_t nv = this->m_numVariables, P = this->m_cardP;
		os << "aE=" << this->m_activeEx << " aV=" << this->m_activeVar << " un=" << (this->bUnshrinked ? 1 : 0) << " A=[";
		for(std::size_t v = 0; v != nv; ++v) os << (v ? "," : "") << bits(this->m_alpha(v));
		os << "] G=[";
		for(std::size_t v = 0; v != nv; ++v) os << (v ? "," : "") << bits(this->m_gradient(v));
		os << "] L=[";
		for(std::size_t v = 0; v != nv; ++v) os << (v ? "," : "") << bits(this->m_linear(v));
		os << "] E=[";
		for(std::size_t i = 0; i != this->m_numExamples; ++i){
			Example const& e = this->m_examples[i];
			os << (i ? ";" : "") << e.index << ":" << e.y << ":" << e.active << ":";
			for(std::size_t p = 0; p != P; ++p) os << (p ? "." : "") << e.var[p];
			os << ":";
			for(std::size_t p = 0; p != P; ++p) os << (p ? "." : "") << e.avar[p];
		}
		os << "] V=[";
		for(std::size_t v = 0; v != nv; ++v){
			Variable const& x = this->m_variables[v];
			os << (v ? ";" : "") << x.i << ":" << x.p << ":" << x.index << ":" << bits(x.diagonal);
		}
		os << "]";
		return os.str();
	}

	// independent oracle: the invariants of the property, evaluated on the real object
	std::string oracle(std::vector<double> const& K0, std::vector<unsigned int> const& labels0,
			QpSparseArray<double> const& M, double C, bool checkGrad) const{
		std::ostringstream os;
		std::size_t nv = this->m_numVariables, P = this->m_cardP, n = this->m_numExamples, c = this->m_classes;
		// tables: mutually inverse permutations
		std::vector<int> seenIdx(n, 0);
		for(std::size_t e = 0; e != n; ++e){
			Example const& ex = this->m_examples[e];
			if(ex.index >= n || seenIdx[ex.index]++) { os << " !oracle tables-example-index"; break; }
			if(ex.y != labels0[ex.index]) os << " !oracle tables-label";
			if(ex.active > P) os << " !oracle tables-active-count";
			for(std::size_t p = 0; p != P; ++p){
				std::size_t v = ex.var[p];
				if(v >= nv || this->m_variables[v].i != e || this->m_variables[v].p != p){ os << " !oracle tables-var e=" << e << " p=" << p; break; }
				std::size_t w = ex.avar[p];
				if(w >= nv || this->m_variables[w].i != e || this->m_variables[w].index != p){ os << " !oracle tables-avar e=" << e << " b=" << p; break; }
				if((p < ex.active) != (w < this->m_activeVar)){ os << " !oracle tables-active-partition e=" << e << " b=" << p; break; }
			}
			if(e >= this->m_activeEx && ex.active != 0) os << " !oracle tables-inactive-example-has-active-variables";
		}
		// box
		for(std::size_t v = 0; v != nv; ++v)
			if(!(this->m_alpha(v) >= 0.0 && this->m_alpha(v) <= C)){ os << " !oracle box v=" << v; break; }
		// gradient of the active variables: lin - Q alpha with Q = M (x) K, recomputed from the original data
		if(checkGrad){
			for(std::size_t v = 0; v != this->m_activeVar; ++v){
				Variable const& xv = this->m_variables[v];
				std::size_t ov = this->m_examples[xv.i].index; unsigned int yv = labels0[ov];
				double g = this->m_linear(v), scale = std::fabs(g);
				for(std::size_t w = 0; w != nv; ++w){
					Variable const& xw = this->m_variables[w];
					std::size_t ow = this->m_examples[xw.i].index; unsigned int yw = labels0[ow];
					double m = 0; {
						QpSparseArray<double>::Row const& row = M.row(c * (yv * P + xv.p) + yw);
						m = row.defaultvalue;
						for(std::size_t b = 0; b != row.size; ++b) if(row.entry[b].index == xw.p){ m = row.entry[b].value; break; }
					}
					double t = m * K0[ov * n + ow] * this->m_alpha(w);
					g -= t; scale += std::fabs(t);
				}
				if(std::fabs(g - this->m_gradient(v)) > 1e-9 * (1 + scale)){ os << " !oracle gradient v=" << v; break; }
			}
		}
		return os.str();
	}
};

struct BiasProbe: public BiasSolver<SynthMatrix>{
	BiasProbe(QpMcBoxDecomp<SynthMatrix>* p): BiasSolver<SynthMatrix>(p){}
	void update(RealVector const& step, QpSparseArray<double> const& nu){ this->performBiasUpdate(step, nu); }
};

struct Session{
	std::unique_ptr<SynthMatrix> km;
	std::unique_ptr<Probe> prob;
	QpSparseArray<double> nu, M;
	std::vector<double> K0;
	std::vector<unsigned int> labels0;
	double C = 1;
	bool exact = true;
	std::size_t n = 0, P = 0;
} S;

bool parseInts(std::vector<std::string> const& t, std::size_t from, std::vector<long long>& out){
	out.clear();
	for(std::size_t i = from; i < t.size(); ++i){
		char* end = 0; long long v = std::strtoll(t[i].c_str(), &end, 10);
		if(t[i].empty() || *end) return false;
		out.push_back(v);
	}
	return true;
}
double shiftVal(long long num, long long shift){ return std::ldexp((double)num, -(int)shift); }

}

// returns true if the op was recognised
bool c16BoxOp(std::vector<std::string> const& t, std::string& out){
	std::string const& op = t[0];
	std::vector<long long> a;
	if(op == "box"){
		if(t.size() < 8 || !parseInts(t, 2, a) || a.size() < 6){ out = "bad-op"; return true; }
		std::size_t c = a[0], n = a[1];
		QpSparseArray<double> nu, M;
		if(c < 2 || c > 16 || n == 0){ out = "bad-op"; return true; }
		std::feclearexcept(FE_ALL_EXCEPT);      // the construction of the tables counts for exactness (-1/c)
		try{ c16MakeTables(t[1], c, S.nu, S.M); }catch(...){ out = "bad-op"; return true; }
		bool tablesExact = std::fetestexcept(FE_INEXACT) == 0;
		std::size_t P = S.M.width();
		if(a.size() != 6 + n + n*P + n*n){ out = "bad-op"; return true; }
		S.n = n; S.P = P; S.C = shiftVal(a[2], a[3]);
		S.labels0.assign(n, 0); for(std::size_t i = 0; i != n; ++i) S.labels0[i] = (unsigned int)a[6 + i];
		RealMatrix lin(n, P);
		for(std::size_t i = 0; i != n; ++i) for(std::size_t p = 0; p != P; ++p) lin(i,p) = (double)a[6 + n + i*P + p];
		S.K0.assign(n*n, 0); for(std::size_t i = 0; i != n*n; ++i) S.K0[i] = shiftVal(a[6 + n + n*P + i], a[5]);
		Data<unsigned int> target = createDataFromRange(S.labels0);
		if(numberOfClasses(target) != c){ out = "bad-op"; return true; }
		S.prob.reset(); S.km.reset(new SynthMatrix(n, S.K0));
		std::feclearexcept(FE_ALL_EXCEPT);
		S.prob.reset(new Probe(*S.km, S.M, target, lin, S.C));
		S.prob->setShrinking(a[4] != 0);
		S.exact = tablesExact && std::fetestexcept(FE_INEXACT) == 0;
		out = S.prob->dump() + " #x=" + (S.exact ? "1" : "0") + S.prob->oracle(S.K0, S.labels0, S.M, S.C, true);
		return true;
	}
	if(op != "smo" && op != "killex" && op != "deactvar" && op != "deactex" && op != "shrink" && op != "unshrink" && op != "adddelta"
		&& op != "label" && op != "select1" && op != "solve" && op != "biasupd" && op != "biassolve") return false;
	if(!S.prob || !parseInts(t, 1, a)){ out = "bad-op"; return true; }
	Probe& p = *S.prob;
	std::string pre, stopOrc;
	std::feclearexcept(FE_ALL_EXCEPT);
	if(op == "smo" && a.size() == 2){
		if(!(a[0] >= 0 && a[1] >= 0 && (std::size_t)a[0] < p.aV() && (std::size_t)a[1] < p.aV())){ out = "bad-op"; return true; }
		p.updateSMO(a[0], a[1]);
	}else if(op == "deactvar" && a.size() == 1){
		if(!(a[0] >= 0 && (std::size_t)a[0] < p.aV())){ out = "bad-op"; return true; }
		p.dvar(a[0]);
	}else if(op == "deactex" && a.size() == 1){
		if(!(a[0] >= 0 && (std::size_t)a[0] < p.aE() && p.exActive(a[0]) == 0)){ out = "bad-op"; return true; }
		p.dex(a[0]);
	}else if(op == "killex" && a.size() == 1){
		if(!(a[0] >= 0 && (std::size_t)a[0] < S.n)){ out = "bad-op"; return true; }
		p.killex(a[0]);
	}else if(op == "unshrink" && a.empty()){
		p.unshrink();
	}else if(op == "shrink" && a.size() == 2){
		bool r = p.shrink(shiftVal(a[0], a[1]));
		pre = std::string("ret=") + (r ? "1 " : "0 ");
	}else if(op == "adddelta"){
		if(a.size() != S.n * S.P){ out = "bad-op"; return true; }
		RealMatrix d(S.n, S.P);
		for(std::size_t i = 0; i != S.n; ++i) for(std::size_t q = 0; q != S.P; ++q) d(i,q) = (double)a[i*S.P + q];
		p.addDeltaLinear(d);
	}else if(op == "label" && a.size() == 1){
		if(!(a[0] >= 0 && (std::size_t)a[0] < S.n)){ out = "bad-op"; return true; }
		unsigned int l = p.label(a[0]);
		std::ostringstream os; os << "label=" << l << " "; pre = os.str();
		if(l != S.labels0[a[0]]) pre = pre;   // reported by the oracle below
	}else if(op == "select1" && a.empty()){
		// selectWorkingSet (first and second order choice), observed through the public interface
		std::size_t i = 0, j = 0; double v = p.selectWorkingSet(i, j);
		std::ostringstream os; os << "i=" << (v == 0.0 ? 0 : i) << " j=" << (v == 0.0 ? 0 : j) << " viol=" << bits(v) << " "; pre = os.str();
	}else if(op == "solve" && a.size() == 3){
		// the real decomposition loop QpSolver::solve on the real problem object, from its current state
		if(a[2] < 0){ out = "bad-op"; return true; }
		QpStoppingCondition stop; stop.minAccuracy = shiftVal(a[0], a[1]); stop.maxIterations = (unsigned long long)a[2];
		QpSolutionProperties prop; prop.type = QpNone;
		QpSolver<Probe> solver(p);
		solver.solve(stop, &prop);
		std::ostringstream os; os << "it=" << prop.iterations << " stop=" << (int)prop.type << " acc=" << bits(prop.accuracy) << " "; pre = os.str();
		// oracle for the stopping rule: AccuracyReached  =>  all variables active and the INDEPENDENTLY recomputed
		// gradient is eps-KKT (the oracle below recomputes the gradient of all active variables from the original data)
		if(prop.type == QpAccuracyReached){
			if(p.aV() != S.n * S.P) stopOrc += " !oracle stopped-while-shrunk";
			if(!(p.checkKKT() < stop.minAccuracy)) stopOrc += " !oracle stopped-not-kkt";
		}else if(prop.type != QpMaxIterationsReached) stopOrc += " !oracle stop-type";
		if(prop.iterations > stop.maxIterations) stopOrc += " !oracle iterations-exceed-limit";
	}else if(op == "biassolve" && a.size() == 4){
		// the real BiasSolver::solve (inner QpSolver runs + Rprop rule on the bias) from the current state, bias starting at 0
		if(a[2] < 0){ out = "bad-op"; return true; }
		std::size_t classes = S.nu.width();
		QpStoppingCondition stop; stop.minAccuracy = shiftVal(a[0], a[1]); stop.maxIterations = (unsigned long long)a[2];
		QpSolutionProperties prop; prop.type = QpNone;
		RealVector bias(classes, 0.0);
		BiasSolver<SynthMatrix> bs(&p);
		bs.solve(bias, stop, S.nu, a[3] != 0, &prop);
		std::ostringstream os; os << "bias=[";
		for(std::size_t c = 0; c != classes; ++c) os << (c ? "," : "") << bits(bias(c));
		os << "] it=" << prop.iterations << " stop=" << (int)prop.type << " acc=" << bits(prop.accuracy) << " "; pre = os.str();
		// oracle: with sumToZero the bias stays in the sum-to-zero subspace (up to rounding)
		if(a[3] != 0){ double sb = 0, sc = 0; for(std::size_t c = 0; c != classes; ++c){ sb += bias(c); sc += std::fabs(bias(c)); }
			if(std::fabs(sb) > 1e-9 * (1 + sc)) stopOrc += " !oracle bias-not-sum-to-zero"; }
		if(prop.type == QpAccuracyReached && !(p.checkKKT() <= stop.minAccuracy)) stopOrc += " !oracle bias-stopped-not-kkt";
		if(p.aV() != S.n * S.P) stopOrc += " !oracle bias-stopped-while-shrunk";
		S.exact = false;      // (the driver does not run the exact instance through a whole Rprop run)
	}else if(op == "biasupd"){
		// the real performBiasUpdate: bias step -> change of the linear part (and of the gradient)
		std::size_t classes = S.nu.width();
		if(a.size() != 2 * classes){ out = "bad-op"; return true; }
		RealVector step(classes);
		for(std::size_t c = 0; c != classes; ++c) step(c) = shiftVal(a[2*c], a[2*c+1]);
		BiasProbe bp(&p);
		bp.update(step, S.nu);
	}else{ out = "bad-op"; return true; }
	if(std::fetestexcept(FE_INEXACT)) S.exact = false;
	std::string orc = p.oracle(S.K0, S.labels0, S.M, S.C, true) + stopOrc;
	if(op == "label" && p.label(a[0]) != S.labels0[a[0]]) orc += " !oracle label-after-shrink";
	out = pre + p.dump() + " #x=" + (S.exact ? "1" : "0") + orc;
	return true;
}
