// K-C17[fresh tree, concurrent]: ONE const tree object shared by the threads of the OpenMP loop over batches.
//
// NearestNeighborModel::operator()(Data) / transform evaluate the batches of a data set in a SHARK_PARALLEL_FOR,
// so TreeNearestNeighbors::getNeighbors and IterativeNNQuery run concurrently on one `const` tree in ordinary use.
// The property ("nearest-neighbour models predict identically with either back-end") therefore quantifies over
// that use too.  The op `mt` builds a FRESH tree `reps` times and, as the very first use of each tree, evaluates
//   * even repetitions: NearestNeighborModel<RealVector,unsigned>(tree back-end)(queryData)   (OpenMP inside Shark),
//   * odd repetitions : TreeNearestNeighbors::getNeighbors on all batches in an `omp parallel for` of the harness,
// with T >= 2 threads (then the other of the two, on the by now visited tree, and the model over the exhaustive
// back-end), and compares EVERY repetition with exhaustive search by definition (independent oracle: brute force
// over the integer points, exact; distances, order, labels, predictions).
//
// Protocol: as harness/c17.cpp (`scale`, `batch`, `data`, `labels` identical); one observation line per op, equal
// to the line lean/Driver/C17.lean prints for the op from the model's exhaustive search (`bruteForce`):
//   mt <kind> <depth> <bucket> <k> <T> <reps> <qbatch> <m*dim query coordinates>
//   -> "mt d_1 .. d_k class=<c|*> / ..."   (squared distances in grid units; * = prediction not determined: tie)
// The same source is built with g++ (ASan/UBSan, libgomp) and with clang++ -fsanitize=thread (libomp + Archer).
#include <shark/Models/Trees/BinaryTree.h>
#include <shark/Models/Trees/KDTree.h>
#include <shark/Models/Trees/LCTree.h>
#include <shark/Models/Trees/KHCTree.h>
#include <shark/Models/Kernels/LinearKernel.h>
#include <shark/Models/Kernels/PolynomialKernel.h>
#include <shark/Algorithms/NearestNeighbors/TreeNearestNeighbors.h>
#include <shark/Algorithms/NearestNeighbors/SimpleNearestNeighbors.h>
#include <shark/Models/NearestNeighborModel.h>
#include <shark/Data/DataView.h>
#include <shark/Data/Dataset.h>
#include "common.hpp"
#include <algorithm>
#include <map>
#include <memory>
#include <omp.h>

using namespace shark;
typedef BinaryTree<RealVector> Tree;
typedef DataView<Data<RealVector> const> View;
typedef std::vector<long long> IPoint;

static std::vector<IPoint> g_pts;
static std::vector<unsigned int> g_labels;
static std::size_t g_dim = 0, g_batchSize = 0;
static Data<RealVector> g_data;
static std::unique_ptr<View> g_view;
static LinearKernel<RealVector> g_kernel;
static PolynomialKernel<RealVector> g_poly(2, 1.0, false);
static int g_scale = 0;
static bool g_polyMetric = false;

static double sc(long long x){ return std::ldexp((double)x, g_scale); }
static RealVector toVec(IPoint const& p){
	RealVector v(p.size());
	for(std::size_t i = 0; i != p.size(); ++i) v(i) = sc(p[i]);
	return v;
}
static long long polyK(IPoint const& a, IPoint const& b){
	long long s = 1;
	for(std::size_t i = 0; i != a.size(); ++i) s += a[i]*b[i];
	return s*s;
}
static long long d2int(IPoint const& a, IPoint const& b){
	if(g_polyMetric) return polyK(a,a) - 2*polyK(a,b) + polyK(b,b);
	long long s = 0;
	for(std::size_t i = 0; i != a.size(); ++i) s += (a[i]-b[i])*(a[i]-b[i]);
	return s;
}
// reported distance r = 2^scale * sqrt(D) for an integer D (nearest-double rule) -> D as text
static std::string sqOfReported(double r){
	r = std::ldexp(r, -g_scale);
	double sq = r*r;
	long long D = (long long)std::floor(sq + 0.5);
	for(long long c = D-1; c <= D+1; ++c)
		if(c >= 0 && std::sqrt((double)c) == r){ std::ostringstream os; os << c; return os.str(); }
	return "?" + vh::exactDouble(r);
}
static Tree* buildTree(std::string const& kind, TreeConstruction tc){
	if(kind == "kd") return new KDTree<RealVector>(g_data, tc);
	if(kind == "lc") return new LCTree<RealVector>(g_data, tc);
	if(kind == "khc") return new KHCTree<View>(*g_view, &g_kernel, tc);
	if(kind == "khcp") return new KHCTree<View>(*g_view, &g_poly, tc);
	return 0;
}
typedef AbstractNearestNeighbors<RealVector, unsigned int>::DistancePair DP;

int main(){
	std::string line;
	while(std::getline(std::cin, line)){
		std::vector<std::string> t = vh::tokens(line);
		std::ostringstream out;
		if(t.empty()){ std::cout << "\n"; continue; }
		std::string const& op = t[0];
		try{
		if(op == "scale" && t.size() == 2){
			int e = std::stoi(t[1]);
			if(e < -40 || e > 40) out << "bad-op";
			else{ g_scale = e; g_view.reset(); g_pts.clear(); g_dim = 0; out << "ok"; }
		}
		else if(op == "batch" && t.size() == 2){ g_batchSize = std::stoul(t[1]); out << "ok"; }
		else if(op == "data" && t.size() >= 3){
			std::size_t d = std::stoul(t[1]), n = std::stoul(t[2]);
			if(t.size() != 3 + d*n || n == 0 || d == 0) out << "bad-op";
			else{
				g_dim = d;
				g_pts.assign(n, IPoint(d));
				std::vector<RealVector> vecs;
				for(std::size_t i = 0; i != n; ++i){
					for(std::size_t c = 0; c != d; ++c) g_pts[i][c] = std::stoll(t[3 + i*d + c]);
					vecs.push_back(toVec(g_pts[i]));
				}
				g_labels.assign(n, 0);
				g_data = createDataFromRange(vecs, g_batchSize ? g_batchSize : (n > 5 ? 3 : 256));
				g_view.reset(new View(g_data));
				out << "ok n=" << n << " d=" << d;
			}
		}
		else if(op == "labels" && t.size() == 1 + g_pts.size() && !g_pts.empty()){
			for(std::size_t i = 0; i != g_pts.size(); ++i) g_labels[i] = (unsigned)std::stoul(t[1+i]);
			out << "ok";
		}
		else if(op == "mt" && t.size() >= 8 + g_dim && g_dim != 0 && (t.size() - 8) % g_dim == 0 && g_view){
			std::string kind = t[1];
			unsigned depth = (unsigned)std::stoul(t[2]), bucket = (unsigned)std::stoul(t[3]);
			std::size_t k = std::stoul(t[4]);
			int T = std::stoi(t[5]);
			std::size_t reps = std::stoul(t[6]), qb = std::stoul(t[7]);
			std::size_t n = g_pts.size(), m = (t.size() - 8) / g_dim;
			bool kindOk = kind == "kd" || kind == "lc" || kind == "khc" || kind == "khcp";
			if(!kindOk || k == 0 || k > n || T < 1 || T > 16 || reps == 0 || qb == 0) out << "bad-op";
			else{
			g_polyMetric = kind == "khcp";
			AbstractKernelFunction<RealVector> const* metric = g_polyMetric ? static_cast<AbstractKernelFunction<RealVector> const*>(&g_poly) : &g_kernel;
			std::vector<IPoint> qs(m, IPoint(g_dim));
			std::vector<RealVector> qv;
			for(std::size_t p = 0; p != m; ++p){
				for(std::size_t d = 0; d != g_dim; ++d) qs[p][d] = std::stoll(t[8 + p*g_dim + d]);
				qv.push_back(toVec(qs[p]));
			}
			Data<RealVector> queries = createDataFromRange(qv, qb);
			int nb = (int)queries.numberOfBatches();
			std::vector<std::size_t> start(nb + 1, 0);
			for(int b = 0; b != nb; ++b) start[b+1] = start[b] + batchSize(queries.batch(b));
			Data<unsigned int> lab = createDataFromRange(g_labels, g_batchSize ? g_batchSize : (n > 5 ? 3 : 256));
			LabeledData<RealVector, unsigned int> ds(g_data, lab);
			unsigned nc = 0;
			for(unsigned l: g_labels) nc = std::max(nc, l + 1);
			// exhaustive search by definition
			std::vector<std::vector<std::pair<long long, unsigned> > > bf(m);
			std::vector<char> ambiguous(m, 0);
			std::vector<unsigned> expect(m, 0);
			for(std::size_t p = 0; p != m; ++p){
				bf[p].resize(n);
				for(std::size_t i = 0; i != n; ++i) bf[p][i] = std::make_pair(d2int(g_pts[i], qs[p]), g_labels[i]);
				std::stable_sort(bf[p].begin(), bf[p].end(), [](std::pair<long long,unsigned> const& a, std::pair<long long,unsigned> const& b){ return a.first < b.first; });
				if(k < n && bf[p][k-1].first == bf[p][k].first)
					for(std::size_t i = 0; i != n; ++i)
						if(bf[p][i].first == bf[p][k-1].first && bf[p][i].second != bf[p][k-1].second) ambiguous[p] = 1;
				std::vector<std::size_t> votes(nc, 0);
				for(std::size_t i = 0; i != k; ++i) votes[bf[p][i].second]++;
				unsigned best = 0;
				for(unsigned c = 0; c != nc; ++c) if(votes[c] > votes[best]) best = c;
				expect[p] = best;
			}
			omp_set_num_threads(T);
			std::vector<DP> shown; std::vector<unsigned> shownClass(m, 0);
			bool haveShown = false;
			std::string firstBad;
			for(std::size_t rep = 0; rep != reps; ++rep){
				// a FRESH tree; what follows is its first use
				std::unique_ptr<Tree> tree(buildTree(kind, TreeConstruction(depth, bucket)));
				TreeNearestNeighbors<RealVector, unsigned int> tnn(ds, tree.get());
				NearestNeighborModel<RealVector, unsigned int> mt(&tnn, (unsigned)k);
				std::vector<DP> res(k*m);
				Data<unsigned int> pred;
				auto allNeighbours = [&](){
					#pragma omp parallel for
					for(int b = 0; b < nb; ++b){
						std::vector<DP> r = tnn.getNeighbors(queries.batch(b), k);
						for(std::size_t i = 0; i != r.size() && start[b]*k + i < res.size(); ++i) res[start[b]*k + i] = r[i];
					}
				};
				if(rep % 2 == 0){ pred = mt(queries); allNeighbours(); }
				else{ allNeighbours(); pred = mt(queries); }
				std::string bad;
				std::vector<unsigned> cls(m, 0);
				if(pred.numberOfElements() != m) bad = "prediction-size";
				else{ std::size_t p = 0; for(int b = 0; b != (int)pred.numberOfBatches(); ++b) for(std::size_t i = 0; i != pred.batch(b).size(); ++i) cls[p++] = pred.batch(b)(i); }
				for(std::size_t p = 0; bad.empty() && p != m; ++p){
					std::map<std::pair<long long, unsigned>, long> avail;
					for(std::size_t i = 0; i != n; ++i) avail[bf[p][i]]++;
					double prev = -1;
					for(std::size_t i = 0; bad.empty() && i != k; ++i){
						DP const& r = res[p*k + i];
						if(sqOfReported(r.key) != std::to_string(bf[p][i].first)) bad = "knn-distance";
						else if(r.key < prev) bad = "order-decreasing";
						else if(--avail[std::make_pair(bf[p][i].first, r.value)] < 0) bad = "knn-label";
						prev = r.key;
					}
					if(bad.empty() && !ambiguous[p] && cls[p] != expect[p]) bad = "prediction";
				}
				if(!haveShown || (!bad.empty() && firstBad.empty())){ shown = res; shownClass = cls; haveShown = true; }
				if(!bad.empty() && firstBad.empty()) firstBad = bad + (rep % 2 == 0 ? ":model-first" : ":getNeighbors-first");
			}
			// the exhaustive back-end, evaluated on the data set (its own parallel loops inside the loop over batches)
			std::string badSimple;
			{
				SimpleNearestNeighbors<RealVector, unsigned int> snn(ds, metric);
				NearestNeighborModel<RealVector, unsigned int> ms(&snn, (unsigned)k);
				Data<unsigned int> pred = ms(queries);
				std::size_t p = 0;
				if(pred.numberOfElements() != m) badSimple = "prediction-size";
				else for(int b = 0; b != (int)pred.numberOfBatches(); ++b) for(std::size_t i = 0; i != pred.batch(b).size(); ++i, ++p)
					if(!ambiguous[p] && pred.batch(b)(i) != expect[p]) badSimple = "prediction";
			}
			out << "mt ";
			for(std::size_t p = 0; p != m; ++p){
				if(p) out << " / ";
				for(std::size_t i = 0; i != k; ++i) out << sqOfReported(shown[p*k + i].key) << " ";
				out << "class=";
				if(ambiguous[p]) out << "*"; else out << shownClass[p];
			}
			if(!firstBad.empty()) out << " !oracle wrong-result:" << kind << ":fresh-tree-concurrent:" << firstBad;
			if(!badSimple.empty()) out << " !oracle wrong-result:simple:dataset-eval:" << badSimple;
			}
		}
		else out << "bad-op";
		}catch(std::exception const& e){ out.str(""); out << "exception " << e.what(); }
		std::cout << out.str() << "\n";
	}
	std::cout.flush();
	return 0;
}
