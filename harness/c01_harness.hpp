// K-C01: shared part of the correspondence harness for remora expressions.
//  * Store: the program variables (dense vectors, row-major and column-major matrices)
//  * registry of generated statements (one function per statement, see checks/c01.py)
//  * independent oracle: naive loops on plain std::vector copies (no remora code)
#ifndef VERIF_C01_HARNESS_HPP
#define VERIF_C01_HARNESS_HPP
#include <shark/LinAlg/BLAS/remora.hpp>
#include "common.hpp"
#include <algorithm>
#include <functional>
#include <map>
#include <stdexcept>

namespace c01 {
typedef remora::vector<double> Vec;
typedef remora::matrix<double, remora::row_major> MatA;
typedef remora::matrix<double, remora::column_major> MatB;
typedef remora::compressed_vector<double> SVec;
typedef remora::compressed_matrix<double> SMat;   // row-major compressed

struct Store{
	std::vector<Vec> v;
	std::vector<MatA> A;
	std::vector<MatB> B;
	std::vector<SVec> s;   // sparse operands (read-only in statements)
	std::vector<SMat> C;
};

// ---------------------------------------------------------------- oracle values
typedef std::vector<double> OV;
struct OM{ std::size_t n1, n2; std::vector<double> x; // row-major
	OM(std::size_t a = 0, std::size_t b = 0): n1(a), n2(b), x(a*b, 0.0){}
	double& operator()(std::size_t i, std::size_t j){ return x.at(i*n2+j); }
	double operator()(std::size_t i, std::size_t j) const{ return x.at(i*n2+j); }
};
struct OracleError: std::runtime_error{ OracleError(std::string const& s): std::runtime_error(s){} };
inline void need(bool c, char const* what){ if(!c) throw OracleError(what); }

inline OV o_v(Store const& S, std::size_t k){ OV r(S.v.at(k).size()); for(std::size_t i = 0; i != r.size(); ++i) r[i] = S.v[k](i); return r; }
template<class M> inline OM o_mat(M const& m){ OM r(m.size1(), m.size2()); for(std::size_t i = 0; i != r.n1; ++i) for(std::size_t j = 0; j != r.n2; ++j) r(i,j) = m(i,j); return r; }
inline OM o_A(Store const& S, std::size_t k){ return o_mat(S.A.at(k)); }
// dense copies of the sparse operands, read through their iterators
inline OV o_s(Store const& S, std::size_t k){ SVec const& x = S.s.at(k); OV r(x.size(), 0.0); for(SVec::const_iterator it = x.begin(); it != x.end(); ++it) r.at(it.index()) = *it; return r; }
inline OM o_C(Store const& S, std::size_t k){ SMat const& m = S.C.at(k); OM r(m.size1(), m.size2()); for(std::size_t i = 0; i != m.size1(); ++i) for(SMat::const_major_iterator it = m.major_begin(i); it != m.major_end(i); ++it) r(i, it.index()) = *it; return r; }
inline OM o_B(Store const& S, std::size_t k){ return o_mat(S.B.at(k)); }

inline OV o_range(OV const& a, std::size_t s, std::size_t e){ need(s <= e && e <= a.size(), "range"); return OV(a.begin()+s, a.begin()+e); }
inline OV o_row(OM const& m, std::size_t i){ need(i < m.n1, "row"); OV r(m.n2); for(std::size_t j = 0; j != m.n2; ++j) r[j] = m(i,j); return r; }
inline OV o_col(OM const& m, std::size_t j){ need(j < m.n2, "col"); OV r(m.n1); for(std::size_t i = 0; i != m.n1; ++i) r[i] = m(i,j); return r; }
inline OV o_diag(OM const& m){ need(m.n1 == m.n2, "diag"); OV r(m.n1); for(std::size_t i = 0; i != m.n1; ++i) r[i] = m(i,i); return r; }
inline OV o_smul(double a, OV v){ for(double& x: v) x = a*x; return v; }
inline OV o_cvec(std::size_t n, double a){ return OV(n, a); }
inline OV o_unit(std::size_t n, std::size_t k, double a){ OV r(n, 0.0); if(k < n) r[k] = a; return r; }
inline double f_abs(double x){ return x < 0 ? -x : x; }
inline double f_sqr(double x){ return x*x; }
inline double f_neg(double x){ return -x; }
inline double f_inv(double x){ return 1.0/x; }
inline double f_mul(double x, double y){ return x*y; }
inline double f_div(double x, double y){ return x/y; }
inline double f_min(double x, double y){ return y < x ? y : x; }
inline double f_max(double x, double y){ return x < y ? y : x; }
inline double f_add(double x, double y){ return x+y; }
inline OV o_un(double(*f)(double), OV v){ for(double& x: v) x = f(x); return v; }
inline OV o_bin(double(*f)(double,double), OV a, OV const& b){ need(a.size() == b.size(), "bin"); for(std::size_t i = 0; i != a.size(); ++i) a[i] = f(a[i], b[i]); return a; }
inline OV o_add(OV a, OV const& b){ return o_bin(f_add, a, b); }
inline OV o_sub(OV a, OV const& b){ need(a.size() == b.size(), "sub"); for(std::size_t i = 0; i != a.size(); ++i) a[i] = a[i] - b[i]; return a; }
inline OV o_concat(OV a, OV const& b){ a.insert(a.end(), b.begin(), b.end()); return a; }
inline OV o_mv(OM const& m, OV const& v){ need(m.n2 == v.size(), "mv"); OV r(m.n1, 0.0); for(std::size_t i = 0; i != m.n1; ++i) for(std::size_t k = 0; k != m.n2; ++k) r[i] += m(i,k)*v[k]; return r; }
inline OM o_trans(OM const& m){ OM r(m.n2, m.n1); for(std::size_t i = 0; i != m.n1; ++i) for(std::size_t j = 0; j != m.n2; ++j) r(j,i) = m(i,j); return r; }
inline OV o_vm(OV const& v, OM const& m){ return o_mv(o_trans(m), v); }
inline OV o_foldrows(double(*f)(double,double), OM const& m){ need(m.n2 > 0, "fold of empty rows"); OV r(m.n1); for(std::size_t i = 0; i != m.n1; ++i){ double s = m(i,0); for(std::size_t j = 1; j != m.n2; ++j) s = f(s, m(i,j)); r[i] = s; } return r; }
inline OV o_sumrows(OM const& m){ OV r(m.n1, 0.0); for(std::size_t i = 0; i != m.n1; ++i) for(std::size_t j = 0; j != m.n2; ++j) r[i] += m(i,j); return r; }
inline OV o_sumcols(OM const& m){ return o_sumrows(o_trans(m)); }
inline OV o_maxrows(OM const& m){ return o_foldrows(f_max, m); }
inline OV o_mincols(OM const& m){ return o_foldrows(f_min, o_trans(m)); }
// row-wise reductions red(as_rows(M)) by their defining formula (one pass per row, seeded with the row's first element;
// rows without elements give 0, the value remora's assign_to leaves in the cleared target)
enum Red{ R_SUM, R_MAX, R_MIN, R_NORM1, R_NORMSQR, R_NORMINF };
inline OV o_fold(Red r, bool rows, OM const& m0){
	OM m = rows ? m0 : OM();
	if(!rows){ m = OM(m0.n2, m0.n1); for(std::size_t i = 0; i != m0.n1; ++i) for(std::size_t j = 0; j != m0.n2; ++j) m(j,i) = m0(i,j); }
	OV out(m.n1, 0.0);
	if(m.n2 == 0){ need(r == R_SUM || r == R_NORM1 || r == R_NORMSQR, "max/min fold of empty rows"); return out; }
	for(std::size_t i = 0; i != m.n1; ++i){
		std::vector<double> x(m.n2);
		for(std::size_t j = 0; j != m.n2; ++j){ double a = m(i,j); x[j] = (r == R_NORM1 || r == R_NORMINF) ? f_abs(a) : (r == R_NORMSQR ? a*a : a); }
		double s = x[0];
		for(std::size_t j = 1; j != m.n2; ++j) s = (r == R_MAX || r == R_NORMINF) ? f_max(s, x[j]) : (r == R_MIN ? f_min(s, x[j]) : s + x[j]);
		out[i] = s;
	}
	return out;
}
// to_triangular(M, tag): the other triangle reads as 0, the diagonal of the unit variants as 1
inline OM o_tri(bool upper, bool unit, OM m){
	need(m.n1 == m.n2, "tri");
	for(std::size_t i = 0; i != m.n1; ++i) for(std::size_t j = 0; j != m.n2; ++j){
		if(i == j){ if(unit) m(i,j) = 1.0; }
		else if(!((upper && i < j) || (!upper && j < i))) m(i,j) = 0.0;
	}
	return m;
}
inline OV o_tovec(OM const& m){ return m.x; }
// to_vector of a container linearises in STORAGE order: row-major for A, column-major for B
inline OV o_tovecA(Store const& S, std::size_t k){ return o_A(S,k).x; }
inline OV o_tovecB(Store const& S, std::size_t k){ OM m = o_B(S,k); OV r; for(std::size_t j = 0; j != m.n2; ++j) for(std::size_t i = 0; i != m.n1; ++i) r.push_back(m(i,j)); return r; }

inline OM o_mrange(OM const& m, std::size_t s1, std::size_t e1, std::size_t s2, std::size_t e2){
	need(s1 <= e1 && e1 <= m.n1 && s2 <= e2 && e2 <= m.n2, "mrange");
	OM r(e1-s1, e2-s2); for(std::size_t i = 0; i != r.n1; ++i) for(std::size_t j = 0; j != r.n2; ++j) r(i,j) = m(s1+i, s2+j); return r; }
inline OM o_rows(OM const& m, std::size_t s, std::size_t e){ return o_mrange(m, s, e, 0, m.n2); }
inline OM o_cols(OM const& m, std::size_t s, std::size_t e){ return o_mrange(m, 0, m.n1, s, e); }
inline OM o_msmul(double a, OM m){ for(double& x: m.x) x = a*x; return m; }
inline OM o_mun(double(*f)(double), OM m){ for(double& x: m.x) x = f(x); return m; }
inline OM o_mbin(double(*f)(double,double), OM a, OM const& b){ need(a.n1 == b.n1 && a.n2 == b.n2, "mbin"); for(std::size_t i = 0; i != a.x.size(); ++i) a.x[i] = f(a.x[i], b.x[i]); return a; }
inline OM o_madd(OM a, OM const& b){ return o_mbin(f_add, a, b); }
inline OM o_msub(OM a, OM const& b){ need(a.n1 == b.n1 && a.n2 == b.n2, "msub"); for(std::size_t i = 0; i != a.x.size(); ++i) a.x[i] = a.x[i] - b.x[i]; return a; }
inline OM o_outer(OV const& u, OV const& v){ OM r(u.size(), v.size()); for(std::size_t i = 0; i != r.n1; ++i) for(std::size_t j = 0; j != r.n2; ++j) r(i,j) = u[i]*v[j]; return r; }
inline OM o_mm(OM const& a, OM const& b){ need(a.n2 == b.n1, "mm"); OM r(a.n1, b.n2); for(std::size_t i = 0; i != r.n1; ++i) for(std::size_t j = 0; j != r.n2; ++j){ double s = 0; for(std::size_t k = 0; k != a.n2; ++k) s += a(i,k)*b(k,j); r(i,j) = s; } return r; }
inline OM o_repeat(OV const& v, std::size_t k){ OM r(k, v.size()); for(std::size_t i = 0; i != k; ++i) for(std::size_t j = 0; j != v.size(); ++j) r(i,j) = v[j]; return r; }
inline OM o_cmat(std::size_t n1, std::size_t n2, double a){ OM r(n1, n2); for(double& x: r.x) x = a; return r; }
inline OM o_diagm(OV const& v){ OM r(v.size(), v.size()); for(std::size_t i = 0; i != v.size(); ++i) r(i,i) = v[i]; return r; }
inline OM o_concatr(OM const& a, OM const& b){ need(a.n1 == b.n1, "concatr"); OM r(a.n1, a.n2+b.n2); for(std::size_t i = 0; i != r.n1; ++i){ for(std::size_t j = 0; j != a.n2; ++j) r(i,j) = a(i,j); for(std::size_t j = 0; j != b.n2; ++j) r(i,a.n2+j) = b(i,j);} return r; }
inline OM o_concatb(OM const& a, OM const& b){ need(a.n2 == b.n2, "concatb"); OM r(a.n1+b.n1, a.n2); for(std::size_t j = 0; j != r.n2; ++j){ for(std::size_t i = 0; i != a.n1; ++i) r(i,j) = a(i,j); for(std::size_t i = 0; i != b.n1; ++i) r(a.n1+i,j) = b(i,j);} return r; }
inline OM o_tomat(OV const& v, std::size_t n1, std::size_t n2){ need(n1*n2 == v.size(), "tomat"); OM r(n1, n2); r.x = v; return r; }

// ---------------------------------------------------------------- oracle places (pointers into a Store)
typedef std::vector<double*> PV;
struct PM{ std::size_t n1, n2; std::vector<double*> p; PM(std::size_t a = 0, std::size_t b = 0): n1(a), n2(b), p(a*b, (double*)0){}
	double*& operator()(std::size_t i, std::size_t j){ return p.at(i*n2+j); }
	double* operator()(std::size_t i, std::size_t j) const{ return p.at(i*n2+j); } };
inline PV p_v(Store& S, std::size_t k){ PV r(S.v.at(k).size()); for(std::size_t i = 0; i != r.size(); ++i) r[i] = &S.v[k](i); return r; }
template<class M> inline PM p_mat(M& m){ PM r(m.size1(), m.size2()); for(std::size_t i = 0; i != r.n1; ++i) for(std::size_t j = 0; j != r.n2; ++j) r(i,j) = &m(i,j); return r; }
inline PM p_A(Store& S, std::size_t k){ return p_mat(S.A.at(k)); }
inline PM p_B(Store& S, std::size_t k){ return p_mat(S.B.at(k)); }
inline PV p_tovecA(Store& S, std::size_t k){ return p_A(S,k).p; }
inline PV p_tovecB(Store& S, std::size_t k){ PM m = p_B(S,k); PV r; for(std::size_t j = 0; j != m.n2; ++j) for(std::size_t i = 0; i != m.n1; ++i) r.push_back(m(i,j)); return r; }
inline PV p_range(PV const& a, std::size_t s, std::size_t e){ need(s <= e && e <= a.size(), "p_range"); return PV(a.begin()+s, a.begin()+e); }
inline PV p_row(PM const& m, std::size_t i){ need(i < m.n1, "p_row"); PV r(m.n2); for(std::size_t j = 0; j != m.n2; ++j) r[j] = m(i,j); return r; }
inline PV p_col(PM const& m, std::size_t j){ need(j < m.n2, "p_col"); PV r(m.n1); for(std::size_t i = 0; i != m.n1; ++i) r[i] = m(i,j); return r; }
inline PV p_diag(PM const& m){ need(m.n1 == m.n2, "p_diag"); PV r(m.n1); for(std::size_t i = 0; i != m.n1; ++i) r[i] = m(i,i); return r; }
inline PM p_trans(PM const& m){ PM r(m.n2, m.n1); for(std::size_t i = 0; i != m.n1; ++i) for(std::size_t j = 0; j != m.n2; ++j) r(j,i) = m(i,j); return r; }
inline PM p_mrange(PM const& m, std::size_t s1, std::size_t e1, std::size_t s2, std::size_t e2){
	need(s1 <= e1 && e1 <= m.n1 && s2 <= e2 && e2 <= m.n2, "p_mrange");
	PM r(e1-s1, e2-s2); for(std::size_t i = 0; i != r.n1; ++i) for(std::size_t j = 0; j != r.n2; ++j) r(i,j) = m(s1+i, s2+j); return r; }
inline PM p_rows(PM const& m, std::size_t s, std::size_t e){ return p_mrange(m, s, e, 0, m.n2); }
inline PM p_cols(PM const& m, std::size_t s, std::size_t e){ return p_mrange(m, 0, m.n1, s, e); }

enum Form{ SET, PLUS, MINUS, TIMES, DIVIDE };
inline double applyForm(Form f, double x, double y){
	switch(f){ case SET: return y; case PLUS: return x+y; case MINUS: return x-y; case TIMES: return x*y; default: return x/y; }
}
// expected effect of `target op= rhs` where rhs was evaluated on the OLD store
inline void o_assign(Form f, PV const& t, OV const& e){ need(t.size() == e.size(), "assign-size"); for(std::size_t i = 0; i != t.size(); ++i) *t[i] = applyForm(f, *t[i], e[i]); }
inline void o_assign(Form f, PM const& t, OM const& e){ need(t.n1 == e.n1 && t.n2 == e.n2, "assign-size"); for(std::size_t i = 0; i != t.p.size(); ++i) *t.p[i] = applyForm(f, *t.p[i], e.x[i]); }

// ---------------------------------------------------------------- registry
struct Entry{
	char const* text;                                   // "<form> <target> <expr>" resp. "<kind> <expr>"
	void (*run)(Store&);                                // the real remora statement (0 for reductions)
	void (*expect)(Store const& old, Store& exp);       // oracle: effect on a copy
	double (*red)(Store&);                              // real reduction
	double (*redExpect)(Store const&);                  // oracle reduction
};
std::map<std::size_t, Entry>& registry();
struct Reg{ Reg(std::size_t k, Entry const& e){ registry()[k] = e; } };

inline double o_sum(OV const& v){ double s = 0; for(double x: v) s += x; return s; }
inline double o_max(OV const& v){ need(!v.empty(), "max of empty"); double s = v[0]; for(double x: v) s = f_max(s, x); return s; }
inline double o_min(OV const& v){ need(!v.empty(), "min of empty"); double s = v[0]; for(double x: v) s = f_min(s, x); return s; }
inline double o_inner(OV const& a, OV const& b){ need(a.size() == b.size(), "inner"); double s = 0; for(std::size_t i = 0; i != a.size(); ++i) s += a[i]*b[i]; return s; }
inline double o_frob(OM const& a, OM const& b){ need(a.n1 == b.n1 && a.n2 == b.n2, "frobenius_prod"); double s = 0; for(std::size_t i = 0; i != a.n1; ++i){ double r = 0; for(std::size_t j = 0; j != a.n2; ++j) r += a(i,j)*b(i,j); s += r; } return s; }
inline double o_mnorm1(OM const& m){ need(m.n2 > 0, "norm_1 of a matrix without columns"); return o_max(o_fold(R_NORM1, false, m)); }
inline double o_mnorminf(OM const& m){ need(m.n1 > 0, "norm_inf of a matrix without rows"); return o_max(o_fold(R_NORM1, true, m)); }
inline double o_trace(OM const& m){ need(m.n1 == m.n2, "trace"); double s = 0; for(std::size_t i = 0; i != m.n1; ++i) s += m(i,i); return s; }
}
#endif
