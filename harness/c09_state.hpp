// C09: observation of an LRUCache<T> (size, LRU order, line contents, buffer identities) and the
// accounting part of the property oracle; shared by c09.cpp and c09b.cpp.
#ifndef VERIF_C09_STATE_HPP
#define VERIF_C09_STATE_HPP
#include <shark/LinAlg/LRUCache.h>
#include "common.hpp"
#include <map>
#include <set>

namespace c09 {

template<class T>
std::string showLine(T const* p, std::size_t len){
	std::string s = "[";
	for(std::size_t c = 0; c != len; ++c){ if(c) s += ","; s += vh::intval(p[c]); }
	return s + "]";
}

// Buffer identities: every distinct `data` pointer of a cached line gets the next serial number when
// it is first seen; a pointer no cached line holds any more is forgotten (a later allocation at the
// same address is a new buffer).  At most one buffer is allocated per cache operation, so the serials
// are the allocation counter of the model.  (ASan's quarantine keeps a freed buffer from being handed
// out again within the same operation.)
template<class T>
struct BufferIds{
	std::map<T const*, std::size_t> id; std::size_t next;
	BufferIds(): next(1){}
	void reset(){ id.clear(); next = 1; }
	std::string show(shark::LRUCache<T>& c, std::size_t n){
		std::set<T const*> live;
		std::vector<std::size_t> out(n, 0);
		for(std::size_t i = 0; i != n; ++i) if(c.lineLength(i)){
			T const* p = c.getLinePointer(i);
			live.insert(p);
			if(!id.count(p)) id[p] = next++;
			out[i] = id[p];
		}
		for(typename std::map<T const*, std::size_t>::iterator it = id.begin(); it != id.end(); )
			if(!live.count(it->first)) id.erase(it++); else ++it;
		std::ostringstream os; os << " ids=[";
		for(std::size_t i = 0; i != n; ++i){ if(i) os << ","; os << out[i]; }
		os << "]"; return os.str();
	}
};

template<class T>
std::string showState(shark::LRUCache<T>& c, std::size_t n, BufferIds<T>& ids){
	std::ostringstream os;
	os << "size=" << c.size() << " cached=" << c.cachedLines() << " lru=[";
	for(std::size_t p = 0; p != c.cachedLines(); ++p){ if(p) os << ", "; os << c.listIndex(p); }
	os << "]";
	for(std::size_t i = 0; i != n; ++i)
		os << " " << showLine(c.getLinePointer(i), c.lineLength(i));
	os << ids.show(c, n);
	return os.str();
}

// accounting oracle (independent of the Lean model): size counter = total length, list = cached lines
// (each exactly once), capacity respected, no two lines share a buffer
template<class T>
std::string accounting(shark::LRUCache<T>& c, std::size_t n){
	std::ostringstream os;
	std::size_t total = 0, lines = 0;
	std::set<T const*> bufs; std::set<std::size_t> listed;
	for(std::size_t i = 0; i != n; ++i){
		std::size_t len = c.lineLength(i);
		total += len;
		if(len){ ++lines; if(!bufs.insert(c.getLinePointer(i)).second) os << " !oracle shared-buffer " << i; }
	}
	if(lines == c.cachedLines())
		for(std::size_t p = 0; p != c.cachedLines(); ++p){
			std::size_t i = c.listIndex(p);
			if(i >= n || !c.lineLength(i)) os << " !oracle list-holds-uncached-line " << i;
			if(!listed.insert(i).second) os << " !oracle list-duplicate " << i;
		}
	if(total != c.size()) os << " !oracle size-accounting " << total << "!=" << c.size();
	if(lines != c.cachedLines()) os << " !oracle cached-lines " << lines << "!=" << c.cachedLines();
	if(c.size() > c.maxSize()) os << " !oracle over-capacity " << c.size() << ">" << c.maxSize();
	return os.str();
}

// the clause "the two most recently requested rows stay valid while a third is fetched if capacity
// allows", as a statement about POINTERS: remembered before the fetch, compared after it
template<class T>
struct RecentRows{
	long recent[2]; T const* rp[2]; std::size_t rl[2]; bool must; T const* self; // self: buffer of the requested row if it is long enough already
	RecentRows(){ forget(); }
	void forget(){ recent[0] = recent[1] = -1; must = false; }
	void before(shark::LRUCache<T>& c, std::size_t k, std::size_t stop){
		must = false;
		self = (c.lineLength(k) && c.lineLength(k) >= stop) ? c.getLinePointer(k) : 0;
		bool third = recent[0] >= 0 && recent[1] >= 0 && (long)k != recent[0] && (long)k != recent[1] && recent[0] != recent[1];
		if(!third) return;
		for(int q = 0; q != 2; ++q){ rp[q] = c.getLinePointer(recent[q]); rl[q] = c.lineLength(recent[q]); }
		if(rl[0] && rl[1] && rl[0] + rl[1] + stop <= c.maxSize()) must = true;
	}
	std::string after(shark::LRUCache<T>& c, std::size_t k){
		std::string r;
		// a row that is cached long enough is returned as the same buffer (a pointer handed out earlier stays valid)
		if(self && c.getLinePointer(k) != self) r = "!oracle cached-row-reallocated ";
		if(must) for(int q = 0; q != 2; ++q)
			if(c.lineLength(recent[q]) != rl[q] || c.getLinePointer(recent[q]) != rp[q]) r = "!oracle recent-row-invalidated ";
		if((long)k != recent[0]){ recent[1] = recent[0]; recent[0] = (long)k; }
		return r;
	}
};
}
#endif
