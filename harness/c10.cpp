// K-C10: correspondence harness for Shark's gradient-based optimizers.
// One op per input line, one observation line per op (protocol of lean/Driver/C10.lean).
//
//   obj quad <n> <A row-major n*n> <b n>     f(x) = sum_i x_i*(0.5*(Ax)_i - b_i), grad = Ax - b
//   obj rosen <n>                            generalised Rosenbrock
//   box <l n> <u n>                          add a BoxConstraintHandler
//   opt sd <lr> <mom> | adam <eta> <b1> <b2> <eps> | rprop <inc> <dec> <max> <min> <fr> <bt> <ov> <initDelta>
//       bfgs <ls> [minI maxI] | cg <ls> [minI maxI] | lbfgs <ls> <hist> [minI maxI] | trn [delta0 minImprovementRatio]
//       ls: 0 dlinmin 1 wolfecubic 2 backtracking; minI/maxI = LineSearch::minInterval()/maxInterval() (initial bracket of dlinmin)
//   init <x0 n>                             (a second `init` re-initialises the used instance; its twin becomes a fresh one)
//   step
//   ls <type> <t0> <x n> <d n>             one direct line search from x along d (any direction, also ascent / zero)
//   save text|bin strict|lenient            write the optimizer, read into a fresh instance, continue with it
//   converged <tol>                         convergence oracle: projected-gradient (KKT) residual of the (box-constrained) problem
//   boxdir <m> <bdiag> <x n> <g n> <l n> <u n> <S m*n> <Y m*n>
//                                           one direct call of LBFGS::getBoxConstrainedDirection on an L-BFGS object whose state
//                                           (point, gradient, history pairs, bdiag) is injected; oracle: finite, feasible, blocked
//                                           coordinates stay, descent and NON-ZERO whenever the projected gradient is non-zero
//
// numbers are IEEE-754 bit patterns "x<16 hex digits>".
// The harness keeps an uninterrupted twin of the optimizer (never saved/restored) and contains the
// independent property oracle: value == f(point) bit for bit, finiteness, feasibility, monotonicity
// of the line-search methods, restored instance == twin.
#include <shark/Algorithms/GradientDescent/SteepestDescent.h>
#include <shark/Algorithms/GradientDescent/Adam.h>
#include <shark/Algorithms/GradientDescent/Rprop.h>
#include <shark/Algorithms/GradientDescent/BFGS.h>
#include <shark/Algorithms/GradientDescent/CG.h>
#include <shark/Algorithms/GradientDescent/TrustRegionNewton.h>
#include <shark/ObjectiveFunctions/BoxConstraintHandler.h>
#define private public
#include <shark/Algorithms/GradientDescent/LBFGS.h>
#undef private
#include <boost/archive/polymorphic_binary_iarchive.hpp>
#include <boost/archive/polymorphic_binary_oarchive.hpp>
#include "common.hpp"
#include <cfenv>
#include <exception>
#include <cstring>
#include <memory>

using namespace shark;

static double bits2d(std::string const& t){
	if(t.size() != 17 || t[0] != 'x') throw std::runtime_error("bad number " + t);
	std::uint64_t b = std::stoull(t.substr(1), nullptr, 16);
	double d; std::memcpy(&d, &b, 8); return d;
}
static std::string showVec(RealVector const& v){
	std::string s = "[";
	for(std::size_t i = 0; i != v.size(); ++i){ if(i) s += ","; s += vh::exactDouble(v(i)); }
	return s + "]";
}
static std::string hexd(double d){
	std::uint64_t b; std::memcpy(&b, &d, 8); char buf[24]; std::snprintf(buf, sizeof buf, "x%016llx", (unsigned long long)b); return buf;
}
static std::string hexVec(RealVector const& v){
	std::string s; for(std::size_t i = 0; i != v.size(); ++i){ s += ","; s += hexd(v(i)); } return s;
}
static bool sameBits(double a, double b){ return std::memcmp(&a, &b, 8) == 0 || (a == 0 && b == 0); }
static bool sameVec(RealVector const& a, RealVector const& b){
	if(a.size() != b.size()) return false;
	for(std::size_t i = 0; i != a.size(); ++i) if(!sameBits(a(i), b(i))) return false;
	return true;
}

// objective family with a fixed, plain operation order (mirrored by the Lean driver)
struct Obj: public SingleObjectiveFunction{
	int kind; std::size_t n; std::vector<double> A, b;
	BoxConstraintHandler<RealVector> handler; bool boxed; RealVector lo, hi;
	Obj(): kind(0), n(0), boxed(false){
		m_features |= HAS_VALUE; m_features |= HAS_FIRST_DERIVATIVE; m_features |= HAS_SECOND_DERIVATIVE;
		m_constraintHandler = nullptr;
	}
	std::string name() const{ return "verif-objective"; }
	std::size_t numberOfVariables() const{ return n; }
	void setBox(RealVector const& l, RealVector const& u){
		handler.setBounds(l, u); announceConstraintHandler(&handler); boxed = true; lo = l; hi = u;
	}
	// independent feasibility oracle: plain comparisons with the bounds handed to `box` (slack 2e-13, i.e. that of
	// BoxConstraintHandler::isFeasible plus rounding), not the handler's own isFeasible
	bool inBox(RealVector const& x) const{
		if(!boxed) return true;
		for(std::size_t i = 0; i != n; ++i) if(!(x(i) >= lo(i) - 2e-13 && x(i) <= hi(i) + 2e-13)) return false;
		return true;
	}
	double both(RealVector const& x, RealVector* g) const{
		if(g){ g->resize(n); for(std::size_t i = 0; i != n; ++i) (*g)(i) = 0.0; }
		double v = 0.0;
		if(kind == 0){
			for(std::size_t i = 0; i != n; ++i){
				double r = 0.0;
				for(std::size_t j = 0; j != n; ++j) r = r + A[i*n+j] * x(j);
				if(g) (*g)(i) = r - b[i];
				v = v + x(i) * (0.5 * r - b[i]);
			}
		}else{
			for(std::size_t i = 0; i + 1 < n; ++i){
				double a = x(i+1) - x(i) * x(i);
				double c = 1.0 - x(i);
				v = v + (100.0 * (a * a) + c * c);
				if(g){
					(*g)(i) = (*g)(i) + ((-400.0) * (a * x(i)) - 2.0 * c);
					(*g)(i+1) = (*g)(i+1) + 200.0 * a;
				}
			}
		}
		return v;
	}
	double eval(RealVector const& x) const{ ++m_evaluationCounter; return both(x, nullptr); }
	double evalDerivative(RealVector const& x, FirstOrderDerivative& g) const{ return both(x, &g); }
	double evalDerivative(RealVector const& x, SecondOrderDerivative& d) const{
		double v = both(x, &d.gradient);
		d.hessian.resize(n, n);
		for(std::size_t i = 0; i != n; ++i) for(std::size_t j = 0; j != n; ++j) d.hessian(i,j) = 0.0;
		if(kind == 0){
			for(std::size_t i = 0; i != n; ++i) for(std::size_t j = 0; j != n; ++j) d.hessian(i,j) = A[i*n+j];
		}else{
			for(std::size_t i = 0; i + 1 < n; ++i){
				double a = x(i+1) - x(i) * x(i);
				d.hessian(i,i) += -400.0 * a + 800.0 * x(i) * x(i) + 2.0;
				d.hessian(i,i+1) += -400.0 * x(i);
				d.hessian(i+1,i) += -400.0 * x(i);
				d.hessian(i+1,i+1) += 200.0;
			}
		}
		return v;
	}
};

typedef AbstractSingleObjectiveOptimizer<RealVector> OptBase;

struct Config{
	std::string kind; std::vector<double> p;
};

// probes exposing protected state of the line-search optimizers
template<class B> struct LSProbe: public B{
	void injectPoint(RealVector const& x, RealVector const& g){
		this->m_dimension = x.size(); this->m_best.point = x; this->m_best.value = 0; this->m_derivative = g;
	}
	std::string base() const{
		// flat machine-readable state: dim, point, value, g, d, lastPoint, lastDerivative, lastValue, initialStepLength, model...
		std::ostringstream os;
		os << " st=" << this->m_dimension << hexVec(this->m_best.point) << "," << hexd(this->m_best.value) << hexVec(this->m_derivative) << hexVec(this->m_searchDirection)
		   << hexVec(this->m_lastPoint) << hexVec(this->m_lastDerivative)
		   << "," << hexd(this->m_lastValue) << "," << hexd(this->m_initialStepLength);
		return os.str();
	}
};
struct BFGSProbe: public LSProbe<BFGS<RealVector> >{ RealMatrix const& hessian() const{ return m_hessian; } };
struct CGProbe: public LSProbe<CG<RealVector> >{ unsigned count() const{ return m_count; } };
// TrustRegionNewton::init(ObjectiveFunctionType&, SearchPointType const&) takes a NON-const objective and
// therefore does not override the pure virtual init(ObjectiveFunctionType const&, SearchPointType const&):
// the class is abstract as shipped (finding F8d, checked by harness/c10_trn.cpp).  The probe supplies the override.
struct TRNProbe: public TrustRegionNewton{
	using TrustRegionNewton::init;
	void init(ObjectiveFunctionType const& f, SearchPointType const& x){ TrustRegionNewton::init(f, x, 0.1); }
};
struct Wrap{
	virtual ~Wrap(){}
	virtual OptBase& o() = 0;
	virtual std::string extra(bool afterInitOnly){ return ""; }
	void* mem;
};
template<class T> struct WrapT: public Wrap{
	T* p;
	explicit WrapT(bool poison){
		// a "fresh instance": constructed in memory pre-filled with 0xFF so that members the
		// constructor (and later read()) leaves indeterminate are visible as NaN / huge values
		mem = ::operator new(sizeof(T));
		std::memset(mem, poison ? 0xFF : 0x00, sizeof(T));
		p = new(mem) T();
	}
	~WrapT(){ p->~T(); ::operator delete(mem); }
	OptBase& o(){ return *p; }
};
struct WrapBFGS: public WrapT<BFGSProbe>{
	explicit WrapBFGS(bool poison): WrapT<BFGSProbe>(poison){}
	std::string extra(bool){
		std::ostringstream os; os << p->base();
		RealMatrix const& H = p->hessian();
		for(std::size_t i = 0; i != H.size1(); ++i){
			RealVector r = row(H, i);
			os << hexVec(r);
		}
		return os.str();
	}
};
struct WrapCG: public WrapT<CGProbe>{
	explicit WrapCG(bool poison): WrapT<CGProbe>(poison){}
	std::string extra(bool){ std::ostringstream os; os << p->base() << "," << hexd((double)p->count()); return os.str(); }
};
struct WrapLBFGS: public WrapT<LSProbe<LBFGS<RealVector> > >{
	explicit WrapLBFGS(bool poison): WrapT<LSProbe<LBFGS<RealVector> > >(poison){}
	std::string extra(bool){
		std::ostringstream os; os << p->base() << "," << hexd(p->m_bdiag) << "," << hexd((double)p->m_steps.size());
		for(std::size_t i = 0; i != p->m_steps.size(); ++i) os << hexVec(p->m_steps[i]);
		for(std::size_t i = 0; i != p->m_gradientDifferences.size(); ++i) os << hexVec(p->m_gradientDifferences[i]);
		return os.str();
	}
};

// trust-region Newton: flat state  n, point, value, gradient, delta, minImprovementRatio, hessian (row-major)
struct TRNProbe2: public TRNProbe{
	std::string state() const{
		std::ostringstream os;
		os << " st=" << m_best.point.size() << hexVec(m_best.point) << "," << hexd(m_best.value) << hexVec(m_derivatives.gradient)
		   << "," << hexd(m_delta) << "," << hexd(m_minImprovementRatio);
		for(std::size_t i = 0; i != m_derivatives.hessian.size1(); ++i){ RealVector r = row(m_derivatives.hessian, i); os << hexVec(r); }
		return os.str();
	}
};
struct WrapTRN: public WrapT<TRNProbe2>{
	explicit WrapTRN(bool poison): WrapT<TRNProbe2>(poison){}
	std::string extra(bool){ return p->state(); }
};
static LineSearchType lsType(double v){
	return v == 0 ? LineSearchType::Dlinmin : (v == 1 ? LineSearchType::WolfeCubic : LineSearchType::Backtracking);
}

// line-search configuration: type + (optional) initial bracket [minInterval, maxInterval] of dlinmin
static void configLS(LineSearch<RealVector>& ls, Config const& c, std::size_t at){
	ls.lineSearchType() = lsType(c.p[0]);
	if(c.p.size() >= at + 2){ ls.minInterval() = c.p[at]; ls.maxInterval() = c.p[at+1]; }
}
// construct + configure (configuration = what a user sets before init and what is NOT state)
static Wrap* make(Config const& c, bool poison, bool configure){
	if(c.kind == "sd"){
		WrapT<SteepestDescent<RealVector> >* w = new WrapT<SteepestDescent<RealVector> >(poison);
		if(configure){ w->p->setLearningRate(c.p[0]); w->p->setMomentum(c.p[1]); }
		return w;
	}
	if(c.kind == "adam"){
		WrapT<Adam<RealVector> >* w = new WrapT<Adam<RealVector> >(poison);
		if(configure){ w->p->setEta(c.p[0]); w->p->setBeta1(c.p[1]); w->p->setBeta2(c.p[2]); w->p->setEpsilon(c.p[3]); }
		return w;
	}
	if(c.kind == "rprop"){
		WrapT<Rprop<RealVector> >* w = new WrapT<Rprop<RealVector> >(poison);
		if(configure){ w->p->setEtaPlus(c.p[0]); w->p->setEtaMinus(c.p[1]); w->p->setMaxDelta(c.p[2]); w->p->setMinDelta(c.p[3]); }
		// the variant flags are configuration (never archived): always set
		w->p->setUseFreezing(c.p[4] != 0); w->p->setUseBacktracking(c.p[5] != 0); w->p->setUseOldValue(c.p[6] != 0);
		return w;
	}
	if(c.kind == "bfgs"){ WrapBFGS* w = new WrapBFGS(poison); if(configure) configLS(w->p->lineSearch(), c, 1); return w; }
	if(c.kind == "cg"){ WrapCG* w = new WrapCG(poison); if(configure) configLS(w->p->lineSearch(), c, 1); return w; }
	if(c.kind == "lbfgs"){
		WrapLBFGS* w = new WrapLBFGS(poison);
		if(configure){ configLS(w->p->lineSearch(), c, 2); w->p->setHistCount((unsigned)c.p[1]); }
		return w;
	}
	if(c.kind == "trn") return new WrapTRN(poison);
	throw std::runtime_error("unknown optimizer " + c.kind);
}
static void doInit(Wrap& w, Config const& c, Obj const& f, RealVector const& x0){
	if(c.kind == "rprop") static_cast<WrapT<Rprop<RealVector> >&>(w).p->init(f, x0, c.p[7]);
	else if(c.kind == "trn"){
		// configuration axes of TrustRegionNewton: initial trust-region radius (argument of init) and
		// minImprovementRatio() (reset by init, so it is set after it)
		TRNProbe* t = static_cast<WrapTRN&>(w).p;
		t->TrustRegionNewton::init(f, x0, c.p.size() >= 1 ? c.p[0] : 0.1);
		if(c.p.size() >= 2) t->minImprovementRatio() = c.p[1];
	}
	else w.o().init(f, x0);
}
static bool isLineSearch(Config const& c){ return c.kind == "bfgs" || c.kind == "cg" || c.kind == "lbfgs"; }

// diagnosis for the known finding F-C10-12 (the dog-leg stage of getBoxConstrainedDirection ignores a bound at distance
// exactly 0): with the harness' own active set, is there a movable coordinate whose Cauchy point x + p0/(p0'Bp0) sits
// exactly on a bound?  (p0, blocked, pgzero are outputs)
static bool cauchyTouchesBound(LSProbe<LBFGS<RealVector> >& o, RealVector const& x, RealVector const& g, RealVector const& l, RealVector const& u,
		RealVector& p0, std::vector<bool>& blocked, bool& pgzero, RealVector& bi, RealVector& bp){
	std::size_t n = x.size();
	p0.resize(n); blocked.assign(n, false); pgzero = true;
	for(std::size_t k = 0; k != n; ++k){
		double p = -g(k);
		blocked[k] = (x(k) - 1e-13 < l(k) && p < 0) || (x(k) + 1e-13 > u(k) && p > 0);
		p0(k) = blocked[k] ? 0.0 : p;
		if(p0(k) != 0) pgzero = false;
	}
	bi = p0; bp = p0;
	o.multBInv(bi); o.multB(bp);
	if(pgzero) return false;
	RealVector cau = p0 / inner_prod(p0, bp);
	for(std::size_t k = 0; k != n; ++k)
		if(!blocked[k] && (x(k) + cau(k) == l(k) || x(k) + cau(k) == u(k))) return true;
	return false;
}
// fills the part of the stack the next call will use with the double -1e300, so that a read of an uninitialised local
// (e.g. the bracket arrays of wolfecubic when its bracketing loop runs out of iterations) has a visible effect
// instead of depending on what happens to be there
static void __attribute__((noinline)) poisonStack(){
	volatile double a[8192];
	for(std::size_t i = 0; i != 8192; ++i) a[i] = -1e300;
	asm volatile("" : : "r"(a) : "memory");
}
// diagnosis for finding F-C10-16: would the bracketing loop of wolfecubic run through all its 25 tenfold expansions
// without ever leaving through a `break` (every trial point decreases sufficiently, has a negative slope and fails
// the curvature test)?  Then the C++ reads its never-assigned bracket arrays.  Re-computed here from the objective.
static bool wolfeBracketExhausts(Obj const& f, RealVector const& p, RealVector const& d, double value, RealVector const& g, double t){
	double gtd = 0; for(std::size_t k = 0; k != p.size(); ++k) gtd += g(k) * d(k);
	double fPrev = value;
	for(unsigned iter = 1; iter <= 25; ++iter){
		RealVector x(p.size()), gn; for(std::size_t k = 0; k != p.size(); ++k) x(k) = p(k) + t * d(k);
		double fNew = f.both(x, &gn);
		double gtdNew = 0; for(std::size_t k = 0; k != p.size(); ++k) gtdNew += gn(k) * d(k);
		if(fNew > value + 1e-4 * t * gtd || (iter > 1 && fNew >= fPrev)) return false;
		if(std::fabs(gtdNew) <= -0.9 * gtd) return false;
		if(gtdNew >= 0) return false;
		fPrev = fNew; t *= 10;
	}
	return true;
}
static double g_lastDecrease = 0;   // value decrease of the most recent `step` (for the convergence diagnosis)

int main(){
	std::unique_ptr<Obj> f(new Obj());
	Config cfg; std::unique_ptr<Wrap> cur, twin; bool inited = false;
	RealVector x0;
	std::string line;
	while(std::getline(std::cin, line)){
		std::vector<std::string> t = vh::tokens(line);
		std::ostringstream out;
		try{
			if(t.empty()){ std::cout << "\n"; continue; }
			if(t[0] == "obj"){
				cur.reset(); twin.reset(); f.reset(new Obj());
				f->kind = t.at(1) == "quad" ? 0 : 1;
				f->n = std::stoul(t.at(2));
				if(f->kind == 0){
					if(t.size() != 3 + f->n * f->n + f->n) throw std::runtime_error("bad-op");
					for(std::size_t k = 0; k != f->n * f->n; ++k) f->A.push_back(bits2d(t[3+k]));
					for(std::size_t k = 0; k != f->n; ++k) f->b.push_back(bits2d(t[3 + f->n*f->n + k]));
				}
				out << "ok";
			}else if(t[0] == "box"){
				std::size_t n = f->n;
				if(t.size() != 1 + 2*n) throw std::runtime_error("bad-op");
				RealVector l(n), u(n);
				for(std::size_t k = 0; k != n; ++k){ l(k) = bits2d(t[1+k]); u(k) = bits2d(t[1+n+k]); }
				f->setBox(l, u);
				out << "ok";
			}else if(t[0] == "opt"){
				cfg.kind = t.at(1); cfg.p.clear();
				for(std::size_t k = 2; k < t.size(); ++k) cfg.p.push_back(bits2d(t[k]));
				cur.reset(make(cfg, false, true)); twin.reset(make(cfg, false, true)); inited = false;
				out << "ok";
			}else if(t[0] == "init" || t[0] == "step"){
				if(!cur) throw std::runtime_error("bad-op");
				bool init = t[0] == "init";
				double before = init ? 0 : cur->o().solution().value;
				int ex = 0;
				if(init){
					if(t.size() != 1 + f->n) throw std::runtime_error("bad-op");
					x0.resize(f->n);
					for(std::size_t k = 0; k != f->n; ++k) x0(k) = bits2d(t[1+k]);
					// re-initialisation of a USED instance (second `init` of a case): the twin is replaced by a brand-new,
					// identically configured instance, so every later step compares "re-initialised" with "fresh"
					// (init must reset all state: step sizes, moments, counters, history, Hessian approximation)
					if(inited) twin.reset(make(cfg, false, true));
					doInit(*twin, cfg, *f, x0);
					std::feclearexcept(FE_ALL_EXCEPT);
					doInit(*cur, cfg, *f, x0);
					inited = true;
					ex = std::fetestexcept(FE_INEXACT) ? 0 : 1;
				}else{
					// (the instance under test first: if it throws, the diagnosis below looks at ITS half-updated state)
					// both instances are stepped whatever happens, so that they stay in lockstep after an exception
					std::exception_ptr curErr;
					std::feclearexcept(FE_ALL_EXCEPT);
					poisonStack();
					try{ cur->o().step(*f); }catch(...){ curErr = std::current_exception(); }
					ex = std::fetestexcept(FE_INEXACT) ? 0 : 1;
					try{ twin->o().step(*f); }catch(...){}
					if(curErr) std::rethrow_exception(curErr);
				}
				RealVector const& pt = cur->o().solution().point;
				double val = cur->o().solution().value;
				out << "pt=" << showVec(pt) << " val=" << vh::exactDouble(val) << cur->extra(init);
				if(!init && f->boxed && cfg.kind == "lbfgs"){
					// p0, multBInv(p0), multB(p0) of the real code at the new point: inputs of the model of getBoxConstrainedDirection
					WrapLBFGS* wl = static_cast<WrapLBFGS*>(cur.get());
					RealVector p0, bi, bp, gg; std::vector<bool> blocked; bool pgzero;
					f->both(pt, &gg);
					cauchyTouchesBound(*wl->p, pt, gg, f->lo, f->hi, p0, blocked, pgzero, bi, bp);
					std::string h = hexVec(p0) + hexVec(bi) + hexVec(bp);
					out << " bx=" << h.substr(1);
				}
				out << " #ex=" << ex;
				// ---- independent property oracle ----
				bool finite = std::isfinite(val);
				for(std::size_t i = 0; i != pt.size(); ++i) finite = finite && std::isfinite(pt(i));
				if(!finite) out << " !oracle non-finite";
				double re = f->both(pt, nullptr);
				if(finite && !sameBits(re, val)) out << " !oracle value-not-f-of-point " << vh::exactDouble(re);
				if(f->boxed && (!f->isFeasible(pt) || !f->inBox(pt))) out << " !oracle infeasible";
				if(!init) g_lastDecrease = before - val;
				if(!init && (isLineSearch(cfg) || cfg.kind == "trn") && finite && !(val <= before))
					out << " !oracle increased";
				if(!sameVec(pt, twin->o().solution().point) || !sameBits(val, twin->o().solution().value))
					out << " !oracle resume-diverged";
			}else if(t[0] == "ls"){
				// direct call of LineSearch::operator() from an arbitrary point along an arbitrary direction
				std::size_t n = f->n;
				if(t.size() != 3 + 2*n) throw std::runtime_error("bad-op");
				double type = bits2d(t.at(1)), t0 = bits2d(t.at(2));
				RealVector p(n), d(n), g;
				for(std::size_t k = 0; k != n; ++k){ p(k) = bits2d(t[3+k]); d(k) = bits2d(t[3+n+k]); }
				double v = f->both(p, &g);
				double gtd = 0; for(std::size_t k = 0; k != n; ++k) gtd += g(k) * d(k);
				RealVector p0 = p, g0 = g; double v0 = v;
				LineSearch<RealVector> ls; ls.lineSearchType() = lsType(type); ls.init(*f);
				poisonStack();
				ls(p, v, d, g, t0);
				out << "ls pt=" << showVec(p) << " val=" << vh::exactDouble(v) << " st=" << n << hexVec(p) << "," << hexd(v) << hexVec(g);
				bool finite = std::isfinite(v);
				for(std::size_t k = 0; k != n; ++k) finite = finite && std::isfinite(p(k));
				RealVector gre; double re = finite ? f->both(p, &gre) : 0.0;
				std::ostringstream orc;
				if(!finite) orc << " !oracle ls-non-finite";
				if(finite && !sameBits(re, v)) orc << " !oracle ls-value-not-f-of-point";
				if(finite && !sameVec(gre, g)) orc << " !oracle ls-gradient-not-grad-of-point";
				if(finite && gtd <= 0 && !(v <= v0)) orc << " !oracle ls-increased";
				if(sameVec(p, p0) && (!sameBits(v, v0) || !sameVec(g, g0))) orc << " !oracle ls-unchanged-point-changed-state";
				// known finding F-C10-16: any of the above in a call whose bracketing loop provably never assigns the bracket
				if(!orc.str().empty() && type == 1 && wolfeBracketExhausts(*f, p0, d, v0, g0, t0))
					out << " !oracle ls-wolfecubic-uninitialised-bracket";
				else out << orc.str();
			}else if(t[0] == "converged"){
				// numerical convergence oracle (strictly convex quadratics): the KKT residual of the (box-constrained) problem,
				//   r_i = x_i - clamp(x_i - g_i, l_i, u_i)      (= g_i without a box),
				// which vanishes exactly at the unique minimiser over the box, must satisfy ||r||_inf <= tol * (1 + ||b||_inf)
				if(!cur) throw std::runtime_error("bad-op");
				double tol = bits2d(t.at(1));
				RealVector const& x = cur->o().solution().point;
				RealVector g; f->both(x, &g);
				double gn = 0, bn = 0; bool outside = false;
				for(std::size_t i = 0; i != g.size(); ++i){
					double r = g(i);
					if(f->boxed){
						double y = std::min(std::max(x(i) - g(i), f->lo(i)), f->hi(i));
						r = x(i) - y;
						if(x(i) < f->lo(i) || x(i) > f->hi(i)) outside = true;
					}
					gn = std::max(gn, std::fabs(r));
				}
				for(std::size_t i = 0; i != f->b.size(); ++i) bn = std::max(bn, std::fabs(f->b[i]));
				bool okc = gn <= tol * (1 + bn);
				out << "conv=" << (okc ? 1 : 0);
				// `slack-outside`: the final point lies outside [l,u] by less than the slack of isFeasible (finding F11 family)
				// diagnosis of a failure: `slack-outside` = the final point lies outside [l,u] by less than the slack of isFeasible
				// (finding F-C10-13); `still-descending-large-gradient` = the last step still decreased the value and the
				// projected gradient has norm^2 > 4 (finding F-C10-14: Cauchy step too short by the factor |p0|^2); `frozen` = the
				// last step did not change the value
				// `frozen-near-bound` = frozen, and a movable variable is heading for a bound that is closer than 1e-9 (but not
				// within the 1e-13 of the active-set rule): the step is clipped to that distance and is too short for the line
				// search to see a decrease (finding F-C10-15)
				double pg2 = 0; bool nearBound = false;
				for(std::size_t i = 0; i != g.size(); ++i){
					bool blk = f->boxed && ((x(i) - 1e-13 < f->lo(i) && g(i) > 0) || (x(i) + 1e-13 > f->hi(i) && g(i) < 0));
					if(!blk) pg2 += g(i) * g(i);
					if(f->boxed && !blk && g(i) > 0 && x(i) - f->lo(i) <= 1e-9) nearBound = true;
					if(f->boxed && !blk && g(i) < 0 && f->hi(i) - x(i) <= 1e-9) nearBound = true;
				}
				if(!okc) out << " !oracle not-converged" << (outside ? "-slack-outside " : (g_lastDecrease > 0 ? (pg2 > 4 ? "-still-descending-large-gradient " : "-still-descending ") : (nearBound ? "-frozen-near-bound " : "-frozen "))) << gn;
			}else if(t[0] == "boxdir"){
				std::size_t n = f->n;
				std::size_t m = std::stoul(t.at(1));
				if(t.size() != 3 + 4*n + 2*m*n) throw std::runtime_error("bad-op");
				std::size_t at = 2;
				double bdiag = bits2d(t.at(at++));
				RealVector x(n), g(n), l(n), u(n);
				for(std::size_t k = 0; k != n; ++k) x(k) = bits2d(t[at++]);
				for(std::size_t k = 0; k != n; ++k) g(k) = bits2d(t[at++]);
				for(std::size_t k = 0; k != n; ++k) l(k) = bits2d(t[at++]);
				for(std::size_t k = 0; k != n; ++k) u(k) = bits2d(t[at++]);
				WrapLBFGS w(false);
				w.p->setHistCount((unsigned)std::max<std::size_t>(m, 1));
				w.p->injectPoint(x, g);
				w.p->m_bdiag = bdiag; w.p->m_updThres = 1e-10;
				for(std::size_t j = 0; j != m; ++j){ RealVector s(n); for(std::size_t k = 0; k != n; ++k) s(k) = bits2d(t[at++]); w.p->m_steps.push_back(s); }
				for(std::size_t j = 0; j != m; ++j){ RealVector y(n); for(std::size_t k = 0; k != n; ++k) y(k) = bits2d(t[at++]); w.p->m_gradientDifferences.push_back(y); }
				RealVector dir(n, 0.0);
				w.p->getBoxConstrainedDirection(dir, l, u);
				// the harness' own active set / projected gradient (definition of the class comment: a variable is blocked
				// when it sits on (within 1e-13 of) a bound and -g points outward)
				RealVector p0, bi, bp; std::vector<bool> blocked; bool pgzero;
				bool touching = cauchyTouchesBound(*w.p, x, g, l, u, p0, blocked, pgzero, bi, bp);
				out << "bd dir=" << showVec(dir) << " st=" << n << hexVec(dir) << hexVec(p0) << hexVec(bi) << hexVec(bp);
				bool finite = true; bool zero = true; double gtd = 0;
				for(std::size_t k = 0; k != n; ++k){ finite = finite && std::isfinite(dir(k)); zero = zero && dir(k) == 0; gtd += g(k) * dir(k); }
				if(!finite) out << " !oracle boxdir-non-finite";
				else{
					for(std::size_t k = 0; k != n; ++k){
						if(!(x(k) + dir(k) >= l(k) - 2e-13 && x(k) + dir(k) <= u(k) + 2e-13)){
							out << " !oracle boxdir-infeasible" << (touching ? "-cauchy-point-touches-bound " : " ") << k; break;
						}
					}
					for(std::size_t k = 0; k != n; ++k) if(blocked[k] && dir(k) != 0){ out << " !oracle boxdir-moves-blocked-coordinate " << k; break; }
					if(pgzero && !zero) out << " !oracle boxdir-moves-at-stationary-point";
					if(!pgzero && zero) out << " !oracle boxdir-zero-direction";
					if(!pgzero && !zero && !(gtd < 0)) out << " !oracle boxdir-not-descent";
				}
			}else if(t[0] == "save"){
				if(!cur) throw std::runtime_error("bad-op");
				bool text = t.at(1) == "text", strict = t.at(2) == "strict";
				std::stringstream ss(std::ios::in | std::ios::out | std::ios::binary);
				if(text){ TextOutArchive oa(ss); cur->o().write(oa); }
				else{ boost::archive::polymorphic_binary_oarchive oa(ss); cur->o().write(oa); }
				std::unique_ptr<Wrap> fresh(make(cfg, true, false));
				if(!strict) doInit(*fresh, cfg, *f, x0);
				if(text){ TextInArchive ia(ss); fresh->o().read(ia); }
				else{ boost::archive::polymorphic_binary_iarchive ia(ss); fresh->o().read(ia); }
				cur = std::move(fresh);
				out << "saved";
			}else throw std::runtime_error("bad-op");
		}catch(std::exception const& e){
			std::string w = e.what();
			out.str(""); out << (w == "bad-op" ? "bad-op" : "exception");
			for(char& ch: w) if(ch == '\n' || ch == '\r') ch = ' ';
			if(w != "bad-op") out << " !oracle exception " << w.substr(0, 120);
			if(w != "bad-op" && cur && f->boxed && !t.empty() && t[0] == "step"){
				// where was the optimizer when it threw: exactly inside [l,u], or outside by less than the slack of isFeasible?
				RealVector const& pt = cur->o().solution().point; bool inside = pt.size() == f->n;
				for(std::size_t i = 0; inside && i != f->n; ++i) inside = pt(i) >= f->lo(i) && pt(i) <= f->hi(i);
				out << (inside ? " [point-exactly-in-box]" : " [point-outside-by-slack]");
				if(inside && cfg.kind == "lbfgs"){
					WrapLBFGS* wl = static_cast<WrapLBFGS*>(cur.get());
					RealVector p0, bi, bp, g; std::vector<bool> blocked; bool pgzero;
					f->both(pt, &g);
					out << (cauchyTouchesBound(*wl->p, pt, g, f->lo, f->hi, p0, blocked, pgzero, bi, bp) ? " [cauchy-point-touches-bound]" : " [no-touching]");
					out << " state:" << cur->extra(false);   // the half-updated state, for replaying the direction computation
				}
			}
		}
		std::cout << out.str() << "\n";
	}
	return 0;
}
