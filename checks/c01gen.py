"""K-C01 program generator: typed remora statements rendered three ways
(remora C++, naive-loop oracle C++, s-expression op text for the Lean driver).

Every random choice comes from the SplitMix64 stream handed in.  Values are small
integers / dyadic rationals and every statement is checked against a magnitude
bound so that all double arithmetic is exact (exact-mode comparison).
"""

from checks.c01cls import Unsupported, DENSE, Api

SHAPES = [0, 1, 2, 3, 5, 8, 17]
MAXBITS = 46


class E:
    """expression node"""
    __slots__ = ("kind", "shape", "txt", "cpp", "orc", "bound", "dexp", "reads", "cls", "place", "porc",
                 "elementwise", "depth", "ops")

    def __init__(self, kind, shape, txt, cpp, orc, bound, dexp=0, reads=(), cls="dense", place=False, porc=None,
                 elementwise=True, depth=0, ops=()):
        self.kind, self.shape, self.txt, self.cpp, self.orc = kind, shape, txt, cpp, orc
        self.bound, self.dexp, self.reads, self.cls = bound, dexp, frozenset(reads), cls
        self.place, self.porc, self.elementwise, self.depth = place, porc, elementwise, depth
        self.ops = tuple(ops)

    def bits(self):
        return max(1, int(self.bound)).bit_length() + self.dexp


class Var:
    def __init__(self, kind, idx, shape, divisor=False):
        self.kind, self.idx, self.shape, self.divisor = kind, idx, shape, divisor
        self.bound, self.dexp = (4, 0)
        self.values = []

    @property
    def name(self):
        return f"{self.kind}{self.idx}"

    def expr(self):
        k = self.idx
        if self.kind == "s":
            return E("V", self.shape, f"(s {k})", f"S.s[{k}]", f"o_s(S,{k})", self.bound, 0, [self.name],
                     cls=DENSE, place=False, ops=("sparse",))
        if self.kind == "C":
            return E("M", self.shape, f"(C {k})", f"S.C[{k}]", f"o_C(S,{k})", self.bound, 0, [self.name],
                     cls=DENSE, place=False, ops=("sparse",))
        if self.kind == "v":
            return E("V", self.shape, f"(v {k})", f"S.v[{k}]", f"o_v(S,{k})", self.bound, self.dexp, [self.name],
                     cls=DENSE, place=True, porc=f"p_v(X,{k})")
        return E("M", self.shape, f"({self.kind} {k})", f"S.{self.kind}[{k}]", f"o_{self.kind}(S,{k})",
                 self.bound, self.dexp, [self.name], cls=DENSE, place=True,
                 porc=f"p_{self.kind}(X,{k})")


def cnum(c):
    """C++ double literal of an integer / dyadic constant"""
    if isinstance(c, int):
        return f"{c}.0" if c >= 0 else f"({c}.0)"
    num, den = c
    return f"({num}.0/{den}.0)"


def tnum(c):
    if isinstance(c, int):
        return str(c)
    return f"{c[0]}/{c[1]}"


class Gen:
    def __init__(self, rng, ctx=None, maxdepth=3, calc=None):
        self.r, self.ctx, self.maxdepth = rng, ctx, maxdepth
        self.api = Api(calc) if calc is not None else None
        self.vars = []
        self.sparse = []
        self.use_sparse = True
        self.unsupported = {}

    def K(self, name, *cls):
        """class of the expression the public function `name` returns (Unsupported if the
        library has no such combination)"""
        if self.api is None:
            if name in ("range", "row", "col", "diag", "trans", "mrange", "rows", "cols") and cls[0] != DENSE:
                raise Unsupported("no rule table")
            return DENSE if all(c == DENSE for c in cls) and name in ("range", "row", "col", "diag", "trans", "mrange", "rows", "cols") else (name,)
        return getattr(self.api, name)(*cls)

    # ------------------------------------------------------------------ case setup
    def new_case(self):
        r = self.r
        dims = [r.choice(SHAPES) for _ in range(3)]
        if r.chance(2, 3):   # mostly small, so that many cases fit in the budget
            dims = [min(d, r.choice([3, 5, 8])) for d in dims]
        p, q, s = dims
        self.dims = dims
        self.vars = []
        ops = ["new"]
        vshapes = [p, q, s, p, p + q]
        for k, n in enumerate(vshapes):
            self.vars.append(Var("v", k, n))
        self.vars.append(Var("v", len(vshapes), p, divisor=True))
        ashapes = [(p, q), (q, s), (p, p), (q, p), (s, s)]
        for k, sh in enumerate(ashapes):
            self.vars.append(Var("A", k, sh))
        self.vars.append(Var("A", len(ashapes), (p, q), divisor=True))
        bshapes = [(p, q), (q, s), (p, p), (s, q), (q, q)]
        for k, sh in enumerate(bshapes):
            self.vars.append(Var("B", k, sh))
        self.sparse = []
        for k, n in enumerate([p, q]):
            sv = Var("s", k, n)
            ent = [(i, r.choice([1, 2, -3, 4])) for i in range(n) if r.chance(1, 3)]
            sv.line = f"svec {n} " + " ".join(f"{i}:{x}" for i, x in ent)
            self.sparse.append(sv)
        sm = Var("C", 0, (p, q))
        ent = [(i, j, r.choice([1, -2, 3])) for i in range(p) for j in range(q) if r.chance(1, 3)]
        sm.line = f"smat {p} {q} " + " ".join(f"{i},{j}:{x}" for i, j, x in ent)
        self.sparse.append(sm)
        for v in self.vars:
            n = v.shape if v.kind == "v" else v.shape[0] * v.shape[1]
            if v.divisor:
                v.values = [r.choice([1, 2, 4, -1, -2, 1]) for _ in range(n)]
            else:
                # value class of the variable: mixed signs, one sign only (folds whose function has no
                # neutral element 0), constant (ties), zero
                cls = r.choice(["mixed"] * 6 + ["neg", "neg", "pos", "pos", "const", "zero"])
                if cls == "neg":
                    v.values = [-r.range(1, 4) for _ in range(n)]
                elif cls == "pos":
                    v.values = [r.range(1, 4) for _ in range(n)]
                elif cls == "const":
                    c = r.choice([-3, -1, 2, 4])
                    v.values = [c] * n
                elif cls == "zero":
                    v.values = [0] * n
                else:
                    v.values = [r.range(-4, 4) for _ in range(n)]
                if self.ctx is not None:
                    self.ctx.hist("variable_value_class", cls)
            if v.kind == "v":
                ops.append("vec " + " ".join(map(str, [n] + v.values)))
            else:
                ops.append(f"mat {v.kind} {v.shape[0]} {v.shape[1]} " + " ".join(map(str, v.values)))
        if self.use_sparse:
            for v in self.sparse:
                ops.append(v.line)
        return [o.strip() for o in ops]

    # ------------------------------------------------------------------ helpers
    def vvars(self, divisor=False):
        return [v for v in self.vars if v.kind == "v" and v.divisor == divisor]

    def mvars(self, divisor=False):
        return [v for v in self.vars if v.kind in "AB" and v.divisor == divisor]

    def const(self):
        return self.r.choice([2, -1, 3, -2, 1, 0, (1, 2), 4])

    def cbound(self, c):
        return abs(c) if isinstance(c, int) else abs(c[0])

    def cdexp(self, c):
        return 0 if isinstance(c, int) else c[1].bit_length() - 1

    def dim(self):
        return self.r.choice(self.dims)

    # ------------------------------------------------------------------ places (dense proxies of variables)
    def place_v(self, n, divisor=False):
        """a dense vector proxy of size n over a variable, or None"""
        r = self.r
        cands = []
        for v in self.vvars(divisor):
            if v.shape == n:
                cands.append(("var", v))
            if v.shape > n:
                cands.append(("range", v))
        for m in self.mvars(divisor):
            n1, n2 = m.shape
            if n2 == n and n1 > 0:
                cands.append(("row", m))
            if n1 == n and n2 > 0:
                cands.append(("col", m))
            if n1 == n2 == n:
                cands.append(("diag", m))
            # nested proxies: sub-range of a row / column / diagonal (strided storage)
            if n2 > n and n1 > 0:
                cands.append(("rowrange", m))
            if n1 > n and n2 > 0:
                cands.append(("colrange", m))
            if n1 == n2 and n1 > n:
                cands.append(("diagrange", m))
            if n1 * n2 == n and n > 0:
                cands.append(("tovec", m))
            # proxy nesting >= 4: sub-range of a row of the transpose of a sub-matrix / of the rows of a transpose,
            # sub-range of the diagonal of a sub-matrix of a transpose
            if n1 >= max(n, 1) and n2 >= 1:
                cands.append(("deep_row", m)); cands.append(("deep_row2", m))
            if min(n1, n2) >= max(n, 1):
                cands.append(("deep_diag", m))
        if not cands:
            return None
        how, v = r.choice(cands)
        b = v.expr()
        if how == "var":
            return b
        if how == "deep_row":
            # subrange(row(trans(subrange(M,s1,e1,s2,e2)),i),s,s+n): the row of the transpose is a column piece of M
            a1 = r.range(max(n, 1), v.shape[0]); b1 = r.range(1, v.shape[1])
            s1 = r.range(0, v.shape[0] - a1); s2 = r.range(0, v.shape[1] - b1)
            row = self.mk_row(self.mk_trans(self.mk_mrange(b, s1, s1 + a1, s2, s2 + b1)), r.below(b1))
            s0 = r.range(0, a1 - n)
            return self.mk_range(row, s0, s0 + n)
        if how == "deep_row2":
            # subrange(subrange(row(rows(trans(M),s,e),i),..),..): five proxies deep
            b1 = r.range(1, v.shape[1]); s2 = r.range(0, v.shape[1] - b1)
            row = self.mk_row(self.mk_rows(self.mk_trans(b), s2, s2 + b1), r.below(b1))      # size n1
            mid = r.range(n, v.shape[0]); sm = r.range(0, v.shape[0] - mid)
            s0 = r.range(0, mid - n)
            return self.mk_range(self.mk_range(row, sm, sm + mid), s0, s0 + n)
        if how == "deep_diag":
            # subrange(diag(subrange(trans(M),s1,s1+k,s2,s2+k)),s,s+n)
            k = r.range(max(n, 1), min(v.shape))
            s1 = r.range(0, v.shape[1] - k); s2 = r.range(0, v.shape[0] - k)
            d = self.mk_diag(self.mk_mrange(self.mk_trans(b), s1, s1 + k, s2, s2 + k))
            s0 = r.range(0, k - n)
            return self.mk_range(d, s0, s0 + n)
        if how == "tovec":
            return self.mk_tovec(b)
        if how == "rowrange":
            s0 = r.range(0, v.shape[1] - n)
            return self.mk_range(self.mk_row(b, r.below(v.shape[0])), s0, s0 + n)
        if how == "colrange":
            s0 = r.range(0, v.shape[0] - n)
            return self.mk_range(self.mk_col(b, r.below(v.shape[1])), s0, s0 + n)
        if how == "diagrange":
            s0 = r.range(0, v.shape[0] - n)
            return self.mk_range(self.mk_diag(b), s0, s0 + n)
        if how == "range":
            s = r.range(0, v.shape - n)
            e = self.mk_range(b, s, s + n)
            if r.chance(1, 4) and n >= 1:   # nested sub-range
                s2 = r.range(0, n - 1); t2 = r.range(s2, n)
                if t2 - s2 == n:
                    return e
            return e
        if how == "row":
            return self.mk_row(b, r.below(v.shape[0]))
        if how == "col":
            return self.mk_col(b, r.below(v.shape[1]))
        return self.mk_diag(b)

    def place_m(self, n1, n2, divisor=False):
        r = self.r
        cands = []
        for m in self.mvars(divisor):
            a, b = m.shape
            if (a, b) == (n1, n2):
                cands.append(("var", m)); cands.append(("var", m))
            if (b, a) == (n1, n2):
                cands.append(("trans", m))
            if a >= n1 and b >= n2 and (a, b) != (n1, n2):
                cands.append(("mrange", m))
            if a > n1 and b == n2:
                cands.append(("rows", m))
            if a == n1 and b > n2:
                cands.append(("cols", m))
            if b >= n1 and a >= n2 and (b, a) != (n1, n2):
                cands.append(("transrange", m))
            if a >= n1 and b >= n2 and a >= 1 and b >= 1:
                cands.append(("deep", m))
        if not cands:
            return None
        how, m = r.choice(cands)
        b = m.expr()
        if how == "var":
            return b
        if how == "deep":
            # trans(subrange(trans(rows(M,s,e)),...)) resp. with columns: four proxies deep, orientation flipped twice
            if r.chance(1, 2):
                h = r.range(max(n1, 1), m.shape[0]); s = r.range(0, m.shape[0] - h)
                inner = self.mk_trans(self.mk_rows(b, s, s + h))                 # (b, h)
                s1 = r.range(0, m.shape[1] - n2); s2 = r.range(0, h - n1)
                return self.mk_trans(self.mk_mrange(inner, s1, s1 + n2, s2, s2 + n1))
            w = r.range(max(n2, 1), m.shape[1]); s = r.range(0, m.shape[1] - w)
            inner = self.mk_trans(self.mk_cols(b, s, s + w))                     # (w, a)
            s1 = r.range(0, w - n2); s2 = r.range(0, m.shape[0] - n1)
            return self.mk_trans(self.mk_mrange(inner, s1, s1 + n2, s2, s2 + n1))
        if how == "transrange":
            # trans(subrange(M)) or subrange(trans(M))
            s1 = r.range(0, m.shape[1] - n1); s2 = r.range(0, m.shape[0] - n2)
            if r.chance(1, 2):
                return self.mk_mrange(self.mk_trans(b), s1, s1 + n1, s2, s2 + n2)
            return self.mk_trans(self.mk_mrange(b, s2, s2 + n2, s1, s1 + n1))
        if how == "trans":
            return self.mk_trans(b)
        if how == "mrange":
            s1 = r.range(0, m.shape[0] - n1); s2 = r.range(0, m.shape[1] - n2)
            return self.mk_mrange(b, s1, s1 + n1, s2, s2 + n2)
        if how == "rows":
            s = r.range(0, m.shape[0] - n1)
            return self.mk_rows(b, s, s + n1)
        s = r.range(0, m.shape[1] - n2)
        return self.mk_cols(b, s, s + n2)

    # ------------------------------------------------------------------ constructors
    def _p(self, x, f, *a):
        """oracle place text of a proxy (only for places)"""
        if not x.place:
            return None
        return f"{f}({x.porc}{''.join(',' + str(t) for t in a)})"

    def mk_range(self, x, s, t):
        return E("V", t - s, f"(range {x.txt} {s} {t})", f"subrange({x.cpp},{s},{t})", f"o_range({x.orc},{s},{t})",
                 x.bound, x.dexp, x.reads, self.K("range", x.cls), x.place, self._p(x, "p_range", s, t), x.elementwise, x.depth + 1,
                 x.ops + ("range",))

    def mk_row(self, m, i):
        return E("V", m.shape[1], f"(row {m.txt} {i})", f"row({m.cpp},{i})", f"o_row({m.orc},{i})",
                 m.bound, m.dexp, m.reads, self.K("row", m.cls), m.place, self._p(m, "p_row", i),
                 m.elementwise, m.depth + 1, m.ops + ("row",))

    def mk_col(self, m, j):
        if m.ops != ():
            # column(matrix_expression&&, j) calls a one-argument `column(m())`: it cannot be instantiated,
            # so `column` exists for l-values (variables) only
            raise Unsupported("column() of a temporary (r-value overload is ill-formed)")
        return E("V", m.shape[0], f"(col {m.txt} {j})", f"column({m.cpp},{j})", f"o_col({m.orc},{j})",
                 m.bound, m.dexp, m.reads, self.K("col", m.cls), m.place, self._p(m, "p_col", j),
                 m.elementwise, m.depth + 1, m.ops + ("col",))

    def mk_diag(self, m):
        return E("V", m.shape[0], f"(diag {m.txt})", f"diag({m.cpp})", f"o_diag({m.orc})",
                 m.bound, m.dexp, m.reads, self.K("diag", m.cls), m.place, self._p(m, "p_diag"),
                 m.elementwise, m.depth + 1, m.ops + ("diag",))

    def mk_tovec(self, m):
        """to_vector(container): linearisation in storage order (row-major for A, column-major for B)"""
        if m.ops != () or not m.place:
            raise Unsupported("to_vector of a non-container")
        kind, k = m.txt[1], m.txt[3:-1]
        return E("V", m.shape[0] * m.shape[1], f"(tovec {m.txt})", f"to_vector({m.cpp})", f"o_tovec{kind}(S,{k})",
                 m.bound, m.dexp, m.reads, DENSE, True, f"p_tovec{kind}(X,{k})", True, 1, ("tovec",))

    def mk_trans(self, m):
        return E("M", (m.shape[1], m.shape[0]), f"(trans {m.txt})", f"trans({m.cpp})", f"o_trans({m.orc})",
                 m.bound, m.dexp, m.reads, self.K("trans", m.cls), m.place, self._p(m, "p_trans"), m.elementwise, m.depth + 1,
                 m.ops + ("trans",))

    def mk_mrange(self, m, s1, e1, s2, e2):
        return E("M", (e1 - s1, e2 - s2), f"(mrange {m.txt} {s1} {e1} {s2} {e2})",
                 f"subrange({m.cpp},{s1},{e1},{s2},{e2})", f"o_mrange({m.orc},{s1},{e1},{s2},{e2})",
                 m.bound, m.dexp, m.reads, self.K("mrange", m.cls), m.place, self._p(m, "p_mrange", s1, e1, s2, e2), m.elementwise,
                 m.depth + 1, m.ops + ("mrange",))

    def mk_rows(self, m, s, e):
        return E("M", (e - s, m.shape[1]), f"(rows {m.txt} {s} {e})", f"rows({m.cpp},{s},{e})",
                 f"o_rows({m.orc},{s},{e})", m.bound, m.dexp, m.reads, self.K("rows", m.cls), m.place,
                 self._p(m, "p_rows", s, e), m.elementwise, m.depth + 1, m.ops + ("rows",))

    def mk_cols(self, m, s, e):
        return E("M", (m.shape[0], e - s), f"(cols {m.txt} {s} {e})", f"columns({m.cpp},{s},{e})",
                 f"o_cols({m.orc},{s},{e})", m.bound, m.dexp, m.reads, self.K("cols", m.cls), m.place,
                 self._p(m, "p_cols", s, e), m.elementwise, m.depth + 1, m.ops + ("cols",))

    def node(self, kind, shape, op, txt, cpp, orc, bound, dexp, kids, elementwise=True):
        kname = {"addc": "add", "maddc": "madd", "abs": "un", "sqr": "un", "inv": "un", "neg": "smul", "mul": "bin", "div": "bin",
                 "min": "bin", "max": "bin"}.get(op, op)
        if kind == "M" and kname in ("un", "bin", "smul"):
            kname = "m" + kname
        if op == "msmul":
            kname = "msmul"
        kcls = [k.cls for k in kids]
        if op == "addc":
            kcls.append(self.K("cvec"))
        if op == "maddc":
            kcls.append(self.K("cmat"))
        if op == "vm":
            kcls = [kids[1].cls, kids[0].cls]
        if op in ("trimm", "trimv"):
            # prod(to_triangular(A), .): only containers / dense proxies can be viewed as triangular
            if kids[0].cls != DENSE:
                raise Unsupported("to_triangular of a non-dense expression")
            cls = (op,)
        else:
            cls = self.K(kname, *kcls)
        reads = set()
        for k in kids:
            reads |= k.reads
        ew = elementwise and all(k.elementwise for k in kids)
        ops = sum((k.ops for k in kids), ()) + (op,)
        return E(kind, shape, txt, cpp, orc, bound, dexp, reads, cls, False, None, ew,
                 1 + max([k.depth for k in kids] + [0]), ops)

    # ------------------------------------------------------------------ operator nodes
    @staticmethod
    def _sumb(a, b):
        return (a.bound << max(0, b.dexp - a.dexp)) + (b.bound << max(0, a.dexp - b.dexp)), max(a.dexp, b.dexp)

    @staticmethod
    def _maxb(a, b):
        return max(a.bound << max(0, b.dexp - a.dexp), b.bound << max(0, a.dexp - b.dexp)), max(a.dexp, b.dexp)

    def mk_cvec(self, n, c):
        return E("V", n, f"(cvec {n} {tnum(c)})", f"blas_cvec({n},{cnum(c)})", f"o_cvec({n},{cnum(c)})",
                 self.cbound(c), self.cdexp(c), [], self.K("cvec"), ops=("cvec",))

    def mk_unit(self, n, k, c):
        return E("V", n, f"(unit {n} {k} {tnum(c)})", f"blas_unit({n},{k},{cnum(c)})", f"o_unit({n},{k},{cnum(c)})",
                 self.cbound(c), self.cdexp(c), [], self.K("unit"), ops=("unit",))

    def mk_cmat(self, n1, n2, c):
        return E("M", (n1, n2), f"(cmat {n1} {n2} {tnum(c)})", f"blas_cmat({n1},{n2},{cnum(c)})",
                 f"o_cmat({n1},{n2},{cnum(c)})", self.cbound(c), self.cdexp(c), [], self.K("cmat"), ops=("cmat",))

    def mk_smul(self, c, a, left=True):
        pre = "" if a.kind == "V" else "m"
        cpp = f"({cnum(c)}*{a.cpp})" if left else f"({a.cpp}*{cnum(c)})"
        if not isinstance(c, int) and c[0] == 1 and not left:
            cpp = f"({a.cpp}/{c[1]}.0)"          # B/t
        return self.node(a.kind, a.shape, pre + "smul", f"({pre}smul {tnum(c)} {a.txt})", cpp,
                         f"o_{pre}smul({cnum(c)},{a.orc})", a.bound * self.cbound(c), a.dexp + self.cdexp(c), [a])

    def mk_add(self, a, b):
        pre = "" if a.kind == "V" else "m"
        bd, dx = self._sumb(a, b)
        return self.node(a.kind, a.shape, pre + "add", f"({pre}add {a.txt} {b.txt})", f"({a.cpp}+{b.cpp})",
                         f"o_{pre}add({a.orc},{b.orc})", bd, dx, [a, b])

    def mk_sub(self, a, b):
        pre = "" if a.kind == "V" else "m"
        bd, dx = self._sumb(a, b)
        return self.node(a.kind, a.shape, pre + "sub", f"({pre}sub {a.txt} {b.txt})", f"({a.cpp}-{b.cpp})",
                         f"o_{pre}sub({a.orc},{b.orc})", bd, dx, [a, b])

    def mk_addc(self, a, c):
        if a.kind == "V":
            cv, op, pre = f"(cvec {a.shape} {tnum(c)})", "addc", ""
            oc = f"o_cvec({a.shape},{cnum(c)})"
        else:
            cv, op, pre = f"(cmat {a.shape[0]} {a.shape[1]} {tnum(c)})", "maddc", "m"
            oc = f"o_cmat({a.shape[0]},{a.shape[1]},{cnum(c)})"
        return self.node(a.kind, a.shape, op, f"({pre}add {a.txt} {cv})", f"({a.cpp}+{cnum(c)})", f"o_{pre}add({a.orc},{oc})",
                         (a.bound << max(0, self.cdexp(c) - a.dexp)) + (self.cbound(c) << a.dexp), max(a.dexp, self.cdexp(c)), [a])

    def mk_binc(self, f, a, c, scalar_first=False):
        """min(A,t) / max(t,A): binary functor with a constant operand"""
        pre = "" if a.kind == "V" else "m"
        if a.kind == "V":
            cv, oc = f"(cvec {a.shape} {tnum(c)})", f"o_cvec({a.shape},{cnum(c)})"
            ccls = self.K("cvec")
        else:
            cv, oc = f"(cmat {a.shape[0]} {a.shape[1]} {tnum(c)})", f"o_cmat({a.shape[0]},{a.shape[1]},{cnum(c)})"
            ccls = self.K("cmat")
        bd = max(a.bound << max(0, self.cdexp(c) - a.dexp), self.cbound(c) << a.dexp)
        dx = max(a.dexp, self.cdexp(c))
        if scalar_first:
            txt, cpp, orc = f"({pre}bin {f} {cv} {a.txt})", f"{f}({cnum(c)},{a.cpp})", f"o_{pre}bin(f_{f},{oc},{a.orc})"
        else:
            txt, cpp, orc = f"({pre}bin {f} {a.txt} {cv})", f"{f}({a.cpp},{cnum(c)})", f"o_{pre}bin(f_{f},{a.orc},{oc})"
        reads = set(a.reads)
        cls = self.K("bin" if a.kind == "V" else "mbin", *( [ccls, a.cls] if scalar_first else [a.cls, ccls]))
        return E(a.kind, a.shape, txt, cpp, orc, bd, dx, reads, cls, False, None, a.elementwise, a.depth + 1, a.ops + (f + "c",))

    def mk_foldrows(self, which, m):
        """max(as_rows(M)) / min(as_columns(M)) (rows/columns must not be empty)"""
        if which == "maxrows":
            n, k, cpp, orc, cls = m.shape[0], m.shape[1], f"max(as_rows({m.cpp}))", f"o_maxrows({m.orc})", self.K("sumrows", m.cls)
        else:
            n, k, cpp, orc, cls = m.shape[1], m.shape[0], f"min(as_columns({m.cpp}))", f"o_mincols({m.orc})", self.K("sumcols", m.cls)
        if k == 0:
            raise Unsupported("max/min of empty rows is undefined")
        if self.r is not None and any(o in m.ops for o in ("diagm", "unit", "sparse")):
            # F19 (known, no patch): max/min folds over sparse-iterated expressions ignore the implicit zeros
            raise Unsupported("max/min fold over a sparse-iterated expression (F19)")
        return E("V", n, f"({which} {m.txt})", cpp, orc, m.bound, m.dexp, m.reads, cls, False, None, False, m.depth + 1,
                 m.ops + (which,))

    FOLD_REDS = ["sum", "max", "min", "norm_1", "norm_sqr", "norm_inf"]

    def mk_fold(self, red, rows, m):
        """red(as_rows(M)) / red(as_columns(M)) for the six row-wise reductions of matrix_expression.hpp"""
        n, k = (m.shape[0], m.shape[1]) if rows else (m.shape[1], m.shape[0])
        if k == 0 and red in ("max", "min", "norm_inf"):
            raise Unsupported("max/min of empty rows is undefined")
        if self.r is not None and red in ("max", "min", "norm_inf") and any(o in m.ops for o in ("diagm", "unit", "sparse")):
            raise Unsupported("max/min fold over a sparse-iterated expression (F19)")
        inner = m.cls if red in ("sum", "max", "min") else self.K("mun", m.cls)
        cls = self.K("sumrows" if rows else "sumcols", inner)
        d = "rows" if rows else "cols"
        cpp = f"{red}({'as_rows' if rows else 'as_columns'}({m.cpp}))"
        orc = f"o_fold(R_{red.upper().replace('_', '')},{'true' if rows else 'false'},{m.orc})"
        bound, dexp = m.bound, m.dexp
        if red in ("sum", "norm_1"):
            bound = max(1, k) * m.bound
        elif red == "norm_sqr":
            bound, dexp = max(1, k) * m.bound * m.bound, 2 * m.dexp
        return E("V", n, f"(fold {red} {d} {m.txt})", cpp, orc, bound, dexp, m.reads, cls, False, None, False, m.depth + 1,
                 m.ops + (f"fold_{red}_{d}",))

    TRI = {"lower": (False, False), "upper": (True, False), "unit_lower": (False, True), "unit_upper": (True, True)}

    def mk_trimm(self, kind, a, b):
        """triangular_prod<kind>(A, B) = prod(to_triangular(A, kind), B)   (kernels::trmm)"""
        up, un = self.TRI[kind]
        if a.shape[0] != a.shape[1]:
            raise Unsupported("triangular matrix must be square")
        k = a.shape[1]
        e = self.node("M", (a.shape[0], b.shape[1]), "trimm", f"(mm (tri {kind} {a.txt}) {b.txt})",
                      f"triangular_prod<{kind}>({a.cpp},{b.cpp})",
                      f"o_mm(o_tri({'true' if up else 'false'},{'true' if un else 'false'},{a.orc}),{b.orc})",
                      max(1, k) * max(1, a.bound) * b.bound, a.dexp + b.dexp, [a, b], elementwise=False)
        return e

    def mk_trimv(self, kind, a, v):
        """triangular_prod<kind>(A, v)   (kernels::trmv)"""
        up, un = self.TRI[kind]
        if a.shape[0] != a.shape[1]:
            raise Unsupported("triangular matrix must be square")
        k = a.shape[1]
        return self.node("V", a.shape[0], "trimv", f"(mv (tri {kind} {a.txt}) {v.txt})",
                         f"triangular_prod<{kind}>({a.cpp},{v.cpp})",
                         f"o_mv(o_tri({'true' if up else 'false'},{'true' if un else 'false'},{a.orc}),{v.orc})",
                         max(1, k) * max(1, a.bound) * v.bound, a.dexp + v.dexp, [a, v], elementwise=False)

    def mk_concat(self, a, b):
        bd, dx = self._maxb(a, b)
        return self.node("V", a.shape + b.shape, "concat", f"(concat {a.txt} {b.txt})", f"({a.cpp}|{b.cpp})",
                         f"o_concat({a.orc},{b.orc})", bd, dx, [a, b], elementwise=False)

    def mk_mv(self, m, v):
        k = m.shape[1]
        return self.node("V", m.shape[0], "mv", f"(mv {m.txt} {v.txt})", f"prod({m.cpp},{v.cpp})", f"o_mv({m.orc},{v.orc})",
                         max(1, k) * m.bound * v.bound, m.dexp + v.dexp, [m, v], elementwise=False)

    def mk_vm(self, v, m):
        k = m.shape[0]
        return self.node("V", m.shape[1], "vm", f"(vm {v.txt} {m.txt})", f"prod({v.cpp},{m.cpp})", f"o_vm({v.orc},{m.orc})",
                         max(1, k) * m.bound * v.bound, m.dexp + v.dexp, [m, v], elementwise=False)

    def mk_sumrows(self, m):
        return self.node("V", m.shape[0], "sumrows", f"(sumrows {m.txt})", f"sum(as_rows({m.cpp}))", f"o_sumrows({m.orc})",
                         max(1, m.shape[1]) * m.bound, m.dexp, [m], elementwise=False)

    def mk_sumcols(self, m):
        return self.node("V", m.shape[1], "sumcols", f"(sumcols {m.txt})", f"sum(as_columns({m.cpp}))", f"o_sumcols({m.orc})",
                         max(1, m.shape[0]) * m.bound, m.dexp, [m], elementwise=False)

    def mk_outer(self, u, v):
        return self.node("M", (u.shape, v.shape), "outer", f"(outer {u.txt} {v.txt})", f"outer_prod({u.cpp},{v.cpp})",
                         f"o_outer({u.orc},{v.orc})", u.bound * v.bound, u.dexp + v.dexp, [u, v])

    def mk_mm(self, a, b):
        k = a.shape[1]
        return self.node("M", (a.shape[0], b.shape[1]), "mm", f"(mm {a.txt} {b.txt})", f"prod({a.cpp},{b.cpp})",
                         f"o_mm({a.orc},{b.orc})", max(1, k) * a.bound * b.bound, a.dexp + b.dexp, [a, b], elementwise=False)

    def mk_repeat(self, v, n1):
        return self.node("M", (n1, v.shape), "repeat", f"(repeat {v.txt} {n1})", f"repeat({v.cpp},{n1})",
                         f"o_repeat({v.orc},{n1})", v.bound, v.dexp, [v])

    def mk_diagm(self, v):
        return self.node("M", (v.shape, v.shape), "diagm", f"(diagm {v.txt})", f"blas_diagm({v.cpp})", f"o_diagm({v.orc})",
                         v.bound, v.dexp, [v])

    def mk_concatr(self, a, b):
        bd, dx = self._maxb(a, b)
        return self.node("M", (a.shape[0], a.shape[1] + b.shape[1]), "concatr", f"(concatr {a.txt} {b.txt})", f"({a.cpp}|{b.cpp})",
                         f"o_concatr({a.orc},{b.orc})", bd, dx, [a, b], elementwise=False)

    def mk_concatb(self, a, b):
        bd, dx = self._maxb(a, b)
        return self.node("M", (a.shape[0] + b.shape[0], a.shape[1]), "concatb", f"(concatb {a.txt} {b.txt})", f"({a.cpp}&{b.cpp})",
                         f"o_concatb({a.orc},{b.orc})", bd, dx, [a, b], elementwise=False)

    # ------------------------------------------------------------------ expressions
    def gen_v(self, n, depth, divisor=False):
        r = self.r
        for _ in range(20):
            try:
                e = self._gen_v(n, depth, divisor)
            except Unsupported as u:
                k = str(u)[:70]
                self.unsupported[k] = self.unsupported.get(k, 0) + 1
                e = None
            if e is not None and e.bits() <= MAXBITS:
                return e
            depth = max(0, depth - 1)
        c = 1
        return E("V", n, f"(cvec {n} {c})", f"blas_cvec({n},{cnum(c)})", f"o_cvec({n},{cnum(c)})", 1, 0, [], self.K("cvec"))

    def _gen_v(self, n, depth, divisor):
        r = self.r
        if divisor:
            p = self.place_v(n, True)
            if p is None:
                return None
            x = r.below(10)
            if x < 6 or depth == 0:
                return p
            if x < 8:
                return self.un("V", "abs", p)
            q = self.place_v(n, True)
            return self.bin("V", "mul", p, q)
        if depth == 0 or r.chance(1, 6):
            x = r.below(10)
            if x < 7:
                p = self.place_v(n)
                if p is not None:
                    return p
            if x < 9 or n == 0:
                return self.mk_cvec(n, self.const())
            return self.mk_unit(n, r.below(n), r.choice([1, 2, -3]))
        d = depth - 1
        if self.api is not None and r.chance(1, 4):
            # proxy of an expression: goes through the rewrite-rule table
            y = r.below(4)
            if y == 0:
                extra = r.range(0, 3); s0 = r.range(0, extra)
                return self.mk_range(self.gen_v(n + extra, d), s0, s0 + n)
            k = self.dim()
            if y == 1 and k > 0:
                return self.mk_row(self.gen_m(k, n, d), r.below(k))
            if y == 2 and k > 0:
                return self.mk_col(self.gen_m(n, k, d), r.below(k))
            return self.mk_diag(self.gen_m(n, n, d))
        x = r.below(100)
        if x < 10:
            return self.mk_smul(self.const(), self.gen_v(n, d), r.chance(1, 2))
        if x < 20:
            return self.mk_add(self.gen_v(n, d), self.gen_v(n, d))
        if x < 28:
            return self.mk_sub(self.gen_v(n, d), self.gen_v(n, d))
        if x < 38:
            return self.un("V", r.choice(["abs", "sqr", "neg"]), self.gen_v(n, d))
        if x < 48:
            f = r.choice(["mul", "min", "max", "mul"])
            return self.bin("V", f, self.gen_v(n, d), self.gen_v(n, d))
        if x < 52:
            a = self.gen_v(n, d); b = self.gen_v(n, 0, divisor=True)
            if b is None:
                return None
            return self.bin("V", "div", a, b)
        if x < 56:
            return self.mk_addc(self.gen_v(n, d), self.const())
        if x < 59:
            return self.mk_binc(r.choice(["min", "max"]), self.gen_v(n, d), self.const(), r.chance(1, 2))
        if x < 66:
            n1 = r.range(0, n)
            return self.mk_concat(self.gen_v(n1, d), self.gen_v(n - n1, d))
        if x < 80:
            k = self.dim()
            return self.mk_mv(self.gen_m(n, k, d), self.gen_v(k, d))
        if x < 90:
            k = self.dim()
            m = self.gen_m(k, n, d)
            return self.mk_vm(self.gen_v(k, d), m)
        k = self.dim()
        if x < 92 and n > 0 and r.chance(1, 2):
            # triangular product (trmv)
            a = self.place_m(n, n)
            if a is not None:
                return self.mk_trimv(r.choice(list(self.TRI)), a, self.gen_v(n, d))
        # row-wise reductions: all six, over rows and over columns
        red, rows = r.choice(self.FOLD_REDS), r.chance(1, 2)
        if red in ("max", "min", "norm_inf"):
            k = max(k, 1)
        return self.mk_fold(red, rows, self.gen_m(n, k, d) if rows else self.gen_m(k, n, d))

    def un(self, kind, f, a):
        pre = "" if kind == "V" else "m"
        cpp = {"abs": f"abs({a.cpp})", "sqr": f"sqr({a.cpp})", "neg": f"(-{a.cpp})", "inv": f"elem_inv({a.cpp})"}[f]
        b = a.bound * a.bound if f == "sqr" else a.bound
        dx = 2 * a.dexp if f == "sqr" else a.dexp
        if f == "inv":
            # elem_inv: the operand must hold non-zero powers of two +-2^k with -dexp <= k < bit_length(bound)
            b, dx = 1 << a.dexp, max(1, a.bound).bit_length()
        return self.node(kind, a.shape, f, f"({pre}un {f} {a.txt})", cpp, f"o_{pre}un(f_{f},{a.orc})", b, dx, [a])

    def bin(self, kind, f, a, b):
        pre = "" if kind == "V" else "m"
        cpp = {"mul": f"({a.cpp}*{b.cpp})", "div": f"({a.cpp}/{b.cpp})", "min": f"min({a.cpp},{b.cpp})",
               "max": f"max({a.cpp},{b.cpp})"}[f]
        if f == "mul":
            bd, dx = a.bound * b.bound, a.dexp + b.dexp
        elif f == "div":
            bd, dx = a.bound << b.dexp, a.dexp + max(1, b.bound).bit_length()
        else:
            bd, dx = max(a.bound << max(0, b.dexp - a.dexp), b.bound << max(0, a.dexp - b.dexp)), max(a.dexp, b.dexp)
        return self.node(kind, a.shape, f, f"({pre}bin {f} {a.txt} {b.txt})", cpp, f"o_{pre}bin(f_{f},{a.orc},{b.orc})",
                         bd, dx, [a, b])

    def gen_m(self, n1, n2, depth, divisor=False):
        for _ in range(20):
            try:
                e = self._gen_m(n1, n2, depth, divisor)
            except Unsupported as u:
                k = str(u)[:70]
                self.unsupported[k] = self.unsupported.get(k, 0) + 1
                e = None
            if e is not None and e.bits() <= MAXBITS:
                return e
            depth = max(0, depth - 1)
        return E("M", (n1, n2), f"(cmat {n1} {n2} 1)", f"blas_cmat({n1},{n2},1.0)", f"o_cmat({n1},{n2},1.0)", 1, 0, [], self.K("cmat"))

    def _gen_m(self, n1, n2, depth, divisor):
        r = self.r
        if divisor:
            p = self.place_m(n1, n2, True)
            if p is None:
                return None
            if depth == 0 or r.chance(2, 3):
                return p
            return self.un("M", "abs", p)
        if depth == 0 or r.chance(1, 6):
            if r.chance(5, 6):
                p = self.place_m(n1, n2)
                if p is not None:
                    return p
            return self.mk_cmat(n1, n2, self.const())
        d = depth - 1
        if self.api is not None and r.chance(1, 4):
            y = r.below(4)
            if y == 0:
                return self.mk_trans(self.gen_m(n2, n1, d))
            if y == 1:
                a1, a2 = r.range(0, 2), r.range(0, 2); s1, s2 = r.range(0, a1), r.range(0, a2)
                return self.mk_mrange(self.gen_m(n1 + a1, n2 + a2, d), s1, s1 + n1, s2, s2 + n2)
            if y == 2:
                a1 = r.range(0, 3); s1 = r.range(0, a1)
                return self.mk_rows(self.gen_m(n1 + a1, n2, d), s1, s1 + n1)
            a2 = r.range(0, 3); s2 = r.range(0, a2)
            return self.mk_cols(self.gen_m(n1, n2 + a2, d), s2, s2 + n2)
        x = r.below(100)
        if x < 10:
            return self.mk_smul(self.const(), self.gen_m(n1, n2, d), r.chance(1, 2))
        if x < 20:
            return self.mk_add(self.gen_m(n1, n2, d), self.gen_m(n1, n2, d))
        if x < 27:
            return self.mk_sub(self.gen_m(n1, n2, d), self.gen_m(n1, n2, d))
        if x < 35:
            return self.un("M", r.choice(["abs", "sqr", "neg"]), self.gen_m(n1, n2, d))
        if x < 44:
            return self.bin("M", r.choice(["mul", "min", "max"]), self.gen_m(n1, n2, d), self.gen_m(n1, n2, d))
        if x < 47:
            a = self.gen_m(n1, n2, d); b = self.gen_m(n1, n2, 0, divisor=True)
            if b is None:
                return None
            return self.bin("M", "div", a, b)
        if x < 55:
            return self.mk_outer(self.gen_v(n1, d), self.gen_v(n2, d))
        if x < 70:
            k = self.dim()
            if x >= 67 and n1 > 0:
                a = self.place_m(n1, n1)       # triangular product (trmm)
                if a is not None:
                    return self.mk_trimm(r.choice(list(self.TRI)), a, self.gen_m(n1, n2, d))
            return self.mk_mm(self.gen_m(n1, k, d), self.gen_m(k, n2, d))
        if x < 76:
            return self.mk_repeat(self.gen_v(n2, d), n1)
        if x < 80 and n1 == n2:
            return self.mk_diagm(self.gen_v(n1, d))
        if x < 86:
            k = r.range(0, n2)
            return self.mk_concatr(self.gen_m(n1, k, d), self.gen_m(n1, n2 - k, d))
        if x < 92:
            k = r.range(0, n1)
            return self.mk_concatb(self.gen_m(k, n2, d), self.gen_m(n1 - k, n2, d))
        if r.chance(1, 2):
            return self.mk_binc(r.choice(["min", "max"]), self.gen_m(n1, n2, d), self.const(), r.chance(1, 2))
        return self.mk_addc(self.gen_m(n1, n2, d), self.const())

    # ------------------------------------------------------------------ statements
    FORMS = ["set", "plus", "minus", "times", "divide"]
    CPPOP = {"set": "=", "plus": "+=", "minus": "-=", "times": "*=", "divide": "/="}

    def target(self):
        """a writable place (vector or matrix) with a base variable"""
        r = self.r
        for _ in range(50):
            if r.chance(1, 2):
                n = self.dim() if r.chance(2, 3) else r.choice([v.shape for v in self.vvars()])
                if r.chance(1, 10):
                    mv = r.choice(self.mvars())
                    n = mv.shape[0] * mv.shape[1]
                p = self.place_v(n)
            else:
                sh = r.choice([m.shape for m in self.mvars()])
                if r.chance(1, 3):
                    sh = (self.dim(), self.dim())
                p = self.place_m(sh[0], sh[1])
            if p is not None:
                return p
        return self.vvars()[0].expr()

    def sparse_statement(self, k):
        """dense target, right-hand side built from the sparse operands (dense <- sparse kernels,
        sparse gemv); forms that add (f(x,0) = x) and plain assignment"""
        r = self.r
        sv = [v for v in self.sparse if v.kind == "s"]
        sm = [v for v in self.sparse if v.kind == "C"][0]
        s0 = r.choice(sv)
        n = s0.shape
        how = r.below(12)
        if how >= 9:
            return self.sparse_matrix_statement(k, sm)
        if how == 0:
            e = s0.expr()
        elif how == 1:
            e = self.mk_smul(self.const(), s0.expr())
        elif how == 2:
            n = sm.shape[0]
            e = self.mk_mv(sm.expr(), self.gen_v(sm.shape[1], 1))
        elif how == 3:
            n = sm.shape[1]
            e = self.mk_vm(self.gen_v(sm.shape[0], 1), sm.expr())
        elif how == 4:
            e = self.mk_add(s0.expr(), self.gen_v(n, 1))
        elif how == 5:
            e = self.un("V", r.choice(["abs", "sqr", "neg"]), s0.expr())
        elif how == 6:
            e = self.bin("V", "mul", s0.expr(), self.gen_v(n, 1)) if r.chance(1, 2) else \
                self.bin("V", "mul", self.gen_v(n, 1), s0.expr())
        elif how == 7:
            if sm.shape[0] == 0:
                return None
            n = sm.shape[1]
            e = self.mk_row(sm.expr(), r.below(sm.shape[0]))
        else:
            # sum(as_rows(C)) over a sparse matrix (F20, fixed in /repo 7aa715d0: rows without stored
            # elements were dereferenced); also kept in the corpus
            n = sm.shape[0]
            e = self.mk_sumrows(sm.expr())
        t = None
        for _ in range(20):
            t = self.place_v(n)
            if t is not None and not (t.reads & e.reads):
                break
            t = None
        if t is None or e.bits() > MAXBITS - 8:
            return None
        base = [v for v in self.vars if v.name in t.reads][0]
        form = r.choice(["set", "plus", "minus", "set"])
        fname = ("na_" if r.chance(1, 3) else "") + form
        if form == "set":
            base.bound, base.dexp = max(base.bound << max(0, e.dexp - base.dexp), e.bound << max(0, base.dexp - e.dexp)), max(base.dexp, e.dexp)
        else:
            base.bound, base.dexp = (base.bound << max(0, e.dexp - base.dexp)) + (e.bound << max(0, base.dexp - e.dexp)), max(base.dexp, e.dexp)
        if max(1, base.bound).bit_length() + base.dexp > MAXBITS:
            return None
        return self.render_statement(k, fname, t, e)

    def sparse_matrix_statement(self, k, sm):
        """dense matrix target <- sparse matrix expression (plain / additive forms)"""
        r = self.r
        how = r.below(4)
        if how == 0:
            e = sm.expr()
        elif how == 1:
            e = self.mk_smul(self.const(), sm.expr())
        elif how == 2:
            e = self.mk_add(sm.expr(), self.gen_m(sm.shape[0], sm.shape[1], 1))
        else:
            e = self.un("M", r.choice(["abs", "neg"]), sm.expr())
        t = None
        for _ in range(20):
            t = self.place_m(sm.shape[0], sm.shape[1])
            if t is not None and not (t.reads & e.reads):
                break
            t = None
        if t is None or e.bits() > MAXBITS - 8:
            return None
        base = [v for v in self.vars if v.name in t.reads][0]
        form = r.choice(["set", "plus", "minus", "set"])
        fname = ("na_" if r.chance(1, 3) else "") + form
        if form == "set":
            base.bound, base.dexp = max(base.bound << max(0, e.dexp - base.dexp), e.bound << max(0, base.dexp - e.dexp)), max(base.dexp, e.dexp)
        else:
            base.bound, base.dexp = (base.bound << max(0, e.dexp - base.dexp)) + (e.bound << max(0, base.dexp - e.dexp)), max(base.dexp, e.dexp)
        if max(1, base.bound).bit_length() + base.dexp > MAXBITS:
            return None
        return self.render_statement(k, fname, t, e)

    def sparse_reduction(self, k):
        r = self.r
        s0 = r.choice([v for v in self.sparse if v.kind == "s"])
        kind = r.choice(["sum", "norm_1", "inner_prod", "norm_sqr", "msum"])
        if kind == "msum":
            return self.render_reduction(k, "msum", [[v for v in self.sparse if v.kind == "C"][0].expr()])
        args = [s0.expr()]
        if kind == "inner_prod":
            args.append(self.gen_v(s0.shape, 1))
        return self.render_reduction(k, kind, args)

    def statement(self, k):
        """returns (op line text, C++ source of the statement functions, info dict) or None"""
        r = self.r
        if self.use_sparse and self.sparse and r.chance(1, 8):
            try:
                return self.sparse_reduction(k) if r.chance(1, 4) else self.sparse_statement(k)
            except Unsupported:
                return None
        if r.chance(1, 12):
            return self.scalar_statement(k)
        if r.chance(1, 9):
            st = self.alias_statement(k)
            if st is not None:
                return st
        t = self.target()
        base = [v for v in self.vars if v.name in t.reads][0]
        form = r.choice(self.FORMS + ["set", "plus"])
        noalias = r.chance(1, 3)
        depth = r.range(0, self.maxdepth)
        want_alias = (not noalias) and r.chance(1, 2)
        e = None
        for _ in range(30):
            if form == "divide":
                cand = self.gen_v(t.shape, min(depth, 1), divisor=True) if t.kind == "V" else \
                    self.gen_m(t.shape[0], t.shape[1], min(depth, 1), divisor=True)
                if cand is None or cand.cls[0] in ("scalar_vector", "scalar_matrix"):
                    form = "times"; continue
            else:
                cand = self.gen_v(t.shape, depth) if t.kind == "V" else self.gen_m(t.shape[0], t.shape[1], depth)
            reads_t = base.name in cand.reads
            if noalias and reads_t:
                continue
            if want_alias and not reads_t and depth > 0 and _ < 15:
                continue
            # magnitude of the target after the statement
            tb, td = base.bound, base.dexp
            if form == "set":
                nb, nd = max(tb << max(0, cand.dexp - td), cand.bound << max(0, td - cand.dexp)), max(td, cand.dexp)
            elif form in ("plus", "minus"):
                nb, nd = (tb << max(0, cand.dexp - td)) + (cand.bound << max(0, td - cand.dexp)), max(td, cand.dexp)
            elif form == "times":
                nb, nd = tb * cand.bound, td + cand.dexp
            else:
                nb, nd = tb << cand.dexp, td + max(1, cand.bound).bit_length()
            if max(1, nb).bit_length() + nd > MAXBITS:
                if form in ("times", "divide"):
                    form = "set"
                continue
            e = cand
            break
        if e is None:
            return None
        base.bound, base.dexp = nb, nd
        fname = ("na_" if noalias else "") + form
        return self.render_statement(k, fname, t, e)

    def same_storage_place(self, base, shape):
        """another dense proxy of the given shape over the variable `base` (or None)"""
        saved = self.vars
        self.vars = [base]
        try:
            return self.place_v(shape) if not isinstance(shape, tuple) else self.place_m(shape[0], shape[1])
        finally:
            self.vars = saved

    def alias_statement(self, k):
        """target and right-hand side are two (usually different) proxies of ONE variable: overlapping
        windows, crossing lines, transposes; bare or wrapped in an element-wise expression"""
        r = self.r
        t = self.target()
        base = [v for v in self.vars if v.name in t.reads][0]
        try:
            p = self.same_storage_place(base, t.shape)
            if p is None:
                return None
            kind = t.kind
            how = r.below(6)
            if how <= 2:
                e = p
            elif how == 3:
                e = self.mk_smul(r.choice([2, -1, 3]), p)
            elif how == 4:
                q = self.same_storage_place(base, t.shape) or p
                e = self.mk_sub(p, q) if r.chance(1, 2) else self.bin(kind, r.choice(["max", "min"]), p, q)
            else:
                e = self.un(kind, r.choice(["abs", "neg"]), p)
        except Unsupported:
            return None
        form = r.choice(["set", "set", "plus", "minus", "times"])
        tb, td = base.bound, base.dexp
        if form == "set":
            nb, nd = max(tb << max(0, e.dexp - td), e.bound << max(0, td - e.dexp)), max(td, e.dexp)
        elif form in ("plus", "minus"):
            nb, nd = (tb << max(0, e.dexp - td)) + (e.bound << max(0, td - e.dexp)), max(td, e.dexp)
        else:
            nb, nd = tb * e.bound, td + e.dexp
        if max(1, nb).bit_length() + nd > MAXBITS or e.bits() > MAXBITS:
            return None
        base.bound, base.dexp = nb, nd
        if self.ctx is not None:
            self.ctx.count("alias_pair_statements")
        return self.render_statement(k, form, t, e)

    def scalar_statement(self, k):
        """x *= t / x /= t with a scalar t (kernels::assign<multiply|divide>(x, t), no temporary)"""
        r = self.r
        t = self.target()
        base = [v for v in self.vars if v.name in t.reads][0]
        form = r.choice(["times", "divide"])
        c = r.choice([2, -1, 3, 4, -2]) if form == "times" else r.choice([2, 4, -2, 1])
        if form == "times":
            nb, nd = base.bound * abs(c), base.dexp
        else:
            nb, nd = base.bound, base.dexp + abs(c).bit_length() - 1
        if max(1, nb).bit_length() + nd > MAXBITS:
            return None
        base.bound, base.dexp = nb, nd
        e = self.mk_cvec(t.shape, c) if t.kind == "V" else self.mk_cmat(t.shape[0], t.shape[1], c)
        return self.render_statement(k, form, t, e, scalar=c)

    def render_statement(self, k, fname, t, e, scalar=None):
        noalias = fname.startswith("na_")
        form = fname[3:] if noalias else fname
        base = [v for v in self.vars if v.name in t.reads][0]
        text = f"{fname} {t.txt} {e.txt}"
        tcpp = f"noalias({t.cpp})" if noalias else t.cpp
        ecpp = e.cpp if scalar is None else cnum(scalar)
        src = (f"// {text}" + ("   [scalar form]" if scalar is not None else "") + "\n"
               f"static void run_{k}(c01::Store& S){{ using namespace remora; {tcpp} {self.CPPOP[form]} {ecpp}; }}\n"
               f"static void exp_{k}(c01::Store const& S, c01::Store& X){{ using namespace c01; o_assign({form.upper()}, {t.porc}, {e.orc}); }}\n"
               f"static c01::Reg reg_{k}({k}, c01::Entry{{\"{text}\", &run_{k}, &exp_{k}, 0, 0}});\n")
        info = dict(form=fname + ("_scalar" if scalar is not None else ""), target_kind=t.kind, target_ops=t.ops,
                    aliased=(base.name in e.reads), depth=e.depth, ops=e.ops, shape=t.shape)
        return f"stmt {k} {text}", src, info

    REDS_V = ["sum", "max", "min", "norm_1", "norm_sqr", "norm_inf", "inner_prod"]
    REDS_M = ["msum", "mmax", "mmin", "trace", "mnorm_1", "mnorm_inf", "frobenius_prod"]

    def reduction(self, k):
        r = self.r
        depth = r.range(0, self.maxdepth)
        if r.chance(3, 5):
            kind = r.choice(self.REDS_V)
            n = self.dim()
            if kind in ("max", "min", "norm_inf") and n == 0:
                n = max(self.dims) or 1
                if n not in self.dims:
                    kind = "sum"; n = 0
            args = [self.gen_v(n, depth)]
            if kind == "inner_prod":
                args.append(self.gen_v(n, depth))
        else:
            kind = r.choice(self.REDS_M)
            n1, n2 = self.dim(), self.dim()
            if kind == "trace":
                n2 = n1
            if kind in ("mmax", "mmin", "mnorm_1", "mnorm_inf") and n1 * n2 == 0:
                kind = "msum"
            args = [self.gen_m(n1, n2, depth)]
            if kind == "frobenius_prod":
                args.append(self.gen_m(n1, n2, depth))
            if kind == "trace":
                try:
                    self.K("diag", args[0].cls)
                except Unsupported:
                    kind = "msum"
        return self.render_reduction(k, kind, args)

    def render_reduction(self, k, kind, args):
        a = args[0]
        if kind in ("max", "min", "norm_inf", "mmax", "mmin", "mnorm_1", "mnorm_inf") and \
                any(o in a.ops for o in ("diagm", "unit", "sparse")) and self.r is not None:
            # F19 (known, no patch): max/min folds over sparse-iterated expressions ignore the implicit zeros;
            # kept in the corpus, not generated
            kind = "sum" if a.kind == "V" else "msum"
        if kind == "frobenius_prod":
            b = args[1]
            n1, n2 = a.shape
            text = f"frobenius_prod {a.txt} {b.txt}"
            cpp = f"frobenius_prod({a.cpp},{b.cpp})"; orc = f"o_frob({a.orc},{b.orc})"
            bits = (max(1, n1 * n2) * a.bound * b.bound).bit_length() + a.dexp + b.dexp
            ops = a.ops + b.ops
        elif kind == "inner_prod":
            b = args[1]
            n = a.shape
            text = f"inner_prod {a.txt} {b.txt}"
            cpp = f"inner_prod({a.cpp},{b.cpp})"; orc = f"o_inner({a.orc},{b.orc})"
            bits = (max(1, n) * a.bound * b.bound).bit_length() + a.dexp + b.dexp
            ops = a.ops + b.ops
        elif a.kind == "V":
            n = a.shape
            text = f"{kind} {a.txt}"
            cpp = f"{kind}({a.cpp})"
            orc = {"sum": f"o_sum({a.orc})", "max": f"o_max({a.orc})", "min": f"o_min({a.orc})",
                   "norm_1": f"o_sum(o_un(f_abs,{a.orc}))", "norm_sqr": f"o_sum(o_un(f_sqr,{a.orc}))",
                   "norm_inf": f"o_max(o_un(f_abs,{a.orc}))"}[kind]
            bits = (max(1, n) * a.bound * (a.bound if kind == "norm_sqr" else 1)).bit_length() + 2 * a.dexp
            ops = a.ops
        else:
            n1, n2 = a.shape
            text = f"{kind} {a.txt}"
            cpp = {"msum": f"sum({a.cpp})", "mmax": f"max({a.cpp})", "mmin": f"min({a.cpp})", "trace": f"trace({a.cpp})",
                   "mnorm_1": f"norm_1({a.cpp})", "mnorm_inf": f"norm_inf({a.cpp})"}[kind]
            orc = {"msum": f"o_sum({a.orc}.x)", "mmax": f"o_max({a.orc}.x)", "mmin": f"o_min({a.orc}.x)",
                   "trace": f"o_trace({a.orc})", "mnorm_1": f"o_mnorm1({a.orc})", "mnorm_inf": f"o_mnorminf({a.orc})"}[kind]
            bits = (max(1, n1 * n2) * a.bound).bit_length() + 2 * a.dexp
            ops = a.ops
        if bits > MAXBITS:
            return None
        src = (f"// {text}\n"
               f"static double red_{k}(c01::Store& S){{ using namespace remora; return {cpp}; }}\n"
               f"static double rexp_{k}(c01::Store const& S){{ using namespace c01; return {orc}; }}\n"
               f"static c01::Reg reg_{k}({k}, c01::Entry{{\"{text}\", 0, 0, &red_{k}, &rexp_{k}}});\n")
        return f"red {k} {text}", src, dict(form="red:" + kind, ops=ops, depth=a.depth, aliased=False, target_kind="R",
                                             target_ops=(), shape=None)


# ------------------------------------------------------------------------------------------
# corpus: hand-written / minimised cases given as op text; rendered with the same constructors
# ------------------------------------------------------------------------------------------
def _tokens(t):
    return t.replace("(", " ( ").replace(")", " ) ").split()


def _parse(toks, i=0):
    if toks[i] == "(":
        out, i = [], i + 1
        while toks[i] != ")":
            e, i = _parse(toks, i)
            out.append(e)
        return out, i + 1
    return toks[i], i + 1


def _num(t):
    if "/" in t:
        a, b = t.split("/")
        return (int(a), int(b))
    return int(t)


class CorpusGen(Gen):
    """builds E nodes from op text (no random choices)"""

    def __init__(self, calc=None):
        Gen.__init__(self, None, None, 0, calc)

    def load(self, lines, k0):
        self.vars, init, stmts = [], [], []
        self.sparse = []
        nv = na = nb = 0
        ns = nc = 0
        k = k0
        for l in lines:
            t = l.split()
            if t[0] == "new":
                init.append(l)
            elif t[0] == "vec":
                v = Var("v", nv, int(t[1])); nv += 1
                v.bound = max([abs(int(x)) for x in t[2:]] + [1])
                self.vars.append(v); init.append(l)
            elif t[0] == "mat":
                idx = na if t[1] == "A" else nb
                v = Var(t[1], idx, (int(t[2]), int(t[3])))
                if t[1] == "A":
                    na += 1
                else:
                    nb += 1
                v.bound = max([abs(int(x)) for x in t[4:]] + [1])
                self.vars.append(v); init.append(l)
            elif t[0] == "svec":
                v = Var("s", ns, int(t[1])); ns += 1
                v.bound = max([abs(int(x.split(":")[1])) for x in t[2:]] + [1])
                self.sparse.append(v); init.append(l)
            elif t[0] == "smat":
                v = Var("C", nc, (int(t[1]), int(t[2]))); nc += 1
                v.bound = max([abs(int(x.split(":")[1])) for x in t[3:]] + [1])
                self.sparse.append(v); init.append(l)
            elif t[0] == "stmt":
                form = t[2]
                ses, pos, toks = [], 0, _tokens(" ".join(t[3:]))
                while pos < len(toks):
                    e, pos = _parse(toks, pos)
                    ses.append(e)
                tgt, e = self.build(ses[0]), self.build(ses[1])
                stmts.append((k,) + self.render_statement(k, form, tgt, e))
                k += 1
            elif t[0] == "red":
                kind = t[2]
                ses, pos, toks = [], 0, _tokens(" ".join(t[3:]))
                while pos < len(toks):
                    e, pos = _parse(toks, pos)
                    ses.append(e)
                stmts.append((k,) + self.render_reduction(k, kind, [self.build(x) for x in ses]))
                k += 1
            else:
                raise ValueError("corpus line not understood: " + l)
        return (init, stmts), k

    def var(self, kind, idx):
        for v in self.vars + self.sparse:
            if v.kind == kind and v.idx == idx:
                return v.expr()
        raise ValueError(f"unknown variable {kind}{idx}")

    def build(self, se):
        h, a = se[0], se[1:]
        B = self.build
        if h in ("v", "A", "B", "s", "C"):
            return self.var(h, int(a[0]))
        if h == "range": return self.mk_range(B(a[0]), int(a[1]), int(a[2]))
        if h == "row": return self.mk_row(B(a[0]), int(a[1]))
        if h == "col": return self.mk_col(B(a[0]), int(a[1]))
        if h == "diag": return self.mk_diag(B(a[0]))
        if h == "tovec": return self.mk_tovec(B(a[0]))
        if h == "trans": return self.mk_trans(B(a[0]))
        if h == "mrange": return self.mk_mrange(B(a[0]), *map(int, a[1:5]))
        if h == "rows": return self.mk_rows(B(a[0]), int(a[1]), int(a[2]))
        if h == "cols": return self.mk_cols(B(a[0]), int(a[1]), int(a[2]))
        if h in ("smul", "msmul"): return self.mk_smul(_num(a[0]), B(a[1]))
        if h in ("add", "madd"): return self.mk_add(B(a[0]), B(a[1]))
        if h in ("sub", "msub"): return self.mk_sub(B(a[0]), B(a[1]))
        if h == "un": return self.un("V", a[0], B(a[1]))
        if h == "mun": return self.un("M", a[0], B(a[1]))
        if h == "bin": return self.bin("V", a[0], B(a[1]), B(a[2]))
        if h == "mbin": return self.bin("M", a[0], B(a[1]), B(a[2]))
        if h == "cvec": return self.mk_cvec(int(a[0]), _num(a[1]))
        if h == "unit": return self.mk_unit(int(a[0]), int(a[1]), _num(a[2]))
        if h == "cmat": return self.mk_cmat(int(a[0]), int(a[1]), _num(a[2]))
        if h == "concat": return self.mk_concat(B(a[0]), B(a[1]))
        if h in ("mv", "mm") and isinstance(a[0], list) and a[0][0] == "tri":
            return (self.mk_trimv if h == "mv" else self.mk_trimm)(a[0][1], B(a[0][2]), B(a[1]))
        if h == "mv": return self.mk_mv(B(a[0]), B(a[1]))
        if h == "vm": return self.mk_vm(B(a[0]), B(a[1]))
        if h == "sumrows": return self.mk_sumrows(B(a[0]))
        if h == "sumcols": return self.mk_sumcols(B(a[0]))
        if h in ("maxrows", "mincols"): return self.mk_foldrows(h, B(a[0]))
        if h == "fold": return self.mk_fold(a[0], a[1] == "rows", B(a[2]))
        if h == "outer": return self.mk_outer(B(a[0]), B(a[1]))
        if h == "mm": return self.mk_mm(B(a[0]), B(a[1]))
        if h == "repeat": return self.mk_repeat(B(a[0]), int(a[1]))
        if h == "diagm": return self.mk_diagm(B(a[0]))
        if h == "concatr": return self.mk_concatr(B(a[0]), B(a[1]))
        if h == "concatb": return self.mk_concatb(B(a[0]), B(a[1]))
        raise ValueError("corpus expression head not understood: " + h)


PRELUDE = """// generated by checks/c01gen.py -- do not edit
#include "c01_harness.hpp"
namespace {
inline remora::scalar_vector<double, remora::cpu_tag> blas_cvec(std::size_t n, double a){ return remora::repeat(a, n); }
inline remora::unit_vector<double, remora::cpu_tag> blas_unit(std::size_t n, std::size_t k, double a){ return remora::unit_vector<double, remora::cpu_tag>(n, k, a); }
inline remora::scalar_matrix<double, remora::cpu_tag, remora::row_major> blas_cmat(std::size_t n1, std::size_t n2, double a){ return remora::repeat(a, n1, n2); }
template<class V> inline auto blas_diagm(V const& v) -> decltype(remora::to_diagonal(v)) { return remora::to_diagonal(v); }
"""
POSTLUDE = "}\n"
