"""C10 — gradient-based optimizers: theorems (Props/C10.lean) + correspondence K-C10 between
Model/GradOpt.lean (driver drv_c10, run at Float and at Rat) and the real Shark optimizers."""
import os, re, struct, time
from concurrent.futures import ThreadPoolExecutor
from vlib import core

REPO_SOURCES = ["src/Algorithms/GradientDescent/AbstractLineSearchOptimizer.cpp",
                "src/Algorithms/GradientDescent/LineSearch.cpp",
                "src/Algorithms/GradientDescent/BFGS.cpp",
                "src/Algorithms/GradientDescent/LBFGS.cpp",
                "src/Algorithms/GradientDescent/CG.cpp",
                "src/Algorithms/GradientDescent/Rprop.cpp",
                "src/Algorithms/GradientDescent/TrustRegionNewton.cpp",
                "src/Core/Random.cpp"]
LAKE_TARGETS = ["SharkVerif.Props.C10", "drv_c10"]

TRUST = ("Lean 4.33 kernel; axioms at most propext/Classical.choice/Quot.sound (audited per run); hand-written model "
         "tied to the C++ by the correspondence harness (differential, generator-bounded); ")
MANIFEST = dict(
  text=("Theorems (Props/C10.lean) about executable models of SteepestDescent, Adam, the Rprop family, "
        "AbstractLineSearchOptimizer with BFGS / CG / L-BFGS (unconstrained direction) and the backtracking line search, "
        "for every objective (arbitrary f, grad, feasibility predicate), starting point, parameter setting and number of steps: "
        "best_value_is_f_best_point (reported value = f(reported point) after init and every step, for every optimizer of the model and every scalar type incl. Float), "
        "ls_derivative_is_grad_best_point, backtracking_no_increase (+ failure leaves point/value/gradient unchanged), "
        "linesearch_methods_monotone_bfgs (the values reported by BFGS with any dimension-preserving no-increase line search, in particular backtracking, are non-increasing over the whole run, "
        "because bfgsUpdate_listPD keeps the list-based inverse-Hessian approximation symmetric positive definite (transported from bfgs_update_symPD on Mathlib matrices) and bfgs_direction_descent gives g'd<0), "
        "linesearch_methods_monotone_partial (any of BFGS/CG/L-BFGS: one step does not increase the value given a non-ascent direction), direction_descent_neg_gradient, "
        "sd/adam/rprop/ls/trn_step_reads_archived (against member lists regenerated from the C++ read/write bodies by translate/opt_fields.py on every run: every member step reads is archived, read mirrors write, the archive is the model's Saved structure), "
        "box_feasible_inv_rprop (Rprop never leaves the feasible set), resume_same_iterates (read(write s) = s for the archived members, so a restored instance continues with the same iterates). "
        "Tie: SteepestDescent/Adam/Rprop are compared bit for bit (Float instance of the same definitions, same operation order) and, for every C++ step that raised no FE_INEXACT, "
        "exactly with the Rat instance; BFGS/CG/L-BFGS by one-step refinement from the harness' own previous state (bit-identical in >90% of the steps, 1e-9 tolerance otherwise); "
        "the line searches are additionally called directly from arbitrary points along arbitrary (descent, ascent, zero, random) directions (backtracking compared with the model, all three types checked against the contracts value=f(point), gradient=grad(point), no increase when g'd<=0); "
        "save/restore at random step indices through text and binary archives into a 0xFF-poisoned fresh instance, strict and lenient protocol."),
  note=TRUST + "monotonicity over whole runs is proved for BFGS only; for CG and L-BFGS only the one-step statement under the hypothesis that the direction is a non-ascent direction "
       "(not provable for the C++ CG restart branch d := d - g, nor for Dai-Yuan CG with an Armijo-only line search; the L-BFGS two-loop recursion is modelled and tied but its positive definiteness is not proved); "
       "only exercised by the correspondence / harness oracle (not theorems): dlinmin and wolfecubic line searches (contracts LSSound/LSNoIncrease are hypotheses, checked per step on the real code), "
       "the box-constrained L-BFGS dog-leg (feasibility + monotonicity oracle only), TrustRegionNewton (oracle only: value=f(point), finite, no increase, resume), "
       "finiteness, convergence on strictly convex quadratics (numerical: ||grad||_inf <= 1e-6(1+||b||_inf) after 400/1000 steps). "
       "Findings F8a-e, F9, F10, F11 (findings_proposed/C10.md) make the check fail on the unpatched tree; it is green on the tree with the proposed patches.",
  technique="Lean 4 invariant/refinement proofs over all step sequences + differential correspondence with the C++ (ASan/UBSan), bit-exact and exact-rational modes",
  design="§6 C10")
FINISH = dict(level="proof",
              rule="one case = objective (integer strictly convex quadratic A=M'M+kI n<=5 | Rosenbrock n<=4, optional dyadic box) + optimizer + "
                   "dyadic starting point + steps with save/restore ops at random indices; non-trivial = at least 3 steps; distinct = distinct op text")


def fb(x):
    return "x%016x" % struct.unpack("<Q", struct.pack("<d", float(x)))[0]


def nums(xs):
    return " ".join(fb(x) for x in xs)


# ------------------------------------------------------------------ generators
def gen_objective(r, boxed=None):
    """returns (op lines, n, info)"""
    if r.chance(2, 3):
        n = r.choice([1, 2, 2, 3, 3, 4, 5])
        M = [[r.range(-2, 2) for _ in range(n)] for _ in range(n)]
        k = r.choice([1, 1, 2, 4])
        A = [[sum(M[t][i] * M[t][j] for t in range(n)) + (k if i == j else 0) for j in range(n)] for i in range(n)]
        b = [r.range(-4, 4) for _ in range(n)]
        ops = ["obj quad %d %s %s" % (n, nums(x for row in A for x in row), nums(b))]
        kind = "quad"
    else:
        n = r.choice([2, 2, 3, 4])
        ops = ["obj rosen %d" % n]
        kind = "rosen"
    box = None
    if boxed if boxed is not None else r.chance(1, 3):
        lo = [-(r.choice([1, 2, 4, 8]) / r.choice([1, 2, 4])) for _ in range(n)]
        hi = [(r.choice([1, 2, 4, 8]) / r.choice([1, 2, 4])) for _ in range(n)]
        ops.append("box %s %s" % (nums(lo), nums(hi)))
        box = (lo, hi)
    return ops, n, (kind, sum(A[i][i] for i in range(n)) if kind == "quad" else 0), box


def gen_x0(r, n, box, small=False):
    x = []
    for i in range(n):
        if small and not box:
            x.append(r.range(-12, 12) / 8)
        elif box:
            lo, hi = box[0][i], box[1][i]
            steps = 16
            x.append(lo + (hi - lo) * r.range(0, steps) / steps)
        else:
            x.append(r.range(-32, 32) / r.choice([1, 2, 4, 8]))
    return x


def gen_scalar_opt(r, box, kind):
    """optimizers compared bit for bit: sd, adam, rprop.  Steepest descent with a fixed learning rate
    diverges by design when the rate exceeds 2/L; the generator keeps it in the stable regime
    (quadratics: rate <= 1/trace(A) <= 1/lambda_max; Rosenbrock: rate <= 2^-12 from |x0| <= 1.5)"""
    k = r.below(10)
    if box:
        k = 9   # only Rprop can solve constrained problems
    if k < 3:
        if kind[0] == "quad":
            L = kind[1]
            p2 = 1.0
            while p2 * L > 1: p2 /= 2
            lr = r.choice([p2, p2 / 2, p2 / 4, 1.0 / L, 0.1 / L])
        else:
            lr = r.choice([2.0 ** -12, 2.0 ** -13, 0.0001])
        return "sd", "opt sd " + nums([lr, r.choice([0.0, 0.0, 0.5, 0.25])])
    if k < 5:
        return "adam", "opt adam " + nums([r.choice([0.001, 0.01, 0.125]), r.choice([0.9, 0.5]),
                                            r.choice([0.999, 0.75]), r.choice([1e-8, 0.0009765625])])
    fr, bt, ov = r.below(2), r.below(2), r.below(2)
    return "rprop", "opt rprop " + nums([r.choice([1.2, 1.5, 2.0]), r.choice([0.5, 0.25]),
                                           r.choice([1e100, 1.0, 4.0]), r.choice([0.0, 0.0009765625]),
                                           fr, bt, ov, r.choice([0.01, 0.125, 0.5])])


def gen_scalar_case(r, maxsteps):
    ops, n, kind, box = gen_objective(r)
    oname, oline = gen_scalar_opt(r, box, kind)
    ops.append(oline)
    ops.append("init " + nums(gen_x0(r, n, box, small=(kind[0] == "rosen"))))
    nsteps = r.range(1, maxsteps)
    nsave = r.choice([0, 1, 1, 2, 3])
    saves = sorted(r.range(0, nsteps) for _ in range(nsave))
    for i in range(nsteps + 1):
        for s in saves:
            if s == i:
                ops.append("save %s %s" % (r.choice(["text", "bin"]), r.choice(["strict", "lenient"])))
        if i < nsteps:
            ops.append("step")
    return ops


def gen_ls_case(r, maxsteps, converge=False):
    """BFGS / CG / L-BFGS (box constraints: L-BFGS only) / trust-region Newton"""
    kind = r.choice(["bfgs", "bfgs", "cg", "cg", "lbfgs", "lbfgs", "lbfgs", "trn"])
    boxed = (kind == "lbfgs" and r.chance(1, 2)) and not converge
    while True:
        ops, n, okind, box = gen_objective(r, boxed=boxed)
        if not converge or okind[0] == "quad":
            break
    ls = 2 if boxed else r.choice([0, 1, 1, 2, 2])
    if kind == "trn":
        ops.append("opt trn")
    elif kind == "lbfgs":
        ops.append("opt lbfgs " + nums([ls, r.choice([1, 2, 3, 5, 100])]))
    else:
        ops.append(f"opt {kind} " + nums([ls]))
    ops.append("init " + nums(gen_x0(r, n, box, small=(okind[0] == "rosen"))))
    nsteps = maxsteps if converge else r.range(1, maxsteps)
    nsave = 0 if converge else r.choice([0, 1, 1, 2, 3])
    saves = sorted(r.range(0, nsteps) for _ in range(nsave))
    for i in range(nsteps + 1):
        for sv in saves:
            if sv == i:
                ops.append("save %s %s" % (r.choice(["text", "bin"]), r.choice(["strict", "lenient"])))
        if i < nsteps:
            ops.append("step")
    if converge:
        ops.append("converged " + fb(1e-6))
    return ops


def gen_linesearch_case(r, nls):
    """direct line searches from arbitrary points along arbitrary directions: descent (-g, scaled), ascent (+g),
    zero, random; many start at the origin or have zero coordinates so that a spurious move is visible"""
    while True:
        ops, n, okind, box = gen_objective(r, boxed=False)
        if okind[0] == "quad":
            break
    A = [struct.unpack(">d", bytes.fromhex(t[1:]))[0] for t in ops[0].split()[3:3 + n * n]]
    b = [struct.unpack(">d", bytes.fromhex(t[1:]))[0] for t in ops[0].split()[3 + n * n:]]
    for _ in range(nls):
        x = [r.choice([0, 0, 1, -1, 0.5, r.range(-16, 16) / 4]) for _ in range(n)]
        g = [sum(A[i * n + j] * x[j] for j in range(n)) - b[i] for i in range(n)]
        k = r.below(8)
        if k < 3: d = [-v * r.choice([1, 1, 0.25, 2.0 ** 20, 2.0 ** -20]) for v in g]
        elif k < 5: d = [v * r.choice([1, 2.0 ** 10, 2.0 ** -10]) for v in g]       # ascent: every trial fails
        elif k < 6: d = [0.0] * n
        else: d = [r.range(-8, 8) / 2 for _ in range(n)]
        ops.append("ls %s %s %s %s" % (fb(r.choice([2, 2, 2, 1, 0])), fb(r.choice([1.0, 1.0, 0.5, 8.0, 2.0 ** -10])), nums(x), nums(d)))
    return ops


def case_info(ops):
    info = {"opt": "?", "obj": "?", "n": 0, "box": False, "saves": [], "steps": 0}
    for o in ops:
        t = o.split()
        if t[0] == "obj": info["obj"], info["n"] = t[1], int(t[2])
        elif t[0] == "box": info["box"] = True
        elif t[0] == "opt": info["opt"] = t[1]
        elif t[0] == "save": info["saves"].append(t[2])
        elif t[0] in ("step", "ls"): info["steps"] += 1
        if t[0] == "ls" and info["opt"] == "?": info["opt"] = "linesearch"
    return info


# ------------------------------------------------------------- comparison
def split_line(l):
    """-> (payload, flags dict, oracle tags)"""
    oracle = re.findall(r"!oracle (\S+)", l)
    l = l.split(" !oracle")[0]
    parts = l.split(" #")
    flags = dict(p.split("=", 1) for p in parts[1:] if "=" in p)
    return parts[0], flags, oracle


class Res:
    def __init__(self):
        self.ok, self.crash, self.oracle, self.diff_at, self.why = True, False, [], None, ""
        self.impl, self.model, self.stderr = [], [], ""


def run_case(ctx, hcmd, dcmd, ops, timeout=120, stats=None):
    r = Res()
    r.impl, r.model, rc, r.stderr = ctx.run_pair(hcmd, dcmd, "\n".join(ops) + "\n", timeout=timeout)
    if rc != 0:
        r.crash, r.ok = True, False
    for i, l in enumerate(r.impl):
        p, fl, orc = split_line(l)
        if orc:
            r.oracle.append(l); r.ok = False
        if i >= len(r.model):
            break
        pm, fm, _ = split_line(r.model[i])
        if p != pm:
            if r.diff_at is None: r.diff_at, r.why = i, "model-differs"
            r.ok = False
        elif fl.get("ex") == "1" and fm.get("rat") == "0":
            # a C++ step without any rounding must agree with the exact rational model
            if r.diff_at is None: r.diff_at, r.why = i, "exact-step-differs-from-rational-model"
            r.ok = False
        if stats is not None and "ex" in fl:
            stats["exact" if fl["ex"] == "1" else "rounded"] = stats.get("exact" if fl["ex"] == "1" else "rounded", 0) + 1
            if fm.get("rat") == "1": stats["rat_equal"] = stats.get("rat_equal", 0) + 1
    if len(r.impl) != len(r.model) and r.diff_at is None:
        r.diff_at, r.why, r.ok = min(len(r.impl), len(r.model)), "length", False
    return r


LS_KINDS = ("bfgs", "cg", "lbfgs")


def run_case_ls(ctx, hcmd, dcmd, ops, timeout=120, stats=None):
    """line-search optimizers and trust-region Newton: the harness runs first; every reported state is
    then handed to the driver, which re-computes the step with the model from the *previous reported
    state* (one-step refinement, no error accumulation) and answers `ok bits`, `ok tol <fields>` or
    `MISMATCH <field>`.  Trust-region Newton has no model: harness oracle only."""
    import subprocess
    r = Res()
    e = dict(os.environ); e.setdefault("ASAN_OPTIONS", "detect_leaks=0"); e.setdefault("UBSAN_OPTIONS", "print_stacktrace=1")
    try:
        ph = subprocess.run(hcmd, input="\n".join(ops) + "\n", stdout=subprocess.PIPE, stderr=subprocess.PIPE,
                            text=True, errors="replace", timeout=timeout, env=e)
        r.impl, r.stderr, rc = ph.stdout.splitlines(), ph.stderr[-3000:], ph.returncode
    except subprocess.TimeoutExpired:
        r.impl, r.stderr, rc = [], "TIMEOUT", -99
    if rc != 0:
        r.crash, r.ok = True, False
    dops, expect, kind = [], [], None
    for i, o in enumerate(ops):
        t = o.split()
        line = r.impl[i] if i < len(r.impl) else ""
        payload, fl, orc = split_line(line)
        if orc:
            r.oracle.append(line); r.ok = False
        m = re.search(r" st=(\S+)", payload)
        if t[0] in ("obj", "box"):
            dops.append(o); expect.append("plain")
        elif t[0] == "opt":
            kind = t[1]
            if kind in LS_KINDS:
                ls = int(struct.unpack("<d", bytes.fromhex(t[2][1:])[::-1])[0])
                nh = int(struct.unpack("<d", bytes.fromhex(t[3][1:])[::-1])[0]) if kind == "lbfgs" else 100
                dops.append(f"xopt {kind} {ls} {nh}")
            else:
                dops.append("")
            expect.append("plain")
        elif t[0] == "ls" and m:
            typ = int(struct.unpack(">d", bytes.fromhex(t[1][1:]))[0])
            if typ == 2:
                n = int(m.group(1).split(",")[0])
                dops.append("xls %d %s %s" % (n, ",".join(t[2:]), m.group(1).split(",", 1)[1])); expect.append("verdict")
            else:
                dops.append(""); expect.append("skip")
        elif t[0] in ("init", "step") and kind in LS_KINDS and m:
            dops.append(("xinit " if t[0] == "init" else "xstep ") + m.group(1)); expect.append("verdict")
        else:
            dops.append(""); expect.append("skip")
    pd = subprocess.run(dcmd, input="\n".join(dops) + "\n", stdout=subprocess.PIPE, stderr=subprocess.PIPE,
                        text=True, errors="replace", timeout=timeout)
    r.model = pd.stdout.splitlines()
    for i, ex in enumerate(expect):
        got = r.model[i] if i < len(r.model) else "<missing>"
        if ex == "verdict":
            if stats is not None:
                k = "bits" if got == "ok bits" else ("tol" if got.startswith("ok tol") else "mismatch")
                stats[k] = stats.get(k, 0) + 1
            if not got.startswith("ok"):
                if r.diff_at is None: r.diff_at, r.why = i, "model-differs:" + got.replace(" ", "-")
                r.ok = False
        elif ex == "plain" and got not in ("ok", ""):
            if r.diff_at is None: r.diff_at, r.why = i, "driver:" + got
            r.ok = False
    return r


def classify(ops, res):
    info = case_info(ops)
    opt = info["opt"]
    tags = sorted({t for l in res.oracle for t in re.findall(r"!oracle (\S+)", l)})
    # anything that goes wrong at or after a save op is a resume failure
    first_bad = None
    for i, l in enumerate(res.impl):
        if "!oracle" in l:
            first_bad = i; break
    if res.crash and first_bad is None:
        first_bad = len(res.impl)
    if first_bad is None:
        first_bad = res.diff_at
    saves_before = [o.split()[2] for o in ops[:(first_bad if first_bad is not None else len(ops)) + 1] if o.startswith("save")]
    otext = " ".join(res.oracle)
    if opt == "trn" and "increased" in tags:
        return ("F10:trn-accepts-increase", f"TrustRegionNewton accepts a step that increases the objective (borderDistance sign); ops {ops}")
    if opt == "lbfgs" and "internal error" in otext:
        return ("F11:lbfgs-box-internal-error", f"box-constrained LBFGS throws 'internal error' from computeSearchDirection; ops {ops}")
    if opt == "lbfgs" and info["box"] and "input stream error" in otext:
        return ("F9:lbfgs-box-nan-direction", f"box-constrained LBFGS stores a NaN search direction at a stationary boundary point; its text archive cannot be read back; ops {ops}")
    if saves_before and (res.crash or "resume-diverged" in tags or "exception" in tags or res.why.startswith("model-differs")):
        mode = saves_before[-1]
        how = "crash" if res.crash else ("exception" if "exception" in tags else "diverged")
        return (f"F8-resume:{opt}:{mode}",
                f"{opt} saved and restored into a fresh instance ({mode} protocol) does not continue with the same iterates ({how}); ops {ops}")
    if res.crash:
        m = re.search(r"ERROR: AddressSanitizer: (\S+)|runtime error: ([^\n]*)", res.stderr)
        tag = (m.group(1) or m.group(2)) if m else "crash"
        return f"crash:{opt}:{tag[:40]}", f"harness aborted ({tag}) on ops {ops}"
    if tags:
        return f"oracle:{'+'.join(tags)}:{opt}:{info['obj']}", f"property oracle failed ({tags}) on ops {ops}"
    return f"mismatch:{res.why}:{opt}", f"model and implementation disagree ({res.why}) at line {res.diff_at} of ops {ops}"


def correspond(ctx, name, cases, hcmd, dcmd, max_report=6, keep_prefix=0, run_case=run_case):
    """like core.correspond, with the #ex/#rat flag logic of run_case above"""
    t = time.time()
    stats = {}
    all_ops = [l for c in cases for l in c]
    big = run_case(ctx, hcmd, dcmd, all_ops, timeout=900, stats=stats)
    ctx.count("traces_validated_against_impl", len(cases))
    ctx.count("ops_compared", len(all_ops))
    for k, v in stats.items():
        ctx.count(f"{name}:steps_{k}", v)
    if big.ok:
        ctx.log(f"{name}: {len(cases)} cases / {len(all_ops)} ops agree ({time.time()-t:.1f}s) {stats}")
        return 0
    with ThreadPoolExecutor(max_workers=6) as ex:
        results = list(ex.map(lambda c: run_case(ctx, hcmd, dcmd, c), cases))
    failing = [(c, r) for c, r in zip(cases, results) if not r.ok]
    if not failing:
        failing = [(all_ops, big)]
    ctx.log(f"{name}: {len(failing)} of {len(cases)} cases FAIL")
    seen = set()
    for c, r in failing:
        key0, _ = classify(c, r)
        if key0 in seen:
            continue
        def fails(ops):
            rr = run_case(ctx, hcmd, dcmd, ops, timeout=60)
            return (not rr.ok) and classify(ops, rr)[0] == key0
        # keep the header (everything up to and including init), shrink the step/save tail
        hdr = next((i for i, o in enumerate(c) if o.startswith("init")), 0) + 1
        # (a convergence failure is a statement about the whole budget: not shrunk)
        small = core.shrink_ops(c, fails, keep_prefix=hdr) if len(c) > hdr + 1 and "not-converged" not in key0 else c
        rs = run_case(ctx, hcmd, dcmd, small, timeout=60)
        if rs.ok:
            small, rs = c, r
        key, what = classify(small, rs)
        seen.add(key0); seen.add(key)
        found = bool(rs.oracle) or rs.crash
        b = ctx.broken("correspondence", f"{name}:{key}", what)
        b["resolved"] = True
        replay = {"harness_cmd": hcmd, "driver_cmd": dcmd, "ops": small, "impl_output": rs.impl[-12:],
                  "model_output": rs.model[-12:], "first_diff_line": rs.diff_at, "why": rs.why,
                  "oracle": rs.oracle[:5], "crash": rs.crash, "stderr_tail": rs.stderr[-1500:]}
        ctx.violation(key, replay, found_input=found, what=what)
        if len(seen) >= 2 * max_report:
            break
    return len(failing)


def load_corpus():
    d = os.path.join(core.VERIF, "corpus", "C10")
    out = []
    if os.path.isdir(d):
        for fn in sorted(os.listdir(d)):
            ops = [l.strip() for l in open(os.path.join(d, fn)) if l.strip() and not l.startswith("#")]
            if ops: out.append(ops)
    return out


def translate(ctx):
    return ctx.translate("opt_fields.py")


def build(ctx):
    return ctx.harness("c10", ["c10.cpp"], repo_sources=REPO_SOURCES)


def trn_instantiable(ctx):
    """compile probe harness/c10_trn.cpp (syntax only, cached by the hash of the header)"""
    hdr = os.path.join(core.REPO, "include/shark/Algorithms/GradientDescent/TrustRegionNewton.h")
    src = os.path.join(core.VERIF, "harness", "c10_trn.cpp")
    key = core.sha(core.file_sha(hdr) + core.file_sha(src))[:16]
    stamp = os.path.join(core.CACHE, f"c10trn-{key}.rc")
    if os.path.exists(stamp):
        rc, out = int(open(stamp).read().split("\n", 1)[0]), open(stamp).read().split("\n", 1)[1]
    else:
        inc = ctx.shark_h()
        rc, out = core.sh(["g++", "-std=c++11", "-fsyntax-only", "-DNDEBUG", "-w", "-I" + inc,
                           "-I" + os.path.join(core.REPO, "include"), src], timeout=600)
        open(stamp, "w").write(f"{rc}\n{out[-1500:]}")
    ctx.cov["trn_instantiable"] = (rc == 0)
    if rc != 0:
        ctx.violation("F8c:trn-abstract-class", {"probe": "harness/c10_trn.cpp", "compiler_output": out[-1500:],
                      "ops": ["(compile) shark::TrustRegionNewton optimizer;"]}, found_input=True,
                      what="TrustRegionNewton cannot be instantiated: init(ObjectiveFunctionType&, ...) does not override the pure virtual init(ObjectiveFunctionType const&, ...)")
    return rc == 0


def record(ctx, cases):
    for c in cases:
        i = case_info(c)
        ctx.hist("optimizer", i["opt"]); ctx.hist("objective", i["obj"] + ("+box" if i["box"] else ""))
        ctx.hist("dimension", i["n"]); ctx.hist("steps", min(i["steps"] // 10 * 10, 100))
        for s in i["saves"]: ctx.hist("save_protocol", s)
        ctx.hist("saves_per_case", len(i["saves"]))


def run(ctx):
    ctx.trusted += ["correspondence harness harness/c10.cpp + generator checks/c10.py",
                    "hand-written model Model/GradOpt.lean, Model/Objectives.lean",
                    "ASan/UBSan runtime for the real code's memory safety (not a theorem)"]
    translate(ctx)
    ctx.prove(["SharkVerif.Props.C10"])
    if not ctx.quick:
        ctx.leanchecker(["SharkVerif.Props.C10"])
    exe = build(ctx)
    drv = ctx.driver("drv_c10")
    if not exe or not drv:
        return
    trn_instantiable(ctx)
    corpus = load_corpus()
    ctx.cov["corpus_cases"] = len(corpus)
    r = ctx.rng.fork("c10")
    nsc, maxsteps = (160, 30) if ctx.quick else (1500, 120)
    cases = [c for c in corpus if case_info(c)["opt"] in ("sd", "adam", "rprop")]
    cases += [gen_scalar_case(r, maxsteps) for _ in range(nsc)]
    record(ctx, cases)
    ctx.cov["evaluations"] = len(cases)
    ctx.cov["distinct_nontrivial"] = len({"\n".join(c) for c in cases if case_info(c)["steps"] >= 3})
    ctx.sample({"ops": cases[len(cases) // 2][:8]})
    correspond(ctx, "K-C10[scalar]", cases, [exe], [drv])
    nls, maxls, nconv = (160, 25, 12) if ctx.quick else (1500, 80, 150)
    lcases = [c for c in corpus if case_info(c)["opt"] not in ("sd", "adam", "rprop")]
    lcases += [gen_ls_case(r, maxls) for _ in range(nls)]
    # generous budget: CG with the backtracking line search needs > 100 steps on the worse-conditioned 5-d instances
    lcases += [gen_ls_case(r, 400 if ctx.quick else 1000, converge=True) for _ in range(nconv)]
    lcases += [gen_linesearch_case(r, 12) for _ in range(40 if ctx.quick else 400)]
    record(ctx, lcases)
    for c in lcases:
        for o in c:
            if o.startswith("opt ") and o.split()[1] in LS_KINDS:
                ctx.hist("line_search_type", {0: "dlinmin", 1: "wolfecubic", 2: "backtracking"}[
                    int(struct.unpack(">d", bytes.fromhex(o.split()[2][1:]))[0])])
    ctx.cov["evaluations"] += len(lcases)
    ctx.cov["distinct_nontrivial"] += len({"\n".join(c) for c in lcases if case_info(c)["steps"] >= 3})
    ctx.sample({"ops": lcases[len(lcases) // 2][:8]})
    correspond(ctx, "K-C10[linesearch]", lcases, [exe], [drv], run_case=run_case_ls)


def replay(ctx, rep):
    exe = build(ctx); drv = ctx.driver("drv_c10")
    scalar = case_info(rep["ops"])["opt"] in ("sd", "adam", "rprop")
    res = (run_case if scalar else run_case_ls)(ctx, [exe], [drv], rep["ops"])
    print("\n".join(f"impl : {a}\nmodel: {b}" for a, b in zip(res.impl, res.model)))
    print("stderr:", res.stderr[-2000:])
    print("OK" if res.ok else "FAILS")
    return 0 if res.ok else 1
