"""C10 — gradient-based optimizers: theorems (Props/C10.lean) + correspondence K-C10 between
Model/GradOpt.lean (driver drv_c10, run at Float and at Rat) and the real Shark optimizers."""
import os, re, struct, time
from concurrent.futures import ThreadPoolExecutor
from vlib import core

REPO_SOURCES = ["src/Algorithms/GradientDescent/AbstractLineSearchOptimizer.cpp",
                "src/Algorithms/GradientDescent/LineSearch.cpp",
                "src/Algorithms/GradientDescent/BFGS.cpp",
                "src/Algorithms/GradientDescent/LBFGS.cpp",
                "src/Algorithms/GradientDescent/CG.cpp",
                "src/Algorithms/GradientDescent/Rprop.cpp",
                "src/Algorithms/GradientDescent/TrustRegionNewton.cpp",
                "src/Core/Random.cpp"]
LAKE_TARGETS = ["SharkVerif.Props.C10", "SharkVerif.Props.C10Deep", "SharkVerif.Gen.LbfgsBox", "SharkVerif.Gen.LineSearchSrc", "drv_c10"]

TRUST = ("Lean 4.33 kernel; axioms at most propext/Classical.choice/Quot.sound (audited per run); hand-written model "
         "tied to the C++ by the correspondence harness (differential, generator-bounded); ")
MANIFEST = dict(
  text=("Theorems (Props/C10.lean, Props/C10Deep.lean, Lemmas/LineSearches.lean, Lemmas/LBFGS.lean) about executable models of SteepestDescent (with momentum), Adam, the Rprop family (8 flag combinations incl. IRprop+/-), "
        "AbstractLineSearchOptimizer with BFGS / CG (Dai-Yuan beta, periodic reset, the C++ restart branch d := d - g) / L-BFGS (unconstrained two-loop direction AND the box-constrained Cauchy-point/dog-leg direction getBoxConstrainedDirection), "
        "ALL THREE line searches of LineSearch.cpp as loops with fuel (backtracking; wolfecubic: bracketing by tenfold expansion, zoom by clamped cubic interpolation wlsCubicInterp with the 10% safeguard; dlinmin: mnbrak bracketing with parabolic extrapolation + Brent's method with derivatives), "
        "and TrustRegionNewton (forcing schedule, CG-Steihaug sub-problem trustRegionCG, borderDistance, errorDifference, radius update, acceptance rule), "
        "for every objective (arbitrary f, grad, feasibility predicate), starting point, parameter setting and number of steps. "
        "(1) value consistency: best_value_is_f_best_point (init + every step, every optimizer of the model, every scalar type incl. Float), best_value_is_f_best_point_history (every history of init / step / init-again-on-the-used-object / archive-and-restore into any object; 'best' is the current iterate, for SteepestDescent and Adam the last one), "
        "trn_value_is_f_point (TrustRegionNewton: value, gradient and Hessian are those of the reported point, every scalar type), dlinmin_sound (every scalar type, no hypothesis), wolfecubic_contract / dlinmin_contract / backtracking_contract / lineSearchOf_contract "
        "(the modelled line searches, every type, every initial bracket, every sqrt: value = f(point), gradient = grad(point), same dimension, no increase along a non-ascent direction; dlinmin_no_increase needs no hypothesis on the direction), ls_derivative_is_grad_best_point, wolfecubic_single_strong_wolfe (when the bracketing phase accepts a trial step outright the returned point satisfies both strong Wolfe conditions with c1 = 1e-4, c2 = 0.9, or the start is kept); "
        "(2) line-search methods never increase the objective, over whole runs and with NO hypothesis about the line search left: linesearch_methods_monotone_bfgs_modelled (bfgsUpdate_listPD keeps the inverse-Hessian approximation SPD, incl. the reset branch), "
        "linesearch_methods_monotone_lbfgs_modelled (lbfgs_two_loop_is_matrix: for every history length the two loops of multBInv compute M x where M is (1/bdiag) I followed by one BFGS inverse update per stored pair, and M is symmetric positive definite because updateHist only stores pairs with y's > 1e-10; lbfgs_direction_descent), "
        "linesearch_methods_monotone_cg_modelled (CG with the modelled wolfecubic or backtracking on every objective with a monotone gradient, i.e. every convex objective incl. all strictly convex quadratics: cg_direction_nonascent shows that periodic reset, restart branch and Dai-Yuan update give non-ascent directions whenever d'(g - g_old) >= 0, with the identity g'd_new = |g|^2 (g_old'd)/(d'(g-g_old)); wolfecubic_ray/backtracking_ray: only non-negative step lengths are tried); "
        "cg_negative_curvature_witness (without the curvature hypothesis the Dai-Yuan direction can be an ascent direction: the C++ tests |d'(g-g_old)|, not its sign), linesearch_methods_monotone_partial (any model, any line search: one step, given a non-ascent direction); "
        "(3) TrustRegionNewton: trn_step_no_increase_partial (the acceptance rule rho >= minImprovementRatio >= 0 never increases the objective when the sub-problem predicts no increase), trn_subproblem_predicts_decrease (Lemmas/TrustRegion.lean: for a symmetric Hessian of ANY definiteness the CG-Steihaug loop keeps residual = g + H step, residual'direction = -|residual|^2 and m(step) <= 0, what it returns at an interior exit is m(step), so every interior exit predicts no increase; cgLoop_decrease), toBorder_nonpos + border_tau_bounds (a boundary exit from an invariant state inside the radius predicts no increase too when sqrt is exact and non-negative at the one discriminant it is applied to: then 0 < tau, and tau <= alpha in the positive-curvature case; toBorder_value: the returned number is m(step) - tau |r|^2 + tau^2 d'Hd / 2), trn_cg_inside / trn_cg_interior_inside (every non-boundary exit of CG-Steihaug returns a step strictly inside the radius: the loop tests before it moves), trn_border_on_sphere (boundary exits land on the sphere |z + tau d| = delta when sqrt is exact at the discriminant); "
        "(4) box constraints: box_feasible_inv_rprop, coords_ok, box_direction_feasible_partial + box_direction_touching_witness (F-C10-12), box_direction_descent, box_direction_nonzero and the *_repaired variants (selected from the source by translate/lbfgs_box.py); lbfgs_multBInv_pos discharges the hypothesis p0'B^-1p0 > 0 of box_direction_descent when no coordinate is blocked; box_linesearch_feasible (x in the box, x + d in the box, initial step in [0,1] => the point returned by the backtracking line search is in the box, exactly: composes with box_direction_feasible_* to one-step feasibility of box-constrained L-BFGS); "
        "(5) save/restore: sd/adam/rprop/ls/trn_step_reads_archived (member lists regenerated from the C++ read/write bodies by translate/opt_fields.py on every run), resume_same_iterates; "
        "(6) wolfecubic as shipped reads its bracket arrays uninitialised when the bracketing loop runs out of iterations: the model has their content as a parameter, wolfecubic_contract_partial (hypothesis WolfeBracketed) + wolfecubic_uninitialised_witness (finding F-C10-16); translate/linesearch.py recognises which declaration the tree contains and pins the text of wolfecubic and the constants of wolfecubic/dlinmin. "
        "Tie on every run: SteepestDescent/Adam/Rprop bit for bit (Float instance of the same definitions) and, for every C++ step that raised no FE_INEXACT, exactly with the Rat instance; all 8 Rprop variants on narrow boxes around the minimiser; "
        "BFGS/CG/L-BFGS by one-step refinement from the harness' own previous state with the line search RUN BY THE MODEL for all three types (dlinmin with the configured bracket [minInterval,maxInterval]; bit-identical in >98% of the steps, 1e-9 tolerance otherwise); "
        "the three line searches additionally called directly from arbitrary points along arbitrary (descent, ascent, zero, random) directions and compared with the model, with the independent oracle value=f(point), gradient=grad(point), no increase when g'd<=0; "
        "TrustRegionNewton by one-step refinement of the whole step (point, value, gradient, Hessian, radius), and the two facts its theorems take as hypothesis / prove in exact arithmetic are checked on the tied model at every step (predicted change <= 0, |step|^2 <= delta^2 (1+1e-6)); "
        "getBoxConstrainedDirection called directly on injected states (active set reproduced bit for bit; multBInv/multB of the real code are inputs of the model); the stack is pre-filled with -1e300 before every step / direct line search so that reads of uninitialised locals are visible; "
        "boundary classes in every run for every optimizer x line-search type: start exactly on the minimiser (zero gradient: zero direction, 0/0 in TrustRegionNewton), all-zero problem, dimension 1, archive before the first step, init twice in a row, ties between coordinates, magnitudes 2^10 / 2^-10, one-step problems; "
        "object reuse (a used optimizer initialised again is compared with a brand-new instance and with the model's fresh init); configuration axes crossed: line-search type (also requested on box-constrained objectives, where init forces backtracking), initial bracket, L-BFGS history size, TRN radius and minImprovementRatio, all setters of SteepestDescent/Adam/Rprop; "
        "per-step oracle: value = f(point) bit for bit, finite, feasible (isFeasible AND plain comparisons), no increase for line-search methods and TRN, restored instance = uninterrupted twin; "
        "convergence oracle (numerical, KKT residual <= 1e-6(1+||b||_inf)) after 300/400/1000 steps on strictly convex quadratics incl. box-constrained L-BFGS with active upper and lower bounds; "
        "save/restore at random step indices through text and binary archives into a 0xFF-poisoned fresh instance, strict and lenient protocol; input distribution (optimizer, objective, dimension, steps, saves, re-initialisations, steps before first save, history sizes, variants, boundary classes) recorded in the evidence."),
  note=TRUST + "NOT proved (exercised by correspondence / oracle only): finiteness of the iterates; convergence on strictly convex quadratics (cg_exact_linesearch_n_steps is not proved: numerical KKT oracle in the harness, tolerance as stated); "
       "for TrustRegionNewton the composition 'acceptance never increases' is proved up to exactness of sqrt at the boundary exits (interior exits: unconditional for symmetric Hessians; boundary exits: toBorder_nonpos under the exact-sqrt hypothesis; both facts are also checked on the tied Float model at every step); "
       "CG with dlinmin over whole runs (dlinmin may step backwards along the direction; only the one-step statement applies) and CG on non-convex objectives (the Dai-Yuan direction can be an ascent direction: witness theorem; oracle `increased` on every Rosenbrock step); "
       "p0'Bp0 > 0 in box_direction_descent/nonzero (multB, the compact representation with BLAS, is a parameter of the model; p0'B^-1p0 > 0 is proved only for the un-blocked case via lbfgs_multBInv_pos); whole-run monotonicity of BOX-CONSTRAINED L-BFGS (direction theorems only). "
       "Partial theorems and why: wolfecubic_contract_partial (the tree as shipped reads uninitialised arrays when bracketing fails: genuine defect F-C10-16, witness theorem); box_direction_feasible_partial (F-C10-12, witness); trn_step_no_increase_partial (its hypothesis is discharged by trn_subproblem_predicts_decrease / toBorder_nonpos except for the exactness of sqrt: floating point is not exact; with the F10 sign error the prediction was positive); trn_border_on_sphere (sqrt exact at one argument: floating point is not). "
       "Order statements are over Rat (exact arithmetic); statements without arithmetic hold for every scalar type incl. the Float instance the driver runs. "
       "Open findings on the unpatched tree (known_findings.json, findings_proposed/C10.md): F-C10-15 (low severity: box-constrained L-BFGS freezes at relative accuracy 1e-5 when a movable variable is 1e-12 from the bound it moves to), F-C10-16 (wolfecubic uninitialised bracket arrays; outside the generated objective family, reached by the corpus input with a linear objective); the check is green on the tree with the proposed patches and follows them automatically.",
  technique="Lean 4 invariant/refinement proofs over all step sequences and loop iterations (fuel) + differential correspondence with the C++ (ASan/UBSan), bit-exact and exact-rational modes; independent numerical oracles in the harness",
  design="§6 C10, §14 C10")
FINISH = dict(level="proof",
              rule="one case = objective (integer strictly convex quadratic A=M'M+kI n<=5 | Rosenbrock n<=4, optional dyadic box | fixed boundary problems) + optimizer + "
                   "dyadic starting point + steps with save/restore ops at random indices | direct line searches | direct calls of getBoxConstrainedDirection "
                   "on injected states | Rprop variant x narrow box | box-constrained L-BFGS convergence problem; non-trivial = at least 3 steps/calls; distinct = distinct op text")


def fb(x):
    return "x%016x" % struct.unpack("<Q", struct.pack("<d", float(x)))[0]


def nums(xs):
    return " ".join(fb(x) for x in xs)


# ------------------------------------------------------------------ generators
def gen_objective(r, boxed=None):
    """returns (op lines, n, info)"""
    if r.chance(2, 3):
        n = r.choice([1, 2, 2, 3, 3, 4, 5])
        M = [[r.range(-2, 2) for _ in range(n)] for _ in range(n)]
        k = r.choice([1, 1, 2, 4])
        A = [[sum(M[t][i] * M[t][j] for t in range(n)) + (k if i == j else 0) for j in range(n)] for i in range(n)]
        b = [r.range(-4, 4) for _ in range(n)]
        ops = ["obj quad %d %s %s" % (n, nums(x for row in A for x in row), nums(b))]
        kind = "quad"
    else:
        n = r.choice([2, 2, 3, 4])
        ops = ["obj rosen %d" % n]
        kind = "rosen"
    box = None
    if boxed if boxed is not None else r.chance(1, 3):
        lo = [-(r.choice([1, 2, 4, 8]) / r.choice([1, 2, 4])) for _ in range(n)]
        hi = [(r.choice([1, 2, 4, 8]) / r.choice([1, 2, 4])) for _ in range(n)]
        ops.append("box %s %s" % (nums(lo), nums(hi)))
        box = (lo, hi)
    return ops, n, (kind, sum(A[i][i] for i in range(n)) if kind == "quad" else 0), box


def gen_x0(r, n, box, small=False):
    x = []
    for i in range(n):
        if small and not box:
            x.append(r.range(-12, 12) / 8)
        elif box:
            lo, hi = box[0][i], box[1][i]
            steps = 16
            x.append(lo + (hi - lo) * r.range(0, steps) / steps)
        else:
            x.append(r.range(-32, 32) / r.choice([1, 2, 4, 8]))
    return x


def gen_scalar_opt(r, box, kind):
    """optimizers compared bit for bit: sd, adam, rprop.  Steepest descent with a fixed learning rate
    diverges by design when the rate exceeds 2/L; the generator keeps it in the stable regime
    (quadratics: rate <= 1/trace(A) <= 1/lambda_max; Rosenbrock: rate <= 2^-12 from |x0| <= 1.5)"""
    k = r.below(10)
    if box:
        k = 9   # only Rprop can solve constrained problems
    if k < 3:
        if kind[0] == "quad":
            L = kind[1]
            p2 = 1.0
            while p2 * L > 1: p2 /= 2
            lr = r.choice([p2, p2 / 2, p2 / 4, 1.0 / L, 0.1 / L])
        else:
            lr = r.choice([2.0 ** -12, 2.0 ** -13, 0.0001])
        return "sd", "opt sd " + nums([lr, r.choice([0.0, 0.0, 0.5, 0.25])])
    if k < 5:
        return "adam", "opt adam " + nums([r.choice([0.001, 0.01, 0.125]), r.choice([0.9, 0.5]),
                                            r.choice([0.999, 0.75]), r.choice([1e-8, 0.0009765625])])
    fr, bt, ov = r.below(2), r.below(2), r.below(2)
    return "rprop", "opt rprop " + nums([r.choice([1.2, 1.5, 2.0]), r.choice([0.5, 0.25]),
                                           r.choice([1e100, 1.0, 4.0]), r.choice([0.0, 0.0009765625]),
                                           fr, bt, ov, r.choice([0.01, 0.125, 0.5])])


def gen_scalar_case(r, maxsteps):
    ops, n, kind, box = gen_objective(r)
    oname, oline = gen_scalar_opt(r, box, kind)
    ops.append(oline)
    ops.append("init " + nums(gen_x0(r, n, box, small=(kind[0] == "rosen"))))
    ops += gen_tail(r, r.range(1, maxsteps))
    if r.chance(1, 4):
        # object reuse: the used optimizer is initialised again from another starting point (init must reset everything)
        ops.append("init " + nums(gen_x0(r, n, box, small=(kind[0] == "rosen"))))
        ops += gen_tail(r, r.range(1, maxsteps))
    return ops


def gen_tail(r, nsteps, nsave=None):
    ops = []
    nsave = r.choice([0, 1, 1, 2, 3]) if nsave is None else nsave
    saves = sorted(r.range(0, nsteps) for _ in range(nsave))
    for i in range(nsteps + 1):
        for s in saves:
            if s == i:
                ops.append("save %s %s" % (r.choice(["text", "bin"]), r.choice(["strict", "lenient"])))
        if i < nsteps:
            ops.append("step")
    return ops


def solve_int(A, b):
    """exact solution of A x = b (Fractions), A symmetric positive definite"""
    from fractions import Fraction as Fr
    n = len(b)
    M = [[Fr(A[i][j]) for j in range(n)] + [Fr(b[i])] for i in range(n)]
    for c in range(n):
        p = next(i for i in range(c, n) if M[i][c] != 0)
        M[c], M[p] = M[p], M[c]
        for i in range(n):
            if i != c and M[i][c] != 0:
                f = M[i][c] / M[c][c]
                M[i] = [a - f * b2 for a, b2 in zip(M[i], M[c])]
    return [M[i][n] / M[i][i] for i in range(n)]


def gen_rprop_box_case(r, maxsteps, flags):
    """Rprop variant `flags` = (useFreezing, useBacktracking, useOldValue) on a NON-SEPARABLE strictly convex quadratic
    with a box that is narrow relative to the step sizes (width 1/4 .. 8 times initDelta per coordinate) and placed around
    the unconstrained minimiser, so that steps are undone as infeasible, partial derivatives change sign while the
    coordinate is held at (or next to) a bound, and the opposite bound is closer than one step"""
    n = r.choice([2, 2, 3, 3, 4])
    while True:
        A = spd_int(r, n)
        if any(A[i][j] for i in range(n) for j in range(n) if i != j): break
    b = [r.range(-4, 4) for _ in range(n)]
    xs = solve_int(A, b)
    d0 = r.choice([0.0078125, 0.015625, 0.125, 0.5])
    lo, hi, x0 = [], [], []
    for i in range(n):
        c = round(float(xs[i]) * 256) / 256 + r.choice([0, 0, 1, -1, 3, -3]) * d0 / 4
        w = d0 * r.choice([0.25, 0.5, 1, 2, 8])
        off = r.range(0, 8)
        l, h = c - w * off / 8, c + w * (8 - off) / 8
        lo.append(l); hi.append(h)
        x0.append(l + (h - l) * r.range(0, 8) / 8)
    ops = ["obj quad %d %s %s" % (n, nums(x for row in A for x in row), nums(b)), "box %s %s" % (nums(lo), nums(hi))]
    ops.append("opt rprop " + nums([r.choice([1.2, 1.5, 2.0]), r.choice([0.5, 0.25]), r.choice([1e100, 1.0, 4.0]),
                                   r.choice([0.0, 0.0009765625]), flags[0], flags[1], flags[2], d0]))
    ops.append("init " + nums(x0))
    return ops + gen_tail(r, r.range(max(2, maxsteps // 2), maxsteps))


def ls_opt_line(r, kind, ls):
    """configuration axes: line-search type, initial bracket of dlinmin (LineSearch::minInterval/maxInterval),
    L-BFGS history size, TrustRegionNewton initial radius and minImprovementRatio"""
    br = r.choice([None, None, (0.0, 1.0), (0.0, 0.5), (0.0, 2.0), (0.25, 1.0)])
    if kind == "trn":
        if r.chance(1, 2): return "opt trn"
        return "opt trn " + nums([r.choice([0.1, 1.0, 0.015625, 8.0]), r.choice([0.1, 0.05, 0.2, 0.01])])
    if kind == "lbfgs":
        return "opt lbfgs " + nums([ls, r.choice([1, 2, 3, 5, 100])] + (list(br) if br else []))
    return f"opt {kind} " + nums([ls] + (list(br) if br else []))


def gen_ls_case(r, maxsteps, converge=False):
    """BFGS / CG / L-BFGS (box constraints: L-BFGS only) / trust-region Newton"""
    kind = r.choice(["bfgs", "bfgs", "cg", "cg", "lbfgs", "lbfgs", "lbfgs", "trn"])
    boxed = (kind == "lbfgs" and r.chance(1, 2)) and not converge
    while True:
        ops, n, okind, box = gen_objective(r, boxed=boxed)
        if not converge or okind[0] == "quad":
            break
    # a box-constrained objective forces backtracking inside init whatever the user configured: request all three types
    ls = r.choice([0, 1, 2, 2]) if boxed else r.choice([0, 1, 1, 2, 2])
    ops.append(ls_opt_line(r, kind, ls))
    ops.append("init " + nums(gen_x0(r, n, box, small=(okind[0] == "rosen"))))
    nsteps = maxsteps if converge else r.range(1, maxsteps)
    if converge and r.chance(1, 3):
        # convergence from a re-initialised, used instance
        ops += ["step"] * r.range(1, 8) + ["init " + nums(gen_x0(r, n, box, small=False))]
    ops += gen_tail(r, nsteps, nsave=0 if converge else None)
    if not converge and r.chance(1, 4):
        ops.append("init " + nums(gen_x0(r, n, box, small=(okind[0] == "rosen"))))
        ops += gen_tail(r, r.range(1, maxsteps))
    if converge:
        ops.append("converged " + fb(1e-6))
    return ops


def gen_lbfgs_box_converge_case(r, nsteps):
    """convergence clause for box-constrained L-BFGS: strictly convex quadratic whose unconstrained minimiser lies outside
    the box in several coordinates (above the upper bound in some, below the lower bound in others), so that the minimiser
    over the box has active upper AND lower bounds; starting points strictly inside, on faces and in corners; the KKT
    residual is checked after the budget"""
    from fractions import Fraction as Fr
    n = r.choice([2, 2, 3, 3, 4, 5, 6])
    A = spd_int(r, n)
    lo = [r.choice([0.0, 0.0, -1.0, -0.5]) for _ in range(n)]
    hi = [l + r.choice([1.0, 1.0, 2.0, 0.5]) for l in lo]
    # unconstrained minimiser c: outside above / outside below / inside, per coordinate
    c = []
    for i in range(n):
        k = r.below(5)
        w = hi[i] - lo[i]
        if k < 2: c.append(hi[i] + w * r.range(1, 8) / 8)
        elif k < 4: c.append(lo[i] - w * r.range(1, 8) / 8)
        else: c.append(lo[i] + w * r.range(1, 7) / 8)
    b = [sum(A[i][j] * c[j] for j in range(n)) for i in range(n)]
    mode = r.below(4)
    x0 = []
    for i in range(n):
        if mode == 0: x0.append(lo[i] + (hi[i] - lo[i]) * r.range(1, 15) / 16)           # strictly inside
        elif mode == 1: x0.append(r.choice([lo[i], hi[i]]))                                 # corner
        else: x0.append(r.choice([lo[i], hi[i], lo[i] + (hi[i] - lo[i]) * r.range(0, 16) / 16]))   # faces
    ops = ["obj quad %d %s %s" % (n, nums(x for row in A for x in row), nums(b)), "box %s %s" % (nums(lo), nums(hi)),
           "opt lbfgs " + nums([r.choice([0, 1, 2]), r.choice([1, 2, 3, 5, 100])]), "init " + nums(x0)]
    ops += ["step"] * nsteps
    ops.append("converged " + fb(1e-6))
    return ops


def rosen_grad(x):
    n = len(x); g = [0.0] * n
    for i in range(n - 1):
        a = x[i + 1] - x[i] * x[i]; cc = 1.0 - x[i]
        g[i] += -400.0 * a * x[i] - 2.0 * cc
        g[i + 1] += 200.0 * a
    return g


def gen_linesearch_case(r, nls):
    """direct line searches (all three types) from arbitrary points along arbitrary directions: descent (-g, scaled by
    2^-20 .. 2^20 so that the minimiser along the line lies near either end of the first bracket, or far beyond it),
    ascent (+g), zero, random; quadratics and Rosenbrock (where cubic interpolation is not exact, so that the zoom phase
    iterates and its 10 % safeguard is used); initial step lengths 2^-10 .. 100; many start at the origin or have zero
    coordinates so that a spurious move is visible"""
    ops, n, okind, box = gen_objective(r, boxed=False)
    if okind[0] == "quad":
        A = [struct.unpack(">d", bytes.fromhex(t[1:]))[0] for t in ops[0].split()[3:3 + n * n]]
        b = [struct.unpack(">d", bytes.fromhex(t[1:]))[0] for t in ops[0].split()[3 + n * n:]]
        grad = lambda x: [sum(A[i * n + j] * x[j] for j in range(n)) - b[i] for i in range(n)]
    else:
        grad = rosen_grad
    for _ in range(nls):
        if okind[0] == "quad": x = [r.choice([0, 0, 1, -1, 0.5, r.range(-16, 16) / 4]) for _ in range(n)]
        else: x = [r.choice([0, 1, -1, 0.5, r.range(-12, 12) / 8]) for _ in range(n)]
        g = grad(x)
        k = r.below(10)
        if k < 5: d = [-v * r.choice([1, 1, 0.25, 4, 1 / 64, 64, 2.0 ** 20, 2.0 ** -20]) for v in g]
        elif k < 7: d = [v * r.choice([1, 2.0 ** 10, 2.0 ** -10]) for v in g]       # ascent: every trial fails
        elif k < 8: d = [0.0] * n
        else: d = [r.range(-8, 8) / 2 for _ in range(n)]
        ops.append("ls %s %s %s %s" % (fb(r.choice([2, 2, 1, 1, 1, 0, 0])), fb(r.choice([1.0, 1.0, 0.5, 8.0, 100.0, 0.125, 2.0 ** -10])), nums(x), nums(d)))
    return ops


def spd_int(r, n):
    M = [[r.range(-2, 2) for _ in range(n)] for _ in range(n)]
    k = r.choice([1, 1, 2, 4])
    return [[sum(M[t][i] * M[t][j] for t in range(n)) + (k if i == j else 0) for j in range(n)] for i in range(n)]


def gen_boxdir_case(r, ncalls):
    """direct calls of LBFGS::getBoxConstrainedDirection on injected states: every coordinate independently ON its lower
    bound / ON its upper bound / strictly inside, gradient component zero / pushing inward / pushing outward, small and
    large, narrow and wide boxes (so that the quasi-Newton step and the Cauchy step are frequently infeasible), history of
    0..3 curvature pairs (s, y = A s) of a strictly convex quadratic (so that the L-BFGS matrix is positive definite), and
    exact ties: a bound placed exactly on the Cauchy point"""
    n = r.choice([1, 2, 2, 3, 3, 4, 5])
    A = spd_int(r, n)
    ops = ["obj quad %d %s %s" % (n, nums(x for row in A for x in row), nums([0] * n))]
    ties = r.chance(1, 4)      # exact ties / zero gradient on a bound: in cases of their own (known finding F-C10-12)
    for _ in range(ncalls):
        m = r.choice([0, 0, 1, 1, 2, 3])
        S = []
        for _j in range(m):
            while True:
                sv = [r.range(-8, 8) / 4 for _ in range(n)]
                if any(sv): break
            S.append(sv)
        Y = [[sum(A[i][j] * sv[j] for j in range(n)) for i in range(n)] for sv in S]
        if m:
            ys = sum(a * b for a, b in zip(Y[-1], S[-1]))
            bdiag = sum(a * a for a in Y[-1]) / ys
        else:
            bdiag = r.choice([1, 1, 0.5, 2, 4])
        narrow = r.chance(1, 3)
        l, u, x, g = [], [], [], []
        for i in range(n):
            w = r.choice([1 / 64, 1 / 16, 1 / 4]) if narrow and r.chance(1, 2) else r.choice([1, 2, 4, 8]) / r.choice([1, 2, 4])
            lo = -w * r.choice([1, 1, 2, 0]); hi = w
            k = r.below(4)
            xi = lo if k == 0 else (hi if k == 1 else lo + (hi - lo) * r.range(0, 16) / 16)
            gi = r.choice([0, 1, -1, 1, -1]) * r.choice([1 / 8, 1, 1, 4, 32])
            if gi == 0 and k < 2 and not ties: gi = r.choice([1, -1]) * r.choice([1 / 8, 1, 4])
            l.append(lo); u.append(hi); x.append(xi); g.append(gi)
        if ties and m == 0 and r.chance(1, 2):
            # exact tie: the Cauchy point x + p0/(p0'Bp0), B = bdiag*I, lands exactly on a bound of coordinate i
            c = bdiag * sum(v * v for v in g)
            idx = [i for i in range(n) if g[i] != 0]
            if idx and c > 0:
                i = r.choice(idx)
                x[i] = 0.0
                cau = -g[i] / c
                if cau > 0: u[i] = cau; l[i] = -1.0
                else: l[i] = cau; u[i] = 1.0
        ops.append("boxdir %d %s %s %s %s %s%s%s" % (m, fb(bdiag), nums(x), nums(g), nums(l), nums(u),
                   "".join(" " + nums(sv) for sv in S), "".join(" " + nums(yv) for yv in Y)))
    return ops


def boundary_cases(r):
    """boundary classes, present in every run (quick tier too), for every optimizer and every line-search type:
    start exactly on the minimiser (zero gradient at init: zero direction, 0/0 in the initial step length and in
    TrustRegionNewton's borderDistance), everything zero (A = I, b = 0, x0 = 0), dimension 1, no step at all (init, save, step),
    a used object initialised twice in a row at the same point, equal diagonal entries (ties between coordinates in Rprop),
    large and small magnitudes (objective and start scaled by 2^10 / 2^-10), one step exactly to the minimiser
    (A = I with unit step).  Returns (scalar cases, line-search/TRN cases), each tagged with its class for the histogram"""
    sc, lc = [], []
    def quad(A, b): 
        n = len(b)
        return "obj quad %d %s %s" % (n, nums(x for row in A for x in row), nums(b))
    probs = {
        "start-on-minimiser-n1": ([[4]], [2], [0.5]),
        "start-on-minimiser-n2": ([[2, 0], [0, 4]], [2, -2], [1, -0.5]),
        "all-zero": ([[1, 0], [0, 1]], [0, 0], [0, 0]),
        "dimension-1": ([[3]], [1], [-2.25]),
        "equal-diagonal-ties": ([[2, 1, 1], [1, 2, 1], [1, 1, 2]], [1, 1, 1], [2, 2, 2]),
        "identity-one-step": ([[1, 0, 0], [0, 1, 0], [0, 0, 1]], [1, -2, 0.5], [0, 0, 0]),
        "large-magnitude": ([[2 * 1024, 1024], [1024, 3 * 1024]], [1024, -2048], [512, -768]),
        "small-magnitude": ([[2 / 1024, 1 / 1024], [1 / 1024, 3 / 1024]], [1 / 1024, -2 / 1024], [0.5, -0.75]),
    }
    opts = []
    for ls in (0, 1, 2):
        opts += [("bfgs", "opt bfgs " + nums([ls])), ("cg", "opt cg " + nums([ls])), ("lbfgs", "opt lbfgs " + nums([ls, r.choice([1, 2, 5])]))]
    opts += [("trn", "opt trn"), ("trn", "opt trn " + nums([8.0, 0.05]))]
    for cls, (A, b, x0) in probs.items():
        tr = sum(A[i][i] for i in range(len(b)))
        lr = 1.0
        while lr * tr > 1: lr /= 2
        sopts = ["opt sd " + nums([lr, 0.5]), "opt sd " + nums([lr / 2, 0.0]), "opt adam " + nums([0.125, 0.9, 0.999, 1e-8])]
        sopts += ["opt rprop " + nums([1.2, 0.5, 1e100, 0.0, fr, bt, ov, 0.125]) for fr, bt, ov in ((0, 0, 0), (1, 0, 0), (0, 1, 0), (0, 1, 1))]
        for o in sopts:
            tails = [["init " + nums(x0), "step", "step", "save text strict", "step"],
                     ["init " + nums(x0), "save bin lenient", "step"],                       # no step before the first save
                     ["init " + nums(x0), "init " + nums(x0), "step", "step"]]                # initialised twice in a row
            sc.append((cls, [quad(A, b), o] + tails[r.below(3)]))
        for kind, o in opts:
            tails = [["init " + nums(x0), "step", "step", "save text strict", "step", "step"],
                     ["init " + nums(x0), "save bin lenient", "step", "step"],
                     ["init " + nums(x0), "init " + nums(x0), "step", "step", "step"]]
            lc.append((cls, [quad(A, b), o] + tails[r.below(3)]))
    # Rosenbrock boundary starts: on the minimiser (1,...,1), on the saddle-like origin, dimension 2
    for kind, o in opts:
        lc.append(("rosen-start-on-minimiser", ["obj rosen 3", o, "init " + nums([1, 1, 1]), "step", "step"]))
        lc.append(("rosen-origin", ["obj rosen 2", o, "init " + nums([0, 0]), "step", "step", "step"]))
    return sc, lc


def case_info(ops):
    info = {"opt": "?", "obj": "?", "n": 0, "box": False, "saves": [], "steps": 0}
    for o in ops:
        t = o.split()
        if t[0] == "obj": info["obj"], info["n"] = t[1], int(t[2])
        elif t[0] == "box": info["box"] = True
        elif t[0] == "opt": info["opt"] = t[1]
        elif t[0] == "save": info["saves"].append(t[2])
        elif t[0] in ("step", "ls", "boxdir"): info["steps"] += 1
        if t[0] == "ls" and info["opt"] == "?": info["opt"] = "linesearch"
        if t[0] == "boxdir" and info["opt"] == "?": info["opt"] = "boxdir"
    return info


# ------------------------------------------------------------- comparison
def split_line(l):
    """-> (payload, flags dict, oracle tags)"""
    oracle = re.findall(r"!oracle (\S+)", l)
    l = l.split(" !oracle")[0]
    parts = l.split(" #")
    flags = dict(p.split("=", 1) for p in parts[1:] if "=" in p)
    return parts[0], flags, oracle


class Res:
    def __init__(self):
        self.ok, self.crash, self.oracle, self.diff_at, self.why = True, False, [], None, ""
        self.impl, self.model, self.stderr = [], [], ""


def run_case(ctx, hcmd, dcmd, ops, timeout=120, stats=None):
    r = Res()
    r.impl, r.model, rc, r.stderr = ctx.run_pair(hcmd, dcmd, "\n".join(ops) + "\n", timeout=timeout)
    if rc != 0:
        r.crash, r.ok = True, False
    for i, l in enumerate(r.impl):
        p, fl, orc = split_line(l)
        if orc:
            r.oracle.append(l); r.ok = False
        if i >= len(r.model):
            break
        pm, fm, _ = split_line(r.model[i])
        if p != pm:
            if r.diff_at is None: r.diff_at, r.why = i, "model-differs"
            r.ok = False
        elif fl.get("ex") == "1" and fm.get("rat") == "0":
            # a C++ step without any rounding must agree with the exact rational model
            if r.diff_at is None: r.diff_at, r.why = i, "exact-step-differs-from-rational-model"
            r.ok = False
        if stats is not None and "ex" in fl:
            stats["exact" if fl["ex"] == "1" else "rounded"] = stats.get("exact" if fl["ex"] == "1" else "rounded", 0) + 1
            if fm.get("rat") == "1": stats["rat_equal"] = stats.get("rat_equal", 0) + 1
    if len(r.impl) != len(r.model) and r.diff_at is None:
        r.diff_at, r.why, r.ok = min(len(r.impl), len(r.model)), "length", False
    return r


LS_KINDS = ("bfgs", "cg", "lbfgs")


def run_case_ls(ctx, hcmd, dcmd, ops, timeout=120, stats=None):
    """line-search optimizers and trust-region Newton: the harness runs first; every reported state is
    then handed to the driver, which re-computes the step with the model from the *previous reported
    state* (one-step refinement, no error accumulation) and answers `ok bits`, `ok tol <fields>` or
    `MISMATCH <field>`.  Trust-region Newton has no model: harness oracle only."""
    import subprocess
    r = Res()
    e = dict(os.environ); e.setdefault("ASAN_OPTIONS", "detect_leaks=0"); e.setdefault("UBSAN_OPTIONS", "print_stacktrace=1")
    try:
        ph = subprocess.run(hcmd, input="\n".join(ops) + "\n", stdout=subprocess.PIPE, stderr=subprocess.PIPE,
                            text=True, errors="replace", timeout=timeout, env=e)
        r.impl, r.stderr, rc = ph.stdout.splitlines(), ph.stderr[-3000:], ph.returncode
    except subprocess.TimeoutExpired:
        r.impl, r.stderr, rc = [], "TIMEOUT", -99
    if rc != 0:
        r.crash, r.ok = True, False
    dops, expect, kind, boxed = [], [], None, False
    for i, o in enumerate(ops):
        t = o.split()
        line = r.impl[i] if i < len(r.impl) else ""
        payload, fl, orc = split_line(line)
        if orc:
            r.oracle.append(line); r.ok = False
        m = re.search(r" st=(\S+)", payload)
        mbx = re.search(r" bx=(\S+)", payload)
        if t[0] in ("obj", "box"):
            boxed = (t[0] == "box") or (boxed and t[0] != "obj")
            dops.append(o); expect.append("plain")
        elif t[0] == "opt":
            kind = t[1]
            if kind in LS_KINDS:
                # a constrained objective forces the backtracking line search inside init
                ls = 2 if boxed else int(struct.unpack("<d", bytes.fromhex(t[2][1:])[::-1])[0])
                nh = int(struct.unpack("<d", bytes.fromhex(t[3][1:])[::-1])[0]) if kind == "lbfgs" else 100
                # initial bracket of dlinmin (LineSearch::minInterval/maxInterval), default [0, 1]
                br = t[4:6] if kind == "lbfgs" else t[3:5]
                if len(br) != 2: br = [fb(0.0), fb(1.0)]
                dops.append(f"xopt {kind} {ls} {nh} {br[0]} {br[1]}")
            else:
                dops.append("")
            expect.append("plain")
        elif t[0] == "ls" and m:
            typ = int(struct.unpack(">d", bytes.fromhex(t[1][1:]))[0])
            n = int(m.group(1).split(",")[0])
            dops.append("xls %d %d %s %s" % (typ, n, ",".join(t[2:]), m.group(1).split(",", 1)[1])); expect.append("verdict")
        elif t[0] == "boxdir" and m:
            n = int(m.group(1).split(",")[0])
            dops.append("xboxdir %d %s %s %s" % (n, t[1], ",".join(t[2:]), m.group(1).split(",", 1)[1])); expect.append("verdict")
        elif t[0] in ("init", "step") and kind == "trn" and m:
            # trust-region Newton: one-step refinement against Model/TrustRegion.lean
            dops.append("xtrn " + t[0] + " " + m.group(1)); expect.append("verdict")
        elif t[0] in ("init", "step") and kind in LS_KINDS and m:
            dops.append(("xinit " if t[0] == "init" else "xstep ") + m.group(1) + (" " + mbx.group(1) if mbx and t[0] == "step" else ""))
            expect.append("verdict")
        else:
            dops.append(""); expect.append("skip")
    pd = subprocess.run(dcmd, input="\n".join(dops) + "\n", stdout=subprocess.PIPE, stderr=subprocess.PIPE,
                        text=True, errors="replace", timeout=timeout)
    r.model = pd.stdout.splitlines()
    for i, ex in enumerate(expect):
        got = r.model[i] if i < len(r.model) else "<missing>"
        if ex == "verdict":
            if stats is not None:
                k = "bits" if got == "ok bits" else ("tol" if got.startswith("ok tol") else "mismatch")
                stats[k] = stats.get(k, 0) + 1
            if not got.startswith("ok"):
                if r.diff_at is None: r.diff_at, r.why = i, "model-differs:" + got.replace(" ", "-")
                r.ok = False
        elif ex == "plain" and got not in ("ok", ""):
            if r.diff_at is None: r.diff_at, r.why = i, "driver:" + got
            r.ok = False
    return r


def classify(ops, res):
    info = case_info(ops)
    opt = info["opt"]
    tags = sorted({t for l in res.oracle for t in re.findall(r"!oracle (\S+)", l)})
    # anything that goes wrong at or after a save op is a resume failure
    first_bad = None
    for i, l in enumerate(res.impl):
        if "!oracle" in l:
            first_bad = i; break
    if res.crash and first_bad is None:
        first_bad = len(res.impl)
    if first_bad is None:
        first_bad = res.diff_at
    saves_before = [o.split()[2] for o in ops[:(first_bad if first_bad is not None else len(ops)) + 1] if o.startswith("save")]
    otext = " ".join(res.oracle)
    if tags == ["ls-wolfecubic-uninitialised-bracket"] and not res.crash:
        return ("F-C10-16:wolfecubic-uninitialised-bracket",
                f"wolfecubic reads its never-assigned bracket arrays when the bracketing loop runs out of its 25 tenfold expansions (objective decreasing without bound along the direction); ops {ops}")
    if opt == "trn" and "increased" in tags:
        return ("F10:trn-accepts-increase", f"TrustRegionNewton accepts a step that increases the objective (borderDistance sign); ops {ops}")
    # ---- known findings of the box-constrained L-BFGS direction; each key is tied to the harness' diagnosis of the
    # specific circumstance, anything else about the same function is a fresh violation
    TOUCH = "boxdir-infeasible-cauchy-point-touches-bound"
    if any(t.startswith("boxdir") for t in tags):
        other = [t for t in tags if t != TOUCH]
        if not other and not res.crash and res.diff_at is None:
            return ("F-C10-12:lbfgs-box-dogleg-ignores-touching-bound",
                    f"getBoxConstrainedDirection returns an infeasible direction: the dog-leg stage skips a bound at distance exactly 0 (Cauchy point on the bound / variable on its bound with zero gradient); ops {ops}")
        if other:
            return (f"oracle:{'+'.join(other)}:boxdir", f"property oracle of getBoxConstrainedDirection failed ({other}) on ops {ops}")
    if opt == "lbfgs" and info["box"] and "internal error" in otext:
        first = next(l for l in res.oracle if "internal error" in l)
        if "[point-outside-by-slack]" in first:
            return ("F11:lbfgs-box-internal-error", f"box-constrained LBFGS throws 'internal error' from computeSearchDirection (iterate outside the box by less than the slack of isFeasible); ops {ops}")
        if "[cauchy-point-touches-bound]" in first:
            return ("F-C10-12:lbfgs-box-dogleg-ignores-touching-bound:run",
                    f"box-constrained LBFGS throws 'internal error': the dog-leg stage skips a bound at distance exactly 0; ops {ops}")
        return ("oracle:lbfgs-box-internal-error-point-in-box", f"box-constrained LBFGS throws 'internal error' at a point exactly inside the box; ops {ops}")
    if opt == "lbfgs" and info["box"] and tags == ["not-converged-slack-outside"] and not res.crash:
        return ("F-C10-13:lbfgs-box-not-converged-iterate-outside-by-slack",
                f"box-constrained LBFGS stalls: an iterate lies outside the box by rounding (less than the slack of isFeasible) and the Cauchy step is clipped against the bound behind it; ops {ops}")
    if opt == "lbfgs" and info["box"] and tags == ["not-converged-frozen-near-bound"] and not res.crash:
        return ("F-C10-15:lbfgs-box-not-converged-variable-almost-on-bound",
                f"box-constrained LBFGS freezes close to the minimiser: a movable variable is within 1e-9 (but not 1e-13) of the bound it moves to, the clipped step is too short for the line search; ops {ops}")
    if opt == "lbfgs" and info["box"] and tags == ["not-converged-still-descending-large-gradient"] and not res.crash:
        return ("F-C10-14:lbfgs-box-not-converged-cauchy-step-unscaled",
                f"box-constrained LBFGS needs thousands of steps: the Cauchy step p0/(p0'Bp0) lacks the factor |p0|^2; ops {ops}")
    if opt == "lbfgs" and info["box"] and "input stream error" in otext:
        return ("F9:lbfgs-box-nan-direction", f"box-constrained LBFGS stores a NaN search direction at a stationary boundary point; its text archive cannot be read back; ops {ops}")
    if saves_before and (res.crash or "resume-diverged" in tags or "exception" in tags or res.why.startswith("model-differs")):
        mode = saves_before[-1]
        how = "crash" if res.crash else ("exception" if "exception" in tags else "diverged")
        return (f"F8-resume:{opt}:{mode}",
                f"{opt} saved and restored into a fresh instance ({mode} protocol) does not continue with the same iterates ({how}); ops {ops}")
    if res.crash:
        m = re.search(r"ERROR: AddressSanitizer: (\S+)|runtime error: ([^\n]*)", res.stderr)
        tag = (m.group(1) or m.group(2)) if m else "crash"
        return f"crash:{opt}:{tag[:40]}", f"harness aborted ({tag}) on ops {ops}"
    if tags:
        return f"oracle:{'+'.join(tags)}:{opt}:{info['obj']}", f"property oracle failed ({tags}) on ops {ops}"
    return f"mismatch:{res.why}:{opt}", f"model and implementation disagree ({res.why}) at line {res.diff_at} of ops {ops}"


def correspond(ctx, name, cases, hcmd, dcmd, max_report=6, keep_prefix=0, run_case=run_case):
    """like core.correspond, with the #ex/#rat flag logic of run_case above"""
    t = time.time()
    stats = {}
    all_ops = [l for c in cases for l in c]
    big = run_case(ctx, hcmd, dcmd, all_ops, timeout=900, stats=stats)
    ctx.count("traces_validated_against_impl", len(cases))
    ctx.count("ops_compared", len(all_ops))
    for k, v in stats.items():
        ctx.count(f"{name}:steps_{k}", v)
    if big.ok:
        ctx.log(f"{name}: {len(cases)} cases / {len(all_ops)} ops agree ({time.time()-t:.1f}s) {stats}")
        return 0
    ctx.log(f"{name}: batch run disagrees after {time.time()-t:.1f}s; running the {len(cases)} cases one by one")
    with ThreadPoolExecutor(max_workers=6) as ex:
        results = list(ex.map(lambda c: run_case(ctx, hcmd, dcmd, c), cases))
    failing = [(c, r) for c, r in zip(cases, results) if not r.ok]
    if not failing:
        failing = [(all_ops, big)]
    ctx.log(f"{name}: {len(failing)} of {len(cases)} cases FAIL")
    seen = set()
    for c, r in failing:
        key0, _ = classify(c, r)
        if key0 in seen:
            continue
        def fails(ops):
            rr = run_case(ctx, hcmd, dcmd, ops, timeout=60)
            return (not rr.ok) and classify(ops, rr)[0] == key0
        # keep the header (everything up to and including init), shrink the step/save tail
        hdr = next((i for i, o in enumerate(c) if o.startswith("init")), 0) + 1
        # (a convergence failure is a statement about the whole budget: not shrunk)
        if case_info(c)["opt"] == "boxdir":
            hdr = 1      # keep the objective line, shrink the list of direct calls
        small = core.shrink_ops(c, fails, keep_prefix=hdr) if len(c) > hdr + 1 and "not-converged" not in key0 else c
        rs = run_case(ctx, hcmd, dcmd, small, timeout=60)
        if rs.ok:
            small, rs = c, r
        key, what = classify(small, rs)
        seen.add(key0); seen.add(key)
        found = bool(rs.oracle) or rs.crash
        b = ctx.broken("correspondence", f"{name}:{key}", what)
        b["resolved"] = True
        replay = {"harness_cmd": hcmd, "driver_cmd": dcmd, "ops": small, "impl_output": rs.impl[-12:],
                  "model_output": rs.model[-12:], "first_diff_line": rs.diff_at, "why": rs.why,
                  "oracle": rs.oracle[:5], "crash": rs.crash, "stderr_tail": rs.stderr[-1500:]}
        ctx.violation(key, replay, found_input=found, what=what)
        if len(seen) >= 2 * max_report:
            break
    return len(failing)


def load_corpus():
    d = os.path.join(core.VERIF, "corpus", "C10")
    out = []
    if os.path.isdir(d):
        for fn in sorted(os.listdir(d)):
            ops = [l.strip() for l in open(os.path.join(d, fn)) if l.strip() and not l.startswith("#")]
            if ops: out.append(ops)
    return out


def translate(ctx):
    a = ctx.translate("opt_fields.py")
    b = ctx.translate("lbfgs_box.py")
    c = ctx.translate("linesearch.py")
    return a and b and c


def build(ctx):
    return ctx.harness("c10", ["c10.cpp"], repo_sources=REPO_SOURCES)


def trn_instantiable(ctx):
    """compile probe harness/c10_trn.cpp (syntax only, cached by the hash of the header)"""
    hdr = os.path.join(core.REPO, "include/shark/Algorithms/GradientDescent/TrustRegionNewton.h")
    src = os.path.join(core.VERIF, "harness", "c10_trn.cpp")
    key = core.sha(core.file_sha(hdr) + core.file_sha(src))[:16]
    stamp = os.path.join(core.CACHE, f"c10trn-{key}.rc")
    if os.path.exists(stamp):
        rc, out = int(open(stamp).read().split("\n", 1)[0]), open(stamp).read().split("\n", 1)[1]
    else:
        inc = ctx.shark_h()
        rc, out = core.sh(["g++", "-std=c++11", "-fsyntax-only", "-DNDEBUG", "-w", "-I" + inc,
                           "-I" + os.path.join(core.REPO, "include"), src], timeout=600)
        open(stamp, "w").write(f"{rc}\n{out[-1500:]}")
    ctx.cov["trn_instantiable"] = (rc == 0)
    if rc != 0:
        ctx.violation("F8c:trn-abstract-class", {"probe": "harness/c10_trn.cpp", "compiler_output": out[-1500:],
                      "ops": ["(compile) shark::TrustRegionNewton optimizer;"]}, found_input=True,
                      what="TrustRegionNewton cannot be instantiated: init(ObjectiveFunctionType&, ...) does not override the pure virtual init(ObjectiveFunctionType const&, ...)")
    return rc == 0


def record(ctx, cases):
    for c in cases:
        i = case_info(c)
        ctx.hist("optimizer", i["opt"]); ctx.hist("objective", i["obj"] + ("+box" if i["box"] else ""))
        ctx.hist("dimension", i["n"]); ctx.hist("steps", min(i["steps"] // 10 * 10, 100))
        for s in i["saves"]: ctx.hist("save_protocol", s)
        ctx.hist("saves_per_case", len(i["saves"]))
        ninit = sum(1 for o in c if o.startswith("init "))
        ctx.hist("re_initialisations_per_case", max(ninit - 1, 0))
        first = next((k for k, o in enumerate(c) if o.startswith("init ")), None)
        if first is not None:
            # steps before the first save (0 = archive of a freshly initialised object)
            k = next((sum(1 for o in c[first:j] if o == "step") for j, o in enumerate(c) if j > first and o.startswith("save")), None)
            if k is not None: ctx.hist("steps_before_first_save", min(k, 20))
        for o in c:
            t = o.split()
            if t[0] == "opt" and t[1] == "lbfgs" and len(t) > 3:
                ctx.hist("lbfgs_history_size", int(struct.unpack(">d", bytes.fromhex(t[3][1:]))[0]))
            if t[0] == "opt" and t[1] in LS_KINDS:
                ctx.hist("dlinmin_bracket_configured", len(t) > (5 if t[1] == "lbfgs" else 4))
            if t[0] == "opt" and t[1] == "trn": ctx.hist("trn_configured", len(t) > 2)
            if t[0] == "opt" and t[1] == "rprop":
                f = [int(struct.unpack(">d", bytes.fromhex(x[1:]))[0]) for x in t[6:9]]
                ctx.hist("rprop_variant(freeze,backtrack,oldvalue)", "%d%d%d" % tuple(f))
            if t[0] == "opt" and t[1] == "sd": ctx.hist("sd_momentum", struct.unpack(">d", bytes.fromhex(t[3][1:]))[0])
            if t[0] == "ls": ctx.hist("direct_linesearch_type", int(struct.unpack(">d", bytes.fromhex(t[1][1:]))[0]))
            if t[0] == "init":
                xs = [struct.unpack(">d", bytes.fromhex(x[1:]))[0] for x in t[1:]]
                ctx.hist("start_all_zero", all(v == 0 for v in xs))


def run(ctx):
    ctx.trusted += ["correspondence harness harness/c10.cpp + generator checks/c10.py",
                    "hand-written models Model/GradOpt.lean, Model/LineSearches.lean, Model/TrustRegion.lean, Model/Objectives.lean",
                    "ASan/UBSan runtime for the real code's memory safety (not a theorem)"]
    translate(ctx)
    PROPS = ["SharkVerif.Props.C10", "SharkVerif.Props.C10Deep", "SharkVerif.Lemmas.LineSearches", "SharkVerif.Lemmas.LBFGS", "SharkVerif.Lemmas.TrustRegion", "SharkVerif.Gen.LineSearchSrc"]
    ctx.prove(PROPS)
    if not ctx.quick:
        ctx.leanchecker(PROPS)
    try:
        g = open(os.path.join(core.VERIF, "lean", "SharkVerif", "Gen", "LineSearchSrc.lean")).read()
        ctx.cov["wolfecubic_bracket_initialised_in_tree"] = "wolfeBracketInitialised : Bool := true" in g
    except OSError:
        pass
    exe = build(ctx)
    drv = ctx.driver("drv_c10")
    if not exe or not drv:
        return
    trn_instantiable(ctx)
    corpus = load_corpus()
    ctx.cov["corpus_cases"] = len(corpus)
    r = ctx.rng.fork("c10")
    nsc, maxsteps = (160, 30) if ctx.quick else (1500, 120)
    cases = [c for c in corpus if case_info(c)["opt"] in ("sd", "adam", "rprop")]
    cases += [gen_scalar_case(r, maxsteps) for _ in range(nsc)]
    # all 8 Rprop variants (useFreezing x useBacktracking x useOldValue) on narrow boxes, non-separable objectives
    variants = [(a, b2, c2) for a in (0, 1) for b2 in (0, 1) for c2 in (0, 1)]
    cases += [gen_rprop_box_case(r, maxsteps, variants[i % 8]) for i in range(96 if ctx.quick else 960)]
    bsc, blc = boundary_cases(r)
    for cls, ops in bsc + blc: ctx.hist("boundary_class", cls)
    cases += [ops for _, ops in bsc]
    record(ctx, cases)
    ctx.cov["evaluations"] = len(cases)
    ctx.cov["distinct_nontrivial"] = len({"\n".join(c) for c in cases if case_info(c)["steps"] >= 3})
    ctx.sample({"ops": cases[len(cases) // 2][:8]})
    correspond(ctx, "K-C10[scalar]", cases, [exe], [drv])
    nls, maxls, nconv = (160, 25, 12) if ctx.quick else (1500, 80, 150)
    lcases = [c for c in corpus if case_info(c)["opt"] not in ("sd", "adam", "rprop")]
    lcases += [gen_ls_case(r, maxls) for _ in range(nls)]
    # generous budget: CG with the backtracking line search needs > 100 steps on the worse-conditioned 5-d instances
    lcases += [gen_ls_case(r, 400 if ctx.quick else 1000, converge=True) for _ in range(nconv)]
    lcases += [gen_linesearch_case(r, 12) for _ in range(40 if ctx.quick else 400)]
    # box-constrained L-BFGS: convergence (KKT residual) with active upper and lower bounds, starts on and off the boundary
    lcases += [gen_lbfgs_box_converge_case(r, 300 if ctx.quick else 600) for _ in range(70 if ctx.quick else 700)]
    # direct calls of getBoxConstrainedDirection (model of the dog-leg tied; oracle: feasible, descent, non-zero)
    lcases += [gen_boxdir_case(r, 12) for _ in range(60 if ctx.quick else 600)]
    lcases += [ops for _, ops in blc]
    record(ctx, lcases)
    for c in lcases:
        for o in c:
            if o.startswith("opt ") and o.split()[1] in LS_KINDS:
                ctx.hist("line_search_type", {0: "dlinmin", 1: "wolfecubic", 2: "backtracking"}[
                    int(struct.unpack(">d", bytes.fromhex(o.split()[2][1:]))[0])])
    ctx.cov["evaluations"] += len(lcases)
    ctx.cov["distinct_nontrivial"] += len({"\n".join(c) for c in lcases if case_info(c)["steps"] >= 3})
    ctx.sample({"ops": lcases[len(lcases) // 2][:8]})
    correspond(ctx, "K-C10[linesearch]", lcases, [exe], [drv], run_case=run_case_ls)


def replay(ctx, rep):
    exe = build(ctx); drv = ctx.driver("drv_c10")
    scalar = case_info(rep["ops"])["opt"] in ("sd", "adam", "rprop")
    res = (run_case if scalar else run_case_ls)(ctx, [exe], [drv], rep["ops"])
    print("\n".join(f"impl : {a}\nmodel: {b}" for a, b in zip(res.impl, res.model)))
    print("stderr:", res.stderr[-2000:])
    print("OK" if res.ok else "FAILS")
    return 0 if res.ok else 1
