"""C03 — dataset containers keep every element, its order and its input-label pairing.

* T0: translate/batch_arith.py regenerates Gen/BatchArith.lean from Impl/Dataset.inl on every run;
  the theorems of Props/C03.lean are re-proved against it.
* K-C03: random *histories* of dataset operations, generated against the Lean model (so that the
  C++ preconditions hold), run on real LabeledData<I, unsigned> / DataView objects for four input
  element types and on the native driver of Model/Dataset.lean; outputs compared line by line.
"""
import os, re, sys
from vlib import core
from checks import dsgen, c03scale

TRUST = ("Lean 4.33 kernel; axioms at most propext/Classical.choice/Quot.sound (audited per run); "
         "optimalBatchSizes/batchPartitioning are machine-translated from the C++ on every run (clang-14 JSON AST -> Lean, "
         "translate/batch_arith.py is trusted, and cross-checked by the correspondence); the container operations are hand-written "
         "models (Model/Dataset.lean: values; Model/DatasetShared.lean: the shared batch pointers) tied to the C++ by the differential "
         "correspondence only (generator-bounded); ")
MANIFEST = dict(
  text=("Theorems (Props/C03.lean, re-proved on every run against the regenerated batch arithmetic), for all element types, sizes, batch sizes, "
        "partitions and operation histories: (A) the machine-translated optimalBatchSizes is, for n>0 and m>0, inside defined arithmetic and returns "
        "ceil(n/m) batch sizes that sum to n, lie in [1,m] and differ by at most 1; for n=0 it is empty (repaired source; evaluated and reported on "
        "every run); the copy of the arithmetic in createDataFromRange agrees with it. (B) createDataFromRange, repartition (incl. its "
        "element-by-element copy loop, proved equal to the abstract cut; defined only for sizes summing to n), splitBatch, "
        "splice, append, push_back, indexedSubset (+ complement for index lists of ANY form -- unsorted, duplicates, empty: subset = listed batches "
        "in listed order, complement = the unlisted batches once each in ascending order; for duplicate-free lists a partition), transform (also to another "
        "element type) and reorderElements map the flat element "
        "sequence exactly as documented, keep shape and partitioning as documented; reorderElements with a permutation (shuffle) preserves the "
        "multiset. (C) for every partition into non-empty batches the DataElementIterator state machine makes elements(), element(i), reverse "
        "iteration and batches() yield the same sequence (Data and LabeledData); ++/-- are mutually inverse across batch borders; it += n lands on the "
        "canonical (batch, offset) of p+n for every signed n; batch sizes sum to numberOfElements. (D) LabeledData: createLabeledDataFromRange, "
        "repartition, splitBatch, splice, splitAtElement (first k pairs stay; at 0 everything moves, at n nothing), append, push_back, indexedSubset, "
        "the two-result indexedSubset on inputs and labels, reorderElements, transformLabels/Inputs keep inputs "
        "and labels in the same partitioning and never separate an input from its label. (E) every finite history of repartition / splitBatch / "
        "reorderElements-by-permutation steps on one dataset, and of these plus splitAtElement / append / swap moving elements between two datasets, "
        "preserves well-formedness, non-empty batches and the multiset of (input,label) pairs; in every reachable state the access paths agree. "
        "(F) repartitionByClass, whenever it succeeds (any label multiset incl. absent classes), yields a permutation of the pairs gathered class by "
        "class with ascending labels; binarySubProblem returns exactly the first run of batches of the smaller class followed by the next run of the "
        "bigger class (on class-sorted batches: all batches of the two classes) relabelled [l = oneClass], and throws iff a run is missing; it equals "
        "indexedSubset by the scanned batch index set + relabelling; after "
        "repartitionByClass every batch is non-empty, holds one class, and batch classes ascend, so binarySubProblem of it is exactly the "
        "batches of the two classes; "
        "oneVersusRest relabels in place; DataView lists the dataset in order and numbers it 0..n-1 (index(i)), subsets compose (elements and indices), toDataset(view, m) holds exactly the view's elements, "
        "keeps the element shapes (repaired source, F-C03-16) in batches of m (all full but the last; Data(n, x, m) alike, a single EMPTY batch for n = 0). "
        "(G) SHARED BATCHES: Model/DatasetShared.lean makes the shared_ptr batch lists explicit (heap of batches, containers = address lists, use-counts over "
        "all live holders incl. the dataset copies inside views). Every structural operation (copy, swap, makeIndependent, splitBatch, splice, repartition, "
        "splitAtElement, append, push_back, indexedSubset, reorderElements/shuffle, fresh datasets, transformInputs/Labels, DataView, view subsets) only "
        "extends the heap, keeps addresses valid and acts on the VALUES of the slots exactly like the value-level operation (simulation), for every finite "
        "history (list induction): sharing is not observable through structural operations and no dataset other than the named targets changes "
        "(isolation); splitBatch/splice/repartition succeed only on independent containers and throw otherwise; the only operations that overwrite an "
        "existing batch are writes through element proxies, which leave every container not holding the written batch unchanged, and after "
        "makeIndependent() change NO other dataset (copy-on-write discipline; witness that without it the sibling changes); repartitionByClass at the "
        "pointer level (repartition + reorderElements) computes the value of section F and changes no other dataset. "
        "(H) WeightedLabeledData (data + weights, every operation applied to both): repartition, splitBatch, shuffle keep inputs, labels and weights in "
        "one partitioning and, over every finite history, the multiset of ((input,label),weight) triples -- a weight follows its element; append "
        "concatenates and splice splits the triple sequence, indexedSubset keeps the three partitionings equal. "
        "The models are tied to the real Data/UnlabeledData/LabeledData/WeightedLabeledData/DataView code by an exact line-by-line correspondence over "
        "random operation histories (40 operation kinds: the 24 of before plus makeIndependent, the raw guarded operations without makeIndependent "
        "(exception expected exactly when the model's use-counts say shared), swap, in-place writes through dataset and view element proxies, "
        "UnlabeledData::shuffle, randomSubset with the observed draw, Data(n, x, m) incl. n = 0, the empty range, transform through another element "
        "type and batch-wise over sparse batches; after every op the independence flags of every container are compared with the model's use-counts) "
        "on unsigned, RealVector, CompressedRealVector and user-struct elements and on WeightedLabeledData under ASan/UBSan, plus an independent "
        "in-harness oracle that keeps a flat std::vector beside every dataset, re-reads every state through the const and non-const element/batch "
        "proxies and repeats every iterator jump on Data<I>, Data<label> (const and non-const) and LabeledData iterators with +=, -=, +, ++/--. "
        "(J) INDEX WIDTH -- what the theorems assume: every index, position, size and batch count is an unbounded Nat in the models, i.e. the C++ "
        "keeps them in std::size_t / std::ptrdiff_t and the element count stays below 2^64.  The first half is a regenerated obligation: "
        "translate/index_types.py lists (clang AST, on every run) every integer-typed field, variable, parameter, typedef, function result and "
        "explicit cast of Dataset.h, Impl/Dataset.inl, DataView.h, WeightedDataset.h, BatchInterface.h, Core/utility/Iterators.h and functional.h "
        "(about 300 declarations: DataView::Index, the positions of DataElementIterator / DataView::IteratorBase / IndexingIterator, loop counters, "
        "getPartitioning, IndexSet) and Gen/IndexTypes.lean proves each 64 bits wide (index_fields_are_size_t); the only narrower declarations are "
        "recognised class labels (unsigned int) and the int counters of the two OpenMP loops over batches in transform (assumption: fewer than 2^31 "
        "batches).  Props/C03Index.lean: the per-element table DataView(dataset) builds with Index fields of wb/wp/wi bits equals the model's table "
        "whenever #batches <= 2^wb, batch sizes <= 2^wp and n <= 2^wi (view_packed_faithful), instantiated with the regenerated widths for all datasets "
        "with n < 2^64 (view_faithful_at_source_widths); witnesses that below the width view[i] aliases another element.  "
        "SCALE FAMILY (harness/c03s.cpp; ORACLE ONLY, no Lean model at this size; the independent oracle is a flat std::vector<(id,label)> per slot, "
        "exact integer comparison): on every run in both tiers 5 directed histories x {unsigned, RealVector} on counter-valued datasets with ONE BATCH "
        "of 65537..71536 elements, with 65537+ BATCHES of size 1, the sized constructor, 2^16-1 / 2^16 / 2^16+1 elements in both shapes and 256-element "
        "batches; every access path (element(i), begin()+i, elements() both directions const/non-const, batches(), inputs()/labels(), iterator jumps "
        "+= -= + - ++ -- on five iterator flavours to and from positions around 2^16) and every operation of the property (views of four flavours incl. "
        "batch(i)/positionInBatch(i)/index(i), subsets of subsets, toDataset with batch size 1/default/unlimited, subBatch, randomSubset of more than 2^16 "
        "elements, writes through dataset and view proxies, splitAtElement/splitBatch/splice at 2^16 and 2^16+1, append, push_back, indexedSubset and "
        "complement of tens of thousands of batches, repartition one batch <-> unit batches, reorderElements, shuffle, repartitionByClass with a class "
        "batch above 2^16, binarySubProblem, oneVersusRest, transform) is driven through the 16-bit boundary.  MID-SIZE histories (on the Lean model, "
        "exact correspondence like every other case): every run ends with 6 (quick) / 24 (thorough) histories on datasets of 255/256/257/511..513/200..700 "
        "elements with maximum batch sizes 0 (default 256), 1, 100, 128, 255..257, n, n+1 -- several batches under the default batch size, 8-bit boundaries."),
  note=TRUST + "translate/index_types.py (clang-14 JSON AST -> list of integer-typed declarations, allowlist of label / OpenMP-counter names) is trusted; "
       "the scale family is oracle-only (no model run at 2^16 elements): O(#batches) accessors are read at every position only while n*#batches <= 3e6, "
       "else around multiples of 2^16, batch borders around batch 2^16, the ends and 10 pseudo-random positions; index types narrower than 64 but wider "
       "than ~17 bits are decided by the static obligation alone (no run reaches 2^32 elements).  "
       "Covered by the correspondence and the oracle only (modelled, no theorem): Data(n, x, m) being filled through the element iterator, "
       "randomSubset drawing distinct positions (observed draw checked), the value a write through a proxy leaves in the writer itself when it holds "
       "a batch twice, bootstrap (oracle only: weights count k draws), weightedInputs(), the weights container of WeightedLabeledData sharing "
       "exactly like the label container (oracle), binarySubProblem/repartitionByClass at the pointer level (shared inputs, fresh labels; value "
       "level proved); the storage layout of sparse batches is not modelled. Datasets with an EMPTY batch (Data(0, x, m), appended anywhere) are "
       "outside the iterator theorems (witness theorem); harness and model print `paths=na` for them and apply batch-level operations only. "
       "Open findings F-C03-14..19 (findings_proposed/C03.md): each is probed on its own on every run and reported against known_findings.json; "
       "while a probe fails the random stream keeps away from its trigger (evidence `stream_avoids_open_findings`) and, for F-C03-16, runs the model "
       "with the unrepaired toDataset shape behaviour (`legacy-v2d-shape`).",
  technique="Lean 4 proofs (induction over partitions and operation histories; simulation of a pointer-sharing model by a value model) on models whose "
            "batch arithmetic and index widths are regenerated from the C++ on every run + differential correspondence with the real containers "
            "(ASan/UBSan) + a directed oracle-only scale family across the 2^16 boundary",
  design="§6 C03, §14 C03")

FINISH = dict(level="proof",
              rule="histories of dataset operations generated against the Lean model from one SplitMix64 stream; a case is non-trivial if it "
                   "contains at least 4 structure-changing ops; distinct = distinct op text")

LAKE_TARGETS = ["SharkVerif.Props.C03", "SharkVerif.Props.C03Index", "drv_c03"]
PROVE = ["SharkVerif.Props.C03", "SharkVerif.Gen.IndexTypes", "SharkVerif.Props.C03Index"]
TYPES = [("uint", []), ("real", ["3"]), ("sparse", ["7"]), ("blob", [])]


def translate(ctx):
    a = ctx.translate("batch_arith.py")
    # T0b: every integer-typed declaration of the dataset headers with its width -> Gen/IndexTypes.lean (obligation index_fields_are_size_t)
    b = ctx.translate("index_types.py", "--inc", ctx.shark_h())
    return a and b


TYPES_W = [("wuint", []), ("wreal", ["3"])]     # WeightedLabeledData<I, unsigned> (harness/c03w.cpp)


def build_main(ctx):
    return ctx.harness("c03", ["c03.cpp"], repo_sources=["src/Core/Random.cpp"])


def build_w(ctx):
    return ctx.harness("c03w", ["c03w.cpp"], repo_sources=["src/Core/Random.cpp"])


def build(ctx):
    """both harnesses (used by ./setup); the two TUs compile side by side"""
    from concurrent.futures import ThreadPoolExecutor
    with ThreadPoolExecutor(max_workers=3) as ex:
        fe, fw, fs = ex.submit(build_main, ctx), ex.submit(build_w, ctx), ex.submit(c03scale.build, ctx)
        exe, exew, exes = fe.result(), fw.result(), fs.result()
    return exe if exe and exew and exes else None


# ----------------------------------------------------------------------------- generator
def composition(r, n, maxparts=None):
    """random composition of n into positive parts"""
    parts, left = [], n
    style = r.below(4)
    while left > 0:
        if style == 0: p = 1
        elif style == 1: p = r.range(1, min(left, 3))
        elif style == 2: p = r.range(1, left)
        else: p = r.range(1, max(1, min(left, n // 3 + 1)))
        parts.append(p); left -= p
    return parts


def gen_labels(r, n):
    style = r.below(6)
    if style == 0:
        pool = [0]
    elif style == 1:
        pool = [0, 1]
    elif style == 2:
        pool = list(range(r.range(2, 5)))
    elif style == 3:                      # gaps: absent classes
        pool = sorted({r.below(7) for _ in range(r.range(1, 4))} | {r.range(2, 6)})
    elif style == 4:
        pool = [0, 2]
    else:
        pool = [1, 3, 4]
    return [r.choice(pool) for _ in range(n)]


W_OPS = {"new", "repart", "splitb", "splitat", "splice", "append", "subset", "shuffle", "copy", "swap", "indep",
         "rrepart", "rsplitb", "rsplitat", "rsplice"}
RAW = {"rrepart", "rsplitb", "rsplitat", "rsplice", "rrbc"}
# (weight, op kind): relative frequencies of the op kinds in a history
MIX = [(5, "new"), (2, "mk3"), (8, "repart"), (6, "splitb"), (7, "splitat"), (4, "splice"), (6, "append"), (3, "pushb"),
       (6, "subset"), (4, "subc"), (7, "reorder"), (4, "shuffle"), (2, "ushuf"), (7, "rbc"), (5, "bin"), (3, "ovr"),
       (5, "xform"), (2, "xlab"), (4, "copy"), (2, "swap"), (3, "indep"), (3, "rrepart"), (3, "rsplitb"), (3, "rsplitat"),
       (2, "rsplice"), (2, "rrbc"), (4, "setel"), (2, "cpel"), (8, "iter"), (16, "view")]


def pick(r, allowed):
    mix = [(w, k) for w, k in MIX if allowed is None or k in allowed]
    x = r.below(sum(w for w, _ in mix))
    for w, k in mix:
        if x < w:
            return k
        x -= w


def index_list(ctx, r, nb, what):
    """batch index list: sorted / unsorted / with duplicates / empty / everything"""
    style = r.below(6)
    if style == 0:
        idx = sorted(set(r.below(nb) for _ in range(r.range(0, nb))))
    elif style in (1, 2):
        idx = sorted(set(r.below(nb) for _ in range(r.range(0, nb))), key=lambda _: r.next())
    elif style == 3:
        idx = [r.below(nb) for _ in range(r.range(1, nb + 2))]
    elif style == 4:
        idx = list(range(nb)); idx.reverse()
    else:
        idx = []
    cls = ("empty" if not idx else "duplicates" if len(set(idx)) < len(idx) else "sorted" if idx == sorted(idx) else "unsorted")
    ctx.hist(what + "_index_list", cls)
    return idx


def gen_case(ctx, r, model, maxlen, allowed=None, avoid=(), mid=False):
    """one history; `model` answers with the state after every op.  `allowed`: restrict the op kinds
    (the weighted-dataset harness supports a subset); `avoid`: triggers of open findings the stream keeps away from;
    `mid`: datasets of 200..700 elements (across the default batch size 256 and the 8-bit boundary), still run on the Lean model"""
    ops, base = [], 0
    rng_seen = False      # after a shuffle the generator knows the partitioning but not the element order the real code drew

    def emit(text, model_text=None):
        resp = model.send(model_text or text)
        status = resp.split(" ", 1)[0]
        if status == "undefined" or status == "bad-op":
            ctx.count("generator_ops_rejected_by_model")
            return None
        ops.append(text)
        ctx.hist("op_status", status)
        if status == "exception":
            ctx.hist("exception_at", text.split()[0])
        return dsgen.parse_state(resp)

    def new(slot):
        nonlocal base
        n = r.choice([1, 1, 1, 2, 2, 3, 4, 5, 7, 8, 9, 13, 16, 17, 31, 32, 33, r.range(1, 70), r.range(1, 70)])
        if "empty-range" not in avoid and r.chance(1, 12):
            n = 0
        m = r.choice([0, 1, 2, 3, 4, max(1, n - 1), max(1, n), n + 1, n + 2, r.range(1, n + 2), r.range(1, n + 2)])
        if mid:
            n = r.choice([255, 256, 257, 300, 511, 512, 513, r.range(200, 700), r.range(200, 700)])
            m = r.choice([0, 0, 0, 1, 100, 128, 255, 256, 257, n, n + 1, r.range(1, n + 2)])
        labels = gen_labels(r, n)
        base += 100
        ctx.hist("new_n", "0" if n == 0 else "1" if n == 1 else "2-9" if n < 10 else "200-700" if n >= 200 else f"{min(n // 10 * 10, 70)}+")
        ctx.hist("new_maxbatch_rel", "default" if m == 0 else ("1" if m == 1 else ("<n" if m < n else ("=n" if m == n else ">n"))))
        ctx.hist("n_mod_m", "default" if m == 0 else ("divides" if n % m == 0 else "remainder"))
        return emit(f"new {slot} {m} {base} " + " ".join(map(str, labels)))

    emit("reset")                       # histories are self-contained: no object survives from the previous one
    st = new(0)
    if st is None:
        return ops
    for _ in range(r.range(2, maxlen)):
        _, ds, vs = st
        live = [k for k in range(4) if ds[k]["n"] > 0]
        if not live:
            st = new(r.below(4)) or st
            continue
        a = r.choice(live)
        A = ds[a]; n = A["n"]; part = A["part"]
        others = [k for k in range(4) if k != a]
        b = r.choice(others)
        kind = pick(r, allowed)
        raw = kind in RAW
        if raw:
            # inputs independent but labels shared: the C++ modifies the inputs and then throws (finding F-C03-17)
            # (g++ evaluates the two splice() arguments of LabeledData::splice right to left, so "01" is a trigger as well)
            # after a shuffle in this history the flags seen here may differ from those at run time (binarySubProblem shares
            # the batches of two classes: which ones depends on the drawn order), so no raw operation is issued then
            if "partial-mutation" in avoid and (A["ind"] in ("10", "01") or rng_seen):
                ctx.count("raw_ops_avoided_open_finding")
                continue
            ctx.hist("raw_op_on", {"11": "independent", "00": "both-shared", "10": "labels-shared", "01": "inputs-shared"}.get(A["ind"], A["ind"]))
            kind = kind[1:]
        R = "r" if raw else ""
        res = None
        if kind == "new":
            res = new(r.below(4))
        elif kind == "mk3":
            k = r.choice([0, 0, 1, 2, 5, r.range(0, 12)])
            m = r.choice([0, 1, 2, max(1, k), k + 1])
            ctx.hist("sized_ctor", "n=0 (one empty batch)" if k == 0 else "n=1" if k == 1 else "n>1")
            res = emit(f"mk3 {r.below(4)} {k} {m} {900 + r.below(50)} {r.below(3)}")
        elif kind == "repart":
            res = emit(f"{R}repart {a} " + " ".join(map(str, composition(r, n))))
        elif kind == "splitb":
            bi = r.below(len(part))
            k = r.choice([0, part[bi], r.range(0, part[bi]), r.range(0, part[bi])])
            ctx.hist("splitBatch_at", "0" if k == 0 else "size" if k == part[bi] else "inside")
            res = emit(f"{R}splitb {a} {bi} {k}")
        elif kind == "splitat":
            borders = [sum(part[:i]) for i in range(len(part) + 1)]
            k = r.choice([0, n, r.choice(borders), r.range(0, n), r.range(0, n)])
            ctx.hist("splitAtElement_at", "0" if k == 0 else "n" if k == n else "batch-border" if k in borders else "inside-batch")
            res = emit(f"{R}splitat {a} {b} {k}")
        elif kind == "splice":
            k = r.range(0, len(part))
            ctx.hist("splice_at", "0" if k == 0 else "end" if k == len(part) else "middle")
            res = emit(f"{R}splice {a} {b} {k}")
        elif kind == "append":
            ctx.hist("append_of", "empty" if ds[b]["n"] == 0 else "non-empty")
            res = emit(f"append {a} {b}")
        elif kind == "pushb":
            if ds[b]["part"]:
                res = emit(f"pushb {a} {b} {r.below(len(ds[b]['part']))}")
        elif kind == "subset":
            res = emit(f"subset {a} {r.below(4)} " + " ".join(map(str, index_list(ctx, r, len(part), "subset"))))
        elif kind == "subc":
            c = r.choice([k2 for k2 in range(4) if k2 != b])
            res = emit(f"subc {a} {b} {c} " + " ".join(map(str, index_list(ctx, r, len(part), "complement"))))
        elif kind == "reorder":
            perm = list(range(n))
            for i in range(n - 1, 0, -1):
                j = r.below(i + 1); perm[i], perm[j] = perm[j], perm[i]
            style = r.below(8)
            if style == 0:
                perm = [r.below(n) for _ in range(n)]       # a gather that is not a permutation
            elif style == 1:
                perm = list(range(n))
            elif style == 2:
                perm = list(range(n - 1, -1, -1))
            ctx.hist("reorder_index_list", "non-permutation" if sorted(perm) != list(range(n)) else "identity" if perm == sorted(perm) else "permutation")
            res = emit(f"reorder {a} " + " ".join(map(str, perm)))
        elif kind == "shuffle":
            rng_seen = True
            seed = r.below(100000)
            res = emit(f"shuffle {a} {seed}", f"shuffle {a} {seed} ! " + " ".join(map(str, range(n))))
        elif kind == "ushuf":
            rng_seen = True
            seed = r.below(100000)
            tgt = r.below(4)
            res = emit(f"ushuf {a} {tgt} {seed}", f"ushuf {a} {tgt} {seed} ! " + " ".join(map(str, range(n))))
        elif kind == "rbc":
            res = emit(f"{R}rbc {a} {r.choice([1, 2, 3, r.range(1, n + 2), r.range(1, n + 2)])}")
        elif kind == "bin":
            present = sorted(set(A["labels"]))
            c0 = r.choice(present); c1 = r.choice(present)
            if r.chance(1, 6): c1 = r.below(8)
            res = emit(f"bin {a} {r.below(4)} {c0} {c1}")
        elif kind == "ovr":
            res = emit(f"ovr {a} {r.below(4)} {r.choice(sorted(set(A['labels'])) + [r.below(8)])}")
        elif kind == "xform":
            mode = r.below(3)
            ctx.hist("transform_kind", ["element-wise", "batch-wise", "through-another-element-type"][mode])
            res = emit(f"xform {a} {r.below(4)} {r.range(0, 9)} {mode}")
        elif kind == "xlab":
            res = emit(f"xlab {a} {r.below(4)} {r.range(0, 3)}")
        elif kind == "copy":
            res = emit(f"copy {a} {b}")
        elif kind == "swap":
            res = emit(f"swap {a} {b}")
        elif kind == "indep":
            ctx.hist("makeIndependent_on", "shared" if "0" in A["ind"] else "independent")
            res = emit(f"indep {a}")
        elif kind == "setel":
            ctx.hist("in_place_write_on", "shared" if "0" in A["ind"] else "independent")
            res = emit(f"setel {a} {r.below(n)} {800 + r.below(90)} {r.below(4)}")
        elif kind == "cpel":
            ctx.hist("in_place_write_on", "shared" if "0" in A["ind"] else "independent")
            res = emit(f"cpel {a} {r.below(n)} {r.below(n)}")
        elif kind == "iter":
            p = r.range(0, n); q = r.range(0, n)
            borders = [sum(part[:i]) for i in range(len(part) + 1)]
            style = r.below(4)
            if style == 0:
                p = r.choice(borders); q = r.choice(borders)
            elif style in (1, 2) and len(part) >= 3 and 0 not in part:
                # a jump that skips at least one complete batch (both directions; the seeded iterator change needs a backward one)
                bj = r.below(len(part) - 2); bi = r.range(bj + 2, len(part) - 1)
                lo = borders[bj] + r.below(part[bj]); hi = borders[bi] + r.below(part[bi])
                p, q = (hi, lo) if style == 1 or r.chance(1, 2) else (lo, hi)
            def batch_of(x):
                return next((i for i in range(len(part)) if x < borders[i + 1]), len(part))
            ctx.hist("iterator_jump", "zero" if q == p else ("forward" if q > p else "backward") +
                     (" skipping a batch" if abs(batch_of(p) - batch_of(q)) >= 2 else " within/adjacent"))
            res = emit(f"iter {a} {p} {q - p + 1000}")
        else:
            v = r.below(2)
            y = r.below(7)
            if vs.get(v) is None or y == 0:
                res = emit(f"view {v} {a}")
            elif y == 1 or y == 5:
                sz = vs[v]
                idx = [r.below(sz) for _ in range(r.range(0, sz + 2))] if sz else []
                ctx.hist("view_subset_of", "view-subset" if y == 5 else "any")
                res = emit(f"vsub {v} {r.below(2)} " + " ".join(map(str, idx)))
            elif y == 2:
                sz = vs[v]
                m = r.choice([0, 1, 2, 3, max(1, sz - 1), sz, sz + 1, r.range(1, sz + 2)])
                ctx.hist("toDataset_batch", "default" if m == 0 else "empty-view" if sz == 0 else "<n" if m < sz else "=n" if m == sz else ">n")
                res = emit(f"v2d {v} {r.below(4)} {m}")
            elif y == 3:
                sz = vs[v]
                if sz:
                    idx = [r.below(sz) for _ in range(r.range(1, sz + 1))]
                    res = emit(f"vbat {v} {r.below(4)} " + " ".join(map(str, idx)))
            elif y == 4:
                sz = vs[v]
                if sz:
                    res = emit(f"vset {v} {r.below(sz)} {700 + r.below(90)} {r.below(4)}")
            else:
                sz = vs[v]
                if sz:
                    k = r.choice([0, 1, sz, r.range(0, sz)])
                    rng_seen = True
                    seed = r.below(100000); tgt = r.below(2)
                    res = emit(f"vrand {v} {tgt} {k} {seed}", f"vrand {v} {tgt} {k} {seed} ! " + " ".join(map(str, range(k))))
        if res is not None:
            st = res
            for k2 in range(4):
                if 0 in res[1][k2]["part"]:
                    ctx.count("states_with_an_empty_batch"); break
    return ops


STRUCT = {"repart", "splitb", "splitat", "splice", "append", "pushb", "subset", "subc", "reorder", "shuffle", "ushuf", "rbc", "bin",
          "v2d", "vbat", "vsub", "vrand", "rrepart", "rsplitb", "rsplitat", "rsplice", "rrbc", "setel", "cpel", "vset", "swap", "mk3"}
RNG_OPS = "shuffle,ushuf,vrand"


def nontrivial(ops):
    return sum(1 for o in ops if o.split()[0] in STRUCT) >= 4


# ----------------------------------------------------------------------------- probes of open findings
def load_open(pid):
    """corpus/<pid>/open_*.txt: minimal inputs of findings; first line `# type: <element type>`"""
    d = os.path.join(core.VERIF, "corpus", pid)
    out = []
    for fn in sorted(os.listdir(d)) if os.path.isdir(d) else []:
        if fn.startswith("open_") and fn.endswith(".txt"):
            lines = open(os.path.join(d, fn)).read().splitlines()
            ty = next((l.split(":", 1)[1].strip() for l in lines if l.startswith("# type:")), "uint")
            avoid = next((l.split(":", 1)[1].strip() for l in lines if l.startswith("# avoid:")), "")
            ops = [l.strip() for l in lines if l.strip() and not l.startswith("#")]
            out.append((fn, ty, avoid, ops))
    return out


INST_PROBES = [
    ("F-C03-14:weighted-createFromRange-not-instantiable", 1,
     "createLabeledDataFromRange(inputs, labels, weights, batchSize) / createUnlabeledDataFromRange(data, weights, batchSize) cannot be "
     "instantiated: the parameter `batchSize` shadows the function batchSize() the body calls (WeightedDataset.h)"),
    ("F-C03-15:iterator-conversion:DataView-const_iterator", 2,
     "DataView<D>::iterator does not convert to const_iterator: the converting constructor of IteratorBase names a member `position` that does not exist (DataView.h)"),
    ("F-C03-15:iterator-conversion:DataElementIterator-assignment-no-return", 3,
     "DataElementIterator::operator=(DataElementIterator<D> const&) (const_iterator = iterator) has no return statement: undefined behaviour when called (Impl/Dataset.inl)"),
]


def instantiation_probes(ctx):
    """compile-time findings: harness/c03_inst.cpp, one case per -DCASE (syntax check only; -Werror=return-type)"""
    src = os.path.join(core.VERIF, "harness", "c03_inst.cpp")
    inc = ctx.shark_h()
    hdrs = ["include/shark/Data/Dataset.h", "include/shark/Data/Impl/Dataset.inl", "include/shark/Data/DataView.h",
            "include/shark/Data/WeightedDataset.h", "include/shark/Data/BatchInterface.h"]
    key = core.sha("".join(core.file_sha(os.path.join(core.REPO, h)) for h in hdrs) + core.file_sha(src))[:16]
    res = {}
    from concurrent.futures import ThreadPoolExecutor
    def one(pr):
        fkey, case, what = pr
        stamp = os.path.join(core.CACHE, f"c03inst-{key}-{case}.rc")
        if os.path.exists(stamp):
            txt = open(stamp).read()
            return pr, int(txt.split("\n", 1)[0]), txt.split("\n", 1)[1]
        rc, out = core.sh(["g++", "-std=c++11", "-fsyntax-only", "-DNDEBUG", "-Wno-all", "-Werror=return-type", f"-DCASE={case}",
                           "-I" + inc, "-I" + os.path.join(core.REPO, "include"), src], timeout=900)
        open(stamp, "w").write(f"{rc}\n{out[-1500:]}")
        return pr, rc, out[-1500:]
    with ThreadPoolExecutor(max_workers=3) as ex:
        for (fkey, case, what), rc, out in ex.map(one, INST_PROBES):
            res[fkey] = (rc == 0)
            if rc != 0:
                ctx.violation(fkey, {"probe": f"harness/c03_inst.cpp -DCASE={case}", "compiler_output": out,
                                     "ops": [f"(compile) harness/c03_inst.cpp -DCASE={case}"]}, found_input=True, what=what)
    ctx.cov["instantiation_probes_pass"] = res
    return res


OPEN_KEYS = {
    "open_f16_todataset_shape.txt": ("F-C03-16:toDataset-drops-shape:v2d", "toDataset(view, batchSize) returns a dataset with empty inputShape()/labelShape(): the shape of the viewed dataset is not carried over"),
    "open_f17_partial_mutation.txt": ("F-C03-17:partial-mutation-on-shared:rsplitb", "LabeledData::splitBatch (likewise repartition, splice and the weighted datasets) modifies the input container and then throws 'Container is not Independent' for the label container: inputs and labels are batched differently afterwards"),
    "open_f18_empty_range.txt": ("F-C03-18:empty-range-division-by-zero:new", "createDataFromRange / createLabeledDataFromRange divide by zero for an empty range (the arithmetic of optimalBatchSizes copied into the template, without its guard)"),
    "open_f18b_transform_empty.txt": ("F-C03-18:empty-range-division-by-zero:xform", "transformInputs of an empty Data<RealVector> (e.g. the right part of splitAtElement(data, n)) reads element(0) of a dataset without batches to infer the shape"),
    "open_f19_bootstrap_size.txt": ("F-C03-19:bootstrap-index-range:boot", "bootstrap(dataset, k) draws the element indices from [0, k) instead of [0, numberOfElements()): k > n walks the iterator past the end, k < n never draws the last n-k elements"),
}


def run_open(ctx, exes, drv, feed, extra_driver_args):
    """run the minimal input of every open finding on its own; returns the set of `avoid` tags that are still needed
    and the probe cases that pass (they join the stream as ordinary corpus cases)"""
    avoid, passing = set(), {"main": [], "w": []}
    shapes = dict(TYPES + TYPES_W)
    for pid in ("C03", "C03W"):
        for fn, ty, av, ops in load_open(pid):
            exe = exes["w" if ty.startswith("w") else "main"]
            dcmd = [sys.executable, feed, RNG_OPS, exe, ty, "--", drv, *shapes.get(ty, [])]   # the repaired model (no legacy flag)
            res = core.run_case(ctx, [exe, ty], dcmd, ops, env=dsgen.ASAN_ENV, timeout=120)
            ctx.cov.setdefault("open_finding_probes", {})[fn] = "passes" if res.ok else "fails"
            if res.ok:
                passing["w" if ty.startswith("w") else "main"].append(ops)
                continue
            if av:
                avoid.add(av)
            key, what = OPEN_KEYS.get(fn, (f"open:{fn}", f"minimal input {fn} fails"))
            ctx.violation(key, {"harness_cmd": [exe, ty], "driver_cmd": dcmd, "ops": ops, "impl_output": res.impl[-6:], "model_output": res.model[-6:],
                                "first_diff_line": res.diff_at, "oracle": res.oracle[:5], "crash": res.crash, "stderr_tail": res.stderr[-1200:],
                                "env": dsgen.ASAN_ENV}, found_input=True, what=what)
    return avoid, passing


def run(ctx):
    ctx.trusted += ["translator translate/batch_arith.py (clang-14 JSON AST -> Lean) for optimalBatchSizes/batchPartitioning",
                    "translator translate/index_types.py (clang-14 JSON AST -> Gen/IndexTypes.lean: integer-typed declarations of the dataset headers with their widths)",
                    "scale harness harness/c03s.cpp + checks/c03scale.py (oracle only: flat-vector oracle beside the real containers at 2^16+ elements / batches)",
                    "correspondence harness harness/c03.cpp + generator checks/c03.py (drives the Lean model interactively)",
                    "hand-written models Model/Dataset.lean (values) and Model/DatasetShared.lean (shared batch pointers) for everything except the translated batch arithmetic",
                    "ASan/UBSan runtime for the real code's memory safety (not a theorem)"]
    ctx.assumptions += ["operations respect the C++ preconditions that are SIZE_CHECKs (indices in range, repartition sizes positive and summing to n); "
                        "independence is *not* assumed: makeIndependent() and the 'Container is not Independent' exception are modelled and exercised",
                        "size_t arithmetic does not overflow 2^64 (all quantities are bounded by the element count); that the C++ keeps every index, position, "
                        "size and count in 64-bit integers is NOT assumed: it is the regenerated obligation index_fields_are_size_t",
                        "fewer than 2^31 batches (the two OpenMP loops of transform count batches in `int`)"]
    translate(ctx)
    ctx.prove(PROVE)
    if not ctx.quick:
        ctx.leanchecker(["SharkVerif.Props.C03", "SharkVerif.Props.C03Index"])
    exe = build(ctx)
    exew = build_w(ctx) if exe else None               # cached after build()
    exes = c03scale.build(ctx) if exe else None
    drv = ctx.driver("drv_c03")
    # the scale family needs neither the driver nor the proofs: it runs in the background from here on
    scale = c03scale.start(ctx, exes, core.SplitMix64(ctx.seed).fork("c03scale")) if exes else None
    try:
        if exe and exew and drv:
            run_stream(ctx, exe, exew, drv)
    finally:
        if scale:
            c03scale.finish(ctx, scale)


def run_stream(ctx, exe, exew, drv):
    instantiation_probes(ctx)
    feed = os.path.join(core.VERIF, "tools", "obsfeed.py")
    avoid, passing = run_open(ctx, {"main": exe, "w": exew}, drv, feed, [])
    ctx.cov["stream_avoids_open_findings"] = sorted(avoid)
    legacy = ["legacy-v2d-shape"] if "v2d-shape" in avoid else []     # F-C03-16 open: the stream follows the unrepaired toDataset
    ncases, maxlen = (110, 40) if ctx.quick else (400, 150)
    ncases = int(os.environ.get('VERIF_NCASES', ncases))          # self-tests: fewer random histories
    cases = dsgen.load_corpus("C03")
    cases = [c for c in cases] + passing["main"]
    ctx.cov["corpus_cases"] = len(cases)
    r = ctx.rng.fork("c03")
    model = dsgen.Model(drv, ["3"] + legacy)
    try:
        for _ in range(ncases):
            c = gen_case(ctx, r, model, maxlen, avoid=avoid)
            if c:
                cases.append(c)
        # mid-size histories (own rng fork: the small histories of a seed stay what they were)
        rm = core.SplitMix64(ctx.seed).fork("c03mid")
        for _ in range(int(os.environ.get('VERIF_NCASES_MID', 6 if ctx.quick else 24))):
            c = gen_case(ctx, rm, model, 20 if ctx.quick else 30, avoid=avoid, mid=True)
            if c:
                cases.append(c); ctx.count("mid_size_cases")
        wcases = dsgen.load_corpus("C03W") + passing["w"]
        for _ in range(ncases):
            c = gen_case(ctx, r, model, 2 * maxlen, allowed=W_OPS, avoid=avoid)
            if c:
                # bootstrap probes (oracle only; `boot` changes nothing and is answered `undefined` on both sides)
                for _ in range(2):
                    pos = r.range(1, len(c))
                    k = 0 if "bootstrap-size" in avoid else r.choice([0, 1, 3, r.range(1, 90)])
                    c.insert(pos, f"boot {r.below(4)} {k} {r.below(100000)}")
                wcases.append(c)
    finally:
        model.close()
    for c in wcases:
        for o in c:
            ctx.hist("weighted_op_mix", o.split()[0])
    ctx.cov["weighted_cases"] = len(wcases)
    for c in cases:
        for o in c:
            ctx.hist("op_mix", o.split()[0])
        ctx.hist("history_length", min(len(c) // 20 * 20, 400))
    ctx.cov["evaluations"] = len(cases) * len(TYPES)
    ctx.cov["distinct_nontrivial"] = len({"\n".join(c) for c in cases if nontrivial(c)})
    ctx.sample({"ops": cases[len(cases) // 2][:10]})
    # which case of F1 does the current source show?  (the driver evaluates the *generated* function)
    z = dsgen.Model(drv); zr = z.send("zero"); z.close()
    ctx.cov["generated_optimalBatchSizes_at_zero"] = zr.split(" | ")[0]
    def one(t):
        ty, shape = t
        hcmd = [exe, ty]
        dcmd = [sys.executable, feed, RNG_OPS, exe, ty, "--", drv, *shape, *legacy]
        return core.correspond(ctx, f"K-C03[{ty}]", cases, hcmd, dcmd, classify_main, env=dsgen.ASAN_ENV, timeout=900 if ctx.quick else 3600)
    dsgen.run_types(one, dsgen.types(TYPES, 'VERIF_C03_TYPES'))

    def onew(t):
        ty, shape = t
        hcmd = [exew, ty]
        dcmd = [sys.executable, feed, RNG_OPS, exew, ty, "--", drv, *shape, *legacy]
        return core.correspond(ctx, f"K-C03[{ty}]", wcases, hcmd, dcmd, classify_w, env=dsgen.ASAN_ENV, timeout=900 if ctx.quick else 3600)
    dsgen.run_types(onew, dsgen.types(TYPES_W, 'VERIF_C03_TYPES'))
    ctx.cov["evaluations"] += len(wcases) * len(TYPES_W)


def classify_main(ops, res):
    key, what = dsgen.classify(ops, res)
    return refine_key(ops, res, key, what)


def refine_key(ops, res, key, what):
    """name the findings of this round by their stable keys"""
    text = " ".join(res.oracle) + " " + res.stderr
    at = res.diff_at if res.diff_at is not None else len(res.impl) - 1
    opname = ops[at].split()[0] if 0 <= at < len(ops) else "?"
    if opname in RAW and ("input-label-partition-differs" in text or (res.diff_at is not None and res.diff_at < len(res.impl) and res.impl[res.diff_at].startswith("exception"))):
        return (f"F-C03-17:partial-mutation-on-shared:{opname}", f"`{opname[1:]}` on a dataset whose label (or weight) batches are shared modifies the inputs and then throws; ops {ops}")
    if opname == "v2d" and res.diff_at is not None and not res.crash and not res.oracle:
        a, b = res.impl[res.diff_at], res.model[res.diff_at] if res.diff_at < len(res.model) else ""
        if re.sub(r"l?sh=\[[^\]]*\]", "sh", a) == re.sub(r"l?sh=\[[^\]]*\]", "sh", b):
            return ("F-C03-16:toDataset-drops-shape:v2d", f"toDataset loses the element shape; ops {ops}")
    if opname == "new" and res.crash and ("division by zero" in res.stderr or "FPE" in res.stderr) and any(len(o.split()) == 4 and o.startswith("new ") for o in ops):
        return ("F-C03-18:empty-range-division-by-zero:new", f"createLabeledDataFromRange on an empty range divides by zero; ops {ops}")
    if "bootstrap-" in text or (opname == "boot" and res.crash):
        return ("F-C03-19:bootstrap-index-range:boot", f"bootstrap(data, k) with k != n indexes with the wrong range; ops {ops}")
    return key, what


def classify_w(ops, res):
    key, what = dsgen.classify(ops, res)
    k2, w2 = refine_key(ops, res, key, what)
    if k2 != key:
        return k2, w2
    if key.startswith("oracle:") and any(o.split()[0] == "shuffle" for o in ops):
        return ("F13:weighted-shuffle-corrupts-inputs:shuffle",
                f"BaseWeightedDataset::shuffle() separates/corrupts elements (swap of element proxies); ops {ops}")
    return key, what


def replay(ctx, rep):
    if rep.get("scale"):
        return c03scale.replay(ctx, rep)
    drv = ctx.driver("drv_c03")
    cmd = list(rep.get("harness_cmd", ["", "uint"]))
    ty = cmd[1] if len(cmd) > 1 else "uint"
    exe = build_w(ctx) if ty.startswith("w") else build_main(ctx)
    cmd[0] = exe
    shape = dict(TYPES + TYPES_W).get(ty, [])
    feed = os.path.join(core.VERIF, "tools", "obsfeed.py")
    dcmd = [sys.executable, feed, RNG_OPS, exe, ty, "--", drv, *shape]
    res = core.run_case(ctx, cmd, dcmd, rep["ops"])
    n = max(len(res.impl), len(res.model))
    for i in range(n):
        a = res.impl[i] if i < len(res.impl) else "<no output>"
        b = res.model[i] if i < len(res.model) else "<no output>"
        print(f"op   : {rep['ops'][i] if i < len(rep['ops']) else ''}\nimpl : {a}\nmodel: {b}")
    print("stderr:", res.stderr[-2000:])
    print("OK" if res.ok else "FAILS")
    return 0 if res.ok else 1
