"""C03 — dataset containers keep every element, its order and its input-label pairing.

* T0: translate/batch_arith.py regenerates Gen/BatchArith.lean from Impl/Dataset.inl on every run;
  the theorems of Props/C03.lean are re-proved against it.
* K-C03: random *histories* of dataset operations, generated against the Lean model (so that the
  C++ preconditions hold), run on real LabeledData<I, unsigned> / DataView objects for four input
  element types and on the native driver of Model/Dataset.lean; outputs compared line by line.
"""
import os, re, sys
from vlib import core
from checks import dsgen

TRUST = ("Lean 4.33 kernel; axioms at most propext/Classical.choice/Quot.sound (audited per run); "
         "optimalBatchSizes/batchPartitioning are machine-translated from the C++ on every run (clang-14 JSON AST -> Lean, "
         "translate/batch_arith.py is trusted, and cross-checked by the correspondence); the container operations are a "
         "hand-written model (Model/Dataset.lean) tied to the C++ by the differential correspondence only (generator-bounded); ")
MANIFEST = dict(
  text=("Theorems (Props/C03.lean, re-proved on every run against the regenerated batch arithmetic), for all element types, sizes, batch sizes, "
        "partitions and operation histories: (A) the machine-translated optimalBatchSizes is, for n>0 and m>0, inside defined arithmetic and returns "
        "ceil(n/m) batch sizes that sum to n, lie in [1,m] and differ by at most 1; for n=0 it is either undefined (division by zero, finding F1) "
        "or empty (repaired source) -- which one holds is evaluated and reported on every run; the copy of the arithmetic in createDataFromRange "
        "agrees with it. (B) createDataFromRange, repartition (incl. its element-by-element copy loop, proved equal to the abstract cut), splitBatch, "
        "splice, append, push_back, indexedSubset (+ complement: a partition of the elements), transform and reorderElements map the flat element "
        "sequence exactly as documented, keep shape and partitioning as documented; reorderElements with a permutation (shuffle) preserves the "
        "multiset. (C) for every partition into non-empty batches the DataElementIterator state machine makes elements(), element(i), reverse "
        "iteration and batches() yield the same sequence (Data and LabeledData); ++/-- are mutually inverse across batch borders; it += n lands on the "
        "canonical (batch, offset) of p+n for every signed n; batch sizes sum to numberOfElements. (D) LabeledData: createLabeledDataFromRange, "
        "repartition, splitBatch, splice, splitAtElement (first k pairs stay), append, push_back, indexedSubset, reorderElements, transformLabels/Inputs keep inputs "
        "and labels in the same partitioning and never separate an input from its label. (E) every finite history of repartition / splitBatch / "
        "reorderElements-by-permutation steps on one dataset, and of these plus splitAtElement / append / swap moving elements between two datasets, "
        "preserves well-formedness, non-empty batches and the multiset of (input,label) pairs; in every reachable state the access paths agree. "
        "(F) repartitionByClass, whenever it succeeds (any label multiset incl. absent classes), yields a permutation of the pairs gathered class by "
        "class with ascending labels; binarySubProblem returns exactly the first run of batches of the smaller class followed by the next run of the "
        "bigger class (on class-sorted batches: all batches of the two classes) relabelled [l = oneClass], and throws iff a run is missing; after "
        "repartitionByClass (repaired source) every batch is non-empty, holds one class, and batch classes ascend, so binarySubProblem of it is exactly the "
        "batches of the two classes; "
        "oneVersusRest relabels in place; DataView lists the dataset in order, subsets compose, toDataset(view) holds exactly the view's elements. "
        "The model is tied to the real Data/LabeledData/DataView code by an exact line-by-line correspondence over random operation histories (24 "
        "operation kinds incl. shuffle with the observed permutation, binarySubProblem, oneVersusRest, element-/batch-wise transform, signed iterator "
        "jumps) on unsigned, RealVector, CompressedRealVector and user-struct elements and on WeightedLabeledData under ASan/UBSan, plus an independent in-harness oracle that keeps "
        "a flat std::vector beside every dataset."),
  note=TRUST + "covered by the correspondence and the oracle only (modelled, no theorem): the two-result indexedSubset on LabeledData parts (`subc`), "
       "Data(size, element, batchSize) batch layout beyond its sum, shapes after transform; sharing of batches between datasets (shared_ptr) and the storage "
       "layout of sparse batches are not modelled; WeightedLabeledData is covered by the correspondence only (same model, weights checked by the oracle; "
       "ops new/repartition/splitBatch/splitAtElement/splice/append/indexedSubset/shuffle). Open findings F1, F10, F13 (findings_proposed/C03.md; F9 was repaired upstream meanwhile) make the check print "
       "VIOLATION on the unrepaired tree.",
  technique="Lean 4 proofs (induction over partitions and operation histories) on a model whose batch arithmetic is regenerated from the C++ "
            "on every run + differential correspondence with the real containers (ASan/UBSan)",
  design="§6 C03")

FINISH = dict(level="proof",
              rule="histories of dataset operations generated against the Lean model from one SplitMix64 stream; a case is non-trivial if it "
                   "contains at least 4 structure-changing ops; distinct = distinct op text")

LAKE_TARGETS = ["SharkVerif.Props.C03", "drv_c03"]
TYPES = [("uint", []), ("real", ["3"]), ("sparse", ["7"]), ("blob", [])]
RNG_OPS = "shuffle"


def translate(ctx):
    return ctx.translate("batch_arith.py")


TYPES_W = [("wuint", []), ("wreal", ["3"])]     # WeightedLabeledData<I, unsigned> (harness/c03w.cpp)


def build_main(ctx):
    return ctx.harness("c03", ["c03.cpp"], repo_sources=["src/Core/Random.cpp"])


def build_w(ctx):
    return ctx.harness("c03w", ["c03w.cpp"], repo_sources=["src/Core/Random.cpp"])


def build(ctx):
    """both harnesses (used by ./setup); the two TUs compile side by side"""
    from concurrent.futures import ThreadPoolExecutor
    with ThreadPoolExecutor(max_workers=2) as ex:
        fe, fw = ex.submit(build_main, ctx), ex.submit(build_w, ctx)
        exe, exew = fe.result(), fw.result()
    return exe if exe and exew else None


# ----------------------------------------------------------------------------- generator
def composition(r, n, maxparts=None):
    """random composition of n into positive parts"""
    parts, left = [], n
    style = r.below(4)
    while left > 0:
        if style == 0: p = 1
        elif style == 1: p = r.range(1, min(left, 3))
        elif style == 2: p = r.range(1, left)
        else: p = r.range(1, max(1, min(left, n // 3 + 1)))
        parts.append(p); left -= p
    return parts


def gen_labels(r, n):
    style = r.below(6)
    if style == 0:
        pool = [0]
    elif style == 1:
        pool = [0, 1]
    elif style == 2:
        pool = list(range(r.range(2, 5)))
    elif style == 3:                      # gaps: absent classes
        pool = sorted({r.below(7) for _ in range(r.range(1, 4))} | {r.range(2, 6)})
    elif style == 4:
        pool = [0, 2]
    else:
        pool = [1, 3, 4]
    return [r.choice(pool) for _ in range(n)]


W_OPS = {"new", "repart", "splitb", "splitat", "splice", "append", "subset", "shuffle", "copy"}
BRANCHES = [(6, "new"), (16, "repart"), (24, "splitb"), (31, "splitat"), (35, "splice"), (41, "append"), (44, "pushb"),
            (50, "subset"), (54, "subc"), (62, "reorder"), (67, "shuffle"), (76, "rbc"), (82, "bin"), (85, "ovr"),
            (89, "xform"), (91, "xlab"), (93, "copy"), (96, "iter"), (100, "view")]


def branch_of(x):
    return next(name for lim, name in BRANCHES if x < lim)


def gen_case(ctx, r, model, maxlen, allowed=None):
    """one history; `model` answers with the state after every op.  `allowed`: restrict the op kinds
    (the weighted-dataset harness supports a subset)"""
    ops, base = [], 0

    def emit(text, model_text=None):
        resp = model.send(model_text or text)
        status = resp.split(" ", 1)[0]
        if status == "undefined" or status == "bad-op":
            ctx.count("generator_ops_rejected_by_model")
            return None
        ops.append(text)
        ctx.hist("op_status", status)
        return dsgen.parse_state(resp)

    def new(slot):
        nonlocal base
        n = r.choice([1, 1, 2, 3, 4, 5, 7, 8, 9, 13, 16, 17, 31, 32, 33, r.range(1, 70), r.range(1, 70)])
        m = r.choice([0, 1, 2, 3, 4, max(1, n - 1), n, n + 1, n + 2, r.range(1, n + 2), r.range(1, n + 2)])
        labels = gen_labels(r, n)
        base += 100
        ctx.hist("new_n", min(n // 10 * 10, 70)); ctx.hist("new_maxbatch_rel", "default" if m == 0 else ("1" if m == 1 else ("<n" if m < n else ("=n" if m == n else ">n"))))
        ctx.hist("n_mod_m", "default" if m == 0 else ("divides" if n % m == 0 else "remainder"))
        return emit(f"new {slot} {m} {base} " + " ".join(map(str, labels)))

    st = new(0)
    if st is None:
        return ops
    for _ in range(r.range(2, maxlen)):
        _, ds, vs = st
        live = [k for k in range(4) if ds[k]["n"] > 0]
        if not live:
            st = new(r.below(4)) or st
            continue
        a = r.choice(live)
        A = ds[a]; n = A["n"]; part = A["part"]
        others = [k for k in range(4) if k != a]
        b = r.choice(others)
        x = r.below(100)
        if allowed is not None and branch_of(x) not in allowed:
            continue
        res = None
        if x < 6:
            res = new(r.below(4))
        elif x < 16:
            res = emit(f"repart {a} " + " ".join(map(str, composition(r, n))))
        elif x < 24:
            bi = r.below(len(part))
            res = emit(f"splitb {a} {bi} {r.range(0, part[bi])}")
        elif x < 31:
            res = emit(f"splitat {a} {b} {r.choice([0, n, r.range(0, n), r.range(0, n)])}")
        elif x < 35:
            res = emit(f"splice {a} {b} {r.range(0, len(part))}")
        elif x < 41:
            res = emit(f"append {a} {b}")
        elif x < 44:
            if ds[b]["n"] > 0:
                res = emit(f"pushb {a} {b} {r.below(len(ds[b]['part']))}")
        elif x < 50:
            k = r.range(0, len(part))
            idx = [r.below(len(part)) for _ in range(k)] if r.chance(1, 4) else sorted(set(r.below(len(part)) for _ in range(k)), key=lambda _: r.next())
            tgt = r.below(4)
            res = emit(f"subset {a} {tgt} " + " ".join(map(str, idx)))
        elif x < 54:
            k = r.range(0, len(part))
            idx = sorted(set(r.below(len(part)) for _ in range(k)), key=lambda _: r.next())
            c = r.choice([k2 for k2 in range(4) if k2 != b])
            res = emit(f"subc {a} {b} {c} " + " ".join(map(str, idx)))
        elif x < 62:
            perm = list(range(n))
            for i in range(n - 1, 0, -1):
                j = r.below(i + 1); perm[i], perm[j] = perm[j], perm[i]
            if r.chance(1, 8):
                perm = [r.below(n) for _ in range(n)]       # a gather that is not a permutation
                ctx.count("reorder_non_permutation")
            res = emit(f"reorder {a} " + " ".join(map(str, perm)))
        elif x < 67:
            seed = r.below(100000)
            perm = list(range(n))
            res = emit(f"shuffle {a} {seed}", f"shuffle {a} {seed} ! " + " ".join(map(str, perm)))
        elif x < 76:
            res = emit(f"rbc {a} {r.choice([1, 2, 3, r.range(1, n + 2), r.range(1, n + 2)])}")
        elif x < 82:
            present = sorted(set(A["labels"]))
            c0 = r.choice(present); c1 = r.choice(present)
            if r.chance(1, 6): c1 = r.below(8)
            res = emit(f"bin {a} {r.below(4)} {c0} {c1}")
        elif x < 85:
            res = emit(f"ovr {a} {r.below(4)} {r.choice(sorted(set(A['labels'])) + [r.below(8)])}")
        elif x < 89:
            res = emit(f"xform {a} {r.below(4)} {r.range(0, 9)} {r.below(2)}")
        elif x < 91:
            res = emit(f"xlab {a} {r.below(4)} {r.range(0, 3)}")
        elif x < 93:
            res = emit(f"copy {a} {b}")
        elif x < 96:
            p = r.range(0, n); q = r.range(0, n)
            res = emit(f"iter {a} {p} {q - p + 1000}")
        else:
            v = r.below(2)
            y = r.below(4)
            if vs.get(v) is None or y == 0:
                res = emit(f"view {v} {a}")
            elif y == 1:
                sz = vs[v]
                idx = [r.below(sz) for _ in range(r.range(0, sz + 2))] if sz else []
                res = emit(f"vsub {v} {r.below(2)} " + " ".join(map(str, idx)))
            elif y == 2:
                sz = vs[v]
                res = emit(f"v2d {v} {r.below(4)} {r.choice([0, 1, 2, 3, max(1, sz - 1), sz, sz + 1, r.range(1, sz + 2)])}")
            else:
                sz = vs[v]
                if sz:
                    idx = [r.below(sz) for _ in range(r.range(1, sz + 1))]
                    res = emit(f"vbat {v} {r.below(4)} " + " ".join(map(str, idx)))
        if res is not None:
            st = res
    return ops


STRUCT = {"repart", "splitb", "splitat", "splice", "append", "pushb", "subset", "subc", "reorder", "shuffle", "rbc", "bin", "v2d", "vbat", "vsub"}


def nontrivial(ops):
    return sum(1 for o in ops if o.split()[0] in STRUCT) >= 4


def run(ctx):
    ctx.trusted += ["translator translate/batch_arith.py (clang-14 JSON AST -> Lean) for optimalBatchSizes/batchPartitioning",
                    "correspondence harness harness/c03.cpp + generator checks/c03.py (drives the Lean model interactively)",
                    "hand-written model Model/Dataset.lean for everything except the translated batch arithmetic",
                    "ASan/UBSan runtime for the real code's memory safety (not a theorem)"]
    ctx.assumptions += ["operations respect the C++ preconditions (indices in range, repartition sizes positive and summing to n, "
                        "independence established by makeIndependent() before splitBatch/splice/repartition)",
                        "size_t arithmetic does not overflow 2^64 (all quantities are bounded by the element count)"]
    translate(ctx)
    ctx.prove(["SharkVerif.Props.C03"])
    if not ctx.quick:
        ctx.leanchecker(["SharkVerif.Props.C03"])
    exe = build(ctx)
    exew = build_w(ctx) if exe else None               # cached after build()
    drv = ctx.driver("drv_c03")
    if not exe or not exew or not drv:
        return
    ncases, maxlen = (120, 40) if ctx.quick else (400, 150)
    ncases = int(os.environ.get('VERIF_NCASES', ncases))          # self-tests: fewer random histories
    cases = dsgen.load_corpus("C03")
    ctx.cov["corpus_cases"] = len(cases)
    r = ctx.rng.fork("c03")
    model = dsgen.Model(drv, ["3"])
    try:
        for _ in range(ncases):
            c = gen_case(ctx, r, model, maxlen)
            if c:
                cases.append(c)
        wcases = dsgen.load_corpus("C03W")
        for _ in range(ncases):
            c = gen_case(ctx, r, model, 2 * maxlen, allowed=W_OPS)
            if c:
                wcases.append(c)
    finally:
        model.close()
    for c in wcases:
        for o in c:
            ctx.hist("weighted_op_mix", o.split()[0])
    ctx.cov["weighted_cases"] = len(wcases)
    for c in cases:
        for o in c:
            ctx.hist("op_mix", o.split()[0])
        ctx.hist("history_length", min(len(c) // 20 * 20, 400))
    ctx.cov["evaluations"] = len(cases) * len(TYPES)
    ctx.cov["distinct_nontrivial"] = len({"\n".join(c) for c in cases if nontrivial(c)})
    ctx.sample({"ops": cases[len(cases) // 2][:10]})
    # which case of F1 does the current source show?  (the driver evaluates the *generated* function)
    z = dsgen.Model(drv); zr = z.send("zero"); z.close()
    ctx.cov["generated_optimalBatchSizes_at_zero"] = zr.split(" | ")[0]
    feed = os.path.join(core.VERIF, "tools", "obsfeed.py")
    def one(t):
        ty, shape = t
        hcmd = [exe, ty]
        dcmd = [sys.executable, feed, RNG_OPS, exe, ty, "--", drv, *shape]
        return core.correspond(ctx, f"K-C03[{ty}]", cases, hcmd, dcmd, dsgen.classify, env=dsgen.ASAN_ENV, timeout=900 if ctx.quick else 3600)
    dsgen.run_types(one, dsgen.types(TYPES, 'VERIF_C03_TYPES'))

    def onew(t):
        ty, shape = t
        hcmd = [exew, ty]
        dcmd = [sys.executable, feed, RNG_OPS, exew, ty, "--", drv, *shape]
        return core.correspond(ctx, f"K-C03[{ty}]", wcases, hcmd, dcmd, classify_w, env=dsgen.ASAN_ENV, timeout=900 if ctx.quick else 3600)
    dsgen.run_types(onew, dsgen.types(TYPES_W, 'VERIF_C03_TYPES'))
    ctx.cov["evaluations"] += len(wcases) * len(TYPES_W)


def classify_w(ops, res):
    key, what = dsgen.classify(ops, res)
    if key.startswith("oracle:") and any(o.split()[0] == "shuffle" for o in ops):
        return ("F13:weighted-shuffle-corrupts-inputs:shuffle",
                f"BaseWeightedDataset::shuffle() separates/corrupts elements (swap of element proxies); ops {ops}")
    return key, what


def replay(ctx, rep):
    drv = ctx.driver("drv_c03")
    cmd = list(rep.get("harness_cmd", ["", "uint"]))
    ty = cmd[1] if len(cmd) > 1 else "uint"
    exe = build_w(ctx) if ty.startswith("w") else build_main(ctx)
    cmd[0] = exe
    shape = dict(TYPES + TYPES_W).get(ty, [])
    feed = os.path.join(core.VERIF, "tools", "obsfeed.py")
    dcmd = [sys.executable, feed, RNG_OPS, exe, ty, "--", drv, *shape]
    res = core.run_case(ctx, cmd, dcmd, rep["ops"])
    n = max(len(res.impl), len(res.model))
    for i in range(n):
        a = res.impl[i] if i < len(res.impl) else "<no output>"
        b = res.model[i] if i < len(res.model) else "<no output>"
        print(f"op   : {rep['ops'][i] if i < len(rep['ops']) else ''}\nimpl : {a}\nmodel: {b}")
    print("stderr:", res.stderr[-2000:])
    print("OK" if res.ok else "FAILS")
    return 0 if res.ok else 1
