"""K-C03-scale: the directed SCALE family of C03 (harness/c03s.cpp, oracle only).

The property quantifies over all element counts and all batch sizes; the random histories of the correspondence stay
below ~100 elements (the Lean driver prints every element).  No run can enumerate sizes, but one class of defects needs
nothing else than size: an index, position, size or batch count kept in a type narrower than std::size_t.  The smallest
such type a maintainer would plausibly choose is 16 bits, so every run (quick tier too) drives every access path and every
operation of the property over datasets with ONE BATCH of more than 2^16 elements and with MORE THAN 2^16 BATCHES of
size 1 (and exactly 2^16 - 1, 2^16, 2^16 + 1), elements = counters, against the flat-vector oracle of the harness.
Wider narrow types (32 bits) cannot be reached by a run; they are covered by the regenerated obligation
`index_fields_are_size_t` (translate/index_types.py)."""
import os, subprocess, time
from concurrent.futures import ThreadPoolExecutor
from vlib import core
from checks import dsgen

TYPES = ["uint", "real"]
K16 = 65536


def build(ctx):
    return ctx.harness("c03s", ["c03s.cpp"], repo_sources=["src/Core/Random.cpp"])


def big_n(r):
    return r.choice([K16 + 1, 70000, K16 + r.range(2, 6000)])


def seg_desc(hi, cnt, step):
    return f"{hi}:{cnt}:-{step}"


def up(n, lo, cnt):
    """lo, lo+1, … (cnt entries, cut at n)"""
    return f"{lo}:{max(0, min(cnt, n - lo))}:1"


def case_one_batch(ctx, r):
    """one batch of more than 2^16 elements (maximum batch size above the element count / `unlimited`)"""
    n = big_n(r); L = r.choice([1, 2, 5]); base = r.choice([0, 0, 1000])
    big = n + r.range(0, 50000)
    ops = ["reset", f"mk 0 {n} {big} {base} {L}"]
    ops += [f"iter 0 {n - 1} {r.below(5)}", f"iter 0 {r.below(5)} {K16 + r.below(n - K16)}", f"iter 0 {K16 - 1} {K16}",
            f"iter 0 {n} {K16}", f"iter 0 {K16 + 1} {K16 - 1}"]
    ops.append("view 0 0")
    cnt = (n - 1) // 7
    sub = min(12, n - (K16 - 6)) + cnt + 40
    ops.append(f"vsub 0 1 | {up(n, K16 - 6, 12)} {seg_desc(n - 1, cnt, 7)} ~{r.below(1000)}:40:{n}")
    ops.append(f"v2d 1 1 {r.choice([16, 100, 1])}")
    ops.append(f"v2d 0 2 {r.choice([1000, 256, 0, big])}")
    ops.append(f"vsub 1 1 | 0:{(sub + 2) // 3}:3")                       # a subset of the subset
    ops.append(f"vbat 0 3 | {up(n, K16, 4)} 0:3:1 {n - 1}")
    k = r.choice([n, n - 1, K16 + 1, r.range(K16 + 1, n)])
    ops.append(f"vrand 0 1 {k} {r.below(100000)}")
    ops.append(f"v2d 1 1 {r.choice([0, 4096, big])}")
    ops.append(f"vset 0 {K16 + r.below(n - K16)} {900000 + r.below(90)} {r.below(4)}")
    at = r.choice([K16, K16 + 1, n - 1, r.range(K16, n)])
    ops.append(f"splitat 0 3 {at}")
    ops.append("append 0 3")
    ops.append(f"xform 0 1 {r.range(1, 9)} {r.below(3)}")
    ops.append(f"xlab 1 2 {r.range(1, 3)}")
    ops.append(f"ovr 0 2 {r.below(L)}")
    ops.append(f"repart 0 | {n}*1")
    ops.append(f"splitb 0 0 {r.choice([K16, K16 + 1, n - 1])}")
    ops.append(f"subset 0 1 | 1 0 1")
    ops.append(f"reorder 0 | {seg_desc(n - 1, n, 1)}")                   # reverse
    ops.append(f"shuffle 0 {r.below(100000)}")
    ops.append(f"rbc 0 {big}")                                           # one batch per class, the largest above 2^16 for L = 1
    if L > 1:                                                            # one class only: binarySubProblem throws (modelled at small scale)
        ops.append(f"bin 0 1 0 {L - 1}")
    ops.append("copy 0 2"); ops.append("indep 2")
    ops.append(f"setel 2 {K16 + r.below(n - K16)} {910000 + r.below(90)} 1")
    ops.append(f"repart 0 | 1*{n}")                                      # now batch size 1
    ops.append(f"iter 0 {n - 1} {r.below(3)}")
    ctx.hist("scale_case", "one-batch")
    return ops


def case_unit_batches(ctx, r):
    """more than 2^16 batches (maximum batch size 1)"""
    n = big_n(r); L = r.choice([1, 2, 3]); base = r.choice([0, 500])
    ops = ["reset", f"mk 0 {n} 1 {base} {L}"]
    ops += [f"iter 0 {n - 1} {r.below(3)}", f"iter 0 {r.below(3)} {K16 + r.below(n - K16)}", f"iter 0 {K16 + 1} {K16 - 1}",
            f"iter 0 {K16} {n}"]
    ops.append("view 0 0")
    cnt = (n - 1) // 11
    ops.append(f"vsub 0 1 | {up(n, K16 - 4, 9)} {seg_desc(n - 1, cnt, 11)} ~{r.below(1000)}:30:{n}")
    ops.append(f"v2d 1 1 {r.choice([1, 7])}")
    ops.append(f"v2d 0 2 {r.choice([1, 0, 1000])}")
    ops.append(f"vbat 0 3 | {up(n, K16, 3)} {n - 1} 0")
    ops.append(f"vrand 0 1 {r.choice([n, K16 + 1, r.range(K16, n)])} {r.below(100000)}")
    ops.append(f"vset 0 {K16 + r.below(n - K16)} {920000 + r.below(90)} {r.below(4)}")
    ops.append(f"subset 0 1 | {seg_desc(min(K16 + 9, n - 1), 20, 1)} 0:5:1 ~{r.below(1000)}:30:{n}")
    ops.append(f"subset 0 2 | {seg_desc(n - 1, n, 1)}")                   # all batches, back to front
    ops.append(f"subc 0 1 2 | {up(n, K16 - 50, 100)} ~{r.below(1000)}:50:{n}")
    ops.append("view 1 2")                                                # a view over the complement (still > 2^16 batches)
    ops.append(f"v2d 1 3 {r.choice([0, 5000])}")
    ops.append(f"splice 0 3 {r.choice([K16, K16 + 1, n - 1])}")
    ops.append("append 0 3")
    ops.append(f"pushb 1 0 {r.choice([K16, n - 1, K16 + r.below(n - K16)])}")
    ops.append(f"splitat 0 3 {r.choice([K16, K16 + 1, r.range(K16, n)])}")
    ops.append("append 0 3")
    ops.append(f"xform 0 1 {r.range(1, 9)} {r.choice([0, 2])}")
    ops.append(f"xlab 0 2 {r.range(1, 3)}")
    ops.append(f"ovr 0 2 {r.below(L)}")
    if L > 1:
        ops.append(f"bin 0 1 0 {L - 1}")
    ops.append("copy 0 2"); ops.append("indep 2")
    ops.append(f"setel 2 {K16 + r.below(n - K16)} {930000 + r.below(90)} 2")
    h = r.choice([K16, K16 + 1, n - 1])
    ops.append(f"repart 0 | {h}*1 " + (f"{n - h}*1" if n > h else ""))   # two batches, the first at / above 2^16
    ops.append(f"iter 0 {n - 1} {r.below(3)}")
    ops.append("view 0 0")
    ops.append(f"repart 0 | {n}*1")
    ctx.hist("scale_case", "unit-batches")
    return ops


def case_sized_ctor(ctx, r):
    """Data(n, element, batchSize) filled through the element iterator, one batch / unit batches"""
    n = big_n(r)
    ops = ["reset", f"mk3 0 {n} {n + r.range(0, 1000)} 0", f"mk3 1 {n} 1 7", f"mk3 2 {n} {r.choice([256, 1000, K16])} 3",
           "view 0 0", "view 1 1", f"v2d 0 3 {r.choice([1, 256])}", f"iter 1 {n - 1} 0", f"iter 0 1 {n - 1}", f"iter 2 {K16 + 1} 3",
           f"append 2 0", f"append 2 1", f"iter 2 {2 * n + K16 + 1} {n - 3}", f"iter 2 5 {2 * n + K16}", "view 0 2",
           f"vsub 0 1 | {seg_desc(3 * n - 1, 300, 601)} {n + K16}:8:1 {2 * n + K16 - 8}:8:1", f"v2d 1 3 50"]
    ctx.hist("scale_case", "sized-constructor")
    return ops


def case_around(ctx, r):
    """element counts 2^16 - 1, 2^16, 2^16 + 1 in both extreme batch shapes"""
    ops = ["reset"]
    for n in (K16 - 1, K16, K16 + 1):
        ops += [f"mk 0 {n} {n} 0 2", f"mk 1 {n} 1 0 2", "view 0 0", "view 1 1", f"iter 0 {n} 0", f"iter 1 0 {n}",
                f"vsub 0 0 | {seg_desc(n - 1, 64, 1)} 0:3:1", f"vsub 1 1 | {seg_desc(n - 1, 64, 1)} 0:3:1", "v2d 0 2 33", "v2d 1 3 1",
                f"subset 1 2 | {seg_desc(n - 1, 40, 1)}", f"splitat 0 3 {n - 1}"]
    ctx.hist("scale_case", "around-2^16")
    return ops


def case_default_batches(ctx, r):
    """the everyday shape (batches of 256) at more than 2^16 elements: jumps over hundreds of batches, gathers, class-wise repartitioning"""
    n = big_n(r); L = r.choice([2, 3, 7])
    ops = ["reset", f"mk 0 {n} 0 0 {L}"]
    for _ in range(4):
        p, q = r.range(0, n), r.range(0, n)
        ops.append(f"iter 0 {p} {q}")
    ops += [f"iter 0 {n} 0", f"iter 0 0 {n}", f"iter 0 {min(K16 + 3, n)} 2"]
    stride = r.choice([3, 7, 11, 13, 257])
    while n % stride == 0:
        stride += 2
    # i -> (i * stride) mod n is a permutation when gcd(stride, n) = 1; otherwise a gather with repetitions (also defined)
    ops.append(f"copy 0 3")
    ops.append(f"reorder 0 | %{stride}:{n}:{n}")                          # a permutation with long jumps
    ops.append(f"reorder 0 | ~{r.below(1000)}:{n}:{n}")                   # a gather that is not a permutation
    ops.append(f"reorder 0 | {seg_desc(n - 1, n, 1)}")
    ops.append(f"shuffle 0 {r.below(100000)}")
    m = r.choice([256, 100, 100000])
    ops.append(f"rbc 0 {m}")
    ops.append(f"bin 0 1 0 {L - 1}")
    ops.append(f"bin 0 2 {L - 1} 0")
    ops.append("view 0 0")
    ops.append(f"vrand 0 1 {r.range(K16, n)} {r.below(100000)}")
    ops.append(f"v2d 1 3 {r.choice([0, 256, 1])}")
    ops.append(f"splitat 0 2 {r.range(K16, n)}")
    ops.append(f"subc 0 1 3 | ~{r.below(1000)}:60:{200 if m <= 256 else 1}")
    ctx.hist("scale_case", "default-batches")
    return ops


def gen_cases(ctx, r):
    corpus = dsgen.load_corpus("C03S")            # minimised past failures of the scale family (scale op language)
    ctx.cov["scale_corpus_cases"] = len(corpus)
    return corpus + [case_one_batch(ctx, r), case_unit_batches(ctx, r), case_sized_ctor(ctx, r), case_around(ctx, r),
            case_default_batches(ctx, r)]


def run_one(exe, ty, ops, timeout=600):
    e = dict(os.environ); e.update(dsgen.ASAN_ENV); e.setdefault("UBSAN_OPTIONS", "print_stacktrace=1")
    r = core.CaseResult()
    try:
        p = subprocess.run([exe, ty], input="\n".join(ops) + "\n", capture_output=True, text=True, errors="replace", env=e, timeout=timeout)
        r.impl = p.stdout.splitlines(); r.stderr = p.stderr[-2500:]; r.crash = p.returncode != 0
    except subprocess.TimeoutExpired:
        r.impl = []; r.stderr = "TIMEOUT"; r.crash = True
    r.oracle = [l for l in r.impl if "!oracle" in l]
    r.ok = not (r.crash or r.oracle)
    return r


def short(line, n=600):
    """state lines are long; keep the status and the oracle messages"""
    if "!oracle" in line:
        head, tail = line.split(" !oracle", 1)
        return head[:200] + " … !oracle" + tail[:n]
    return line[:300]


def start(ctx, exe, r):
    """generate the scale cases (main thread: rng, coverage) and start their runs in the background; `finish` reports"""
    cases = gen_cases(ctx, r)
    ctx.cov["scale_cases"] = len(cases)
    ctx.cov["scale_ops"] = sum(len(c) for c in cases)
    for c in cases:
        for o in c:
            ctx.hist("scale_op_mix", o.split()[0])
    want = os.environ.get("VERIF_C03_TYPES")
    tys = [t for t in TYPES if not want or t in want.split(",")] or TYPES[:1]
    jobs = [(ty, c) for c in cases for ty in tys]
    ex = ThreadPoolExecutor(max_workers=3)
    futs = [ex.submit(run_one, exe, ty, c) for ty, c in jobs]
    return {"exe": exe, "cases": cases, "jobs": jobs, "futs": futs, "ex": ex, "t0": time.time()}


def finish(ctx, h):
    """collect the runs; shrink and report failures with a concrete input"""
    exe, cases, jobs = h["exe"], h["cases"], h["jobs"]
    results = [f.result() for f in h["futs"]]
    h["ex"].shutdown()
    ctx.count("scale_cases_run", len(jobs))
    ctx.cov["evaluations"] = ctx.cov.get("evaluations", 0) + len(jobs)
    undefined = sum(1 for res in results for l in res.impl if l.startswith("undefined") or l.startswith("bad-op"))
    ctx.cov["scale_ops_rejected_by_harness"] = undefined
    failing = [(j, res) for j, res in zip(jobs, results) if not res.ok]
    if undefined:
        ctx.log(f"K-C03-scale: WARNING: {undefined} generated ops were rejected by the harness (generator bug)")
    ctx.log(f"K-C03-scale: {len(jobs)} runs ({len(cases)} cases x element types), {len(failing)} failing, {undefined} ops rejected "
            f"({time.time() - h['t0']:.1f}s since start)")
    seen, found = set(), 0
    for (ty, c), res in failing:
        key0 = tuple(dsgen.classify(c, res)[0].split(":")[:2])
        if key0 in seen or len(seen) >= 3:
            continue
        seen.add(key0)
        def fails(ops):
            x = run_one(exe, ty, ops, timeout=120)
            return (not x.ok) and tuple(dsgen.classify(ops, x)[0].split(":")[:2]) == key0
        small = core.shrink_ops(c, fails, keep_prefix=1, max_rounds=40)
        rs = run_one(exe, ty, small, timeout=120)
        if rs.ok:
            small, rs = c, res
        key, what = dsgen.classify(small, rs)
        key = "scale:" + key
        found += 1
        ctx.violation(key, {"scale": True, "harness_cmd": [exe, ty], "ops": small, "impl_output": [short(l) for l in rs.impl[-6:]],
                            "oracle": [short(l) for l in rs.oracle[:3]], "crash": rs.crash, "stderr_tail": rs.stderr[-1500:],
                            "env": dsgen.ASAN_ENV}, found_input=True,
                      what="scale family (datasets with a batch of more than 2^16 elements / more than 2^16 batches): " + what[:600])
    if found:
        # a narrowed index type breaks the regenerated obligations as well; the concrete input above is their failing input
        for b in ctx.breaks:
            if "IndexTypes" in b["name"] + b["detail"] or "C03Index" in b["name"] + b["detail"]:
                b["resolved"] = True
    return found


def run(ctx, exe, r):
    return finish(ctx, start(ctx, exe, r))


def replay(ctx, rep):
    exe = build(ctx)
    ty = rep.get("harness_cmd", ["", "uint"])[1]
    res = run_one(exe, ty, rep["ops"])
    for o, l in zip(rep["ops"], res.impl):
        print(f"op   : {o}\nimpl : {short(l, 1500)}")
    print("stderr:", res.stderr[-2000:])
    print("OK" if res.ok else "FAILS")
    return 0 if res.ok else 1
