"""C16 — multi-class and linear SVM solvers: theorems (Props/C16.lean) + T2
(translate/mcsvm_tables.py: nu/M tables regenerated from CSvmTrainer.h) +
correspondence K-C16 (table dumps, decomposition-class op sequences, trainer-level
configuration sweeps)."""
import os, re
from vlib import core

TRUST = ("Lean 4.33 kernel; axioms at most propext/Classical.choice/Quot.sound (audited per run); ")
MANIFEST = dict(
  text=("T2: the nu/M coefficient tables of CSvmTrainer::setupMcParameters{WWCS,ATMATS,ADMLLW,MMR} are regenerated as Lean "
        "functions of the class count on every run and compared entry-wise (bit patterns / exact rationals) with the real QpSparseArrays for c=2..8."),
  note=TRUST + "work in progress",
  technique="Lean 4 proof on source-regenerated tables and a hand-written solver model + differential correspondence with the C++ (ASan/UBSan)",
  design="§6 C16")
FINISH = dict(level="proof", rule="table dumps for every generated table and c=2..8")
LAKE_TARGETS = ["SharkVerif.Props.C16", "drv_c16"]
SRC = ["src/Core/Random.cpp"]
TABLES = ["WWCS_nu", "WWCS_M", "ATMATS_nu", "ATMATS_M", "ADMLLW_nu", "ADMLLW_M", "MMR_nu", "MMR_M"]


def translate(ctx):
    return ctx.translate("mcsvm_tables.py")


def hname(base):
    """separate cache entries per repo tree (scratch worktrees via VERIF_REPO), so that switching trees does not thrash"""
    return base if core.REPO == "/repo" else f"{base}-{core.sha(core.REPO)[:6]}"


def build(ctx):
    return ctx.harness(hname("c16"), ["c16.cpp", "c16s.cpp"], repo_sources=SRC)


def classify(ops, res):
    kinds = sorted({o.split()[0] for o in ops})
    if res.crash:
        m = re.search(r"ERROR: AddressSanitizer: (\S+)|runtime error: ([^\n]*)", res.stderr)
        tag = (m.group(1) or m.group(2)) if m else "crash"
        return f"crash:{tag}:{'+'.join(kinds)}", f"harness aborted ({tag}) on ops {ops[:6]}"
    if res.oracle:
        m = re.search(r"!oracle (\S+)", res.oracle[0])
        return f"oracle:{m.group(1)}:{'+'.join(kinds)}", f"property oracle failed ({m.group(1)}) on ops {ops[:6]}"
    return f"mismatch:{'+'.join(kinds)}", f"model and implementation disagree at line {res.diff_at} of ops {ops[:6]}"


def load_corpus():
    d = os.path.join(core.VERIF, "corpus", "C16")
    out = []
    if os.path.isdir(d):
        for fn in sorted(os.listdir(d)):
            ops = [l.strip() for l in open(os.path.join(d, fn)) if l.strip() and not l.startswith("#")]
            if ops: out.append(ops)
    return out


def table_cases(ctx):
    cases = []
    for c in range(2, 9):
        for t in TABLES:
            cases.append([f"tables {t} {c}"])
            if c in (2, 4, 8):
                cases.append([f"tablesq {t} {c}"])
    return cases


# ---------------------------------------------------------------------------
# decomposition-class op sequences (harness/c16s.cpp  vs  Model/McSmo.lean)
# ---------------------------------------------------------------------------
FAMILY_P = {"WWCS": lambda c: c - 1, "ATMATS": lambda c: c, "ADMLLW": lambda c: c - 1, "MMR": lambda c: 1}


def gen_box_case(r, maxlen, ctx=None):
    fam = r.choice(["WWCS", "WWCS", "ATMATS", "ATMATS", "ADMLLW", "MMR"])
    c = r.choice([2, 2, 3, 3, 4, 4, 5])
    P = FAMILY_P[fam](c)
    n = r.range(max(2, 1), 6)
    labels = [r.below(c) for _ in range(n)]
    labels[r.below(n)] = c - 1                      # numberOfClasses(target) must be c
    cnum, cshift = r.choice([(1, 0), (1, 0), (2, 0), (1, 1), (4, 0), (3, 0), (1, 2), (5, 1)])
    # linear part: all ones (what the trainer passes), reinforced-style, or small integers
    lk = r.below(10)
    lin = []
    for i in range(n):
        for p in range(P):
            if lk < 6: lin.append(1)
            elif lk < 8: lin.append(c - 1 if (fam == "ATMATS" and p == labels[i]) else 1)
            else: lin.append(r.range(-2, 3))
    # symmetric PSD kernel matrix K = G G^T (integer), optionally scaled by 2^-kshift;
    # diagonal power-of-two variants keep many steps exact
    kk = r.below(10)
    if kk < 3:
        K = [[(1 << r.below(3)) if i == j else 0 for j in range(n)] for i in range(n)]
        for i in range(n): K[i][i] = K[0][0]
        kshift = r.below(3)
    else:
        rk = r.range(1, 3)
        G = [[r.range(-2, 2) for _ in range(rk)] for _ in range(n)]
        K = [[sum(G[i][t] * G[j][t] for t in range(rk)) for j in range(n)] for i in range(n)]
        if r.chance(1, 2):
            for i in range(n): K[i][i] += 1        # strictly positive definite
        kshift = r.below(3)
    shr = 0 if r.chance(1, 8) else 1
    ops = ["box %s %d %d %d %d %d %d %s" % (fam, c, n, cnum, cshift, shr, kshift,
           " ".join(map(str, labels + lin + [K[i][j] for i in range(n) for j in range(n)])))]
    nv = n * P
    for _ in range(r.range(1, maxlen)):
        x = r.below(100)
        hi = max(1, nv if r.chance(1, 2) else (nv + 1) // 2)
        if x < 50:
            v = r.below(hi)
            w = v if r.chance(2, 5) else r.below(hi)
            ops.append(f"smo {v} {w}")
        elif x < 60:
            ops.append(f"deactvar {r.below(hi)}")
        elif x < 66:
            ops.append(f"killex {r.below(n)}")
        elif x < 72:
            ops.append(f"deactex {r.below(n)}")
        elif x < 82:
            num, sh = r.choice([(1, 10), (1, 3), (1, 0), (8, 0), (1, 20)])
            ops.append(f"shrink {num} {sh}")
        elif x < 88:
            ops.append("unshrink")
        elif x < 91:
            ops.append("adddelta " + " ".join(str(r.range(-1, 1)) for _ in range(nv)))
        elif x < 96:
            ops.append(f"label {r.below(n)}")
        else:
            ops.append("select1")
    if ctx is not None:
        ctx.hist("box_family", fam); ctx.hist("box_classes", c); ctx.hist("box_examples", n)
    return ops


def split_line(l):
    """-> (main, side-channel dict, oracle tags)"""
    main, _, orc = l.partition(" !oracle")
    body, *side = main.split(" #")
    d = {}
    for t in side:
        k, _, v = t.strip().partition("=")
        d[k] = v
    return body, d, (("!oracle" + orc) if orc else "")


class BoxResult:
    def __init__(self):
        self.ok, self.crash, self.oracle, self.diff_at, self.exact_diff = True, False, [], None, None
        self.impl, self.model, self.stderr = [], [], ""
        self.exact_lines = 0
        self.lines = 0


def run_box(ctx, hcmd, dcmd, ops, timeout=300):
    r = BoxResult()
    text = "\n".join(ops) + "\n"
    r.impl, r.model, rc, r.stderr = ctx.run_pair(hcmd, dcmd, text, timeout=timeout, env={"OMP_NUM_THREADS": "1"})
    if rc != 0:
        r.crash, r.ok = True, False
    n = max(len(r.impl), len(r.model))
    for k in range(n):
        a = r.impl[k] if k < len(r.impl) else "<missing>"
        b = r.model[k] if k < len(r.model) else "<missing>"
        ma, sa, oa = split_line(a)
        mb, sb, _ = split_line(b)
        if oa:
            r.oracle.append(a); r.ok = False
        if ma != mb and r.diff_at is None:
            r.diff_at, r.ok = k, False
        r.lines += 1
        if sa.get("x") == "1":
            r.exact_lines += 1
            # all floating-point operations so far were exact: the Rat model must agree exactly
            if sb.get("rat") != "ok" and r.exact_diff is None:
                r.exact_diff, r.ok = k, False
    return r


def classify_box(ops, res):
    kinds = sorted({o.split()[0] for o in ops[1:]})
    fam = ops[0].split()[1] if ops and ops[0].startswith("box") else "?"
    if res.oracle:
        tags = sorted({m for l in res.oracle for m in re.findall(r"!oracle (\S+)", l)})
        if tags == ["label-after-shrink"]:
            return "F-C16-1:label-after-shrink", ("QpMcBoxDecomp::label(i) returns the label of the example currently at position i, "
                                                   f"not of dataset example i, after deactivateExample; ops {ops}")
        return f"oracle:{'+'.join(tags)}:{fam}", f"invariant oracle failed ({tags}) on ops {ops}"
    if res.crash:
        m = re.search(r"ERROR: AddressSanitizer: (\S+)|runtime error: ([^\n]*)", res.stderr)
        tag = (m.group(1) or m.group(2)) if m else "crash"
        return f"crash:{tag}:{fam}", f"harness aborted ({tag}) on ops {ops}"
    if res.diff_at is not None:
        return f"mismatch:{fam}:{'+'.join(kinds)}", f"model and implementation disagree at line {res.diff_at} of ops {ops}"
    return f"exact-mismatch:{fam}:{'+'.join(kinds)}", f"exact (FE_INEXACT clear) run differs from the Rat model at line {res.exact_diff} of ops {ops}"


def correspond_box(ctx, name, cases, hcmd, dcmd, max_report=4):
    import time
    from concurrent.futures import ThreadPoolExecutor
    t = time.time()
    all_ops = [l for c in cases for l in c]
    big = run_box(ctx, hcmd, dcmd, all_ops, timeout=900)
    ctx.count("traces_validated_against_impl", len(cases))
    ctx.count("ops_compared", len(all_ops))
    ctx.count("box_lines_exact_mode", big.exact_lines)
    ctx.count("box_lines_bit_mode", big.lines - big.exact_lines)
    if big.ok:
        ctx.log(f"{name}: {len(cases)} cases / {len(all_ops)} ops agree; exact-mode lines {big.exact_lines}, bit-mode lines {big.lines - big.exact_lines} ({time.time()-t:.1f}s)")
        return 0
    with ThreadPoolExecutor(max_workers=3) as ex:
        results = list(ex.map(lambda c: run_box(ctx, hcmd, dcmd, c, timeout=120), cases))
    failing = [(c, r) for c, r in zip(cases, results) if not r.ok] or [(all_ops, big)]
    ctx.log(f"{name}: {len(failing)} of {len(cases)} cases FAIL")
    seen = set()
    for c, r in failing:
        key0, _ = classify_box(c, r)
        def fails(ops):
            rr = run_box(ctx, hcmd, dcmd, ops, timeout=60)
            return (not rr.ok) and classify_box(ops, rr)[0] == key0
        small = core.shrink_ops(c, fails, keep_prefix=1) if len(c) > 2 else c
        rs = run_box(ctx, hcmd, dcmd, small, timeout=60)
        if rs.ok: small, rs = c, r
        key, what = classify_box(small, rs)
        if key in seen: continue
        seen.add(key)
        found = bool(rs.oracle) or rs.crash
        b = ctx.broken("correspondence", f"{name}:{key}", what); b["resolved"] = True
        replay = {"kind": "box", "harness_cmd": hcmd, "driver_cmd": dcmd, "ops": small,
                  "impl_output": rs.impl[-6:], "model_output": rs.model[-6:], "first_diff_line": rs.diff_at,
                  "exact_diff_line": rs.exact_diff, "oracle": rs.oracle[:5], "crash": rs.crash, "stderr_tail": rs.stderr[-1500:]}
        ctx.violation(key, replay, found_input=found, what=what)
        if len(seen) >= max_report: break
    return len(failing)


def run(ctx):
    ctx.trusted += ["translator translate/mcsvm_tables.py (C++ subset parser; every generated table is also compared with the real arrays)",
                    "correspondence harnesses harness/c16*.cpp + generator checks/c16.py",
                    "hand-written model Model/McSmo.lean (QpMcBoxDecomp.h, AnalyticProblems.h are modelled, not translated)"]
    translate(ctx)
    ctx.prove(["SharkVerif.Props.C16"])
    if not ctx.quick:
        ctx.leanchecker(["SharkVerif.Props.C16"])
    exe = build(ctx)
    drv = ctx.driver("drv_c16")
    if not exe or not drv:
        return
    corpus = load_corpus()
    ctx.cov["corpus_cases"] = len(corpus)
    cases = table_cases(ctx)
    ctx.cov["evaluations"] = len(cases)
    ctx.cov["distinct_nontrivial"] = len(cases)
    core.correspond(ctx, "K-C16-tables", cases, [exe], [drv], classify, keep_prefix=0)
    # decomposition-class op sequences
    r = ctx.rng.fork("c16-box")
    nbox, maxlen = (150, 40) if ctx.quick else (1500, 150)
    bcases = [c for c in corpus if c[0].startswith("box")]
    bcases += [gen_box_case(r, maxlen, ctx) for _ in range(nbox)]
    for c in bcases:
        for o in c: ctx.hist("op_mix", o.split()[0])
        ctx.hist("history_length", min(len(c) // 20 * 20, 400))
    ctx.cov["evaluations"] += len(bcases)
    ctx.cov["distinct_nontrivial"] += len({"\n".join(c) for c in bcases if len(c) > 3})
    ctx.sample({"box_ops": bcases[len(bcases) // 2][:8]})
    correspond_box(ctx, "K-C16-box", bcases, [exe], [drv])


def replay(ctx, rep):
    exe = build(ctx); drv = ctx.driver("drv_c16")
    res = core.run_case(ctx, rep.get("harness_cmd", [exe]), [drv], rep["ops"])
    print("\n".join(f"impl : {a}\nmodel: {b}" for a, b in zip(res.impl, res.model)))
    print("stderr:", res.stderr[-2000:])
    print("OK" if res.ok else "FAILS")
    return 0 if res.ok else 1
