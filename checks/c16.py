"""C16 — multi-class and linear SVM solvers: theorems (Props/C16.lean) + T2
(translate/mcsvm_tables.py: nu/M tables regenerated from CSvmTrainer.h) +
correspondence K-C16 (table dumps, decomposition-class op sequences, trainer-level
configuration sweeps)."""
import os, re
from vlib import core

TRUST = ("Lean 4.33 kernel; axioms at most propext/Classical.choice/Quot.sound (audited per run); ")
MANIFEST = dict(
  text=("T2: the nu/M coefficient tables of CSvmTrainer::setupMcParameters{WWCS,ATMATS,ADMLLW,MMR} are regenerated as Lean "
        "functions of the class count on every run and compared entry-wise (bit patterns / exact rationals) with the real QpSparseArrays for c=2..8."),
  note=TRUST + "work in progress",
  technique="Lean 4 proof on source-regenerated tables and a hand-written solver model + differential correspondence with the C++ (ASan/UBSan)",
  design="§6 C16")
FINISH = dict(level="proof", rule="table dumps for every generated table and c=2..8")
LAKE_TARGETS = ["SharkVerif.Gen.McTables", "drv_c16"]
SRC = ["src/Core/Random.cpp"]
TABLES = ["WWCS_nu", "WWCS_M", "ATMATS_nu", "ATMATS_M", "ADMLLW_nu", "ADMLLW_M", "MMR_nu", "MMR_M"]


def translate(ctx):
    return ctx.translate("mcsvm_tables.py")


def build(ctx):
    return ctx.harness("c16", ["c16.cpp"], repo_sources=SRC)


def classify(ops, res):
    kinds = sorted({o.split()[0] for o in ops})
    if res.crash:
        m = re.search(r"ERROR: AddressSanitizer: (\S+)|runtime error: ([^\n]*)", res.stderr)
        tag = (m.group(1) or m.group(2)) if m else "crash"
        return f"crash:{tag}:{'+'.join(kinds)}", f"harness aborted ({tag}) on ops {ops[:6]}"
    if res.oracle:
        m = re.search(r"!oracle (\S+)", res.oracle[0])
        return f"oracle:{m.group(1)}:{'+'.join(kinds)}", f"property oracle failed ({m.group(1)}) on ops {ops[:6]}"
    return f"mismatch:{'+'.join(kinds)}", f"model and implementation disagree at line {res.diff_at} of ops {ops[:6]}"


def load_corpus():
    d = os.path.join(core.VERIF, "corpus", "C16")
    out = []
    if os.path.isdir(d):
        for fn in sorted(os.listdir(d)):
            ops = [l.strip() for l in open(os.path.join(d, fn)) if l.strip() and not l.startswith("#")]
            if ops: out.append(ops)
    return out


def table_cases(ctx):
    cases = []
    for c in range(2, 9):
        for t in TABLES:
            cases.append([f"tables {t} {c}"])
            if c in (2, 4, 8):
                cases.append([f"tablesq {t} {c}"])
    return cases


def run(ctx):
    ctx.trusted += ["translator translate/mcsvm_tables.py (C++ subset parser; every generated table is also compared with the real arrays)",
                    "correspondence harnesses harness/c16*.cpp + generator checks/c16.py"]
    translate(ctx)
    ctx.prove(["SharkVerif.Gen.McTables"])
    exe = build(ctx)
    drv = ctx.driver("drv_c16")
    if not exe or not drv:
        return
    cases = table_cases(ctx)
    ctx.cov["evaluations"] = len(cases)
    ctx.cov["distinct_nontrivial"] = len(cases)
    core.correspond(ctx, "K-C16-tables", cases, [exe], [drv], classify, keep_prefix=0)


def replay(ctx, rep):
    exe = build(ctx); drv = ctx.driver("drv_c16")
    res = core.run_case(ctx, rep.get("harness_cmd", [exe]), [drv], rep["ops"])
    print("\n".join(f"impl : {a}\nmodel: {b}" for a, b in zip(res.impl, res.model)))
    print("stderr:", res.stderr[-2000:])
    print("OK" if res.ok else "FAILS")
    return 0 if res.ok else 1
