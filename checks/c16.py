"""C16 — multi-class and linear SVM solvers: theorems (Props/C16.lean) + T2
(translate/mcsvm_tables.py: nu/M tables regenerated from CSvmTrainer.h) +
correspondence K-C16 (table dumps, decomposition-class op sequences, trainer-level
configuration sweeps)."""
import os, re
from vlib import core

TRUST = ("Lean 4.33 kernel; axioms at most propext/Classical.choice/Quot.sound (audited per run); ")
MANIFEST = dict(
  text=("T2: the nu/M coefficient tables of CSvmTrainer::setupMcParameters{WWCS,ATMATS,ADMLLW,MMR} are regenerated as Lean "
        "functions of the class count on every run and compared entry-wise (bit patterns / exact rationals) with the real QpSparseArrays for c=2..8."),
  note=TRUST + "work in progress",
  technique="Lean 4 proof on source-regenerated tables and a hand-written solver model + differential correspondence with the C++ (ASan/UBSan)",
  design="§6 C16")
FINISH = dict(level="proof", rule="table dumps for every generated table and c=2..8")
LAKE_TARGETS = ["SharkVerif.Props.C16", "drv_c16"]
SRC = ["src/Core/Random.cpp"]
TABLES = ["WWCS_nu", "WWCS_M", "ATMATS_nu", "ATMATS_M", "ADMLLW_nu", "ADMLLW_M", "MMR_nu", "MMR_M"]


def translate(ctx):
    return ctx.translate("mcsvm_tables.py")


def hname(base):
    """separate cache entries per repo tree (scratch worktrees via VERIF_REPO), so that switching trees does not thrash"""
    return base if core.REPO == "/repo" else f"{base}-{core.sha(core.REPO)[:6]}"


def build(ctx):
    return ctx.harness(hname("c16"), ["c16.cpp", "c16s.cpp"], repo_sources=SRC)


def classify(ops, res):
    kinds = sorted({o.split()[0] for o in ops})
    if res.crash:
        m = re.search(r"ERROR: AddressSanitizer: (\S+)|runtime error: ([^\n]*)", res.stderr)
        tag = (m.group(1) or m.group(2)) if m else "crash"
        return f"crash:{tag}:{'+'.join(kinds)}", f"harness aborted ({tag}) on ops {ops[:6]}"
    if res.oracle:
        m = re.search(r"!oracle (\S+)", res.oracle[0])
        return f"oracle:{m.group(1)}:{'+'.join(kinds)}", f"property oracle failed ({m.group(1)}) on ops {ops[:6]}"
    return f"mismatch:{'+'.join(kinds)}", f"model and implementation disagree at line {res.diff_at} of ops {ops[:6]}"


def load_corpus():
    d = os.path.join(core.VERIF, "corpus", "C16")
    out = []
    if os.path.isdir(d):
        for fn in sorted(os.listdir(d)):
            ops = [l.strip() for l in open(os.path.join(d, fn)) if l.strip() and not l.startswith("#")]
            if ops: out.append(ops)
    return out


def table_cases(ctx):
    cases = []
    for c in range(2, 9):
        for t in TABLES:
            cases.append([f"tables {t} {c}"])
            if c in (2, 4, 8):
                cases.append([f"tablesq {t} {c}"])
    return cases


# ---------------------------------------------------------------------------
# decomposition-class op sequences (harness/c16s.cpp  vs  Model/McSmo.lean)
# ---------------------------------------------------------------------------
FAMILY_P = {"WWCS": lambda c: c - 1, "ATMATS": lambda c: c, "ADMLLW": lambda c: c - 1, "MMR": lambda c: 1}


def gen_box_case(r, maxlen, ctx=None):
    fam = r.choice(["WWCS", "WWCS", "ATMATS", "ATMATS", "ADMLLW", "MMR"])
    c = r.choice([2, 2, 3, 3, 4, 4, 5])
    P = FAMILY_P[fam](c)
    n = r.range(max(2, 1), 6)
    labels = [r.below(c) for _ in range(n)]
    labels[r.below(n)] = c - 1                      # numberOfClasses(target) must be c
    cnum, cshift = r.choice([(1, 0), (1, 0), (2, 0), (1, 1), (4, 0), (3, 0), (1, 2), (5, 1)])
    # linear part: all ones (what the trainer passes), reinforced-style, or small integers
    lk = r.below(10)
    lin = []
    for i in range(n):
        for p in range(P):
            if lk < 6: lin.append(1)
            elif lk < 8: lin.append(c - 1 if (fam == "ATMATS" and p == labels[i]) else 1)
            else: lin.append(r.range(-2, 3))
    # symmetric PSD kernel matrix K = G G^T (integer), optionally scaled by 2^-kshift;
    # diagonal power-of-two variants keep many steps exact
    kk = r.below(10)
    if kk < 3:
        K = [[(1 << r.below(3)) if i == j else 0 for j in range(n)] for i in range(n)]
        for i in range(n): K[i][i] = K[0][0]
        kshift = r.below(3)
    else:
        rk = r.range(1, 3)
        G = [[r.range(-2, 2) for _ in range(rk)] for _ in range(n)]
        K = [[sum(G[i][t] * G[j][t] for t in range(rk)) for j in range(n)] for i in range(n)]
        if r.chance(1, 2):
            for i in range(n): K[i][i] += 1        # strictly positive definite
        kshift = r.below(3)
    shr = 0 if r.chance(1, 8) else 1
    ops = ["box %s %d %d %d %d %d %d %s" % (fam, c, n, cnum, cshift, shr, kshift,
           " ".join(map(str, labels + lin + [K[i][j] for i in range(n) for j in range(n)])))]
    nv = n * P
    for _ in range(r.range(1, maxlen)):
        x = r.below(100)
        hi = max(1, nv if r.chance(1, 2) else (nv + 1) // 2)
        if x < 50:
            v = r.below(hi)
            w = v if r.chance(2, 5) else r.below(hi)
            ops.append(f"smo {v} {w}")
        elif x < 60:
            ops.append(f"deactvar {r.below(hi)}")
        elif x < 66:
            ops.append(f"killex {r.below(n)}")
        elif x < 72:
            ops.append(f"deactex {r.below(n)}")
        elif x < 82:
            num, sh = r.choice([(1, 10), (1, 3), (1, 0), (8, 0), (1, 20)])
            ops.append(f"shrink {num} {sh}")
        elif x < 88:
            ops.append("unshrink")
        elif x < 91:
            ops.append("adddelta " + " ".join(str(r.range(-1, 1)) for _ in range(nv)))
        elif x < 96:
            ops.append(f"label {r.below(n)}")
        else:
            ops.append("select1")
    if ctx is not None:
        ctx.hist("box_family", fam); ctx.hist("box_classes", c); ctx.hist("box_examples", n)
    return ops


def split_line(l):
    """-> (main, side-channel dict, oracle tags)"""
    main, _, orc = l.partition(" !oracle")
    body, *side = main.split(" #")
    d = {}
    for t in side:
        k, _, v = t.strip().partition("=")
        d[k] = v
    return body, d, (("!oracle" + orc) if orc else "")


class BoxResult:
    def __init__(self):
        self.ok, self.crash, self.oracle, self.diff_at, self.exact_diff = True, False, [], None, None
        self.impl, self.model, self.stderr = [], [], ""
        self.exact_lines = 0
        self.lines = 0


def run_box(ctx, hcmd, dcmd, ops, timeout=300):
    r = BoxResult()
    text = "\n".join(ops) + "\n"
    r.impl, r.model, rc, r.stderr = ctx.run_pair(hcmd, dcmd, text, timeout=timeout, env={"OMP_NUM_THREADS": "1"})
    if rc != 0:
        r.crash, r.ok = True, False
    n = max(len(r.impl), len(r.model))
    for k in range(n):
        a = r.impl[k] if k < len(r.impl) else "<missing>"
        b = r.model[k] if k < len(r.model) else "<missing>"
        ma, sa, oa = split_line(a)
        mb, sb, _ = split_line(b)
        if oa:
            r.oracle.append(a); r.ok = False
        if ma != mb and r.diff_at is None:
            r.diff_at, r.ok = k, False
        r.lines += 1
        if sa.get("x") == "1":
            r.exact_lines += 1
            # all floating-point operations so far were exact: the Rat model must agree exactly
            if sb.get("rat") != "ok" and r.exact_diff is None:
                r.exact_diff, r.ok = k, False
    return r


def classify_box(ops, res):
    kinds = sorted({o.split()[0] for o in ops[1:]})
    fam = ops[0].split()[1] if ops and ops[0].startswith("box") else "?"
    if res.oracle:
        tags = sorted({m for l in res.oracle for m in re.findall(r"!oracle (\S+)", l)})
        if tags == ["label-after-shrink"]:
            return "F-C16-1:label-after-shrink", ("QpMcBoxDecomp::label(i) returns the label of the example currently at position i, "
                                                   f"not of dataset example i, after deactivateExample; ops {ops}")
        return f"oracle:{'+'.join(tags)}:{fam}", f"invariant oracle failed ({tags}) on ops {ops}"
    if res.crash:
        m = re.search(r"ERROR: AddressSanitizer: (\S+)|runtime error: ([^\n]*)", res.stderr)
        tag = (m.group(1) or m.group(2)) if m else "crash"
        return f"crash:{tag}:{fam}", f"harness aborted ({tag}) on ops {ops}"
    if res.diff_at is not None:
        return f"mismatch:{fam}:{'+'.join(kinds)}", f"model and implementation disagree at line {res.diff_at} of ops {ops}"
    return f"exact-mismatch:{fam}:{'+'.join(kinds)}", f"exact (FE_INEXACT clear) run differs from the Rat model at line {res.exact_diff} of ops {ops}"


def correspond_box(ctx, name, cases, hcmd, dcmd, max_report=4):
    import time
    from concurrent.futures import ThreadPoolExecutor
    t = time.time()
    all_ops = [l for c in cases for l in c]
    big = run_box(ctx, hcmd, dcmd, all_ops, timeout=900)
    ctx.count("traces_validated_against_impl", len(cases))
    ctx.count("ops_compared", len(all_ops))
    ctx.count("box_lines_exact_mode", big.exact_lines)
    ctx.count("box_lines_bit_mode", big.lines - big.exact_lines)
    if big.ok:
        ctx.log(f"{name}: {len(cases)} cases / {len(all_ops)} ops agree; exact-mode lines {big.exact_lines}, bit-mode lines {big.lines - big.exact_lines} ({time.time()-t:.1f}s)")
        return 0
    with ThreadPoolExecutor(max_workers=3) as ex:
        results = list(ex.map(lambda c: run_box(ctx, hcmd, dcmd, c, timeout=120), cases))
    failing = [(c, r) for c, r in zip(cases, results) if not r.ok] or [(all_ops, big)]
    ctx.log(f"{name}: {len(failing)} of {len(cases)} cases FAIL")
    seen = set()
    for c, r in failing:
        key0, _ = classify_box(c, r)
        def fails(ops):
            rr = run_box(ctx, hcmd, dcmd, ops, timeout=60)
            return (not rr.ok) and classify_box(ops, rr)[0] == key0
        small = core.shrink_ops(c, fails, keep_prefix=1) if len(c) > 2 else c
        rs = run_box(ctx, hcmd, dcmd, small, timeout=60)
        if rs.ok: small, rs = c, r
        key, what = classify_box(small, rs)
        if key in seen: continue
        seen.add(key)
        found = bool(rs.oracle) or rs.crash
        b = ctx.broken("correspondence", f"{name}:{key}", what); b["resolved"] = True
        replay = {"kind": "box", "harness_cmd": hcmd, "driver_cmd": dcmd, "ops": small,
                  "impl_output": rs.impl[-6:], "model_output": rs.model[-6:], "first_diff_line": rs.diff_at,
                  "exact_diff_line": rs.exact_diff, "oracle": rs.oracle[:5], "crash": rs.crash, "stderr_tail": rs.stderr[-1500:]}
        ctx.violation(key, replay, found_input=found, what=what)
        if len(seen) >= max_report: break
    return len(failing)


# ---------------------------------------------------------------------------
# trainer level: configuration sweeps (oracle only; no Lean model of the whole trainer)
# ---------------------------------------------------------------------------
import math, subprocess
FORMS = ["WW", "CS", "LLW", "ATM", "ATS", "ADM", "MMR", "RS", "OVA"]
FORM_P = {"WW": lambda c: c - 1, "CS": lambda c: c - 1, "LLW": lambda c: c - 1, "ADM": lambda c: c - 1,
          "ATM": lambda c: c, "ATS": lambda c: c, "RS": lambda c: c, "MMR": lambda c: 1, "OVA": lambda c: 1}
# formulations whose M is the Gram matrix of the CENTRED nu (M_is_gram_of_nu): the dual objective controls the
# decision values only up to a common function added to all classes, so centred values are compared
CENTRED = {"LLW", "ATM", "ATS", "ADM", "MMR", "RS"}


def gen_dataset(r, quick):
    k = r.choice([2, 3, 3, 4, 4, 5])
    n = r.range(max(k + 1, 5), 10 if quick else 16)
    d = r.choice([1, 2, 2, 3])
    xs = [r.range(5, 11) for _ in range(n * d)]          # coordinate = value - 8 in [-3, 3]
    ys = list(range(k)) + [r.below(k) for _ in range(n - k)]
    # shuffle labels
    for i in range(n - 1, 0, -1):
        j = r.below(i + 1); ys[i], ys[j] = ys[j], ys[i]
    m = 4
    probes = [r.range(4, 12) for _ in range(m * d)]
    return dict(n=n, d=d, k=k, m=m, xs=xs, ys=ys, probes=probes,
                ops=["data %d %d %d %s" % (n, d, k, " ".join(map(str, xs + ys))),
                     "probes %d %s" % (m, " ".join(map(str, probes)))])


def kxx(ds, pts, j, kern):
    d = ds["d"]
    v = [pts[j * d + t] - 8 for t in range(d)]
    sq = sum(a * a for a in v)
    return sq if kern == "lin" else ((sq + 1) ** 2 if kern == "poly" else 1.0)


def parse_train(line):
    out = {"raw": line, "oracle": re.findall(r"!oracle (\S+)", line)}
    for m in re.finditer(r"(\w+)=(\S+)", line.split(" !oracle")[0]):
        out[m.group(1)] = m.group(2)
    for key in ("dec", "tdec", "alpha", "bias"):
        if key in out:
            out[key] = [float(x) for x in out[key].split(",") if x != ""]
    return out


def centre(vals, outputs):
    res = []
    for j in range(0, len(vals), outputs):
        blk = vals[j:j + outputs]; mu = sum(blk) / len(blk)
        res += [v - mu for v in blk]
    return res


def run_harness_lines(exe, ops, timeout=900):
    e = dict(os.environ); e["OMP_NUM_THREADS"] = "1"
    e.setdefault("ASAN_OPTIONS", "detect_leaks=0:abort_on_error=0")
    p = subprocess.run([exe], input="\n".join(ops) + "\n", capture_output=True, text=True, errors="replace", env=e, timeout=timeout)
    return p.returncode, p.stdout.splitlines(), p.stderr[-3000:]


def dispatch_table(drv):
    """the decision logic generated from CSvmTrainer::train, evaluated by the driver"""
    ops = [f"dispatch {k} {F}" for k in range(2, 6) for F in FORMS]
    out = subprocess.run([drv], input="\n".join(ops) + "\n", capture_output=True, text=True).stdout.splitlines()
    return {(int(o.split()[1]), o.split()[2]): l for o, l in zip(ops, out)}


def trainer_sweeps(ctx, exe, nds, disp=None):
    """all formulations x bias x shrinking x cache x permutation x batch size on small integer-point data sets;
    decision values compared across configurations within the bound that follows from the solver accuracy:
    two eps-KKT points of the same concave dual have objectives within eps*sum(U-L) of the optimum, hence weight
    vectors within sqrt(2*gap) of the optimal one, hence |f(x)-f'(x)| <= 2*sqrt(2*eps*n*P*C)*sqrt(k(x,x))."""
    r = ctx.rng.fork("c16-train")
    nviol = 0
    seen = set()
    for _ in range(nds):
        ds = gen_dataset(r, ctx.quick)
        n, k = ds["n"], ds["k"]
        kern = r.choice(["lin", "lin", "poly", "rbf"])
        C = r.choice(["0.5", "1", "2", "4"])
        eps = r.choice(["1e-3", "1e-3", "1e-5"])
        forms = FORMS if not ctx.quick else [r.choice(FORMS) for _ in range(3)]
        ctx.hist("train_classes", k); ctx.hist("train_examples", n); ctx.hist("train_kernel", kern); ctx.hist("train_eps", eps)
        for F in forms:
            for bias in (0, 1):
                if bias and eps != "1e-3" and ctx.quick:
                    continue
                base = (0, -1, 0, 256)
                cfgs = [base, (1, -1, 0, 256), (0, 2 * n, 0, 256), (1, 3 * n + 1, 1, 256), (1, n * n, r.range(2, 1 << 20), 3),
                        (0, -1, r.range(2, 1 << 20), 1), (1, 2 * n, 1, 256)]
                if ctx.quick: cfgs = cfgs[:2] + [r.choice(cfgs[2:]) for _ in range(2)]
                ops = list(ds["ops"])
                for (shr, cache, perm, batch) in cfgs:
                    ops.append(f"train {F} {bias} {shr} {cache} {C} {eps} {perm} {batch} {kern}")
                rc, lines, err = run_harness_lines(exe, ops)
                ctx.count("train_runs", len(cfgs)); ctx.count("evaluations", len(cfgs))
                ctx.hist("train_formulation", F + ("+b" if bias else ""))
                res = [parse_train(l) for l in lines[2:]]
                key = None; what = ""
                if rc != 0 or len(res) != len(cfgs):
                    m = re.search(r"ERROR: AddressSanitizer: (\S+)|runtime error: ([^\n]*)", err)
                    key = f"crash:train:{(m.group(1) or m.group(2)) if m else 'abort'}:{F}"; what = f"trainer harness aborted: {err[-400:]}"
                else:
                    P = FORM_P[F](k) if k > 2 else 1
                    epsf, Cf = float(eps), float(C)
                    gap = epsf * n * P * Cf
                    outputs = int(res[0].get("outputs", "1"))
                    for cfg, rr in zip(cfgs, res):
                        ctx.hist("train_path", rr.get("path", "?"))
                        # the path taken by the real trainer (verified inside the harness by the decision-map / two-class /
                        # OVA oracles) must be the one the generated decision logic predicts
                        if disp is not None:
                            want = disp.get((k, F), "?")
                            got = "path=" + rr.get("path", "?")
                            if rr.get("path") == "mc":
                                got += f" fam={rr.get('fam')} stz={rr.get('stz')} simplex={rr.get('simplex')}"
                            if not want.startswith(got):
                                key = f"oracle:dispatch:{F}"; what = f"trainer took {got!r}, generated decision logic says {want!r}"
                                break
                        if rr["oracle"]:
                            key = f"oracle:{'+'.join(sorted(set(rr['oracle'])))}:{F}{'+b' if bias else ''}"
                            what = f"trainer-level oracle failed for config {cfg}: {rr['raw'][-300:]}"
                            break
                        # independently recomputed KKT violation / dual objective of the raw dual variables
                        if "kkt" in rr and float(rr["kkt"]) > epsf * (1 + 1e-6) + 1e-9 * (1 + Cf * n):
                            key = f"oracle:kkt-not-reached:{F}{'+b' if bias else ''}"; what = f"recomputed KKT violation {rr['kkt']} > eps {eps} for config {cfg}"
                            break
                        if "obj" in rr and abs(float(rr["obj"]) - float(rr["value"])) > 1e-7 * (1 + abs(float(rr["obj"]))) and not bias:
                            key = f"oracle:objective-mismatch:{F}"; what = f"reported dual objective {rr['value']} vs recomputed {rr['obj']} for config {cfg}"
                            break
                    if key is None:
                        b0 = res[0]
                        for cfg, rr in zip(cfgs[1:], res[1:]):
                            worst = 0.0
                            for name, pts, cnt in (("dec", ds["probes"], ds["m"]), ("tdec", ds["xs"], n)):
                                va, vb = b0[name], rr[name]
                                if F in CENTRED and k > 2 and outputs > 1:
                                    va, vb = centre(va, outputs), centre(vb, outputs)
                                for j in range(cnt):
                                    tol = 2 * math.sqrt(2 * gap) * math.sqrt(max(kxx(ds, pts, j, kern), 0.0)) + (epsf if bias else 0.0) + 1e-9
                                    for c in range(outputs):
                                        dev = abs(va[j * outputs + c] - vb[j * outputs + c])
                                        worst = max(worst, dev / tol if tol > 0 else (0 if dev == 0 else 1e9))
                            ctx.hist("train_dev_over_tol", "<=0.01" if worst <= 0.01 else "<=0.1" if worst <= 0.1 else "<=1" if worst <= 1 else ">1")
                            if abs(float(b0["value"]) - float(rr["value"])) > 2 * gap + 1e-9 * (1 + abs(float(b0["value"]))) and F != "OVA":
                                worst = max(worst, 1e6)
                            if worst > 1:
                                if bias and k > 2 and F != "OVA":
                                    key = f"F-C16-2:mc-bias-path-dependent:{F}"
                                    what = (f"multi-class SVM with offset: decision function / dual value depends on the configuration beyond the solver accuracy "
                                            f"(base {cfgs[0]} value={b0['value']} vs {cfg} value={rr['value']}, deviation/tolerance={worst:.3g})")
                                else:
                                    key = f"oracle:config-dependent:{F}{'+b' if bias else ''}"
                                    what = (f"decision function depends on the configuration beyond the solver accuracy: base {cfgs[0]} vs {cfg}, "
                                            f"deviation/tolerance={worst:.3g}, values {b0['value']} / {rr['value']}")
                                ops = list(ds["ops"]) + [ops[2], ops[2 + cfgs.index(cfg)]]
                                break
                if key is not None:
                    nviol += 1
                    k0 = key.split(":")[0] + ":" + key.split(":")[1]
                    if k0 in seen: continue
                    seen.add(k0)
                    ctx.violation(key, {"kind": "train", "harness_cmd": [exe], "ops": ops, "stderr_tail": err[-800:]}, True, what)
    return nviol


def run(ctx):
    ctx.trusted += ["translator translate/mcsvm_tables.py (C++ subset parser; every generated table is also compared with the real arrays)",
                    "correspondence harnesses harness/c16*.cpp + generator checks/c16.py",
                    "hand-written model Model/McSmo.lean (QpMcBoxDecomp.h, AnalyticProblems.h are modelled, not translated)"]
    translate(ctx)
    ctx.prove(["SharkVerif.Props.C16"])
    if not ctx.quick:
        ctx.leanchecker(["SharkVerif.Props.C16"])
    exe = build(ctx)
    drv = ctx.driver("drv_c16")
    if not exe or not drv:
        return
    corpus = load_corpus()
    ctx.cov["corpus_cases"] = len(corpus)
    cases = table_cases(ctx)
    ctx.cov["evaluations"] = len(cases)
    ctx.cov["distinct_nontrivial"] = len(cases)
    core.correspond(ctx, "K-C16-tables", cases, [exe], [drv], classify, keep_prefix=0)
    # decomposition-class op sequences
    r = ctx.rng.fork("c16-box")
    nbox, maxlen = (150, 40) if ctx.quick else (1500, 150)
    bcases = [c for c in corpus if c[0].startswith("box")]
    bcases += [gen_box_case(r, maxlen, ctx) for _ in range(nbox)]
    for c in bcases:
        for o in c: ctx.hist("op_mix", o.split()[0])
        ctx.hist("history_length", min(len(c) // 20 * 20, 400))
    ctx.cov["evaluations"] += len(bcases)
    ctx.cov["distinct_nontrivial"] += len({"\n".join(c) for c in bcases if len(c) > 3})
    ctx.sample({"box_ops": bcases[len(bcases) // 2][:8]})
    correspond_box(ctx, "K-C16-box", bcases, [exe], [drv])
    # trainer level
    tcorp = [c for c in corpus if c[0].startswith("data")]
    for c in tcorp:
        replay_train(ctx, exe, c, report=True)
    trainer_sweeps(ctx, exe, 10 if ctx.quick else 60, dispatch_table(drv))


def replay_train(ctx, exe, ops, report=False):
    """corpus / replay of a trainer-level case: data, probes, base config, other config"""
    rc, lines, err = run_harness_lines(exe, ops)
    res = [parse_train(l) for l in lines[2:]]
    bad = rc != 0 or any(r["oracle"] for r in res)
    vals = [r.get("value") for r in res]
    devs = []
    if len(res) >= 2 and "dec" in res[0]:
        devs = [max(abs(a - b) for a, b in zip(res[0]["dec"], r["dec"])) for r in res[1:]]
    print(f"train replay: rc={rc} values={vals} max decision deviations vs first config={devs} oracle={[r['oracle'] for r in res]}")
    if report:
        ctx.count("corpus_train_cases")
    return bad, vals, devs


def replay(ctx, rep):
    exe = build(ctx); drv = ctx.driver("drv_c16")
    if rep.get("kind") == "train":
        bad, vals, devs = replay_train(ctx, exe, rep["ops"])
        print("FAILS" if bad or any(d > 1e-2 for d in devs) else "OK")
        return 1 if bad or any(d > 1e-2 for d in devs) else 0
    if rep.get("kind") == "box":
        rb = run_box(ctx, [exe], [drv], rep["ops"])
        print("\n".join(f"impl : {a[:300]}\nmodel: {b[:300]}" for a, b in zip(rb.impl, rb.model)))
        print("OK" if rb.ok else "FAILS"); return 0 if rb.ok else 1
    res = core.run_case(ctx, rep.get("harness_cmd", [exe]), [drv], rep["ops"])
    print("\n".join(f"impl : {a}\nmodel: {b}" for a, b in zip(res.impl, res.model)))
    print("stderr:", res.stderr[-2000:])
    print("OK" if res.ok else "FAILS")
    return 0 if res.ok else 1
