"""C16 — multi-class and linear SVM solvers: theorems (Props/C16.lean) + T2
(translate/mcsvm_tables.py: nu/M tables regenerated from CSvmTrainer.h) +
correspondence K-C16 (table dumps, decomposition-class op sequences, trainer-level
configuration sweeps)."""
import os, re
from vlib import core
from checks import c16_mclin, c16_epoch

TRUST = ("Lean 4.33 kernel; axioms at most propext/Classical.choice/Quot.sound (audited per run by #audit_module); ")
MANIFEST = dict(
  text=("Theorems (Props/C16.lean, exact arithmetic, all sizes): (1) on the nu/M tables regenerated from CSvmTrainer::setupMcParameters{WWCS,ATMATS,ADMLLW,MMR} "
        "on every run (T2, translate/mcsvm_tables.py): M_is_gram_of_nu for ALL class counts c>=2 and every family (M = <nu,nu'>, minus the mean for the "
        "sum-to-zero families; WW/CS nu sum to zero), rows well-formed, loops write exactly `height` rows and never exceed the reserved capacity; "
        "(2) QpMcBoxDecomp (Model/McSmo.lean): mc_tables_inv, mc_box_inv (0<=alpha<=C), mc_grad_inv (gradient of active variables = lin - (M(x)K) alpha) hold initially and are preserved by EVERY operation "
        "(updateSMO incl. the 1-D/2-D box sub-solvers, gradientUpdate, deactivateVariable, deactivateExample, shrink, unshrink, addDeltaLinear), hence after every valid "
        "finite history, instantiated for the generated tables of every family and c>=2; "
        "(3) WHOLE RUNS of QpSolver::solve (Model/McSolve.lean: selectWorkingSet first+second order -> updateSMO -> periodic shrink with the unshrink-at-10*eps rule -> stopping rule with "
        "unshrink + re-check, iteration limit, wrapping shrink counter): solve_run_invariants (every reachable state satisfies all invariants, any accuracy / iteration limit / start state, shrinking on or off), "
        "solve_never_stuck_box (updateSMO is only ever called with active variables), solve_stop_is_kkt (QpAccuracyReached => all variables active and the stored = true gradient is eps-KKT), "
        "solve_generated_near_optimal (stop => KKT(eps) => objective within eps*P*n*C of every feasible point of THE dual in its original numbering: the operations of the loop only renumber Q and lin, Renumbered; "
        "PSD of Q = M(x)K from M_is_gram_of_nu + Kronecker lemma for Gram kernel matrices), solve_generated_configuration_invariant (two runs, shrinking on/off, any limits, both stopped: dual objectives within eps*P*n*C), "
        "decision_map_quadratic (delta^T Q delta = squared norm of the centred decision coefficients Sum_p nu~(y_i,p,k) delta(i,p) the trainer writes) and stopped_configurations_close_decision "
        "(two eps-KKT points: that squared norm <= 2*eps*P*n*C, i.e. |Delta f(x)| <= sqrt(2 eps P n C k(x,x)), half the tolerance of the trainer-level comparison); "
        "(4) QpMcSimplexDecomp (CS, ATM, ADM, MMR; Model/McSimplex.lean: updateSMO in its three cases incl. solveQuadratic2DTriangle, updateVarsum with its re-computation/snapping rule, deactivateVariable with automatic "
        "deactivateExample, shrink cases 1/2, unshrink, selectWorkingSet/maxGainBox/maxGainSimplex, checkKKT, solve loop): simplex_run_invariants = tables + gradient invariants + mc_simplex_inv "
        "(alpha>=0, 0<=varsum<=C, Sum_p alpha_ip <= C + 1e-14: the constraint up to the slack of the code's own snapping, which the real code does use) for every state reached by QpSolver::solve and by every single operation "
        "(simplex_ops_preserve; the off-by-one branch of shrink is proved unreachable), simplex_stop_is_kkt, simplex_run_renumbers (the simplex loop too only renumbers Q and lin), "
        "simplex_kkt_eps_near_optimal / simplex_generated_near_optimal (stop => KKT(eps) => objective gap for the SIMPLEX-constrained dual: D(b)-D(alpha) <= n*(eps*(2C+1e-14) + 1e-14*C*G) for every b>=0 with row sums <= C, "
        "G a bound of the final gradient; the multiplier of an example's sum constraint is the smallest gradient of its positive variables; the 1e-14 term is the price of the code's varsum snapping; invariant now two-sided: |varsum - sum alpha| <= 1e-14*max(1,C)); "
        "(5) bias loop as far as it is logic (Model/McBias.lean): bias_loop_consistent — after ANY sequence of inner solves and performBiasUpdate steps all invariants hold and the linear part, read through the renumbered tables, is "
        "linear(i,p) - nu-row . (accumulated bias) (LinInv through every operation); bias_loop_consistent_simplex: the same for BiasSolverSimplex over runs of the simplex solve loop; the Rprop rule itself as a state machine "
        "(biasSolve = BiasSolver::solve with both loops): rprop_bias_solver_consistent (every run ends with all invariants and linear part = linear - nu*reported bias), rprop_step_sizes_positive, rprop_bias_sum_zero (sum-to-zero projection keeps the bias sum); "
        "(6) decision logic generated from CSvmTrainer::train / LinearCSvmTrainer::train: two_class_dispatch, ova_is_binary_per_class, every other formulation uses one of the four table families; "
        "(7) dedicated linear solvers: QpBoxLinear coordinate step (linear_w_inv, linear_box_inv along EVERY schedule, linear_step_gain_nonneg_partial) and QpMcLinear{WW,LLW,ATS,MMR,Reinforced} per-example step "
        "(Model/McLinearMc.lean: calcGradient, solveSub with its inner SMO loop, updateWeightVectors): mc_linear_invariants = w is the formulation's linear map of alpha, 0<=alpha<=C, returned gain >= 0, along EVERY schedule; "
        "QpMcLinear{CS,ATM,ADM}: mc_linear_sum_invariants_partial (w consistency, alpha>=0, extra column = row sum <= C, alpha(i,y_i)=0 for CS/ADM, along every schedule; hypothesis SweepGuard excludes only the 1e100-sentinel case of the selection); "
        "the epoch loop of QpMcLinear::solve (Model/McLinearEpoch.lean: ACF schedule arithmetic from the observed draws, preference update, canstop rule): epoch_uniform_sweep_visits_all (all preferences 1 => the schedule is 0..ell-1, every example exactly once "
        "after any shuffle), epoch_schedule_fits (pos <= ell for arbitrary preferences/draws: no write past the buffer; pos = ell when prefsum is the sum of positive preferences), epoch_linear_stop_weak (AccuracyReached => last epoch was a canstop full sweep with every "
        "violation < eps at visit time — nothing about the end of the epoch), pref_bounds, epEpoch_prefsum; "
        "(8) configuration invariance in exact arithmetic: mc_kkt_eps_near_optimal / two_stopped_configurations_close, stopped_state_near_optimal, mc_objective_recomputed, generated_Q_psd, perm_examples_equivariant. "
        "Tie to the C++ on every run (both tiers): entry-wise table dumps c=2..8; adversarial op sequences INCLUDING whole solve runs on the real QpMcBoxDecomp AND the real QpMcSimplexDecomp (protected members via subclasses, "
        "QpSolver<Probe>::solve, BiasSolver[Simplex]::performBiasUpdate via an access override; synthetic PSD integer/dyadic kernel matrices) compared line by line with the Float instance of the models bit for bit (complete state incl. varsum, "
        "iterations, stop type, reported accuracy) and, whenever FE_INEXACT stayed clear, with the Rat instance exactly, with independent oracles (tables, box/simplex, recomputed gradient, varsum drift, stopping rule); per-example steps of all "
        "eight real QpMcLinear classes along arbitrary schedules against the model bit for bit with oracles (w consistency, feasibility; gain vs change of the dual objective is an informational counter only); whole runs of QpMcLinear::solve "
        "(a replica of its statements calling the real virtuals records the random draws and shuffled schedules, is validated against the real solve() bit for bit on every run, and is compared with the model incl. Float.exp = std::exp); "
        "whole runs of the real BiasSolver::solve (Rprop rule + inner solves) against the state-machine model bit for bit; states next to the varsum snapping thresholds (dyadic linear terms, xadddeltas); one-epoch sweeps of the real QpBoxLinear; trainer level (oracle only): "
        "all 9 formulations x offset x shrinking x cache sizes x example permutations x batch sizes x 3 kernels on integer data with 2-5 classes, decision values compared across configurations within the derived bound, box/simplex constraints, "
        "recomputed gradient/KKT/objective, alpha->decision-function map, two-class = binary trainer bit for bit, OVA = per-class binary bit for bit, linear kernel vs dedicated linear solver, and re-use of one model object "
        "(k-class then two-class training and vice versa must equal a fresh model); ASan/UBSan."),
  note=TRUST + "PARTIAL. Modelled by hand, not translated: McSmo/McSolve/McSimplex/McBias/McLinear/McLinearMc/McLinearEpoch (tied bit for bit on every run). NOT proved / limits: (a) the simplex objective-gap bound is stated in the numbering of the "
       "final state (a renumbering of the original dual by simplex_run_renumbers) and carries the term 1e-14*C*G; NO never-stuck theorem for the simplex loop (before the fix c0682ba5 it was false: F-C16-4c; not re-attempted on the repaired code); "
       "(b) BiasSolverSimplex::solve's Rprop variant is not modelled as a state machine (only BiasSolver::solve is; performBiasUpdate of both is); termination of the Rprop loops is not proved (fuel; the driver reports fuel-exhausted) and NOTHING constrains "
       "the bias the rule chooses — F-C16-2 lives there; the exact (Rat) instance is not run through whole Rprop runs (Float tie only); "
       "(c) mc_linear_sum_invariants_partial needs SweepGuard (gradients below the 1e100 sentinel); the shrinking variant of QpMcLinear::solve and the UNIFORM strategy are not modelled (LinearCSvmTrainer uses ACF without shrinking); 'same primal objective as the "
       "kernel solver' stays a trainer-level oracle; the returned gain of QpMcLinear{CS,ADM,ATM}::solveSub is not the objective change (NOTE in findings_proposed/C16.md, not a finding: no clause of C16 is affected; 1260 trainer-level comparisons found nothing); "
       "(d) no theorem about WHICH working set is selected beyond validity (the second-order rule incl. the shifted arguments of maximumGainQuadratic2D is tied bit for bit) and none about convergence (that accuracy IS reached); "
       "(e) the time limit of QpSolver::solve is not modelled. linear_step_gain_nonneg is partial (|x_i|^2+reg>0). The driver re-tabulates the state vectors between model operations and between passes of the solve loop "
       "(identity on the valid index ranges; the loop it runs is the model's solveLoopWith/solveLoopXWith, proved equal to solveLoop/solveLoopX for the identity re-tabulation). Configuration invariance is a theorem about exact arithmetic over a kernel matrix given as a function (C09 owns the cache); PSD of Q is proved for Gram "
       "matrices of explicit features, a hypothesis otherwise; floating-point effects are covered by the correspondence only. For the binary machine (and each one-versus-all machine) with offset a constant shift of the decision values "
       "between configurations is tolerated (C07 owns bias_in_kkt_interval). Findings: F-C16-2 (multi-class offset solver: one sweep of block coordinate descent, result depends on example order etc.; re-examined after F4b/F4c; method-of-multipliers patch proposed for the maintainers' decision); "
       "F-C16-4 residual (slow ATM/ADM convergence beyond the harness iteration limit; the stalls F-C16-4b/4c are fixed in /repo) — see findings_proposed/C16.md; listed in known_findings.json.",
  technique="Lean 4 invariant proofs by induction over operation histories and over whole runs of the modelled solver loops (hand-written models) + source-regenerated tables and decision logic (T2) + differential correspondence with the C++ "
            "(exact / bit / toleranced modes, ASan/UBSan) + independent trainer-level property oracles",
  design="§6 C16, §14 C16")
FINISH = dict(level="proof",
              rule="cases = (a) one table dump per generated table and c=2..8, (b) op histories on QpMcBoxDecomp and (c) on QpMcSimplexDecomp from SplitMix64 streams (family, c=2..5, n=2..6, C, linear part, PSD kernel matrix, "
                   "ops smo/deactvar/killex/deactex/shrink/unshrink/adddelta/biasupd/label/select/kkt/solve(eps,maxIter), one case in three ends with a full solve run), (d) per-example step histories of the eight QpMcLinear classes, "
                   "(e) QpBoxLinear sweep histories, (f) trainer runs = (data set, formulation, offset, configuration) and model re-use runs; "
                   "distinct = distinct op text; a box/simplex history is non-trivial if it has more than 3 ops")
LAKE_TARGETS = ["SharkVerif.Props.C16", "drv_c16"]
SRC = ["src/Core/Random.cpp"]
TABLES = ["WWCS_nu", "WWCS_M", "ATMATS_nu", "ATMATS_M", "ADMLLW_nu", "ADMLLW_M", "MMR_nu", "MMR_M"]


def translate(ctx):
    return ctx.translate("mcsvm_tables.py")


def hname(base):
    """separate cache entries per repo tree (scratch worktrees via VERIF_REPO), so that switching trees does not thrash"""
    return base if core.REPO == "/repo" else f"{base}-{core.sha(core.REPO)[:6]}"


def build(ctx):
    return ctx.harness(hname("c16"), ["c16l.cpp", "c16e.cpp", "c16.cpp", "c16s.cpp", "c16x.cpp"], repo_sources=SRC)


def classify(ops, res):
    kinds = sorted({o.split()[0] for o in ops})
    if res.crash:
        m = re.search(r"ERROR: AddressSanitizer: (\S+)|runtime error: ([^\n]*)", res.stderr)
        tag = (m.group(1) or m.group(2)) if m else "crash"
        return f"crash:{tag}:{'+'.join(kinds)}", f"harness aborted ({tag}) on ops {ops[:6]}"
    if res.oracle:
        m = re.search(r"!oracle (\S+)", res.oracle[0])
        return f"oracle:{m.group(1)}:{'+'.join(kinds)}", f"property oracle failed ({m.group(1)}) on ops {ops[:6]}"
    return f"mismatch:{'+'.join(kinds)}", f"model and implementation disagree at line {res.diff_at} of ops {ops[:6]}"


def load_corpus():
    d = os.path.join(core.VERIF, "corpus", "C16")
    out = []
    if os.path.isdir(d):
        for fn in sorted(os.listdir(d)):
            ops = [l.strip() for l in open(os.path.join(d, fn)) if l.strip() and not l.startswith("#")]
            if ops: out.append(ops)
    return out


def table_cases(ctx):
    cases = []
    for c in range(2, 9):
        for t in TABLES:
            cases.append([f"tables {t} {c}"])
            cases.append([f"tablesf {t} {c}"])        # QpFloatType = float (the trainer's default cache type)
            if c in (2, 4, 8):
                cases.append([f"tablesq {t} {c}"])
    return cases


# ---------------------------------------------------------------------------
# decomposition-class op sequences (harness/c16s.cpp  vs  Model/McSmo.lean)
# ---------------------------------------------------------------------------
FAMILY_P = {"WWCS": lambda c: c - 1, "ATMATS": lambda c: c, "ADMLLW": lambda c: c - 1, "MMR": lambda c: 1}


def gen_box_case(r, maxlen, ctx=None):
    fam = r.choice(["WWCS", "WWCS", "ATMATS", "ATMATS", "ADMLLW", "MMR"])
    c = r.choice([2, 2, 3, 3, 4, 4, 5])
    P = FAMILY_P[fam](c)
    n = r.choice([1, 2, 2, 3, 3, 4, 4, 5, 6])         # a single example (one simplex / one box block) included
    labels = [r.below(c) for _ in range(n)]
    if r.chance(1, 6): labels = [labels[0]] * n     # all examples of one class
    labels[r.below(n)] = c - 1                      # numberOfClasses(target) must be c
    # C: ordinary values, non-dyadic-friendly ones (3, 5/2) and extreme magnitudes (2^-10, 2^10)
    cnum, cshift = r.choice([(1, 0), (1, 0), (2, 0), (1, 1), (4, 0), (3, 0), (1, 2), (5, 1), (1, 10), (1024, 0)])
    # linear part: all ones (what the trainer passes), reinforced-style, or small integers
    lk = r.below(10)
    lin = []
    for i in range(n):
        for p in range(P):
            if lk < 6: lin.append(1)
            elif lk < 8: lin.append(c - 1 if (fam == "ATMATS" and p == labels[i]) else 1)
            else: lin.append(r.range(-2, 3))
    # symmetric PSD kernel matrix K = G G^T (integer), optionally scaled by 2^-kshift;
    # diagonal power-of-two variants keep many steps exact
    kk = r.below(10)
    if kk < 3:
        K = [[(1 << r.below(3)) if i == j else 0 for j in range(n)] for i in range(n)]
        for i in range(n): K[i][i] = K[0][0]
        kshift = r.below(3)
    else:
        rk = r.range(1, 3)
        G = [[r.range(-2, 2) for _ in range(rk)] for _ in range(n)]
        K = [[sum(G[i][t] * G[j][t] for t in range(rk)) for j in range(n)] for i in range(n)]
        if r.chance(1, 2):
            for i in range(n): K[i][i] += 1        # strictly positive definite
        if r.chance(1, 10) and n >= 2:
            G[1] = list(G[0]); K = [[sum(G[i][t] * G[j][t] for t in range(rk)) for j in range(n)] for i in range(n)]   # duplicate example
        kshift = r.choice([0, 1, 2, 0, 1, 2, 9])    # 9: entries of order 2^-9 (the 1e-12 curvature thresholds come into play)
    shr = 0 if r.chance(1, 8) else 1
    ops = ["box %s %d %d %d %d %d %d %s" % (fam, c, n, cnum, cshift, shr, kshift,
           " ".join(map(str, labels + lin + [K[i][j] for i in range(n) for j in range(n)])))]
    nv = n * P
    for _ in range(r.range(1, maxlen)):
        x = r.below(100)
        hi = max(1, nv if r.chance(1, 2) else (nv + 1) // 2)
        if x < 50:
            v = r.below(hi)
            w = v if r.chance(2, 5) else r.below(hi)
            ops.append(f"smo {v} {w}")
        elif x < 60:
            ops.append(f"deactvar {r.below(hi)}")
        elif x < 66:
            ops.append(f"killex {r.below(n)}")
        elif x < 72:
            ops.append(f"deactex {r.below(n)}")
        elif x < 82:
            num, sh = r.choice([(1, 10), (1, 3), (1, 0), (8, 0), (1, 20)])
            ops.append(f"shrink {num} {sh}")
        elif x < 88:
            ops.append("unshrink")
        elif x < 91:
            ops.append("adddelta " + " ".join(str(r.range(-1, 1)) for _ in range(nv)))
        elif x < 93:
            ops.append(f"label {r.below(n)}")
        elif x < 95:
            # BiasSolver::performBiasUpdate with an arbitrary bias step (one dyadic rational per class)
            ops.append("biasupd " + " ".join(f"{r.range(-3, 3)} {r.choice([0, 1, 2, 7])}" for _ in range(c)))
        elif x < 97:
            ops.append("select1")
        else:
            ops.append(gen_solve_op(r, ctx))
    if r.chance(1, 3):
        ops.append(gen_solve_op(r, ctx, full=True))          # a whole run of QpSolver::solve to its stopping rule
    if r.chance(1, 5):
        # a whole run of BiasSolver::solve (inner solves + the Rprop rule on the bias), with and without the sum-to-zero projection;
        # small iteration limits exercise the "inner solve did not reach the accuracy" exit
        num, sh = r.choice([(1, 6), (1, 10), (1, 3), (1, 0)])
        mi = r.choice([3000, 3000, 3000, 40, 7, 0])
        stz = r.below(2)
        ops.append(f"biassolve {num} {sh} {mi} {stz}")
        if ctx is not None:
            ctx.hist("biassolve_eps", f"{num}/2^{sh}"); ctx.hist("biassolve_maxiter", mi); ctx.hist("biassolve_sumToZero", stz)
    if ctx is not None:
        ctx.hist("box_family", fam); ctx.hist("box_classes", c); ctx.hist("box_examples", n)
        ctx.hist("box_C", f"{cnum}/2^{cshift}"); ctx.hist("box_kernel_scale", f"2^-{kshift}")
        ctx.hist("box_kernel_kind", "zero" if all(v == 0 for row in K for v in row) else "diagonal" if kk < 3 else "gram")
        ctx.hist("box_linear_part", "ones" if lk < 6 else "reinforced-like" if lk < 8 else "random")
        ctx.hist("box_shrinking", shr)
    return ops


def gen_solve_op(r, ctx=None, full=False):
    """`solve epsnum epsshift maxiter`: QpSolver::solve from the current state (whatever shrinking state it is in)"""
    num, sh = r.choice([(1, 10), (1, 10), (1, 3), (1, 0), (1, 20), (3, 6)])
    mi = 3000 if full else r.choice([0, 1, 2, 3, 7, 40, 1001, 3000])
    if ctx is not None:
        ctx.hist("solve_eps", f"{num}/2^{sh}"); ctx.hist("solve_maxiter", mi)
    return f"solve {num} {sh} {mi}"


def gen_sx_case(r, maxlen, ctx=None):
    """the same problem generator, for QpMcSimplexDecomp (CS / ATM / ADM / MMR use the same four table families):
    constructor `sbox`, ops prefixed with `x`; `deactex` does not exist there (deactivateVariable deactivates the
    example with its last variable), `xkkt` = checkKKT()"""
    ops = gen_box_case(r, maxlen, None)
    out = ["s" + ops[0]]
    for o in ops[1:]:
        t = o.split()
        if t[0] == "deactex": t = ["deactvar", t[1]]
        if t[0] == "select1": t = [r.choice(["select", "kkt"])]
        if t[0] == "biassolve": continue                  # (BiasSolverSimplex::solve is not modelled)
        out.append("x" + " ".join(t))
    if ctx is not None:
        h = out[0].split()
        ctx.hist("sx_family", h[1]); ctx.hist("sx_classes", h[2]); ctx.hist("sx_examples", h[3])
        ctx.hist("sx_C", f"{h[4]}/2^{h[5]}"); ctx.hist("sx_shrinking", h[6]); ctx.hist("sx_kernel_scale", f"2^-{h[7]}")
    return out


def gen_sx_near_case(r, maxlen, ctx=None):
    """states next to the snapping thresholds of QpMcSimplexDecomp::updateVarsum (1e-12 / 1e-14, relative to C resp. absolute):
    identity kernel, one variable driven by a dyadic linear term to alpha = C*(1 - 2^-t) (C - varsum in [1e-14 C, 1e-10 C)
    and around) or to alpha = 2^-t around 1e-14; then an ordinary random history.  Ordinary dyadic data never get there."""
    fam = r.choice(["WWCS", "ATMATS", "ADMLLW", "MMR"])
    c = r.choice([2, 3, 4, 5]) if fam == "WWCS" else r.choice([2, 4])
    P = FAMILY_P[fam](c)
    md_num, md_sh = (1, 1) if (fam == "WWCS" or c == 2) else (3, 2)          # diagonal entry of M: 1/2 resp. 1 - 1/c
    n = r.choice([1, 2, 3])
    labels = [r.below(c) for _ in range(n)]; labels[n - 1] = c - 1
    if fam != "WWCS" and fam != "MMR": pass
    cnum, cshift = r.choice([(1, 0), (2, 0), (1, 1), (4, 0), (3, 0), (5, 1)])
    lin = [1] * (n * P)
    K = [[1 if i == j else 0 for j in range(n)] for i in range(n)]
    ops = ["sbox %s %d %d %d %d %d %d %s" % (fam, c, n, cnum, cshift, 0 if r.chance(1, 4) else 1, 0,
           " ".join(map(str, labels + lin + [K[i][j] for i in range(n) for j in range(n)])))]
    # the M entry of variable (example 0, p) against itself is md only if ... use p = 0 of example 0
    kind = r.choice(["upper", "upper", "lower"])
    if kind == "upper":
        t = r.range(33, 47)
        S = md_sh + cshift + t
        target = md_num * cnum * ((1 << t) - 1)                              # = Mdiag*C*(1-2^-t) * 2^S
    else:
        t = r.range(43, 51)
        S = md_sh + t
        target = md_num                                                      # = Mdiag*2^-t * 2^S
    d = [0] * (n * P); d[0] = target - (1 << S)                               # the linear term starts at 1
    ops.append("xadddeltas %d %s" % (S, " ".join(map(str, d))))
    ops.append("xsmo 0 0")
    tail = gen_sx_case(r, maxlen, None)[1:]
    # keep only ops whose arguments fit this problem size
    nv = n * P
    for o in tail[: r.range(2, 12)]:
        tk = o.split()
        if tk[0] in ("xsmo",) and (int(tk[1]) >= nv or int(tk[2]) >= nv): continue
        if tk[0] in ("xdeactvar",) and int(tk[1]) >= nv: continue
        if tk[0] in ("xkillex", "xlabel") and int(tk[1]) >= n: continue
        if tk[0] in ("xadddelta", "xbiasupd"): continue
        ops.append(o)
    ops.append(f"xsolve 1 {r.choice([10, 20])} {r.choice([3, 40, 3000])}")
    if ctx is not None:
        ctx.hist("sx_near_threshold", f"{kind}:2^-{t}")
    return ops


def split_line(l):
    """-> (main, side-channel dict, oracle tags)"""
    main, _, orc = l.partition(" !oracle")
    body, *side = main.split(" #")
    d = {}
    for t in side:
        k, _, v = t.strip().partition("=")
        d[k] = v
    return body, d, (("!oracle" + orc) if orc else "")


class BoxResult:
    def __init__(self):
        self.ok, self.crash, self.oracle, self.diff_at, self.exact_diff = True, False, [], None, None
        self.impl, self.model, self.stderr = [], [], ""
        self.exact_lines = 0
        self.info = {}
        self.rat_ok = 0
        self.lines = 0


def run_box(ctx, hcmd, dcmd, ops, timeout=300):
    r = BoxResult()
    text = "\n".join(ops) + "\n"
    r.impl, r.model, rc, r.stderr = ctx.run_pair(hcmd, dcmd, text, timeout=timeout, env={"OMP_NUM_THREADS": "1"})
    if rc != 0:
        r.crash, r.ok = True, False
    n = max(len(r.impl), len(r.model))
    for k in range(n):
        a = r.impl[k] if k < len(r.impl) else "<missing>"
        b = r.model[k] if k < len(r.model) else "<missing>"
        ma, sa, oa = split_line(a)
        mb, sb, _ = split_line(b)
        if oa:
            r.oracle.append(a); r.ok = False
        if ma != mb and r.diff_at is None:
            r.diff_at, r.ok = k, False
        r.lines += 1
        if sb.get("rat") == "ok": r.rat_ok += 1
        for k_ in ("gainmis", "gainneg", "objdec"):          # informational side channels of harness/c16l.cpp
            if sa.get(k_) == "1": r.info[k_] = r.info.get(k_, 0) + 1
        if sa.get("x") == "1":
            r.exact_lines += 1
            # all floating-point operations so far were exact: the Rat model must agree exactly
            if sb.get("rat") != "ok" and r.exact_diff is None:
                r.exact_diff, r.ok = k, False
    return r


def classify_box(ops, res):
    kinds = sorted({o.split()[0] for o in ops[1:]})
    fam = ops[0].split()[1] if ops and ops[0].split()[0] in ("box", "sbox") else "?"
    if ops and ops[0].startswith("mldata"):
        fam = next((o.split()[1] for o in ops if o.startswith("mlnew")), "?")
    if res.oracle:
        tags = sorted({m for l in res.oracle for m in re.findall(r"!oracle (\S+)", l)})
        if tags == ["shrink-deactivated-violator"] and res.diff_at is None and not res.crash:
            return (f"F-C16-4:simplex-shrink-deactivates-violator:{fam}",
                    "QpMcSimplexDecomp::shrink deactivated a variable that violates the KKT conditions (varsum snapped to 0, alpha tiny but positive, "
                    f"negative gradient): the solve loop cannot make progress from there; ops {ops}")
        if tags == ["label-after-shrink"]:
            return "F-C16-1:label-after-shrink", ("QpMcBoxDecomp::label(i) returns the label of the example currently at position i, "
                                                   f"not of dataset example i, after deactivateExample; ops {ops}")
        return f"oracle:{'+'.join(tags)}:{fam}", f"invariant oracle failed ({tags}) on ops {ops}"
    if res.crash:
        m = re.search(r"ERROR: AddressSanitizer: (\S+)|runtime error: ([^\n]*)", res.stderr)
        tag = (m.group(1) or m.group(2)) if m else "crash"
        return f"crash:{tag}:{fam}", f"harness aborted ({tag}) on ops {ops}"
    if res.diff_at is not None:
        return f"mismatch:{fam}:{'+'.join(kinds)}", f"model and implementation disagree at line {res.diff_at} of ops {ops}"
    return f"exact-mismatch:{fam}:{'+'.join(kinds)}", f"exact (FE_INEXACT clear) run differs from the Rat model at line {res.exact_diff} of ops {ops}"


def correspond_box(ctx, name, cases, hcmd, dcmd, max_report=4):
    import time
    from concurrent.futures import ThreadPoolExecutor
    t = time.time()
    all_ops = [l for c in cases for l in c]
    big = run_box(ctx, hcmd, dcmd, all_ops, timeout=900)
    ctx.count("traces_validated_against_impl", len(cases))
    ctx.count("ops_compared", len(all_ops))
    ctx.count("box_lines_exact_mode", big.exact_lines)
    ctx.count("box_lines_bit_mode", big.lines - big.exact_lines)
    ctx.count("lines_where_float_model_equals_rat_model", big.rat_ok)
    for k_, v_ in big.info.items():
        ctx.count(f"{name}_info_{k_}_lines", v_)      # e.g. gain returned by solveSub != change of the dual objective (a note, not a finding)
    for l in big.impl:
        m = re.match(r"(?:bias=\S+ )?it=(\d+) stop=(\d+) ", l)
        if m:      # a whole run of QpSolver::solve: how it ended and how long it ran
            it = int(m.group(1))
            ctx.hist(name + "_solve_stop", {"1": "accuracy", "4": "maxIterations"}.get(m.group(2), m.group(2)))
            ctx.hist(name + "_solve_iterations", "0" if it == 0 else "1-9" if it < 10 else "10-99" if it < 100 else "100-999" if it < 1000 else ">=1000")
    if big.ok:
        ctx.log(f"{name}: {len(cases)} cases / {len(all_ops)} ops agree; exact-mode lines {big.exact_lines}, bit-mode lines {big.lines - big.exact_lines}, Float=Rat on {big.rat_ok} lines ({time.time()-t:.1f}s)")
        return 0
    with ThreadPoolExecutor(max_workers=3) as ex:
        results = list(ex.map(lambda c: run_box(ctx, hcmd, dcmd, c, timeout=120), cases))
    failing = [(c, r) for c, r in zip(cases, results) if not r.ok] or [(all_ops, big)]
    ctx.log(f"{name}: {len(failing)} of {len(cases)} cases FAIL")
    seen, seen0 = set(), set()
    for c, r in failing:
        key0, _ = classify_box(c, r)
        if key0 in seen0: continue           # one minimised representative per kind of failure
        seen0.add(key0)
        def fails(ops):
            rr = run_box(ctx, hcmd, dcmd, ops, timeout=60)
            return (not rr.ok) and classify_box(ops, rr)[0] == key0
        small = core.shrink_ops(c, fails, keep_prefix=1) if len(c) > 2 else c
        rs = run_box(ctx, hcmd, dcmd, small, timeout=60)
        if rs.ok: small, rs = c, r
        key, what = classify_box(small, rs)
        if key in seen: continue
        seen.add(key)
        found = bool(rs.oracle) or rs.crash
        b = ctx.broken("correspondence", f"{name}:{key}", what); b["resolved"] = True
        replay = {"kind": "box", "harness_cmd": hcmd, "driver_cmd": dcmd, "ops": small,
                  "impl_output": rs.impl[-6:], "model_output": rs.model[-6:], "first_diff_line": rs.diff_at,
                  "exact_diff_line": rs.exact_diff, "oracle": rs.oracle[:5], "crash": rs.crash, "stderr_tail": rs.stderr[-1500:]}
        ctx.violation(key, replay, found_input=found, what=what)
        if len(seen) >= max_report: break
    return len(failing)


# ---------------------------------------------------------------------------
# dedicated linear solver: QpBoxLinear one-epoch sweeps (harness)  vs  Model/McLinear.lean
# ---------------------------------------------------------------------------
def gen_linear_case(r, nsweeps, ctx=None):
    n = r.range(2, 7)
    d = r.choice([1, 2, 2])          # at most two summands in <w,x>: the sum is order independent, so bit comparable
    xs = [r.range(5, 11) for _ in range(n * d)]
    ys = [r.below(2) for _ in range(n)]
    ys[0], ys[1] = 0, 1
    ops = ["data %d %d 2 %s" % (n, d, " ".join(map(str, xs + ys)))]
    bn, bs = r.choice([(1, 0), (1, 1), (2, 0), (1, 2), (3, 1)])
    rn, rs = r.choice([(0, 0), (0, 0), (1, 0), (1, 1)])
    on, os_ = r.choice([(0, 0), (0, 0), (1, 1), (-1, 2)])
    ops.append(f"lnew {bn} {bs} {rn} {rs} {on} {os_} {r.choice([256, 1, 3])}")
    for _ in range(r.range(1, nsweeps)):
        ops.append(f"lsweep {r.range(1, 1 << 30)}")
    if ctx is not None:
        ctx.hist("linear_examples", n); ctx.hist("linear_dim", d); ctx.hist("linear_reg", f"{rn}/2^{rs}")
    return ops


def add_schedules(exe, cases):
    """pass 1: the real solver's epoch schedule (random; observed through the RNG stream) is read from the
    harness and appended to the `lsweep` ops, so that the model can follow the same schedule"""
    flat = [l for c in cases for l in c]
    rc, lines, err = run_harness_lines(exe, flat)
    out, k = [], 0
    for c in cases:
        cc = []
        for o in c:
            l = lines[k] if k < len(lines) else ""
            k += 1
            m = re.search(r"#sched=([\d.]+)", l)
            if o.startswith("lsweep") and m and len(o.split()) == 2:
                cc.append(o + " " + " ".join(m.group(1).split(".")))
            else:
                cc.append(o)
        out.append(cc)
    return out


# ---------------------------------------------------------------------------
# trainer level: configuration sweeps (oracle only; no Lean model of the whole trainer)
# ---------------------------------------------------------------------------
import math, subprocess
FORMS = ["WW", "CS", "LLW", "ATM", "ATS", "ADM", "MMR", "RS", "OVA"]
FORM_P = {"WW": lambda c: c - 1, "CS": lambda c: c - 1, "LLW": lambda c: c - 1, "ADM": lambda c: c - 1,
          "ATM": lambda c: c, "ATS": lambda c: c, "RS": lambda c: c, "MMR": lambda c: 1, "OVA": lambda c: 1}
# formulations whose M is the Gram matrix of the CENTRED nu (M_is_gram_of_nu): the dual objective controls the
# decision values only up to a common function added to all classes, so centred values are compared
CENTRED = {"LLW", "ATM", "ATS", "ADM", "MMR", "RS"}
SIMPLEX = {"CS", "ATM", "ADM", "MMR"}          # trained by QpMcSimplexDecomp
ITER_CAP = 300000                              # maxIterations per solve set by harness/c16.cpp


def gen_dataset(r, quick):
    k = r.choice([2, 3, 3, 4, 4, 5])
    n = r.range(max(k + 1, 5), 10 if quick else 16)
    d = r.choice([1, 2, 2, 3])
    xs = [r.range(5, 11) for _ in range(n * d)]          # coordinate = value - 8 in [-3, 3]
    ys = list(range(k)) + [r.below(k) for _ in range(n - k)]
    # shuffle labels
    for i in range(n - 1, 0, -1):
        j = r.below(i + 1); ys[i], ys[j] = ys[j], ys[i]
    m = 4
    probes = [r.range(4, 12) for _ in range(m * d)]
    return dict(n=n, d=d, k=k, m=m, xs=xs, ys=ys, probes=probes,
                ops=["data %d %d %d %s" % (n, d, k, " ".join(map(str, xs + ys))),
                     "probes %d %s" % (m, " ".join(map(str, probes)))])


def kxx(ds, pts, j, kern):
    d = ds["d"]
    v = [pts[j * d + t] - 8 for t in range(d)]
    sq = sum(a * a for a in v)
    return sq if kern == "lin" else ((sq + 1) ** 2 if kern == "poly" else 1.0)


def parse_train(line):
    out = {"raw": line, "oracle": re.findall(r"!oracle (\S+)", line)}
    for m in re.finditer(r"(\w+)=(\S+)", line.split(" !oracle")[0]):
        out[m.group(1)] = m.group(2)
    for key in ("dec", "tdec", "alpha", "bias"):
        if key in out:
            out[key] = [float(x) for x in out[key].split(",") if x != ""]
    return out


def centre(vals, outputs):
    res = []
    for j in range(0, len(vals), outputs):
        blk = vals[j:j + outputs]; mu = sum(blk) / len(blk)
        res += [v - mu for v in blk]
    return res


def run_harness_lines(exe, ops, timeout=60):
    e = dict(os.environ); e["OMP_NUM_THREADS"] = "1"
    e.setdefault("ASAN_OPTIONS", "detect_leaks=0:abort_on_error=0")
    try:
        p = subprocess.run([exe], input="\n".join(ops) + "\n", capture_output=True, text=True, errors="replace", env=e, timeout=timeout)
    except subprocess.TimeoutExpired as ex:
        out = ex.stdout.decode(errors="replace") if isinstance(ex.stdout, bytes) else (ex.stdout or "")
        return -99, out.splitlines(), f"runtime error: harness did not finish within {timeout}s"
    return p.returncode, p.stdout.splitlines(), p.stderr[-3000:]


def dispatch_table(drv):
    """the decision logic generated from CSvmTrainer::train, evaluated by the driver"""
    ops = [f"dispatch {k} {F}" for k in range(2, 6) for F in FORMS]
    out = subprocess.run([drv], input="\n".join(ops) + "\n", capture_output=True, text=True).stdout.splitlines()
    return {(int(o.split()[1]), o.split()[2]): l for o, l in zip(ops, out)}


def train_tolerance(ds, pts, j, kern, gap, epsf, bias):
    return 2 * math.sqrt(2 * gap) * math.sqrt(max(kxx(ds, pts, j, kern), 0.0)) + (epsf if bias else 0.0) + 1e-9


def check_train_group(ctx, exe, ds, F, bias, C, eps, kern, cfgs, disp=None):
    """one data set, one formulation, one bias setting, several configurations (first = base).
    Returns (key, what, replay_ops) of the first violation or (None, '', ops)."""
    n, k = ds["n"], ds["k"]
    ops = list(ds["ops"])
    for (shr, cache, perm, batch) in cfgs:
        ops.append(f"train {F} {bias} {shr} {cache} {C} {eps} {perm} {batch} {kern}")
    rc, lines, err = run_harness_lines(exe, ops)
    ctx.count("train_runs", len(cfgs)); ctx.count("evaluations", len(cfgs))
    ctx.hist("train_formulation", F + ("+b" if bias else ""))
    res = [parse_train(l) for l in lines[2:]]
    tag = F + ("+b" if bias else "")
    if rc == -99 and F in SIMPLEX and k > 2:
        # with offset the BiasSolver re-runs the inner solver until it is eps-KKT: if the inner solver stalls this never ends
        return (f"F-C16-4:simplex-solver-stalls:{tag}", f"QpMcSimplexDecomp-based training did not finish: {err[-200:]}", ops)
    if rc != 0 or len(res) != len(cfgs):
        m = re.search(r"ERROR: AddressSanitizer: (\S+)|runtime error: ([^\n]*)", err)
        return f"crash:train:{(m.group(1) or m.group(2)) if m else 'abort'}:{F}", f"trainer harness aborted: {err[-400:]}", ops
    P = FORM_P[F](k) if k > 2 else 1
    epsf, Cf = float(eps), float(C)
    gap = epsf * n * P * Cf
    outputs = int(res[0].get("outputs", "1"))
    for cfg, rr in zip(cfgs, res):
        ctx.hist("train_path", rr.get("path", "?"))
        # the path taken by the real trainer (verified inside the harness by the decision-map / two-class /
        # OVA oracles) must be the one the generated decision logic predicts
        if disp is not None:
            want = disp.get((k, F), "?")
            got = "path=" + rr.get("path", "?")
            if rr.get("path") == "mc":
                got += f" fam={rr.get('fam')} stz={rr.get('stz')} simplex={rr.get('simplex')}"
            if not want.startswith(got):
                return f"oracle:dispatch:{F}", f"trainer took {got!r}, generated decision logic says {want!r}", ops
        capped = F in SIMPLEX and k > 2 and int(rr.get("iters", "0")) >= ITER_CAP
        if capped and (rr["oracle"] or ("kkt" in rr and float(rr["kkt"]) > epsf * (1 + 1e-6) + 1e-9 * (1 + Cf * n))):
            # some (inner) solve ran into the iteration limit: with offset the BiasSolver then sees a shrunk problem whose
            # checkKKT() only looks at the active examples and stops although the true KKT violation is large
            return (f"F-C16-4:simplex-solver-stalls:{tag}",
                    f"QpMcSimplexDecomp stalls: config {cfg} used {rr.get('iters')} iterations (limit {ITER_CAP} per solve), reported accuracy {rr.get('acc')}, "
                    f"independently recomputed KKT violation {rr.get('kkt', '?')} (eps {eps}), dual value {rr.get('value')}", ops)
        if rr["oracle"] == ["solver-did-not-reach-accuracy"] and F in SIMPLEX and k > 2:
            return (f"F-C16-4:simplex-solver-stalls:{tag}",
                    f"QpMcSimplexDecomp stalls: config {cfg} stopped at the iteration limit ({rr.get('iters')} iterations) with KKT violation {rr.get('acc')} "
                    f"(eps {eps}), dual value {rr.get('value')}; other configurations of the same problem converge", ops)
        if rr["oracle"]:
            return (f"oracle:{'+'.join(sorted(set(rr['oracle'])))}:{tag}",
                    f"trainer-level oracle failed for config {cfg}: {rr['raw'][-300:]}", ops)
        # independently recomputed KKT violation / dual objective of the raw dual variables
        if "kkt" in rr and float(rr["kkt"]) > epsf * (1 + 1e-6) + 1e-9 * (1 + Cf * n):
            return f"oracle:kkt-not-reached:{tag}", f"recomputed KKT violation {rr['kkt']} > eps {eps} for config {cfg}", ops
        if "obj" in rr and not bias and abs(float(rr["obj"]) - float(rr["value"])) > 1e-7 * (1 + abs(float(rr["obj"]))):
            return f"oracle:objective-mismatch:{F}", f"reported dual objective {rr['value']} vs recomputed {rr['obj']} for config {cfg}", ops
    b0 = res[0]
    for cfg, rr in zip(cfgs[1:], res[1:]):
        worst = 0.0
        # binary machine with offset: when no support vector is free the optimal offset is an interval, so two exact
        # optimisers may differ by a constant; the common shift over all evaluation points is removed before comparing
        # (that each offset lies in its KKT interval is C07's bias_in_kkt_interval, not checked here)
        shift = [0.0] * outputs
        if bias and (outputs == 1 or F == "OVA"):
            # (one-versus-all: one binary machine, hence one offset, per output)
            allA, allB = b0["dec"] + b0["tdec"], rr["dec"] + rr["tdec"]
            for c in range(outputs):
                dd = sorted(a - b for a, b in zip(allA[c::outputs], allB[c::outputs]))
                shift[c] = dd[len(dd) // 2]
                if abs(shift[c]) > 1e-6: ctx.count("binary_offset_shift_removed")
        # equality-constrained binary machines: the offset shift is only ESTIMATED: median_j(delta f_j) = delta b + median_j(<delta w, x_j>),
        # so it is off by at most |delta w| * max_j sqrt(k(x_j,x_j)); that term is added to the tolerance of every point
        # (without it a point at the origin of a linear kernel, k(x,x) = 0, is compared with a tolerance of eps only)
        kref = max([kxx(ds, ds["probes"], j, kern) for j in range(ds["m"])] + [kxx(ds, ds["xs"], j, kern) for j in range(n)] + [0.0])
        shift_slack = 2 * math.sqrt(2 * gap) * math.sqrt(max(kref, 0.0))
        for name, pts, cnt in (("dec", ds["probes"], ds["m"]), ("tdec", ds["xs"], n)):
            va, vb = b0[name], [x + shift[t % outputs] for t, x in enumerate(rr[name])]
            if F in CENTRED and k > 2 and outputs > 1:
                va, vb = centre(va, outputs), centre(vb, outputs)
            for j in range(cnt):
                tol = train_tolerance(ds, pts, j, kern, gap, epsf, bias)
                if bias and (outputs == 1 or F == "OVA"):
                    tol = 2 * tol + shift_slack
                for c in range(outputs):
                    dev = abs(va[j * outputs + c] - vb[j * outputs + c])
                    worst = max(worst, dev / tol)
        ctx.hist("train_dev_over_tol", "<=0.01" if worst <= 0.01 else "<=0.1" if worst <= 0.1 else "<=1" if worst <= 1 else ">1")
        if F != "OVA" and abs(float(b0["value"]) - float(rr["value"])) > 2 * gap + 1e-9 * (1 + abs(float(b0["value"]))):
            worst = max(worst, 1e6)
        if worst > 1:
            two = list(ds["ops"]) + [ops[2], ops[2 + cfgs.index(cfg)]]
            if bias and k > 2 and F != "OVA":
                return (f"F-C16-2:mc-bias-path-dependent:{F}",
                        f"multi-class SVM with offset: decision function / dual value depends on the configuration beyond the solver accuracy "
                        f"(base {cfgs[0]} value={b0['value']} vs {cfg} value={rr['value']}, deviation/tolerance={worst:.3g})", two)
            return (f"oracle:config-dependent:{tag}",
                    f"decision function depends on the configuration beyond the solver accuracy: base {cfgs[0]} vs {cfg}, "
                    f"deviation/tolerance={worst:.3g}, values {b0['value']} / {rr['value']}", two)
    return None, "", ops


def check_linear_vs_kernel(ctx, exe, ds, F, C, eps):
    """linear kernel, no offset: the kernel solver (dual decomposition) and the dedicated linear solver solve the same
    problem; their dual objective values (= primal optimum, strong duality) and decision values must agree within
    the bound given by the two solver accuracies"""
    n, k = ds["n"], ds["k"]
    ops = list(ds["ops"]) + [f"train {F} 0 1 -1 {C} {eps} 0 256 lin", f"ltrain {F} 0 {C} {eps} 0 256 7",
                             f"ltrain {F} 0 {C} {eps} 1 3 11"]
    rc, lines, err = run_harness_lines(exe, ops)
    ctx.count("linear_vs_kernel_runs", 2); ctx.count("evaluations", 3)
    res = [parse_train(l) for l in lines[2:]]
    if rc != 0 or len(res) != 3:
        m = re.search(r"ERROR: AddressSanitizer: (\S+)|runtime error: ([^\n]*)", err)
        return f"crash:ltrain:{(m.group(1) or m.group(2)) if m else 'abort'}:{F}", f"linear trainer harness aborted: {err[-400:]}", ops
    if res[0]["oracle"] == ["solver-did-not-reach-accuracy"] and F in SIMPLEX and k > 2 and int(res[0].get("iters", "0")) >= ITER_CAP:
        return (f"F-C16-4:simplex-solver-stalls:{F}",
                f"QpMcSimplexDecomp stalls (linear kernel, no offset, shrinking on): {res[0].get('iters')} iterations, "
                f"recomputed KKT violation {res[0].get('kkt', '?')} (eps {eps}), dual value {res[0].get('value')}", ops)
    for rr in res:
        if rr["oracle"]:
            return f"oracle:{'+'.join(sorted(set(rr['oracle'])))}:{F}", f"oracle failed: {rr['raw'][-300:]}", ops
    P = FORM_P[F](k) if k > 2 else 1
    epsf, Cf = float(eps), float(C)
    gap = epsf * n * P * Cf
    outputs = len(res[0]["dec"]) // ds["m"]
    kv = float(res[0]["value"])
    for rr in res[1:]:
        worst = 0.0
        for name, pts, cnt in (("dec", ds["probes"], ds["m"]), ("tdec", ds["xs"], n)):
            va, vb = res[0][name], rr[name]
            if len(va) != len(vb):
                return f"oracle:linear-vs-kernel-shape:{F}", f"different number of outputs: {len(va)} vs {len(vb)}", ops
            if F in CENTRED and k > 2 and outputs > 1:
                va, vb = centre(va, outputs), centre(vb, outputs)
            for j in range(cnt):
                tol = 2 * train_tolerance(ds, pts, j, "lin", gap, epsf, 0)
                for c in range(outputs):
                    worst = max(worst, abs(va[j * outputs + c] - vb[j * outputs + c]) / tol)
        ctx.hist("linear_vs_kernel_dev_over_tol", "<=0.01" if worst <= 0.01 else "<=0.1" if worst <= 0.1 else "<=1" if worst <= 1 else ">1")
        dv = abs(kv - float(rr["value"]))
        if F not in ("OVA", "RS") and dv > 4 * gap + 1e-9 * (1 + abs(kv)):
            worst = max(worst, 1e6)
        if worst > 1:
            return (f"oracle:linear-vs-kernel:{F}",
                    f"kernel solver (linear kernel) and dedicated linear solver disagree beyond the solver accuracy: dual values {kv} / {rr['value']}, "
                    f"deviation/tolerance={worst:.3g}", ops)
    return None, "", ops


def check_model_reuse(ctx, exe, ds, F, bias, C, eps, kern, r):
    """re-use of a model object (multi-step history): k-class training followed by two-class training of the SAME
    KernelClassifier over the same inputs must give what a fresh model gives, and vice versa"""
    cfgs = [(0, -1), (1, 2 * ds["n"])]
    ops = list(ds["ops"]) + [f"retrain {F} {bias} {shr} {cache} {C} {eps} {kern} {r.below(ds['k'])}" for shr, cache in cfgs]
    rc, lines, err = run_harness_lines(exe, ops, timeout=120)
    ctx.count("model_reuse_runs", len(cfgs)); ctx.count("evaluations", len(cfgs))
    res = [parse_train(l) for l in lines[2:]]
    if rc != 0 or len(res) != len(cfgs):
        if rc == -99 and bias:
            return None, "", ops       # offset training that does not terminate is F-C16-2/4 (reported by the sweeps)
        m = re.search(r"ERROR: AddressSanitizer: (\S+)|runtime error: ([^\n]*)", err)
        return f"crash:retrain:{(m.group(1) or m.group(2)) if m else 'abort'}:{F}", f"model re-use harness aborted: {err[-400:]}", ops
    for rr in res:
        if rr["oracle"]:
            return (f"oracle:{'+'.join(sorted(set(rr['oracle'])))}:{F}",
                    f"the result of training depends on the history of the model object: {rr['raw'][-300:]}", ops)
    return None, "", ops


def report_train(ctx, exe, seen, key, what, ops):
    k0 = ":".join(key.split(":")[:2])
    if k0 in seen: return
    seen.add(k0)
    ctx.violation(key, {"kind": "train", "harness_cmd": [exe], "ops": ops}, True, what)


def parse_train_corpus(c):
    """corpus case: `data`, `probes`, then `train` lines (first = base configuration)"""
    a = list(map(int, c[0].split()[1:])); n, d, k = a[0], a[1], a[2]
    pr = list(map(int, c[1].split()[1:]))
    ds = dict(n=n, d=d, k=k, m=pr[0], xs=a[3:3 + n * d], ys=a[3 + n * d:], probes=pr[1:], ops=c[:2])
    ts = [l.split() for l in c[2:]]
    F, bias, C, eps, kern = ts[0][1], int(ts[0][2]), ts[0][5], ts[0][6], ts[0][9]
    cfgs = [(int(t[3]), int(t[4]), int(t[7]), int(t[8])) for t in ts]
    return ds, F, bias, C, eps, kern, cfgs


def trainer_sweeps(ctx, exe, nds, disp=None, corpus=()):
    """all formulations x bias x shrinking x cache x permutation x batch size on small integer-point data sets;
    decision values compared across configurations within the bound that follows from the solver accuracy:
    two eps-KKT points of the same concave dual have objectives within eps*sum(U-L) of the optimum, hence weight
    vectors within sqrt(2*gap) of the optimal one, hence |f(x)-f'(x)| <= 2*sqrt(2*eps*n*P*C)*sqrt(k(x,x))
    (for the formulations whose M is the centred Gram matrix: of the centred decision values)."""
    r = ctx.rng.fork("c16-train")
    seen = set()
    for c in corpus:
        ds, F, bias, C, eps, kern, cfgs = parse_train_corpus(c)
        key, what, ops = check_train_group(ctx, exe, ds, F, bias, C, eps, kern, cfgs, disp)
        ctx.count("corpus_train_cases")
        if key: report_train(ctx, exe, seen, key, what, ops)
    # targeted: strong regularisation, sum-constrained formulations, linear kernel: examples sit on the face sum alpha = C and are released
    # later; kernel solver vs dedicated linear solver must still agree (seeded change C16-mclinear-cs-kkt-on-simplex-face)
    for _ in range(8 if ctx.quick else 40):
        ds = gen_dataset(r, False)
        if ds["k"] < 3: continue
        C = r.choice(["0.05", "0.125", "0.02"])
        for F in ("CS", "ATM", "ADM"):
            key, what, ops = check_linear_vs_kernel(ctx, exe, ds, F, C, "1e-5")
            ctx.count("linear_vs_kernel_small_C_runs")
            if key: report_train(ctx, exe, seen, key, what, ops)
    for _ in range(nds):
        if len(seen) >= 3:
            ctx.log("trainer sweeps: three distinct violations already reported, stopping the sweep early")
            break
        ds = gen_dataset(r, ctx.quick)
        n, k = ds["n"], ds["k"]
        kern = r.choice(["lin", "lin", "poly", "rbf"])
        C = r.choice(["0.5", "1", "2", "4", "0.125", "0.05"])      # incl. strong regularisation (examples sit at sum alpha = C)
        eps = r.choice(["1e-3", "1e-3", "1e-5"])
        forms = FORMS if not ctx.quick else [r.choice(FORMS) for _ in range(4)]
        ctx.hist("train_classes", k); ctx.hist("train_examples", n); ctx.hist("train_kernel", kern); ctx.hist("train_eps", eps)
        for F in forms:
            for bias in (0, 1):
                if bias and eps != "1e-3":
                    continue          # the Rprop offset loop at tighter accuracies takes minutes per run
                base = (0, -1, 0, 256)
                cfgs = [base, (1, -1, 0, 256), (0, 2 * n, 0, 256), (1, 3 * n + 1, 1, 256), (1, n * n, r.range(2, 1 << 20), 3),
                        (0, -1, r.range(2, 1 << 20), 1), (1, 2 * n, 1, 256)]
                if ctx.quick: cfgs = cfgs[:2] + [r.choice(cfgs[2:]) for _ in range(2)]
                key, what, ops = check_train_group(ctx, exe, ds, F, bias, C, eps, kern, cfgs, disp)
                if key: report_train(ctx, exe, seen, key, what, ops)
            if kern == "lin":
                key, what, ops = check_linear_vs_kernel(ctx, exe, ds, F, C, eps)
                if key: report_train(ctx, exe, seen, key, what, ops)
        if k > 2:
            F = r.choice(FORMS)
            key, what, ops = check_model_reuse(ctx, exe, ds, F, 0 if eps != "1e-3" else r.below(2), C, eps, kern, r)
            ctx.hist("model_reuse_formulation", F)
            if key: report_train(ctx, exe, seen, key, what, ops)


def run(ctx):
    ctx.trusted += ["translator translate/mcsvm_tables.py (C++ subset parser; every generated table is also compared with the real arrays, "
                    "the generated decision logic with the path the real trainer takes)",
                    "correspondence harnesses harness/c16.cpp, c16s.cpp, c16x.cpp, c16l.cpp + generators/tolerances in checks/c16.py, checks/c16_mclin.py",
                    "hand-written models Model/McSmo.lean, McSolve.lean (QpMcBoxDecomp.h, QpSolver.h, AnalyticProblems.h), McSimplex.lean (QpMcSimplexDecomp.h), McBias.lean, McLinear.lean (QpBoxLinear.h), "
                    "McLinearMc.lean (QpMcLinear.h): modelled, not translated; the drivers re-tabulate state vectors between operations / loop passes",
                    "ASan/UBSan runtime for the real code's memory safety (not a theorem)"]
    ctx.assumptions += ["exact arithmetic (Rat) in all theorems; the Float instance of the same definitions is what is compared bit for bit with the C++",
                        "kernel matrix symmetric (QSym) for mc_grad_inv; operations respect the C++ preconditions (Op.valid)",
                        "trainer-level tolerances follow from the KKT accuracy bound for a concave dual with PSD Q = M (x) K (kkt_eps_near_optimal is C07's theorem; "
                        "used here as the formula for the tolerance, not re-proved)"]
    translate(ctx)
    ctx.prove(["SharkVerif.Props.C16", "SharkVerif.Lemmas.McLinearMcSum", "SharkVerif.Lemmas.McLinearEpoch"])
    if not ctx.quick:
        ctx.leanchecker(["SharkVerif.Props.C16"])
    exe = build(ctx)
    drv = ctx.driver("drv_c16")
    if not exe or not drv:
        return
    corpus = load_corpus()
    ctx.cov["corpus_cases"] = len(corpus)
    cases = table_cases(ctx)
    ctx.cov["evaluations"] = len(cases)
    ctx.cov["distinct_nontrivial"] = len(cases)
    core.correspond(ctx, "K-C16-tables", cases, [exe], [drv], classify, keep_prefix=0)
    # decomposition-class op sequences
    r = ctx.rng.fork("c16-box")
    nbox, maxlen = (800, 50) if ctx.quick else (3000, 150)
    bcases = [c for c in corpus if c[0].startswith("box")]
    bcases += [gen_box_case(r, maxlen, ctx) for _ in range(nbox)]
    for c in bcases:
        for o in c: ctx.hist("op_mix", o.split()[0])
        ctx.hist("history_length", min(len(c) // 20 * 20, 400))
    ctx.cov["evaluations"] += len(bcases)
    ctx.cov["distinct_nontrivial"] += len({"\n".join(c) for c in bcases if len(c) > 3})
    ctx.sample({"box_ops": bcases[len(bcases) // 2][:8]})
    correspond_box(ctx, "K-C16-box", bcases, [exe], [drv])
    # the same for QpMcSimplexDecomp (CS / ATM / ADM / MMR) incl. whole runs of QpSolver::solve
    rx = ctx.rng.fork("c16-sx")
    # (corpus cases of the listed finding F-C16-4 run as their own batch, so that the big batch normally stays on the fast path)
    xcorp = [c for c in corpus if c[0].startswith("sbox")]
    if xcorp:
        ctx.cov["evaluations"] += len(xcorp)
        correspond_box(ctx, "K-C16-simplex-corpus", xcorp, [exe], [drv])
    xcases = [gen_sx_case(rx, maxlen, ctx) for _ in range(500 if ctx.quick else 2500)]
    xcases += [gen_sx_near_case(rx, maxlen, ctx) for _ in range(60 if ctx.quick else 400)]
    for c in xcases:
        for o in c: ctx.hist("sx_op_mix", o.split()[0])
    ctx.cov["evaluations"] += len(xcases)
    ctx.cov["distinct_nontrivial"] += len({"\n".join(c) for c in xcases if len(c) > 3})
    ctx.sample({"simplex_ops": xcases[len(xcases) // 2][:6]})
    correspond_box(ctx, "K-C16-simplex", xcases, [exe], [drv])
    # dedicated multi-class linear solvers QpMcLinear{WW,LLW,ATS,MMR,Reinforced,CS,ATM,ADM}: the per-example step
    # (calcGradient / solveSub / updateWeightVectors of the real classes) along arbitrary schedules
    rl = ctx.rng.fork("c16-mclin")
    mcases = [c for c in corpus if c[0].startswith("mldata")]
    mcases += [c16_mclin.gen_mclin_case(rl, 6 if ctx.quick else 12, ctx) for _ in range(600 if ctx.quick else 3500)]
    ctx.cov["evaluations"] += len(mcases)
    ctx.cov["distinct_nontrivial"] += len({"\n".join(c) for c in mcases})
    ctx.sample({"mclinear_ops": mcases[len(mcases) // 2][:4]})
    correspond_box(ctx, "K-C16-mclinear", mcases, [exe], [drv], max_report=8)
    # whole runs of QpMcLinear::solve (ACF schedule from the observed random draws, preference update, stopping rule):
    # pass 1 records the draws / shuffled schedules of a replica that is validated against the real solve() bit for bit
    re_ = ctx.rng.fork("c16-epoch")
    ecases = [c16_epoch.gen_epoch_case(re_, ctx) for _ in range(150 if ctx.quick else 1200)]
    ecases = c16_epoch.add_traces(exe, ecases, ctx)
    ctx.cov["evaluations"] += len(ecases)
    ctx.cov["distinct_nontrivial"] += len({"\n".join(c) for c in ecases})
    correspond_box(ctx, "K-C16-mclinear-epoch", ecases, [exe], [drv], max_report=8)
    # dedicated linear solver, one-epoch sweeps along the observed schedule
    lcases = [gen_linear_case(r, 6 if ctx.quick else 25, ctx) for _ in range(300 if ctx.quick else 1500)]
    lcases = add_schedules(exe, lcases)
    ctx.cov["evaluations"] += len(lcases)
    ctx.cov["distinct_nontrivial"] += len({"\n".join(c) for c in lcases})
    ctx.sample({"linear_ops": lcases[0][:4]})
    correspond_box(ctx, "K-C16-linear", lcases, [exe], [drv])
    # trainer level
    tcorp = [c for c in corpus if c[0].startswith("data")]
    trainer_sweeps(ctx, exe, 50 if ctx.quick else 150, dispatch_table(drv), tcorp)
    ctx.sample({"theorems": ["M_is_gram_of_nu", "mc_tables_inv", "mc_box_inv", "mc_grad_inv", "solve_run_invariants", "solve_never_stuck_box",
                             "solve_generated_near_optimal", "solve_generated_configuration_invariant", "simplex_run_invariants", "simplex_stop_is_kkt",
                             "bias_loop_consistent", "bias_loop_consistent_simplex", "simplex_run_renumbers", "decision_map_quadratic", "stopped_configurations_close_decision", "mc_linear_invariants",
                             "two_class_dispatch", "ova_is_binary_per_class", "linear_w_inv", "linear_box_inv", "linear_step_gain_nonneg_partial"]})


def replay_train(ctx, exe, ops, report=False):
    """corpus / replay of a trainer-level case: data, probes, base config, other config"""
    rc, lines, err = run_harness_lines(exe, ops)
    res = [parse_train(l) for l in lines[2:]]
    bad = rc != 0 or any(r["oracle"] for r in res)
    vals = [r.get("value") for r in res]
    devs = []
    if len(res) >= 2 and "dec" in res[0]:
        devs = [max(abs(a - b) for a, b in zip(res[0]["dec"], r["dec"])) for r in res[1:]]
    print(f"train replay: rc={rc} values={vals} max decision deviations vs first config={devs} oracle={[r['oracle'] for r in res]}")
    if report:
        ctx.count("corpus_train_cases")
    return bad, vals, devs


def replay(ctx, rep):
    exe = build(ctx); drv = ctx.driver("drv_c16")
    if rep.get("kind") == "train":
        bad, vals, devs = replay_train(ctx, exe, rep["ops"])
        print("FAILS" if bad or any(d > 1e-2 for d in devs) else "OK")
        return 1 if bad or any(d > 1e-2 for d in devs) else 0
    if rep.get("kind") == "box":
        rb = run_box(ctx, [exe], [drv], rep["ops"])
        print("\n".join(f"impl : {a[:300]}\nmodel: {b[:300]}" for a, b in zip(rb.impl, rb.model)))
        print("OK" if rb.ok else "FAILS"); return 0 if rb.ok else 1
    res = core.run_case(ctx, rep.get("harness_cmd", [exe]), [drv], rep["ops"])
    print("\n".join(f"impl : {a}\nmodel: {b}" for a, b in zip(res.impl, res.model)))
    print("stderr:", res.stderr[-2000:])
    print("OK" if res.ok else "FAILS")
    return 0 if res.ok else 1
