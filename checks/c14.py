"""C14 — multi-objective optimizers keep a consistent, feasible, elitist population:
theorems about the selection model (Props/C14.lean) + correspondence K-C14 (selection on integer
populations, exact) + oracle runs of the real optimizers (harness/c14_opt.cpp)."""
import os, re
from vlib import core
from checks import c13 as C13

TRUST = ("Lean 4.33 kernel; axioms at most propext/Classical.choice/Quot.sound (audited per run); "
         "hand-written selection model tied to the C++ by the exact correspondence harness (differential, generator-bounded); ")
MANIFEST = dict(
  text=("Theorems (Props/C14.lean, 28) about executable Lean models tied to the real classes. Selection: for every rank vector (duplicates, single front, "
        "mu = n), every 1 <= mu <= n, IndicatorBasedSelection marks exactly mu individuals, never keeps a worse non-domination rank while discarding a "
        "better one, keeps whole better fronts; the hypothesis 'the indicator returns K distinct positions of the front' is now DISCHARGED for the modelled "
        "indicators: the leastContributors loop shared by HypervolumeIndicator / CrowdingDistance / AdditiveEpsilonIndicator returns K distinct positions for "
        "every leastContributor that returns a valid position, and the models of the hypervolume indicator (2-D/3-D with reference point on top of the C13 "
        "hypervolume models, 2-D without), the epsilon indicator and the crowding distance (for every arithmetic, incl. IEEE doubles with NaN) do. "
        "ElitistSelection keeps the mu best for every tie order. PenalizingEvaluator: for every objective, box, penalty factor and point the stored value is "
        "f(closest feasible point), the penalised value adds alpha*|x - closest|^2, the closest feasible point is feasible. TournamentSelection: the winner is a "
        "drawn candidate of best rank, for every stream of draws. Population updates of MO-CMA-ES, steady-state MO-CMA-ES, SMS-EMOA, NSGA-II, NSGA-III "
        "(generational update), MOEA/D (Tchebycheff replacement in the neighbourhood) and RVEA (reference-vector guided selection + truncation): the result "
        "has exactly mu members and every member carries point and fitness vectors of a parent or offspring; composed over whole runs (any number of steps, "
        "arbitrary variation operators and random streams): |population| = mu, value = f(closest feasible point) for every member at every step, and, "
        "when the variation is followed by the clamp of SBX/polynomial mutation, every point inside the box. libstdc++'s std::partition + erase keeps exactly the "
        "selected individuals, and composed with the count theorem (generational_update_elitist, no hypothesis on the flags): NSGA-II/NSGA-III/MO-CMA-ES keep exactly the mu "
        "marked individuals and no marked individual has a worse rank than a discarded one. Steady-state hypervolume monotonicity is composed END TO END for the "
        "modelled SMS-EMOA step (append offspring, IndicatorBasedSelection, replace the first unselected parent), every number of objectives, every population and "
        "offspring strictly below the fixed reference point, and every leastContributor routine that returns a position of minimal contribSpec on fronts "
        "(steady_update_hv_monotone_partial, any number of objectives); for 2 objectives the hypothesis on the indicator is DISCHARGED for the model of the real "
        "HypervolumeIndicator (hvLeastRef_least_contributor_2d, via C13's contribs2dGo_eq_spec): steady_update_hv_monotone (SMS-EMOA), ssmocma_update_hv_monotone "
        "(steady-state MO-CMA-ES, through the proved permutation sortRankOneToFront), steady_run_hv_monotone (whole runs). NSGA-III: the niche-selection loop "
        "(nsga3Least) returns K distinct positions of the front for EVERY outcome of the floating-point association step, hence exactly mu marked and the update keeps "
        "exactly the marked individuals (nsga3_update_elitist; generational_update_elitist_any_indicator). "
        "Tie: exact correspondence on integer populations for selection with exact flags (which individual the indicator discards), evaluator, tournament "
        "(rng draws observed), and state-by-state for multi-step histories of updatePopulation() of the real SMSEMOA, SteadyStateMOCMA, MOCMA, "
        "IndicatorBasedRealCodedNSGAII<HV|Eps|Crowding>, RealCodedNSGAIII, MOEAD, RVEA objects (offspring from the real generateOffspring(), points/fitness overwritten by "
        "integers); NSGA-III's association step is observed through a replica of the C++ float code in the harness (a wrong replica shows as mismatch of the real "
        "indicator's choice); independent brute-force oracle: every member the hypervolume indicator discards is a least contributor (ties allowed, 2-3 objectives, "
        "with/without reference); independent oracles for size, solution() mirror, survivors from the pool, rank elitism, hypervolume monotonicity; plus oracle-checked "
        "runs of the seven real optimizers on ZDT/DTLZ (init with own / fewer / exactly mu / more start points)."),
  note=TRUST + "NOT proved / assumed: (1) hypervolume monotonicity for 3 objectives stays _partial (hypothesis: the 3-D routine returns a least contributor; tied by exact "
       "correspondence, the brute-force least-contributor oracle and the exact hvdecrease oracle); all hypervolume theorems require every fitness vector strictly below the "
       "reference point (members on/beyond it are tied by correspondence and oracle only); (2) NSGA-III: that the model's 'first direction of minimal niche count among those with a "
       "remaining point' equals the C++ retire-and-retry loop is tied by exact correspondence, not proved; niche-count consistency is not stated as a theorem; "
       "(3) libstdc++ tie behaviour is part of the model WHERE THE C++ RESULT DEPENDS ON IT: crowding distance (std::sort on keys: which of several equal keys gets the boundary "
       "distance), hypervolume indicator (lexicographic std::sort permutes only identical points; size-1 heap keeps the last of several equal contributions; 3-D sorts contributions), "
       "std::partition (order of the survivors); fronts of these indicators are generated with <= 16 elements (insertion-sort regime). The epsilon indicator and the NSGA-III niche "
       "selection do not pass through std::sort and are generated with fronts up to 28; no tie-order independence theorem was proved in this round; "
       "(4) RVEA/MOEA-D: the floating-point parts (cosines, angle-penalised distances, lattice neighbourhoods by std::sort) and the rng draws of the "
       "tournament enter the model as observed inputs (aux pass of the harness, re-verified in the comparison pass); reference-vector adaptation not modelled; "
       "(5) variation operators (SBX, polynomial mutation, CMA sampling/step-size adaptation) are arbitrary parameters, their clamp is an assumption read off the "
       "C++ and checked only by the box oracle of the real runs; BoxConstraintHandler::isFeasible has a 1e-13 tolerance (irrelevant on integers); "
       "(6) tie orders: std::sort on <= 16 elements is libstdc++'s stable insertion sort, the size-1 heap of HypervolumeContribution2D keeps the last minimal entry "
       "(libstdc++ push_heap): the generator keeps fronts <= 16; hypervolume indicator without reference in 3-D is compared through the count only "
       "(documented out-of-range erase in HypervolumeContribution3D::smallest, findings_proposed/C14.md).",
  technique="Lean 4 proofs about the selection/indicator/evaluator/update models + exact differential correspondence (state by state, observed rng) + oracle-checked runs of the real optimizers (ASan/UBSan)",
  design="§6 C14")

FINISH = dict(level="proof",
              rule="integer populations (2-3 objectives, 1..14 individuals, duplicates, single-front and many-front populations, every 1 <= mu <= n, fresh / stale / "
                   "all-true flags before the call) for 5 indicators with exact flags; elitist selection on tied keys; evaluator on in/out/edge/far points; tournaments of "
                   "size 1..5; update histories (8 algorithm instances, mu 1..9, 1..12 steps, duplicate/dominating/dominated/penalised offspring, with and without reference point); optimizer runs: 7 algorithms x ZDT/DTLZ problems x 2-3 objectives x mu in 3..20 x "
                   "refmode 0/1 x 20..300 steps from one SplitMix64 stream; a selection case is non-trivial if the last front is cut (0 < K); distinct = distinct op text")

LAKE_TARGETS = ["SharkVerif.Props.C14", "drv_c14"]
SEL_SOURCES = ["src/Algorithms/DirectSearch/Operators/Lattice.cpp", "src/Core/Random.cpp"]
OPT_SOURCES = ["src/Algorithms/DirectSearch/MOEAD.cpp", "src/Algorithms/DirectSearch/RVEA.cpp"] + SEL_SOURCES

ALGOS = ["mocma", "ssmocma", "smsemoa", "nsga2", "nsga3", "moead", "rvea"]
PROBLEMS2 = ["zdt1", "zdt2", "zdt3", "zdt4", "zdt6", "dtlz1", "dtlz2", "dtlz4", "dtlz7"]
PROBLEMS3 = ["dtlz1", "dtlz2", "dtlz4", "dtlz7"]


def build(ctx):
    a = ctx.harness("c14", ["c14.cpp"], repo_sources=SEL_SOURCES)
    b = ctx.harness("c14_opt", ["c14_opt.cpp"], repo_sources=OPT_SOURCES)
    c = ctx.harness("c14_gen", ["c14_gen.cpp"], repo_sources=OPT_SOURCES)
    return a, b, c


UPD_ALGOS = ["smsemoa", "ssmocma", "nsga2", "nsga2eps", "nsga2hv", "nsga3", "mocma", "moead", "rvea"]
LATTICE3 = {3: 1, 6: 2, 10: 3, 15: 4}      # mu -> ticks for 3 objectives


def gen_pen(r, ctx):
    d = r.range(1, 4); m = r.range(1, 3); n = r.range(1, 8); alpha = r.choice([0, 1, 1, 2, 5])
    lo = [r.range(-4, 1) for _ in range(d)]; hi = [l + r.choice([0, 1, 3, 6]) for l in lo]
    A = [r.range(-3, 3) for _ in range(m * d)]; B = [r.range(0, 2) for _ in range(m)]
    pts = []
    for _ in range(n):
        mode = r.choice(["in", "out", "edge", "far"])
        for j in range(d):
            if mode == "in": pts.append(r.range(lo[j], hi[j]))
            elif mode == "edge": pts.append(r.choice([lo[j], hi[j], lo[j] - 1, hi[j] + 1]))
            elif mode == "far": pts.append(r.choice([-1, 1]) * r.range(50, 1000))
            else: pts.append(r.range(lo[j] - 5, hi[j] + 5))
        ctx.hist("pen_point_class", mode)
    ctx.hist("pen_alpha", alpha)
    return "pen " + " ".join(map(str, [alpha, d, m, n] + lo + hi + A + B + pts))


def gen_tour(r, ctx):
    k = r.choice([1, 2, 2, 2, 3, 5]); n = r.range(k + 1, k + 12); c = r.range(1, 6)
    ranks = [r.choice([1, 1, 2, 3]) if r.below(4) else 1 for _ in range(n)]
    ctx.hist("tour_size", k); ctx.hist("tour_all_equal_ranks", len(set(ranks)) == 1)
    return "tour " + " ".join(map(str, [r.range(1, 100000), k, n, c] + ranks))


def gen_upd(r, ctx, maxsteps):
    algo = r.choice(UPD_ALGOS)
    m = r.choice([2, 2, 3])
    hvbased = algo in ("smsemoa", "ssmocma", "nsga2hv", "mocma")
    ref = 1 if (hvbased and (m == 3 or r.below(2))) else 0
    if algo == "moead": mu = r.choice([3, 5, 9]) if m == 2 else r.choice([3, 6])
    elif algo in ("rvea", "nsga3"): mu = r.range(3, 7) if m == 2 else r.choice([3, 6])
    elif algo in ("mocma", "ssmocma"): mu = r.range(1, 7)
    else: mu = r.range(3, 7)
    T = r.range(1, min(mu, 4)) if algo == "moead" else 0
    d = r.range(1, 3); steps = r.range(1, maxsteps)
    w = r.choice([2, 3, 6, 12])
    def fit(): return [r.range(0, w) for _ in range(m)]
    parents = []
    for i in range(mu):
        f = parents[r.below(len(parents))][1] if parents and r.below(5) == 0 else fit()      # duplicates
        parents.append(([r.range(-3, 3) for _ in range(d)], f))
    pool = [p for p in parents]
    toks = [ref, mu, m, d, T, steps]
    if ref:
        # members beyond the reference point: in 2-D always, in 3-D only on a tree that passes the probe (finding F-C14-2)
        beyond = (m == 2 or REPAIRED["hv3d"]) and r.below(3) == 0
        toks += [(r.range(max(1, w - 3), w + 1) if beyond else w + 3 + r.below(3)) for _ in range(m)]
        ctx.hist("upd_reference_inside_cloud", beyond)
    for x, f in parents: toks += x + f
    c = 1 if algo in ("smsemoa", "ssmocma", "moead") else mu
    for _ in range(steps):
        toks.append(c)
        for _ in range(c):
            kind = r.choice(["new", "new", "new", "dup", "good", "bad"])
            ctx.hist("upd_offspring_class", kind)
            if kind == "dup": x, u = pool[r.below(len(pool))]; x, u = list(x), list(u)
            else:
                x = [r.range(-3, 3) for _ in range(d)]
                u = fit() if kind == "new" else ([0] * m if kind == "good" else [w] * m)
                if kind == "good": u[r.below(m)] = r.range(0, w)
            pen = r.choice([0, 0, 0, 1, 2]) if kind != "dup" else 0
            toks += x + [v + pen for v in u] + u
            pool.append((x, u))
    ctx.hist("upd_algo", algo); ctx.hist("upd_mu", mu); ctx.hist("upd_objectives", m); ctx.hist("upd_ref", ref)
    ctx.count("upd_steps_total", steps)
    return f"upd {algo} " + " ".join(map(str, toks))


def observe_aux(ctx, exe, lines):
    """first pass: the real code reports the auxiliary values that are inputs of the model (rng draws of the
    tournament, MOEA/D neighbourhoods, RVEA sub-group assignment and order of the angle-penalised distances);
    they are appended to the op (`aux ...`), and re-verified by the harness in the comparison pass"""
    import subprocess
    out, rest = [], list(lines)
    while rest:                      # a sanitizer abort only loses the aborting line
        p = subprocess.run([exe, "--aux"], input="\n".join(rest) + "\n", capture_output=True, text=True, timeout=900)
        got = p.stdout.split("\n")[:-1] if p.stdout.endswith("\n") else p.stdout.split("\n")
        got = got[:len(rest)]
        out += got
        if len(got) >= len(rest): break
        out.append(""); rest = rest[len(got) + 1:]
    res = []
    for l, a in zip(lines, out):
        a = a.strip()
        need = l.split()[0] == "tour" or l.split()[1] in ("moead", "rvea", "nsga3")
        res.append(l + " aux " + a if (a or need) else l)
    return res


REPAIRED = {"hv3d": False}     # set by the corpus probe in run(): does the tree survive a front member beyond the reference point?
PROBE_HV3D = "sel hvr 1 3 2 4 4 4 4 3 2 5 0 3"


def probe_hv3d(ctx, exe):
    """finding F-C14-2: on an unrepaired tree HypervolumeContribution3D reads out of bounds when a front member is not strictly
    below the reference point; the generator enters that region only where the probe input runs cleanly"""
    import subprocess
    try:
        p = subprocess.run([exe], input=PROBE_HV3D + "\n", capture_output=True, text=True, timeout=60)
        return p.returncode == 0 and p.stdout.startswith("ranks=")
    except Exception:
        return False


def gen_sel(r, ctx):
    ind = r.choice(["hv", "hv", "hvnoref", "crowd", "eps", "nsga3", "hvr", "hvr"])
    # (the harness starts from a fresh container, stale alternating marks or all-true marks depending on (n + mu) % 3)
    m = r.choice([2, 2, 3])
    # indicators whose C++ result does not pass through std::sort (epsilon indicator, NSGA-III niche selection) are also run on
    # fronts larger than 16; for the others the model contains libstdc++'s tie behaviour of std::sort (stable below 17 elements)
    n = r.range(1, 14) if ind not in ("eps", "nsga3") or r.below(2) else r.range(15, 28)
    w = r.choice([2, 3, 4, 6])
    P = C13.gen_points(r, m, n, w, r.choice([0, 1, 5]), r.choice(["mix", "dup", "front", "front"]))
    mu = r.choice([1, n, r.range(1, n)])
    ctx.hist("sel_indicator", ind); ctx.hist("sel_n", n); ctx.hist("sel_mu_eq_n", mu == n)
    ctx.hist("sel_flags_before", ["fresh", "stale-alternating", "all-true"][(n + mu) % 3] + ("/mu=n" if mu == n else ""))
    ctx.hist("sel_single_front", len(C13.nondominated(P)) == n)
    ctx.hist("sel_duplicates", len({tuple(p) for p in P}) < n)
    if ind == "hvr":
        # explicit reference point; members beyond it in 2-D always, in 3-D only on a tree that passes the probe
        beyond = (m == 2 or REPAIRED["hv3d"]) and r.below(3) != 0
        ref = []
        for d in range(m):
            lo_d = min(p[d] for p in P); hi_d = max(p[d] for p in P)
            ref.append(r.range(lo_d, hi_d + 1) if beyond else hi_d + 1 + r.below(3))
        ctx.hist("sel_hvr_member_beyond_reference", any(any(p[d] >= ref[d] for d in range(m)) for p in P))
        return f"sel hvr {mu} {m} {n} {' '.join(map(str, ref))} {C13.flat(P)}"
    return f"sel {ind} {mu} {m} {n} {C13.flat(P)}"


def gen_elit(r, ctx):
    n = r.range(1, 12); mu = r.range(0, n - 1)
    keys = [r.range(-3, 4) for _ in range(n)]
    ctx.hist("elit_n", n)
    return f"elit {mu} {n} {' '.join(map(str, keys))}"


def gen_opt(r, ctx, maxsteps):
    algo = r.choice(ALGOS)
    nobj = r.choice([2, 2, 3])
    prob = r.choice(PROBLEMS2 if nobj == 2 else PROBLEMS3)
    nvars = r.range(max(2, nobj), 6)
    mu = r.choice([3, 4, 5, 6, 8, 12, 20])
    steps = r.range(20, maxsteps)
    if algo in ("mocma", "nsga2", "nsga3", "moead", "rvea") and mu >= 12: steps = min(steps, 60)
    refmode = r.below(2)
    seed = r.range(1, 1000)
    ctx.hist("opt_algo", algo); ctx.hist("opt_problem", f"{prob}/{nobj}"); ctx.hist("opt_mu", mu); ctx.hist("opt_refmode", refmode)
    ctx.count("opt_steps_total", steps)
    initmode = r.choice([0, 0, 1, 2, 3]); ctx.hist("opt_initmode", initmode)
    return f"opt {algo} {prob} {nvars} {nobj} {mu} {seed} {steps} {refmode} {initmode}"


def classify(ops, res):
    t = ops[0].split()
    tag = t[0] + ":" + t[1] if t[0] in ("sel", "opt", "upd") else t[0]
    if res.crash:
        m = re.search(r"SUMMARY: \w+: (\S+)[^\n]*? in (?:\w+ )*(?:shark::)?(\w+)|runtime error: ([^\n]*)", res.stderr)
        k = (f"{m.group(1)}@{m.group(2)}" if m.group(1) else m.group(3)) if m else ("timeout" if "TIMEOUT" in res.stderr else "crash")
        return f"crash:{k}:{tag}", f"harness aborted ({k}) on {ops}"
    if res.oracle:
        m = re.search(r"!oracle (\S+)", res.oracle[0])
        return f"oracle:{m.group(1)}:{tag}", f"property oracle failed ({res.oracle[0][:300]}) on {ops}"
    return f"mismatch:{tag}", f"model and implementation disagree on {ops}: impl={res.impl[:1]} model={res.model[:1]}"


def shrink(line, fails, budget=40):
    t = line.split()
    if t[0] == "opt":
        steps = int(t[7])
        while steps > 1 and budget > 0:
            c = t[:7] + [str(max(1, steps // 2))] + t[8:]; budget -= 1
            if fails(" ".join(c)): steps //= 2; t = c
            else: break
        return " ".join(t)
    if t[0] == "sel":
        ind, mu, m, n = t[1], int(t[2]), int(t[3]), int(t[4]); nums = t[5:]
        ref = []
        if ind == "hvr": ref, nums = nums[:m], nums[m:]
        P = [nums[i * m:(i + 1) * m] for i in range(n)]
        mk = lambda mu_, Q: f"sel {ind} {mu_} {m} {len(Q)} " + " ".join(ref + [x for p in Q for x in p])
        changed = True
        while changed and budget > 0:
            changed = False
            for i in range(len(P) - 1, -1, -1):
                if len(P) <= 1: break
                Q = P[:i] + P[i + 1:]; mu2 = min(mu, len(Q)); budget -= 1
                if fails(mk(mu2, Q)): P, mu, changed = Q, mu2, True
                if budget <= 0: break
        return mk(mu, P)
    return line


def load_corpus(prefix):
    d = os.path.join(core.VERIF, "corpus", "C14")
    out = []
    if os.path.isdir(d):
        for fn in sorted(os.listdir(d)):
            out += [l.strip() for l in open(os.path.join(d, fn)) if l.strip() and not l.startswith("#") and l.split()[0] in prefix]
    return out


def run(ctx):
    ctx.trusted += ["correspondence harnesses harness/c14.cpp, harness/c14_gen.cpp, harness/c14_opt.cpp (independent oracles) + generator checks/c14.py",
                    "hand-written models Model/MOO.lean, Model/MOOInd.lean, Model/MOOStep.lean (the C++ is modelled, not translated); ranks from Model/Pareto.lean, hypervolume from Model/Hypervolume.lean (C13)",
                    "observed inputs of the model (rng draws, MOEA/D neighbourhoods, RVEA sub-groups / order of angle-penalised distances) are reported by the real code in a first pass and re-verified in the comparison pass",
                    "libstdc++ tie behaviour of std::sort (<= 16 elements), push_heap/pop_heap and std::partition is part of the model",
                    "ASan/UBSan runtime for the real code's memory safety (not a theorem)"]
    ctx.assumptions += ["1 <= mu <= population size (mu = 0 makes the C++ loop run forever; mu > n underflows popSize - mu)",
                        "tournament-based optimizers need mu >= 3 (TournamentSelection requires n > tournament size), lattice-based ones mu >= number of objectives",
                        "3 objectives: every generated fitness vector is strictly below the reference point of the hypervolume indicator UNLESS the tree passes the corpus probe of finding F-C14-2 (on /repo HEAD the 3-D contribution routine reads out of bounds otherwise); 2 objectives: members beyond the reference point are generated always",
                        "optimizer clauses are checked on the generated runs only (fixed seeds), benchmark functions are deterministic"]
    ctx.prove(["SharkVerif.Props.C14"])
    if not ctx.quick:
        ctx.leanchecker(["SharkVerif.Props.C14"])
    sel_exe, opt_exe, gen_exe = build(ctx)
    drv = ctx.driver("drv_c14")
    if not sel_exe or not opt_exe or not gen_exe or not drv:
        return
    r = ctx.rng.fork("c14")
    REPAIRED["hv3d"] = probe_hv3d(ctx, sel_exe)
    ctx.cov["probe_hv3d_reference_not_dominated_survives"] = REPAIRED["hv3d"]
    ctx.log(f"probe F-C14-2 (3-D contributions with a member beyond the reference point): {'repaired tree, region generated' if REPAIRED['hv3d'] else 'unrepaired, region not generated (corpus input reports the known finding)'}")
    nsel, nelit, nopt, maxsteps = (400, 60, 90, 120) if ctx.quick else (3000, 300, 500, 300)
    sel_lines = load_corpus(("sel", "elit")) + [gen_sel(r, ctx) for _ in range(nsel)] + [gen_elit(r, ctx) for _ in range(nelit)]
    opt_lines = load_corpus(("opt",)) + [gen_opt(r, ctx, maxsteps) for _ in range(nopt)]
    npen, ntour, nupd, updsteps = (60, 60, 260, 5) if ctx.quick else (400, 400, 2500, 12)
    gen_lines = load_corpus(("pen", "tour", "upd")) + [gen_pen(r, ctx) for _ in range(npen)] + [gen_tour(r, ctx) for _ in range(ntour)] + \
        [gen_upd(r, ctx, updsteps) for _ in range(nupd)]
    gen_lines = observe_aux(ctx, gen_exe, [l.split(" aux")[0] for l in gen_lines])
    ctx.cov["corpus_cases"] = len(load_corpus(("sel", "elit", "opt", "pen", "tour", "upd")))
    ctx.cov["evaluations"] = len(sel_lines) + len(opt_lines) + len(gen_lines)
    ctx.cov["distinct_nontrivial"] = len(set(sel_lines)) + len(set(opt_lines)) + len(set(gen_lines))
    ctx.sample({"upd_op": gen_lines[-1][:300]})
    ctx.sample({"sel_op": sel_lines[len(sel_lines) // 2][:160]}); ctx.sample({"opt_op": opt_lines[-1]})
    sel_lines = observe_aux(ctx, sel_exe, [l.split(" aux")[0] for l in sel_lines])      # NSGA-III association step observed
    ctx.count("sel_nsga3_association_outside_model", sum(1 for l in sel_lines if l.endswith(" aux nan") or (l.split()[1] == "nsga3" and l.endswith(" aux "))))
    C13.correspond_lines(ctx, "K-C14[selection]", sel_lines, [sel_exe], [drv], classify=classify, shrink=shrink)
    C13.correspond_lines(ctx, "K-C14[generation]", gen_lines, [gen_exe], [drv], classify=classify, shrink=shrink)
    C13.correspond_lines(ctx, "K-C14[optimizers]", opt_lines, [opt_exe], [drv], classify=classify, shrink=shrink, timeout=1500)


def replay(ctx, rep):
    sel_exe, opt_exe, gen_exe = build(ctx); drv = ctx.driver("drv_c14")
    exe = opt_exe if rep["ops"][0].startswith("opt") else (gen_exe if rep["ops"][0].split()[0] in ("pen", "tour", "upd") else sel_exe)
    res = core.run_case(ctx, [exe], [drv], rep["ops"])
    print("\n".join(f"op   : {o}\nimpl : {a}\nmodel: {b}" for o, a, b in zip(rep["ops"], res.impl, res.model)))
    print("stderr:", res.stderr[-2000:])
    print("OK" if res.ok else "FAILS")
    return 0 if res.ok else 1
