"""C05 — kernels: theorems (Props/C05.lean) + correspondence K-C05 between
Model/Kernels.lean (driver drv_c05, run at Rat and at Float) and the real Shark
kernel classes / Gram assembly (harness/c05.cpp, dense and sparse inputs)."""
import itertools, os, re
from fractions import Fraction
from vlib import core

TRUST = ("Lean 4.33 kernel; axioms at most propext/Classical.choice/Quot.sound (audited per run by #audit_module); "
         "hand-written model Model/Kernels.lean tied to the C++ by the correspondence harness (differential, generator-bounded); ")
MANIFEST = dict(
  text=("Theorems (Props/C05.lean) about the executable kernel model Model/Kernels.lean, for every kernel expression (linear, polynomial, "
        "monomial, Gaussian, ARD, normalised, scaled, weighted sum, product, sub-range; any nesting depth), all points and all "
        "parameters, over an arbitrary field with exp/sqrt arbitrary functions: symmetry k(x,z)=k(z,x) (structural induction); block "
        "evaluation (stateless and stateful paths, the stateless path of NormalizedKernel and DiscreteKernel's block path as repaired) "
        "= matrix of single evaluations; blockwise Gram assembly (calculateRegularizedKernelMatrix / calculateMixedKernelMatrix) has "
        "entry (i,j) = k(x_i,x_j) (+ regulariser on the diagonal) for EVERY batch partition incl. empty batches, hence partition "
        "independence and symmetry of the assembled matrix; normalised kernels and every kernel that sets IS_NORMALIZED have k(x,x)=1 "
        "when the normalised bases are positive on the diagonal; featureDistanceSqr = k(x,x)-2k(x,z)+k(z,z) (incl. the IS_NORMALIZED "
        "shortcut and LinearKernel's override). Over the reals (Mathlib Matrix.PosSemidef): Gram matrices of linear, polynomial "
        "(offset>=0), monomial kernels are PSD, PSD-ness is closed under non-negative scaling, weighted sums, products (Schur), "
        "normalisation and sub-ranges, hence every kernel expression with admissible parameters is PSD and every assembled regularised "
        "Gram matrix is PosSemidef (kernel_psd: arbitrary exp, Gaussian/ARD leaves by hypothesis; kernel_psd_equalDim / gram_psd_equalDim: real exp, data of equal dimension, Gaussian (gamma>=0) and ARD (gamma_t>=0) PROVED via the exponential series and closedness of the PSD cone - no hypothesis left); linear kernel also PSD as a quadratic form over "
        "any ordered field. ModelKernel (affine model; chains with state: see the end), SubrangeKernel and PointSetKernel are covered (symmetry, block=single, Gram assembly; "
        "PSD for Model/Subrange). Derivatives (HasDerivAt): the model of weightedParameterDerivative / weightedInputDerivative of the Gaussian, "
        "polynomial, linear and ARD (log-gamma) kernels, of ScaledKernel, and the log-weight derivative of WeightedSumKernel are the true "
        "derivatives of the weighted sum of kernel values for all batches and coefficients. The model is tied to the real classes by an "
"exact (Rat) / bit-for-bit (Float) line-by-line correspondence of single, stateful-block, stateless-block evaluation, "
        "featureDistanceSqr, Gram matrices over many batch partitions (thorough: all ordered partitions of up to 12 points) and the "
        "derivative calls, for dense and sparse inputs, under ASan/UBSan, plus an in-harness property oracle (symmetry, block=single, "
        "unit diagonal, smallest eigenvalue, finite-difference derivatives of every composed kernel). "
        "OBJECT HISTORIES (every run, both tiers): a kernel object is constructed once and then reconfigured in place - "
        "ScaledKernel::setFactor on any ScaledKernel of the expression (constructed with the default factor in a third of the cases), "
        "setParameterVector with fresh admissible vectors (offsets, gammas, log-weights, ARD log-gammas, model matrices), 0-4 steps - and all "
        "clauses are observed again on the SAME object after every step. Model: KObj (Model/Kernels.lean) = current expression + the "
        "IS_NORMALIZED flag as cached by the constructors, Kern.setFactor / Kern.setParams / numParams; theorems history_flag_sound (the "
        "cached flag equals the flag of the current expression after EVERY history), history_diag_one, history_featureDistance_def, "
        "featureDistanceBlock_eq_single (batch featureDistanceSqr = matrix of single feature distances, new op fdistb); correspondence of "
        "flags (isNormalized, numberOfParameters), setfactor, setparams, fdistb exact/bit-for-bit. In-harness CLAIM ORACLE after every "
        "reconfiguration on all current points: IS_NORMALIZED => k(x,x)=1 (4 ulp), featureDistanceSqr single and batch = "
        "k(x,x)-2k(x,z)+k(z,z) (1e-12 relative), parameterVector reads back what setParameterVector installed (1e-12). "
        "INDEPENDENT ORACLES WITHOUT MODEL (numerical, tolerance stated): op unitvar = the library's own setFactor caller "
        "NormalizeKernelUnitVariance::train on a default-constructed ScaledKernel over the current kernel and a batched dataset, then the "
        "claim oracle and unit variance (1e-9); op gderiv = calculateKernelMatrixParameterDerivative over a batch partition against one "
        "unbatched weightedParameterDerivative call (1e-9 relative; that call is tied to finite differences by dcheck, 2e-5); "
        "oracle-only configuration cases (harness alone, no Lean model): weighted sums / SubrangeKernels with ADAPTIVE sub-kernels "
        "(setAdaptiveAll: sub-kernel parameters in the parameter vector and in weightedParameterDerivative), unconstrained (log) encodings "
        "of the polynomial offset and the Gaussian gamma, ARD with arbitrary gammas, each with a setParameterVector in the middle, judged "
        "by claim/symmetry/block=single/Gram/eigenvalue/finite-difference oracles. "
        "DEEPENED (branch deep2-c05): the DERIVATIVE CODE OF EVERY COMPOSED KERNEL CLASS is modelled the way the C++ is written - as code that "
        "calls the wrapped kernel's derivative function (Model/KernelGrad.lean: monoInputDeriv, normParamGradG / normInputGrad over the state "
        "kxy/kxx/kyy, SubrangeKernelWrapper slicing and column embedding, wsumInputCombine, wsumSubCombine for ADAPTIVE sub-kernels "
        "(setAdaptiveAll: Kern.numParamsA / setParamsA / paramGradA with the adaptivity flag), ModelKernel's chain rule through both arguments "
        "with LinearModel::weightedParameterDerivative, PointSetKernel's per-pair accumulation) - and Kern.paramGradA / Kern.inputGradA plug them "
        "together along any kernel expression; ops pderiv / ideriv on composed kernels and the new op gderivx "
        "(calculateKernelMatrixParameterDerivative over a batch partition, model gramParamDeriv) are compared EXACTLY (Rat) and bit for bit (Float) "
        "on every run: polynomial-type leaves, power-of-two scalings and weight sums, NormalizedKernel over points whose norms are powers of two "
        "(square roots and quotients exact; the Rat driver has an exact rational sqrt), integer affine ModelKernels, before and after "
        "setParameterVector, with and without adaptall. Theorems (Props/C05b.lean, HasDerivAt over R): monomial_weightedInputDerivative "
        "(exponent >= 2 incl. the safe_div branch; exponent 1 = linear), subrange_weightedParameterDerivative and "
        "mapped_weightedParameterDerivative (kernel-parameter part of ModelKernel) via weightedSum_comap, wsum_subkernel_hasDerivAt "
        "((w_i/W) * kernelGrad_i is the derivative in a parameter of adaptive sub-kernel i, any sub-kernel expressions), "
        "normalized_weightedParameterDerivative_partial (the value NormalizedKernel computes from its state is the derivative of "
        "c*k/sqrt(kxx)/sqrt(kyy): chain rule through the quotient and both square roots, base diagonal > 0, any differentiable base family), "
        "gram_parameterDerivative_correct / gram_parameterDerivative_partition_independent (the blockwise lower-triangle sum with doubled "
        "off-diagonal blocks = sum_r sum_c W_rc dk(x_r,x_c) for EVERY list of batches incl. empty ones, symmetric W), instantiated end to end by "
        "gauss_gram_parameterDerivative; evalSkip_overloads_agree; multiTask_psd / multiTask_symm. "
        "NEW KERNEL CLASSES REACHED ON EVERY RUN (second harness harness/c05b.cpp, structured inputs): GaussianTaskKernel (model taskTable = "
        "computeMatrix in the C++ loop order, bit-for-bit; independent oracle: the table from its definition, batching of the task data, "
        "setParameterVector / setGamma on the live object) and MultiTaskKernel (single / block / Gram = product of the two projections, model "
        "multiTaskEval / multiTaskBlock), MklKernel over pairs of vectors (= direct sum, model subrangeKernel; single / block / sblock / "
        "featureDistanceSqr single+batch / Gram / flags / setParameterVector / gderiv / dcheck); in harness/c05.cpp KernelExpansion as a "
        "function (ops kexp / kx: basis batched arbitrarily, several outputs, with and without offset; model kexpEval; oracle from single "
        "evaluations) and evalSkipMissingFeatures (both overloads, NaN masks on both inputs and the missingness vector; model evalSkip3 / "
        "evalSkip4; oracle: kernel on the filtered vectors, symmetry, refusal of kernels without SUPPORTS_VARIABLE_INPUT_SIZE). "
        "RE-USED OUTPUT OBJECTS (op stale, every case): both derivative calls of every kernel into pre-filled gradient objects must return what "
        "a call into a fresh object returns (calculateKernelMatrixParameterDerivative re-uses one blockGradient). "
        "Two genuine defects found there: F-C05-6 gaussian-task-kernel-stale-matrix and F-C05-7 pointset-parameter-derivative-not-cleared (both "
        "repaired in /repo since: 9339bce1, ceadede4). "
        "MODELKERNEL OVER MODELS WITH STATE (branch str3-c05; every run, both tiers): ModelKernel is exercised over ConcatenatedModel chains - "
        "1-3 dense layers (linear / rectifier / tanh / logistic), element-wise NeuronLayers, softmax / normalizer row layers, frozen layers - whose "
        "State holds the hidden responses of ONE batch (ops mnet / mn <op>, harness builds the real LinearModel<..,Act> / NeuronLayer / "
        "ConcatenatedModel / ModelKernel objects). Model: Model/KernelChain.lean modelKernelBlock / modelKernelParamGrad = the code of "
        "ModelKernelImpl (both batches through the model, base kernel's parameter derivative, its input derivative for BOTH arguments, the model's "
        "backward pass of each batch through ITS OWN hidden responses) over the C04 chain model (Chain.evalB / Chain.backward). Theorems "
        "(Props/C05c.lean, HasDerivAt over R): modelKernel_weight_derivative_correct / modelKernel_offset_derivative_correct - for every weight / "
        "offset of every optimised dense layer anywhere in a chain of any length, the entry of modelGradX1 + modelGradX2 is the derivative of "
        "sum_ij c_ij k(g(x_i), g(z_j)) for ALL batch sizes B1 != B2 and batches X1 != X2 (modelKernel_curve_hasDerivAt: chain rule through both "
        "arguments from the proved backward pass, by uniqueness of derivatives), for every base kernel whose weighted sum is differentiable along "
        "curves with its two weightedInputDerivative matrices as gradient (KernelInputDerivs) - proved for the Gaussian kernel "
        "(gauss_kernelInputDerivs, all points / gamma / coefficients) and, Props/C05d.lean, for the polynomial kernel of every degree and offset "
        "(poly_kernelInputDerivs; degree 1 offset 0 = linear, offset 0 = monomial), closed under scaling and sums (scaled_kernelInputDerivs, "
        "add_kernelInputDerivs: ScaledKernel, WeightedSumKernel with fixed weights); instantiated on a four-layer chain. END TO END for the Gaussian base "
        "kernel (Props/C05e-g): the list-based executable gaussInputDeriv IS gaussD1 entry by entry (gaussInputDeriv_entry), the transposed second call is "
        "gaussD2, the backward pass reads only in-range coefficients (backward_weight_entry_congr, by uniqueness of derivatives), hence "
        "gauss_modelKernel_weight_derivative_lists: the very vector modelKernelParamGrad computes from the lists C, X1, X2 (what drv_c05 prints for mn pderiv "
        "and what is compared with the C++) is at every weight position (gauss_modelKernel_offset_derivative_lists: and at every offset position) the derivative of sum_ij C_ij exp(-gamma |g(x1_i) - g(x2_j)|^2); non-vacuity example on concrete lists (3 points against 2). GENERALISED (Props/C05h.lean): ListInputDeriv bundles what is needed of a base kernel "
        "(curve differentiability with D1f and its transposed call as gradient, the list-based weightedInputDerivative = D1f entry by entry, D1f reads in-range "
        "entries only); listKernel_modelKernel_weight_derivative / _offset_derivative hold for every such kernel; instances gaussLID and polyLID - the "
        "POLYNOMIAL kernel of every degree >= 1 and offset with the executable polyInputDeriv incl. its degree-1 (linear) branch and the safe_div branch "
        "(polyInputDeriv_entry), i.e. the base kernels of the EXACT mn pderiv correspondence (poly_modelKernel_weight_derivative_lists). Correspondence: chains of linear / "
        "rectifier layers with integer weights over exact base kernels EXACTLY (Rat) and bit for bit (Float): single, block, stateful block, feature "
        "distance, Gram over partitions, pderiv on blocks x1 != x2 of DIFFERENT sizes, gderivx, flags, setParameterVector in the middle (kernel | "
        "model parameters, frozen layers skipped); smooth chains (tanh / logistic / softmax / normalizer, any base kernel incl. Gaussian / ARD / sums) "
        "oracle-only: finite differences of the weighted sum of SINGLE evaluations w.r.t. every kernel and model parameter (dcheck, 2e-5 relative, "
        "blocks with x1 != x2 and different sizes), Gram-level derivative batched vs unbatched (gderiv, 1e-9), block = single (4 ulp / 1e-13). "
        "STATE RE-USE (new op reuse, every kernel family): ONE State object serves two consecutive stateful evaluations on different pairs of "
        "batches of different shapes with derivative calls after each; the second round must return bit for bit what a fresh State returns "
        "(kernel block, parameter and input derivative). "
        "THREAD-COUNT SWEEP (new op gramt / mt 3, oracle only, every composite kernel family incl. PointSetKernel, MklKernel, MultiTaskKernel "
        "(a ProductKernel), ModelKernel): calculateRegularizedKernelMatrix and calculateMixedKernelMatrix over 24-64 points in 5-30 batches of "
        "alternating sizes, assembled with 2, 3, 4 and 1 OpenMP threads on the ONE shared kernel object, every entry compared with single "
        "evaluations (bitwise; 4 ulp with NormalizedKernel)."),
  note=TRUST + "floating-point rounding is outside the theorems (exact-arithmetic statements; 'no negative eigenvalues beyond rounding' "
       "is checked numerically by the harness oracle only); Gaussian/ARD PSD-ness is proved for data of equal dimension (the C++ SIZE_CHECK) and is a hypothesis only in the variant for points of unequal length; derivative theorems cover "
       "Gaussian/polynomial/linear/ARD/scaled, the weighted-sum log-weights and (Props/C05b) monomial input, sub-range parameter, ModelKernel kernel-parameter part, adaptive sub-kernels of sums, and the Gram helper (unequal point dimensions are not accepted by the code: a Data<RealVector> batch is a matrix). "
       "PROVED ONLY IN PART: normalized_weightedParameterDerivative_partial is stated for 1x1 blocks (the calculus: quotient + two square roots); that the code's row/column sums over a larger block equal the sum of the per-pair derivatives is tied by the exact pderiv correspondence, not proved. "
       "CORRESPONDENCE + FINITE DIFFERENCES ONLY (modelled and compared exactly, no HasDerivAt theorem): NormalizedKernel::weightedInputDerivative, SubrangeKernelWrapper::weightedInputDerivative (column embedding), WeightedSumKernel::weightedInputDerivative, the LinearModel part of ModelKernel's parameter derivative (needs joint differentiability of the base kernel in both arguments), PointSetKernel::weightedParameterDerivative. "
       "The exact correspondence of the composed derivative code needs exactly representable values: Gaussian/ARD leaves inside composed kernels, non-power-of-two weights and NormalizedKernel on general points are judged by the finite-difference oracle (2e-5) and the stale-output oracle only. "
       "GaussianTaskKernel: PSD-ness of the task table (a Gaussian of RKHS distances of mean elements) is not proved (multiTask_psd takes it as hypothesis; the harness checks eigenvalues of MultiTaskKernel Gram matrices); MklKernel is exercised with two vector components (the fusion machinery is generic in the tuple); MissingFeaturesKernelExpansion is not reached (C07/C18 own the SVM models); CSvmDerivative is C07's. "
       "ModelKernel over chains: the theorems are stated on index functions for a base kernel given as a function with the KernelInputDerivs hypothesis (proved for the Gaussian and polynomial kernels, their scalings and sums); "
       "the end-to-end list-level statement is proved for Gaussian and polynomial (incl. linear) base kernels (weights and offsets); for monomial / scaled / summed / ARD / normalised base kernels the statement is at function level (KernelInputDerivs instances for scalings and sums) or rests on the correspondence; that Kern.inputGradA of EVERY kernel expression satisfies KernelInputDerivs is not proved (the partial-derivative theorems of Props/C05(b) + the exact ideriv correspondence + finite differences tie it); "
       "rectifier / fast-sigmoid layers carry the NoKink hypothesis of the chain theorems; smooth chains are not compared bit for bit (the model's matrix products are BLAS calls: 1-ulp differences were measured) but by the toleranced oracles; "
       "exact chains are limited to two dense layers of width <= 2 with weights in {-1,0,1} (values must stay exactly representable); dropout layers and nested ConcatenatedModels inside a ModelKernel are not generated (C04 owns them). "
       "Thread sweep: a data race is detected only if it manifests in one of the 7 assemblies per op (about 250 gramt ops per quick run; no TSan build here - C20 has one); "
       "State re-use: the derivative functions accept a State computed for other batches silently (parameter derivative = the old batches' derivative; probed, see findings_proposed/C05.md) - the documented contract, honoured by all library callers; not a theorem, not checked per run. "
       "the Gaussian derivative correspondence is "
       "bit-exact on 1x1 blocks only (ARD: all blocks), PointSetKernel with inexact base values only on singleton sets (summation order not modelled); "
       "PSD of PointSetKernel is proved as a quadratic-form statement (pointSet_quadForm_nonneg), not as Matrix.PosSemidef; MultiTaskKernel, MklKernel and the unconstrained parameter encodings of Gaussian/polynomial are not modelled; ARD, normalised and sub-range kernels "
       "cannot be instantiated for sparse inputs in Shark, so the sparse runs cover the other kernels. "
       "Reconfiguration: ARD kernels whose gammas are not exactly representable (after setParameterVector) are outside the bit-exact "
       "correspondence (dense diagonalMahalanobisDistanceSqr is an inner_prod, BLAS summation order): model-compared histories install ARD "
       "log-gammas 0 only, arbitrary ones run oracle-only; adaptive sub-kernels and unconstrained encodings are not in the Lean model "
       "(oracle-only, toleranced); PSD after a history follows from kernel_psd_equalDim applied to the reconfigured expression, an "
       "explicit admissibility-preservation theorem for setFactor/setParams is not stated; read() from an archive into a differently "
       "configured object is not exercised here (C18). Findings F-C05-6 gaussian-task-kernel-stale-matrix (computeMatrix accumulated into the old table; setGamma/setWidth did not recompute; "
       "corpus/C05/gaussian_task_kernel_stale_matrix.txt) and F-C05-7 pointset-parameter-derivative-not-cleared (gradient resized, not cleared; "
       "corpus/C05/pointset_parameter_derivative_not_cleared.txt) are repaired in /repo (9339bce1, ceadede4): the corpus probes pass and the generated stream "
       "reconfigures live task kernels and calls the PointSetKernel parameter derivative into re-used gradients (the probes switch these off again on a tree where the defects are back). F-C05-5 product-stale-parameter-count is repaired "
       "(f6f5bb01; the probe passes, sums below products are made adaptive). Four genuine defects found earlier by this check "
       "(normalized-stateless-block, discrete-block-ignores-indices, monomial-degree1-input-derivative, product-uninitialised-parameter-count) "
       "are repaired in /repo by fix: commits ceaec0f1, f2e5cee8, e15da9fc, dba592e9; their inputs stay in corpus/C05 and the model is the repaired code.",
  technique="Lean 4 proofs by structural induction over a kernel expression language + Mathlib PosSemidef/HasDerivAt + differential correspondence with the C++ (exact / bit mode, ASan/UBSan)",
  design="§6 C05")

FINISH = dict(level="proof",
              rule="a case = kernel expression (random composition, depth <= 3, dyadic parameters) + integer points + ops "
                   "(single / block / sblock / fdist / fdistb / flags / gram over batch partitions / mixed / pderiv / ideriv / dcheck / stale / reuse / gramt / gderiv / gderivx / unitvar / kexp+kx / skip; task / tbatch / tsetparams / tsetgamma / mt; mkl + mk <op>; mnet + mn <op>) "
                   "+ in-place reconfigurations (setfactor / setparams / adaptall) with observations after each; non-trivial = composed kernel "
                   "(depth >= 1) or a Gram op with >= 2 batches; distinct = distinct op text")

LAKE_TARGETS = ["SharkVerif.Props.C05", "SharkVerif.Props.C05b", "SharkVerif.Props.C05c", "SharkVerif.Props.C05d", "SharkVerif.Props.C05e", "SharkVerif.Props.C05f", "SharkVerif.Props.C05g", "SharkVerif.Props.C05h", "drv_c05"]
PROPS = ["SharkVerif.Props.C05", "SharkVerif.Props.C05b", "SharkVerif.Props.C05c", "SharkVerif.Props.C05d", "SharkVerif.Props.C05e", "SharkVerif.Props.C05f", "SharkVerif.Props.C05g", "SharkVerif.Props.C05h"]


# ----------------------------------------------------------------------------- values
def dy(fr):
    """render a Fraction with power-of-two denominator as m:e (or a plain integer)"""
    fr = Fraction(fr)
    if fr.denominator == 1:
        return str(fr.numerator)
    e = fr.denominator.bit_length() - 1
    assert fr.denominator == 1 << e, fr
    return f"{fr.numerator}:{-e}"


def parse_dy(t):
    if ":" not in t: return Fraction(int(t))
    m, e = t.split(":"); return Fraction(int(m)) * Fraction(2) ** int(e)


def fbits(fr):
    return Fraction(fr).denominator.bit_length() - 1


def is_pow2(fr):
    fr = Fraction(fr)
    return fr > 0 and (fr.numerator & (fr.numerator - 1)) == 0 and (fr.denominator & (fr.denominator - 1)) == 0


# admissible parameter values (dyadic): construction-time values and the values installed later by
# setFactor / setParameterVector come from the same sets
FACTORS = [Fraction(1, 2), Fraction(2), Fraction(3), Fraction(1, 4), Fraction(5, 2)]          # ScaledKernel factor (> 0); 1 = default
OFFSETS = [Fraction(0), Fraction(1), Fraction(1, 2), Fraction(2), Fraction(3, 4), Fraction(1)]  # polynomial offset (>= 0)
GAMMAS = [Fraction(1, 4), Fraction(1, 2), Fraction(1), Fraction(2), Fraction(1, 8), Fraction(3, 4)]   # Gaussian gamma (> 0)
LOGS = [Fraction(0), Fraction(0), Fraction(1), Fraction(-1), Fraction(1, 2), Fraction(-2)]      # log-encoded weights / ARD gammas


def new_params(r, ps, free_ard=False):
    """a fresh admissible parameter vector for the parameter slots `ps` of a generated kernel.
    ARD: gamma_i = exp(p_i); the dense diagonalMahalanobisDistanceSqr is an inner_prod (BLAS summation order), so the
    bit-exact correspondence needs exactly representable gammas: p_i = 0 unless `free_ard` (oracle-only cases)"""
    out = []
    for q in ps:
        if q == "off": out.append(r.choice(OFFSETS))
        elif q == "gamma": out.append(r.choice(GAMMAS))
        elif q == "int": out.append(Fraction(r.range(-1, 1)))
        elif q == "logg" and not free_ard: out.append(Fraction(0))
        else: out.append(r.choice(LOGS))
    return out


# ----------------------------------------------------------------------------- kernel generator
class KGen:
    """random kernel expressions; returns (tokens, info) with
    info = dict(exact, M (bound on |k|), f (fraction bits), kinds set, depth, norm)"""
    COORD = 3

    def __init__(self, r):
        self.r = r
        self.nscaled = 0      # number of ScaledKernel objects generated so far
        self.unconstrained = False   # leaves may use the unconstrained (log) parameter encodings (oracle-only cases)
        self.scaled_bias = 0  # percent chance that a composite position holds a ScaledKernel (history cases)
        self.no_norm = 0      # > 0 below a ModelKernel: the mapped point may be the zero vector (0/0 in a normalised linear kernel)

    def leaf(self, dim, allow_exp=True):
        t, i = self._leaf(dim, allow_exp)
        if self.unconstrained and t[0] in ("poly", "gauss") and self.r.chance(1, 2):
            # unconstrained encoding: the parameter is the log of offset / gamma (offset > 0 then)
            if t[0] == "poly" and Fraction(0) == parse_dy(t[2]): t = [t[0], t[1], "1"]
            t = [t[0] + "u"] + t[1:]
            i = dict(i, exact=False, kinds=i["kinds"] | {t[0]}, ps=["logw"])
        i["psa"] = i["ps"]
        return t, i

    def _leaf(self, dim, allow_exp=True):
        r = self.r
        x = r.below(100)
        dotmax = dim * self.COORD * self.COORD
        if x < 22:
            return ["lin"], dict(exact=True, M=Fraction(dotmax), f=0, kinds={"lin"}, depth=0, ps=[])
        if x < 45:
            d = r.choice([1, 1, 2, 2, 3, 4])
            c = r.choice(OFFSETS)
            # bounds hold for every offset a later setParameterVector may install (max 2, 2 fraction bits)
            return ["poly", str(d), dy(c)], dict(exact=True, M=(dotmax + 2) ** d, f=2 * d, kinds={"poly"}, depth=0, ps=["off"])
        if x < 60:
            n = r.choice([0, 1, 1, 2, 2, 3, 4])
            return ["mono", str(n)], dict(exact=True, M=Fraction(dotmax) ** n, f=0, kinds={"mono"}, depth=0, ps=[])
        if not allow_exp:
            return self._leaf(dim, allow_exp)
        if x < 82:
            g = r.choice(GAMMAS)
            return ["gauss", dy(g)], dict(exact=False, M=Fraction(1), f=0, kinds={"gauss"}, depth=0, ps=["gamma"])
        gs = [r.choice([Fraction(1, 4), Fraction(1, 2), Fraction(1), Fraction(2), Fraction(3, 8)]) for _ in range(dim)]
        return ["ard", str(dim)] + [dy(g) for g in gs], dict(exact=False, M=Fraction(1), f=0, kinds={"ard"}, depth=0, ps=["logg"] * dim)

    def mk_scaled(self, dim, depth):
        """ScaledKernel; factor 1 = the constructor default (`ScaledKernel<> k(&base)`), the factor is typically
        installed later by setFactor (NormalizeKernelUnitVariance): bounds hold for every factor of FACTORS"""
        r = self.r
        s = Fraction(1) if r.chance(1, 3) else r.choice(FACTORS)
        self.nscaled += 1                    # pre-order numbering of the ScaledKernel objects (op setfactor)
        t, i = self.gen(dim, depth - 1)
        return ["scaled", dy(s)] + t, dict(exact=i["exact"], M=i["M"] * max(FACTORS), f=i["f"] + 2, kinds=i["kinds"] | {"scaled"},
                                          depth=i["depth"] + 1, ps=i["ps"], psa=i["psa"])

    def mk_prod(self, dim, depth):
        r = self.r
        n = r.choice([1, 2, 2, 3])
        subs = [self.gen(dim, depth - 1) for _ in range(n)]
        toks = ["prod", str(n)]
        M, f = Fraction(1), 0
        for t, i in subs:
            toks += t; M *= i["M"]; f += i["f"]
        return toks, dict(exact=all(i["exact"] for _, i in subs), M=M, f=f,
                          kinds=set().union(*[i["kinds"] for _, i in subs]) | {"prod"}, depth=1 + max(i["depth"] for _, i in subs),
                          ps=[q for _, i in subs for q in i["ps"]], psa=[q for _, i in subs for q in i["psa"]])

    def gen(self, dim, depth):
        r = self.r
        if depth > 0 and self.scaled_bias and r.chance(self.scaled_bias, 100):
            return self.mk_scaled(dim, depth)
        if depth == 0 or r.chance(1, 4):
            return self.leaf(dim)
        x = r.below(100)
        if x < 18 and not self.no_norm:
            t, i = self.gen(dim, depth - 1)
            if "model" in i["kinds"]:      # A x + b may be the zero vector: k(x,x) = 0, the normalised kernel is 0/0 there
                return t, i
            return ["norm"] + t, dict(exact=False, M=Fraction(1), f=0, kinds=i["kinds"] | {"norm"}, depth=i["depth"] + 1, ps=i["ps"], psa=i["psa"])
        if x < 34:
            return self.mk_scaled(dim, depth)
        if x < 56:
            n = r.choice([1, 2, 2, 3, 3, 4])
            subs = [self.gen(dim, depth - 1) for _ in range(n)]
            kinds = set().union(*[i["kinds"] for _, i in subs])
            dep = 1 + max(i["depth"] for _, i in subs)
            if r.chance(1, 4):
                # weights through setParameterVector (exp of the parameters)
                ps = [r.choice([Fraction(0), Fraction(0), Fraction(1), Fraction(-1), Fraction(1, 2)]) for _ in range(n - 1)]
                allzero = all(p == 0 for p in ps)
                ex = allzero and is_pow2(n) and all(i["exact"] for _, i in subs)
                toks = ["wsump", str(n)] + [dy(p) for p in ps]
                for t, _ in subs: toks += t
                k = n.bit_length() - 1
                return toks, dict(exact=ex, M=max(i["M"] for _, i in subs), f=max(i["f"] for _, i in subs) + k,
                                  kinds=kinds | {"wsump"}, depth=dep, ps=["logw"] * (n - 1),
                                  psa=["logw"] * (n - 1) + [q for _, i in subs for q in i["psa"]])
            ws = [Fraction(1)] + [r.choice([Fraction(1), Fraction(2), Fraction(1, 2), Fraction(3), Fraction(1), Fraction(5)]) for _ in range(n - 1)]
            s = sum(ws)
            ex = is_pow2(s) and all(i["exact"] for _, i in subs)
            toks = ["wsum", str(n), dy(s)]
            for w, (t, _) in zip(ws, subs): toks += [dy(w)] + t
            k = fbits(1 / s) if is_pow2(s) else 0
            M = sum(w * i["M"] for w, (_, i) in zip(ws, subs)) / s
            f = max(i["f"] + fbits(w) for w, (_, i) in zip(ws, subs)) + max(k, 0)
            return toks, dict(exact=ex, M=M, f=f, kinds=kinds | {"wsum"}, depth=dep, ps=["logw"] * (n - 1),
                              psa=["logw"] * (n - 1) + [q for _, i in subs for q in i["psa"]])
        if x < 78:
            return self.mk_prod(dim, depth)
        if x < 86:
            # ModelKernel over a LinearModel x -> A x + b (small integer matrix)
            rdim = r.choice([1, 2, 3])
            A = [[r.range(-1, 1) for _ in range(dim)] for _ in range(rdim)]
            bvec = [r.range(-1, 1) for _ in range(rdim)]
            save = self.COORD
            self.COORD = dim * save + 1          # bound on |A x + b|
            self.no_norm += 1
            t, i = self.gen(rdim, depth - 1)
            self.no_norm -= 1
            self.COORD = save
            toks = ["model", str(rdim), str(dim)] + [str(v) for row in A for v in row] + [str(v) for v in bvec] + t
            return toks, dict(exact=i["exact"], M=i["M"], f=i["f"], kinds=i["kinds"] | {"model"}, depth=i["depth"] + 1,
                              ps=i["ps"] + ["int"] * (rdim * dim + rdim), psa=i["psa"] + ["int"] * (rdim * dim + rdim))
        if x < 92 and dim >= 2:
            # the real SubrangeKernel class (weighted sum of sub-range wrappers, weights via setParameterVector)
            n = r.choice([1, 2, 2, 3])
            ps = [r.choice([Fraction(0), Fraction(0), Fraction(1), Fraction(-1)]) for _ in range(n - 1)]
            toks = ["subk", str(n)] + [dy(p) for p in ps]
            subs = []
            for _ in range(n):
                a = r.below(dim - 1); b = r.range(a + 1, dim)
                t, i = self.gen(b - a, depth - 1)
                toks += [str(a), str(b)] + t; subs.append(i)
            ex = all(p == 0 for p in ps) and is_pow2(n) and all(i["exact"] for i in subs)
            return toks, dict(exact=ex, M=max(i["M"] for i in subs), f=max(i["f"] for i in subs) + n.bit_length(),
                              kinds=set().union(*[i["kinds"] for i in subs]) | {"subk", "sub"}, depth=1 + max(i["depth"] for i in subs),
                              ps=["logw"] * (n - 1), psa=["logw"] * (n - 1) + [q for i in subs for q in i["psa"]])
        if dim >= 2:
            a = r.below(dim - 1); b = r.range(a + 1, dim)
            if a == 0 and b == dim: a = 1 if dim > 1 and r.chance(1, 2) else 0
            if b <= a: b = a + 1
            t, i = self.gen(b - a, depth - 1)
            return ["sub", str(a), str(b)] + t, dict(exact=i["exact"], M=i["M"], f=i["f"], kinds=i["kinds"] | {"sub"}, depth=i["depth"] + 1, ps=i["ps"], psa=i["psa"])
        return self.leaf(dim)


def exact_ok(info):
    """all values of the case are exactly representable doubles (with margin)"""
    if not info["exact"]:
        return False
    M = max(info["M"] * 4 + 8, 1)
    return M.numerator.bit_length() - M.denominator.bit_length() + 2 + info["f"] + 3 <= 50


def compositions(n):
    """all ordered partitions of n into positive parts"""
    for mask in range(1 << (n - 1)):
        sizes, cur = [], 1
        for b in range(n - 1):
            if mask >> b & 1:
                sizes.append(cur); cur = 1
            else:
                cur += 1
        sizes.append(cur)
        yield sizes


def rand_partition(r, n):
    sizes, left = [], n
    while left > 0:
        s = r.range(1, left) if r.chance(1, 2) else r.range(1, min(left, 3))
        sizes.append(s); left -= s
    return sizes


def gen_points(r, n, dim, nonzero):
    pts = []
    for _ in range(n):
        if nonzero:
            pts.append([r.choice([-3, -2, -1, 1, 2, 3]) for _ in range(dim)])
        else:
            pts.append([0 if r.chance(2, 5) else r.range(-3, 3) for _ in range(dim)])
    if n >= 3 and r.chance(1, 3):
        pts[n - 1] = list(pts[0])          # duplicate point (rank-deficient Gram matrix)
    return pts


def observe_ops(r, n, reg):
    """observations of the current object: flags, diagonal, feature distances (single + batch), blocks, Gram matrix"""
    i = r.below(n)
    ops = ["flags", f"single {i} {i}", f"single {r.below(n)} {r.below(n)}", f"fdist {r.below(n)} {r.below(n)}"]
    a = r.below(n); b = r.range(a + 1, n); c = r.below(n); d = r.range(c + 1, n)
    ops.append(f"fdistb {a} {b} {c} {d}")
    if r.chance(1, 2): ops += [f"block {a} {b} {c} {d}", f"sblock {a} {b} {c} {d}"]
    if r.chance(1, 2): ops.append(f"gram {dy(reg)} " + " ".join(map(str, rand_partition(r, n))))
    return ops


def history_ops(r, toks, info, n, reg, steps, free_ard=False):
    """a history of in-place reconfigurations (ScaledKernel::setFactor on any ScaledKernel object of the expression,
    setParameterVector with a fresh admissible vector), each followed by observations.
    Returns (ops, inexact): setParameterVector goes through exp for log-encoded slots -> bit mode only"""
    ops, inexact = [], False
    nsc = toks.count("scaled")
    for _ in range(steps):
        if nsc and r.chance(2, 3):
            ops.append(f"setfactor {r.below(nsc)} {dy(Fraction(1) if r.chance(1, 6) else r.choice(FACTORS))}")
        else:
            ops.append("setparams " + " ".join(dy(v) for v in new_params(r, info["ps"], free_ard)))
            inexact = inexact or any(q in ("logw", "logg") for q in info["ps"])
        ops[-1] = ops[-1].strip()
        ops += observe_ops(r, n, reg)
    return ops, inexact


def gen_history_case(r, maxn):
    """object histories: a kernel whose composite positions often hold ScaledKernel objects (constructed with the default
    factor in a third of the cases), reconfigured 2-4 times, observed after every step"""
    dim = r.choice([1, 2, 2, 3]); n = r.range(2, maxn)
    kg = KGen(r); kg.scaled_bias = 40
    top = r.below(3)
    depth = r.choice([1, 2, 2, 3])
    if top == 0: toks, info = kg.mk_scaled(dim, depth)
    elif top == 1: toks, info = kg.mk_prod(dim, depth)
    else: toks, info = kg.gen(dim, depth)
    pts = gen_points(r, n, dim, "norm" in info["kinds"])
    reg = r.choice([Fraction(0), Fraction(0), Fraction(1, 2)])
    ops = ["kern " + " ".join(toks), f"pts {n} {dim} " + " ".join(str(v) for p in pts for v in p)]
    ops += observe_ops(r, n, reg)
    # ARD kernels with arbitrary gammas: the model is not bit-exact there (BLAS order) -> such histories are run on the real
    # code alone, judged by the in-harness oracle (claims, symmetry, block = single, Gram, eigenvalues, finite differences)
    free_ard = "logg" in info["ps"] and r.chance(1, 2)
    hist, inexact = history_ops(r, toks, info, n, reg, steps=r.range(2, 4), free_ard=free_ard)
    ops += hist
    ops.append("unitvar " + " ".join(map(str, rand_partition(r, n))))
    if r.chance(1, 3): ops.append(gramt_op(r))
    a = r.below(n); b = r.range(a + 1, min(n, a + 3)); c = r.below(n); d = r.range(c + 1, min(n, c + 3))
    ops.append(f"dcheck {a} {b} {c} {d} " + " ".join(str(r.range(-2, 2)) for _ in range((b - a) * (d - c))))
    if inexact: info = dict(info, exact=False)
    info = dict(info, n=n, dim=dim, parts=0, exact_case=exact_ok(info), kinds=info["kinds"] | {"history"}, oracle_only=free_ard)
    return ops, info


def probe_fails(exe, env, cases):
    import subprocess
    e = dict(os.environ); e.setdefault("ASAN_OPTIONS", "detect_leaks=0"); e.update(env)
    for c in cases:
        p = subprocess.run([exe, "dense"], input="\n".join(c) + "\n", capture_output=True, text=True, errors="replace", env=e, timeout=120)
        if p.returncode != 0 or "!oracle" in p.stdout:
            return True
    return False


def is_b_case(ops):
    """cases of the second harness (structured inputs)"""
    return any(o.split()[0] in ("task", "mkl") for o in ops[:3] if o)


def gen_config_case(r, maxn, avoid_prod_adaptive=False):
    """configurations the model does not cover, run on the real code alone and judged by the in-harness oracle:
    weighted sums / SubrangeKernels whose sub-kernels are adaptive (setAdaptiveAll: the sub-kernels' parameters are part of
    the parameter vector and of weightedParameterDerivative), unconstrained (log) encodings of the polynomial offset and the
    Gaussian gamma, ARD with arbitrary gammas; with a setParameterVector in the middle"""
    dim = r.choice([2, 2, 3, 3, 4]); n = r.range(3, maxn)
    for _ in range(40):
        kg = KGen(r); kg.unconstrained = True; kg.scaled_bias = 10
        toks, info = kg.gen(dim, r.choice([1, 2, 2, 3]))
        sums = [t for t in toks if t in ("wsum", "wsump", "subk")]
        if sums or "polyu" in toks or "gaussu" in toks: break
    pts = gen_points(r, n, dim, "norm" in info["kinds"])
    reg = r.choice([Fraction(0), Fraction(1, 2)])
    ops = ["kern " + " ".join(toks), f"pts {n} {dim} " + " ".join(str(v) for p in pts for v in p), "flags"]
    adaptive = bool(sums) and r.chance(3, 4)
    if avoid_prod_adaptive and "prod" in toks: adaptive = False
    if adaptive: ops += ["adaptall", "flags"]
    slots = info["psa"] if adaptive else info["ps"]

    def derivs():
        for _ in range(2):
            a = r.below(n); b = r.range(a + 1, min(n, a + 3)); c = r.below(n); d = r.range(c + 1, min(n, c + 3))
            ops.append(f"dcheck {a} {b} {c} {d} " + " ".join(str(r.range(-2, 2)) for _ in range((b - a) * (d - c))))
        ops.append("gderiv " + " ".join(map(str, rand_partition(r, n))))
        a = r.below(n); b = r.range(a + 1, min(n, a + 3)); c = r.below(n); d = r.range(c + 1, min(n, c + 3))
        ops.append(f"stale {a} {b} {c} {d} " + " ".join(str(r.range(-2, 2)) for _ in range((b - a) * (d - c))))
    derivs()
    ops.append(("setparams " + " ".join(dy(v) for v in new_params(r, slots, free_ard=True))).strip())
    ops += observe_ops(r, n, reg)
    derivs()
    if r.chance(1, 3): ops.append(gramt_op(r))
    ops += kexp_ops(r, n)
    info = dict(info, n=n, dim=dim, parts=0, exact_case=False, oracle_only=True,
                kinds=info["kinds"] | {"config"} | ({"adaptive"} if adaptive else set()))
    return ops, info


def gen_case(ctx, r, maxn, all_partitions=False, ps_reuse_ok=False):
    dim = r.choice([1, 2, 2, 3, 3, 4])
    n = r.range(2, maxn)
    toks, info = KGen(r).gen(dim, r.choice([0, 1, 2, 2, 3, 3]))
    pts = gen_points(r, n, dim, "norm" in info["kinds"])
    ops = ["kern " + " ".join(toks), f"pts {n} {dim} " + " ".join(str(v) for p in pts for v in p)]
    for _ in range(r.range(2, 5)):
        ops.append(f"single {r.below(n)} {r.below(n)}")
    ops.append(f"single {r.below(n)} {r.below(n)}".replace(" ", " ", 1))
    i = r.below(n); ops.append(f"single {i} {i}")
    for _ in range(r.range(1, 3)):
        a = r.below(n); b = r.range(a + 1, n); c = r.below(n); d = r.range(c + 1, n)
        ops.append(f"block {a} {b} {c} {d}")
        if r.chance(2, 3): ops.append(f"sblock {a} {b} {c} {d}")
    ops.append(f"sblock 0 {n} 0 {n}")
    for _ in range(r.range(1, 2)):
        ops.append(f"fdist {r.below(n)} {r.below(n)}")
    reg = r.choice([Fraction(0), Fraction(0), Fraction(1), Fraction(1, 2), Fraction(3)])
    parts = [[n], [1] * n] + [rand_partition(r, n) for _ in range(r.range(1, 3))]
    if all_partitions:
        parts = list(compositions(n))
    for p in parts:
        ops.append(f"gram {dy(reg)} " + " ".join(map(str, p)))
    n1 = r.range(1, n - 1)
    p1, p2 = rand_partition(r, n1), rand_partition(r, n - n1)
    ops.append(f"mixed {len(p1)} " + " ".join(map(str, p1 + p2)))
    # PointSetKernel over the same kernel: point sets of sizes 1/2/4 (exact means), evaluated on all paths
    psops = []
    if r.chance(1, 2) and "norm" not in info["kinds"]:
        sizes, left = [], n
        while left > 0 and len(sizes) < 4:
            # inexact kernel values: singleton sets only (remora's summation order is not modelled)
            sz = r.choice([q for q in (1, 2, 4) if q <= left]) if info["exact"] else 1
            sizes.append(sz); left -= sz
        m = len(sizes)
        psops.append("psets " + " ".join(map(str, sizes)))
        psops.append(f"ps single {r.below(m)} {r.below(m)}")
        a = r.below(m); b = r.range(a + 1, m); c = r.below(m); d = r.range(c + 1, m)
        psops += [f"ps block {a} {b} {c} {d}", f"ps sblock {a} {b} {c} {d}", f"ps fdist {r.below(m)} {r.below(m)}"]
        psops.append(f"ps gram {dy(reg)} " + " ".join(map(str, rand_partition(r, m))))
        psops.append(f"ps gram 0 " + " ".join(map(str, rand_partition(r, m))))
        info = dict(info, f=info["f"] + 4, kinds=info["kinds"] | {"pointset"})
        ops += psops
    # KernelExpansion as a function (exact kernels: compared with the model; the others are judged by the oracle in the
    # oracle-only configuration cases) and evalSkipMissingFeatures
    if info["exact"] and "norm" not in info["kinds"]:
        ops += kexp_ops(r, n); info = dict(info, f=info["f"] + 2, M=info["M"] * 8 * n, kinds=info["kinds"] | {"kexp"})
    if toks[0] in ("lin", "poly", "mono") or r.chance(1, 8):
        ops += skip_ops(r, n, dim); info = dict(info, kinds=info["kinds"] | {"skipmissing"})
    # the object is reconfigured in place and everything is observed again on the SAME object
    a = r.below(n); b = r.range(a + 1, n); c = r.below(n); d = r.range(c + 1, n)
    ops += ["flags", f"fdistb {a} {b} {c} {d}"]
    hist, inexact = history_ops(r, toks, info, n, reg, steps=r.range(0, 2))
    ops += hist
    if inexact: info = dict(info, exact=False)
    ops.append("unitvar " + " ".join(map(str, rand_partition(r, n))))
    ops.append("gderiv " + " ".join(map(str, rand_partition(r, n))))
    # kernel objects are shared by the OpenMP threads of the blockwise Gram assembly: thread-count sweep for composite kernels
    if info["depth"] >= 1 and r.chance(1, 2):
        ops.append(gramt_op(r))
        if psops and r.chance(1, 2): ops.append("ps " + gramt_op(r).replace("64", "16").replace("40", "12").replace("24", "8"))
    a = r.below(n); b = r.range(a + 1, n); c = r.below(n); d = r.range(c + 1, n); a2 = r.below(n); b2 = r.range(a2 + 1, n); c2 = r.below(n); d2 = r.range(c2 + 1, n)
    ops.append(f"reuse {a} {b} {c} {d} {a2} {b2} {c2} {d2} " + " ".join(str(r.range(-2, 2)) for _ in range((b2 - a2) * (d2 - c2))))
    # numerical derivative oracle on the real code (finite differences); last, because it resets parameters
    a = r.below(n); b = r.range(a + 1, min(n, a + 3)); c = r.below(n); d = r.range(c + 1, min(n, c + 3))
    ops.append(f"dcheck {a} {b} {c} {d} " + " ".join(str(r.range(-2, 2)) for _ in range((b - a) * (d - c))))
    ops.append(f"stale {a} {b} {c} {d} " + " ".join(str(r.range(-2, 2)) for _ in range((b - a) * (d - c))))
    if psops:
        m = len(psops[0].split()) - 1
        a = r.below(m); b = r.range(a + 1, m); c = r.below(m); d = r.range(c + 1, m)
        ops.append(f"ps dcheck {a} {b} {c} {d} " + " ".join(str(r.range(-2, 2)) for _ in range((b - a) * (d - c))))
        if ps_reuse_ok:
            ops.append(f"ps stale {a} {b} {c} {d} " + " ".join(str(r.range(-2, 2)) for _ in range((b - a) * (d - c))))
            ops.append("ps gderiv " + " ".join(map(str, rand_partition(r, m))))
    info = dict(info, n=n, dim=dim, parts=len(parts), exact_case=exact_ok(info))
    return ops, info


def gen_deriv_case(r, maxn):
    """derivative correspondence: linear / polynomial kernels on arbitrary blocks (exact), Gaussian on 1x1 blocks (bit mode)"""
    dim = r.choice([1, 2, 3, 4]); n = r.range(2, maxn)
    x = r.below(4)
    if x == 0:
        toks, exact = ["lin"], True
    elif x == 1:
        toks, exact = ["poly", str(r.choice([1, 2, 2, 3, 4])), dy(r.choice([Fraction(0), Fraction(0), Fraction(1), Fraction(1, 2), Fraction(2)]))], True
    elif x == 2:
        toks, exact = ["gauss", dy(r.choice([Fraction(1, 4), Fraction(1, 2), Fraction(1), Fraction(2)]))], False
    else:
        # ARD: plain scalar loops in the C++ -> bit mode on arbitrary blocks
        toks, exact = ["ard", str(dim)] + [dy(r.choice([Fraction(1, 4), Fraction(1, 2), Fraction(1), Fraction(2), Fraction(3, 8)])) for _ in range(dim)], False
    wsum_case = False
    if r.chance(1, 5):
        # WeightedSumKernel over exact leaves, weights (1, w2, ..) with a power-of-two sum: derivative w.r.t. the log-weights
        wsum_case = True
        ws = r.choice([[1, 1], [1, 3], [1, 1, 2], [1, 2, 1], [1, 1, 1, 1], [1, Fraction(1, 2), Fraction(1, 2)]])
        leaves = [r.choice([["lin"], ["poly", "2", "1"], ["poly", "3", "1:-1"], ["mono", "2"], ["poly", "1", "0"]]) for _ in ws]
        toks = ["wsum", str(len(ws)), dy(sum(Fraction(w) for w in ws))]
        for w, l in zip(ws, leaves): toks += [dy(Fraction(w))] + l
        exact = True
    elif r.chance(1, 3):
        toks = ["scaled", dy(r.choice([Fraction(1, 2), Fraction(2), Fraction(3), Fraction(1, 4)]))] + toks
    pts = gen_points(r, n, dim, False)
    ops = ["kern " + " ".join(toks), f"pts {n} {dim} " + " ".join(str(v) for p in pts for v in p)]
    def deriv_ops():
        for _ in range(r.range(2, 4)):
            if "gauss" in toks:
                a = r.below(n); b = a + 1; c = r.below(n); d = c + 1
            else:
                a = r.below(n); b = r.range(a + 1, n); c = r.below(n); d = r.range(c + 1, n)
            co = " ".join(dy(r.choice([Fraction(v) for v in (-3, -2, -1, 0, 1, 2, 3)] + [Fraction(1, 2), Fraction(-3, 4)])) for _ in range((b - a) * (d - c)))
            ops.append(f"pderiv {a} {b} {c} {d} {co}")
            if not wsum_case:
                ops.append(f"ideriv {a} {b} {c} {d} {co}")
    deriv_ops()
    if not wsum_case and "lin" not in toks and r.chance(1, 2):
        # the derivative code must follow an in-place reconfiguration (live factor / live parameters)
        if toks[0] == "scaled" and r.chance(1, 2):
            ops.append(f"setfactor 0 {dy(r.choice(FACTORS))}")
        else:
            slots = ["off"] if "poly" in toks else ["gamma"] if "gauss" in toks else ["logg"] * dim
            ops.append("setparams " + " ".join(dy(v) for v in new_params(r, slots)))
        deriv_ops()
    a = r.below(n); b = r.range(a + 1, n); c = r.below(n); d = r.range(c + 1, n)
    ops.append(f"dcheck {a} {b} {c} {d} " + " ".join(str(r.range(-2, 2)) for _ in range((b - a) * (d - c))))
    return ops, dict(exact=exact, exact_case=exact, kinds=set(kinds_of(ops)) | {"deriv"}, depth=0, n=n, dim=dim, parts=0, M=Fraction(1), f=0)


# ----------------------------------------------------------------------------- derivative code of composed kernels
POW2PTS = [1, 2, 4, -1, -2, -4]


def gen_pow2_points(r, n, dim):
    """points with exactly one non-zero coordinate, a signed power of two: <x,x> is a power of four, so the square
    roots and quotients of a NormalizedKernel over a linear / monomial base are exact (dyadic) in Rat and in Float"""
    pts = []
    for _ in range(n):
        p = [0] * dim; p[r.below(dim)] = r.choice(POW2PTS); pts.append(p)
    if n >= 2 and r.chance(1, 3): pts[n - 1] = list(pts[0])
    return pts


class DGen:
    """kernel expressions whose derivative code runs in exact dyadic arithmetic: polynomial-type leaves, scaled by powers
    of two, sub-ranges, weighted sums with a power-of-two weight sum, SubrangeKernel with log-weights 0, ModelKernel over an
    integer affine map, NormalizedKernel over bases with <x,x>-power-of-four diagonals (with gen_pow2_points)"""
    def __init__(self, r):
        self.r = r; self.kinds = set(); self.has_norm = False; self.has_model = False; self.slots = []; self.slots_ad = []

    def leaf(self, dim):
        r = self.r; x = r.below(3)
        if x == 0: self.kinds.add("lin"); return ["lin"], [], []
        if x == 1:
            self.kinds.add("poly")
            return ["poly", str(r.choice([1, 2, 2, 3])), dy(r.choice([Fraction(0), Fraction(0), Fraction(1), Fraction(1, 2), Fraction(2)]))], ["off"], ["off"]
        self.kinds.add("mono"); return ["mono", str(r.choice([0, 1, 2, 2, 3]))], [], []

    def norm_base(self, dim):
        r = self.r; x = r.below(4)
        if x == 0: self.kinds.add("lin"); return ["lin"]
        if x == 1: self.kinds.add("mono"); return ["mono", str(r.choice([1, 2, 3]))]
        if x == 2: self.kinds |= {"scaled", "lin"}; return ["scaled", dy(r.choice([Fraction(4), Fraction(1, 4)])), "lin"]
        self.kinds |= {"scaled", "mono"}; return ["scaled", dy(r.choice([Fraction(4), Fraction(1, 4)])), "mono", "2"]

    def gen(self, dim, depth, allow_norm, allow_model=True):
        """returns (tokens, ps, psa): parameter slots without / with adaptive sub-kernels"""
        r = self.r
        if depth == 0 or r.chance(1, 5): return self.leaf(dim)
        x = r.below(100)
        if x < 20 and allow_norm:
            self.kinds.add("norm"); self.has_norm = True
            return ["norm"] + self.norm_base(dim), [], []
        if x < 38:
            t, ps, psa = self.gen(dim, depth - 1, allow_norm, allow_model); self.kinds.add("scaled")
            return ["scaled", dy(r.choice([Fraction(1, 2), Fraction(2), Fraction(4), Fraction(1, 4)]))] + t, ps, psa
        if x < 62:
            ws = r.choice([[1, 1], [1, 3], [1, 1, 2], [1, 2, 1], [1, 1, 1, 1], [1, Fraction(1, 2), Fraction(1, 2)], [1]])
            subs = [self.gen(dim, depth - 1, allow_norm, allow_model) for _ in ws]
            toks = ["wsum", str(len(ws)), dy(sum(Fraction(w) for w in ws))]
            for w, (t, _, _) in zip(ws, subs): toks += [dy(Fraction(w))] + t
            self.kinds.add("wsum")
            return toks, ["logw"] * (len(ws) - 1), ["logw"] * (len(ws) - 1) + [q for _, _, a in subs for q in a]
        if x < 74 and dim >= 2:
            n = r.choice([1, 2, 2, 4]); toks = ["subk", str(n)] + ["0"] * (n - 1); psa = []
            for _ in range(n):
                a = r.below(dim - 1); b = r.range(a + 1, dim)
                t, _, pa = self.gen(b - a, depth - 1, False, allow_model); toks += [str(a), str(b)] + t; psa += pa
            self.kinds |= {"subk", "sub"}
            return toks, ["logw"] * (n - 1), ["logw"] * (n - 1) + psa
        if x < 86 and dim >= 2:
            a = r.below(dim - 1); b = r.range(a + 1, dim)
            t, ps, psa = self.gen(b - a, depth - 1, False, allow_model); self.kinds.add("sub")
            return ["sub", str(a), str(b)] + t, ps, psa
        if allow_model:
            rdim = r.choice([1, 2, 2]); self.kinds.add("model"); self.has_model = True
            A = [[r.range(-1, 1) for _ in range(dim)] for _ in range(rdim)]
            bvec = [r.range(-1, 1) for _ in range(rdim)]
            t, ps, psa = self.gen(rdim, depth - 1, False, False)
            extra = ["int"] * (rdim * dim + rdim)
            return ["model", str(rdim), str(dim)] + [str(v) for row in A for v in row] + [str(v) for v in bvec] + t, ps + extra, psa + extra
        return self.leaf(dim)


def gen_deriv2_case(r, maxn, pointset_ok=False):
    """exact correspondence of weightedParameterDerivative / weightedInputDerivative / calculateKernelMatrixParameterDerivative
    for COMPOSED kernels (model: Kern.paramGradA / inputGradA / gramParamDeriv), incl. adaptive sub-kernels"""
    dim = r.choice([1, 2, 2, 3]); n = r.range(1, maxn)
    g = DGen(r)
    want_norm = r.chance(1, 3)
    toks, ps, psa = g.gen(dim, r.choice([1, 1, 2, 2, 3]), want_norm)
    pts = gen_pow2_points(r, n, dim) if g.has_norm else gen_points(r, n, dim, False)
    if g.has_model and g.has_norm:
        pts = gen_pow2_points(r, n, dim)
    ops = ["kern " + " ".join(toks), f"pts {n} {dim} " + " ".join(str(v) for p in pts for v in p), "flags"]
    adaptive = ("wsum" in toks or "subk" in toks) and r.chance(1, 2)
    if adaptive: ops += ["adaptall", "flags"]

    def coeffs(k):
        return " ".join(dy(r.choice([Fraction(v) for v in (-2, -1, 0, 1, 2, 3)] + [Fraction(1, 2)])) for _ in range(k))

    def deriv_ops():
        for _ in range(r.range(2, 3)):
            a = r.below(n); b = r.range(a + 1, n); c = r.below(n); d = r.range(c + 1, n)
            co = coeffs((b - a) * (d - c))
            ops.append(f"pderiv {a} {b} {c} {d} {co}"); ops.append(f"ideriv {a} {b} {c} {d} {co}")
        ops.append("gderivx " + " ".join(map(str, rand_partition(r, n))))
        ops.append(f"gderivx {n}")
    deriv_ops()
    slots = psa if adaptive else ps
    # setParameterVector in the middle: log-encoded slots stay 0 (exp(0) = 1 exactly), offsets and model entries change
    if slots and r.chance(1, 2) and not g.has_norm:
        vals = [Fraction(0) if q == "logw" else (r.choice(OFFSETS) if q == "off" else Fraction(r.range(-1, 1))) for q in slots]
        if all(q == "logw" for q in slots) or True:
            # a weighted sum re-normalises by 1 + (n-1): exact only if that is a power of two -> checked by the Rat run itself
            nsum_ok = all(is_pow2(Fraction(int(t))) for t, prev in zip(toks[1:], toks[:-1]) if prev in ("wsum", "subk"))
            if nsum_ok:
                ops.append("setparams " + " ".join(dy(v) for v in vals)); deriv_ops()
    # PointSetKernel over the same kernel: parameter derivative on a block of sets and through the Gram helper
    if pointset_ok and not g.has_norm and r.chance(1, 2):
        sizes, left = [], n
        while left > 0 and len(sizes) < 4:
            sz = r.choice([q for q in (1, 2, 4) if q <= left]); sizes.append(sz); left -= sz
        m = len(sizes)
        ops.append("psets " + " ".join(map(str, sizes)))
        a = r.below(m); b = r.range(a + 1, m); c = r.below(m); d = r.range(c + 1, m)
        ops.append(f"ps pderiv {a} {b} {c} {d} {coeffs((b - a) * (d - c))}")
        ops.append("ps gderivx " + " ".join(map(str, rand_partition(r, m))))
        ops.append("ps gderiv " + " ".join(map(str, rand_partition(r, m))))
        g.kinds.add("pointset")
    # finite differences last: the oracle restores the parameters through the log/exp encodings (rounding)
    a = r.below(n); b = r.range(a + 1, min(n, a + 3)); c = r.below(n); d = r.range(c + 1, min(n, c + 3))
    if not g.has_norm:
        ops.append(f"dcheck {a} {b} {c} {d} " + " ".join(str(r.range(-2, 2)) for _ in range((b - a) * (d - c))))
    kinds = set(g.kinds) | {"deriv2"} | ({"adaptive"} if adaptive else set())
    return ops, dict(exact=True, exact_case=True, kinds=kinds, depth=1, n=n, dim=dim, parts=0, M=Fraction(1), f=0)



# ----------------------------------------------------------------------------- ModelKernel over models WITH state
NETW = [Fraction(-1), Fraction(-1, 2), Fraction(0), Fraction(1, 2), Fraction(1), Fraction(3, 4), Fraction(-1, 4), Fraction(3, 2), Fraction(-2)]


def gen_net(r, nin, exact):
    """a ConcatenatedModel chain (specs as in harness/c04.cpp).  exact: linear / rectifier layers with weights in {-1,0,1},
    at most two dense layers of width <= 2 (all values stay small integers); otherwise tanh / logistic / linear dense
    layers with dyadic weights, element-wise neuron layers, optionally a softmax / normalizer row layer.
    Returns (specs, params of ALL dense layers, parameter slots of the OPTIMISED layers, number of layers)"""
    specs, params, slots = [], [], []
    n = nin
    ndense = r.choice([1, 2, 2, 2]) if exact else r.choice([1, 2, 2, 2, 3])
    last_act = None
    for li in range(ndense):
        nout = r.choice([1, 2, 2]) if exact else r.choice([1, 2, 2, 3, 4])
        act = r.choice(["linear", "rectifier", "rectifier"]) if exact else r.choice(["tanh", "tanh", "logistic", "linear"])
        if li == ndense - 1 and r.chance(1, 2): act = "linear"          # the usual network: non-linear hidden layers, linear output
        hb = not r.chance(1, 4); opt = not r.chance(1, 5)                  # frozen layers: not part of the parameter vector
        np_ = nout * n + (nout if hb else 0)
        vals = [Fraction(r.range(-1, 1)) for _ in range(np_)] if exact else [r.choice(NETW) for _ in range(np_)]
        specs.append(f"d:{act}:{int(hb)}:{nout}:{int(opt)}"); params += vals
        if opt: slots += ["int" if exact else "logw"] * np_
        n = nout; last_act = act
        if r.chance(1, 5):
            a2 = r.choice(["rectifier", "linear"]) if exact else r.choice(["tanh", "logistic"])
            specs.append(f"n:{a2}:{r.below(2)}"); last_act = a2
    if not exact and r.chance(1, 4):
        if last_act == "logistic" and r.chance(1, 2): specs.append(f"r:normalizer:{r.below(2)}")   # sums of logistic outputs are > 0
        else: specs.append(f"r:softmax:{r.below(2)}")
    return specs, params, slots, len(specs)


def gen_mnet_case(r, maxn, exact):
    """ModelKernel over a ConcatenatedModel chain: the model's State holds the hidden responses of ONE batch, the kernel keeps
    one State per argument.  Observed: single / block / stateful block / feature distance / Gram over partitions, the parameter
    derivative on blocks with x1 != x2 of DIFFERENT sizes, through the Gram helper, after setParameterVector, with a State
    object that served other batches before, into re-used outputs; finite differences for smooth chains.
    exact: compared with the Lean model (Rat + Float); otherwise oracle-only (finite differences 2e-5)."""
    dim = r.choice([1, 2, 2, 3]); n = r.range(2, min(maxn, 6))
    specs, params, nslots, nl = gen_net(r, dim, exact)
    # dimension of the base kernel's inputs = output dimension of the chain
    odim = dim
    for sp in specs:
        f = sp.split(":")
        if f[0] == "d": odim = int(f[3])
    if exact:
        g = DGen(r)
        toks, ps, psa = g.gen(odim, r.choice([0, 1, 1]), False, False)
        if r.chance(1, 12):
            # a base kernel WITHOUT derivatives (ProductKernel): the ModelKernel must not claim a parameter derivative
            small = [(["lin"], []), (["poly", "2", "1"], ["off"]), (["mono", "2"], []), (["poly", "1", "1:-1"], ["off"])]     # values stay below 2^40
            (l1, p1), (l2, p2) = r.choice(small), r.choice(small)
            toks, ps, psa = ["prod", "2"] + l1 + l2, p1 + p2, p1 + p2; g.kinds |= {"prod", "lin", "poly"}
        kinds = set(g.kinds); kslots = ps
        pts = [[r.range(-2, 2) for _ in range(dim)] for _ in range(n)]
    else:
        kg = KGen(r); kg.no_norm = 1
        for _ in range(40):
            toks, info = kg.gen(odim, r.choice([0, 1, 1, 2]))
            if "prod" not in toks and "model" not in toks: break
        else:
            toks, info = ["gauss", "1:-1"], dict(kinds={"gauss"}, ps=["gamma"])
        kinds = set(info["kinds"]); kslots = info["ps"]
        pts = gen_points(r, n, dim, False)
    ops = ["kern " + " ".join(toks), f"pts {n} {dim} " + " ".join(str(v) for p in pts for v in p)]
    # adaptive sub-kernels of a weighted sum below the ModelKernel: their parameters are part of kernelGrad | modelGrad
    adaptive = exact and ("wsum" in toks or "subk" in toks) and r.chance(1, 2)
    if adaptive: ops.append("adaptall"); kslots = psa
    ops += [f"mnet {nl} " + " ".join(specs) + " " + " ".join(dy(v) for v in params), "mn flags"]

    def two_blocks(maxlen):
        while True:
            a = r.below(n); b = r.range(a + 1, min(n, a + maxlen)); c = r.below(n); d = r.range(c + 1, min(n, c + maxlen))
            if (a, b) != (c, d): return a, b, c, d

    def coeffs(k):
        return " ".join(dy(r.choice([Fraction(v) for v in (-2, -1, 1, 2, 3)] + [Fraction(1, 2)])) for _ in range(k))

    def observe():
        i = r.below(n)
        ops.extend([f"mn single {i} {i}", f"mn single {r.below(n)} {r.below(n)}", f"mn fdist {r.below(n)} {r.below(n)}"])
        a, b, c, d = two_blocks(n)
        ops.extend([f"mn block {a} {b} {c} {d}", f"mn sblock {a} {b} {c} {d}"])
        ops.append(f"mn gram {dy(r.choice([Fraction(0), Fraction(1, 2)]))} " + " ".join(map(str, rand_partition(r, n))))

    def derivs():
        for _ in range(2):
            a, b, c, d = two_blocks(4)
            ops.append(f"mn pderiv {a} {b} {c} {d} {coeffs((b - a) * (d - c))}")
        ops.append("mn gderivx " + " ".join(map(str, rand_partition(r, n))))
        ops.append("mn gderiv " + " ".join(map(str, rand_partition(r, n))))
        a, b, c, d = two_blocks(4); a2, b2, c2, d2 = two_blocks(4)
        ops.append(f"mn reuse {a} {b} {c} {d} {a2} {b2} {c2} {d2} {coeffs((b2 - a2) * (d2 - c2))}")
        a, b, c, d = two_blocks(3)
        ops.append(f"mn stale {a} {b} {c} {d} {coeffs((b - a) * (d - c))}")
        if not exact:
            for _ in range(2):
                a, b, c, d = two_blocks(3)
                ops.append(f"mn dcheck {a} {b} {c} {d} " + " ".join(str(r.choice([-2, -1, 1, 2])) for _ in range((b - a) * (d - c))))
    observe(); derivs()
    if r.chance(1, 2):
        if exact:
            vals = [Fraction(0) if q == "logw" else (r.choice(OFFSETS) if q == "off" else Fraction(r.range(-1, 1))) for q in kslots + nslots]
            nsum_ok = all(is_pow2(Fraction(int(t))) for t, prev in zip(toks[1:], toks[:-1]) if prev in ("wsum", "subk"))
        else:
            vals = new_params(r, kslots + nslots, free_ard=True); nsum_ok = True
        if nsum_ok:
            ops.append(("mn setparams " + " ".join(dy(v) for v in vals)).strip()); ops.append("mn flags"); observe(); derivs()
    if r.chance(1, 2): ops.append(f"mn gramt {r.choice([24, 40])} {r.choice([2, 3, 5])}")
    kinds |= {"mnet"} | ({"mnet-exact"} if exact else {"mnet-smooth"}) | ({"adaptive"} if adaptive else set())
    return ops, dict(exact=exact, exact_case=exact, kinds=kinds, depth=2, n=n, dim=dim, parts=0, M=Fraction(1), f=0, oracle_only=not exact)


def gramt_op(r):
    """thread-count sweep of the blockwise Gram assembly (oracle only): N points in batches of alternating sizes bs / bs-1"""
    return f"gramt {r.choice([24, 40, 64])} {r.choice([2, 3, 5, 8])}"


def kexp_ops(r, n, exactvals=True):
    """a KernelExpansion over the first m points (basis batched), evaluated on blocks of the points"""
    m = r.range(1, n); nout = r.choice([1, 1, 2, 3]); off = r.below(2)
    sizes = rand_partition(r, m)
    vals = [Fraction(r.range(-2, 2)) if r.chance(3, 4) else Fraction(r.choice([1, -1, 3]), 2) for _ in range(m * nout + off * nout)]
    ops = [f"kexp {nout} {off} {len(sizes)} " + " ".join(map(str, sizes)) + " " + " ".join(dy(v) for v in vals)]
    for _ in range(2):
        a = r.below(n); b = r.range(a + 1, n); ops.append(f"kx {a} {b}")
    return ops


def skip_ops(r, n, dim):
    ops = []
    for _ in range(2):
        full = (1 << dim) - 1
        while True:
            ma, mb, mm = (r.below(full + 1) if r.chance(1, 2) else 0 for _ in range(3))
            if (ma | mb | mm) != full: break       # at least one feature is present everywhere
        ops.append(f"skip {r.below(n)} {r.below(n)} {ma} {mb} {mm}")
    return ops


def gen_task_case(r, maxn, reconf_ok):
    """GaussianTaskKernel / MultiTaskKernel over a vector kernel (harness c05b): task table, batching of the task data,
    single / block / Gram of the product kernel; setParameterVector / setGamma on the live object when the
    gaussian-task-kernel-stale-matrix probe passes"""
    dim = r.choice([1, 2, 2, 3]); n = r.range(1, maxn)
    kg = KGen(r); kg.no_norm = 1
    while True:
        toks, info = kg.gen(dim, r.choice([0, 0, 1, 1, 2]))
        if not ({"model", "subk", "wsump"} & info["kinds"]): break
    pts = gen_points(r, n, dim, False)
    T = r.range(1, 4); tasks = [r.below(T) for _ in range(n)]
    if T >= 2 and r.chance(1, 3): tasks = [t % (T - 1) for t in tasks]       # a task without examples
    gam = r.choice(GAMMAS)
    ops = ["kern " + " ".join(toks), f"pts {n} {dim} " + " ".join(str(v) for p in pts for v in p),
           f"task {T} {dy(gam)} " + " ".join(map(str, tasks)), "tbatch " + " ".join(map(str, rand_partition(r, n)))]
    def observe():
        ops.append(f"mt 0 {r.below(n)} {r.below(n)}"); i = r.below(n); ops.append(f"mt 0 {i} {i}")
        a = r.below(n); b = r.range(a + 1, n); c = r.below(n); d = r.range(c + 1, n)
        ops.append(f"mt 1 {a} {b} {c} {d}")
        ops.append(f"mt 2 {dy(r.choice([Fraction(0), Fraction(1, 2)]))} " + " ".join(map(str, rand_partition(r, n))))
    observe()
    ops.append(f"mt 3 {r.choice([24, 40, 64])} {r.choice([2, 3, 5, 8])}")     # MultiTaskKernel IS a ProductKernel: thread-count sweep
    if reconf_ok:
        for _ in range(r.range(1, 2)):
            if r.chance(1, 2): ops.append(f"tsetgamma {dy(r.choice(GAMMAS))}")
            else: ops.append(("tsetparams " + " ".join(dy(v) for v in new_params(r, info["ps"]) + [r.choice(GAMMAS)])).strip())
            observe()
    return ops, dict(exact=False, exact_case=False, kinds=info["kinds"] | {"task", "multitask"}, depth=info["depth"] + 1, n=n, dim=dim, parts=0, M=Fraction(1), f=0)


def gen_mkl_case(r, maxn):
    """MklKernel over pairs of vectors (harness c05b) = direct sum of two kernels (model: subrangeKernel)"""
    dim = r.choice([2, 2, 3, 4]); n = r.range(1, maxn); da = r.range(1, dim - 1)
    kg = KGen(r); kg.no_norm = 1
    def part(d):
        while True:
            t, i = kg.gen(d, r.choice([0, 0, 1, 2]))
            if not ({"model", "subk", "sub", "wsump", "wsum", "prod"} & i["kinds"]): return t, i
    t1, i1 = part(da); t2, i2 = part(dim - da)
    pw = r.choice([Fraction(0), Fraction(0), Fraction(1), Fraction(-1), Fraction(1, 2)])
    pts = gen_points(r, n, dim, False)
    ops = [f"mkl {da} {dy(pw)} " + " ".join(t1 + t2), f"pts {n} {dim} " + " ".join(str(v) for p in pts for v in p), "mk flags"]
    def observe():
        ops.append(f"mk single {r.below(n)} {r.below(n)}"); ops.append(f"mk fdist {r.below(n)} {r.below(n)}")
        a = r.below(n); b = r.range(a + 1, n); c = r.below(n); d = r.range(c + 1, n)
        ops.extend([f"mk block {a} {b} {c} {d}", f"mk sblock {a} {b} {c} {d}", f"mk fdistb {a} {b} {c} {d}"])
        ops.append(f"mk gram {dy(r.choice([Fraction(0), Fraction(1)]))} " + " ".join(map(str, rand_partition(r, n))))
        ops.append("mk gderiv " + " ".join(map(str, rand_partition(r, n))))
    observe()
    if r.chance(1, 2):
        ops.append(f"mk setparams {dy(r.choice(LOGS))}"); observe()
    if r.chance(1, 2): ops.append("mk " + gramt_op(r))
    a = r.below(n); b = r.range(a + 1, min(n, a + 3)); c = r.below(n); d = r.range(c + 1, min(n, c + 3))
    ops.append(f"mk dcheck {a} {b} {c} {d} " + " ".join(str(r.range(-2, 2)) for _ in range((b - a) * (d - c))))
    ex = pw == 0 and i1["exact"] and i2["exact"] and "setparams" not in " ".join(ops)
    info = dict(exact=ex, M=max(i1["M"], i2["M"]), f=max(i1["f"], i2["f"]) + 1, kinds=i1["kinds"] | i2["kinds"] | {"mkl"}, depth=1 + max(i1["depth"], i2["depth"]),
                n=n, dim=dim, parts=0)
    info["exact_case"] = exact_ok(info)
    return ops, info


def gen_discrete_case(r, all_partitions=False):
    """DiscreteKernel: symmetric PSD integer table A = B B^T, index data with repetitions"""
    m = r.range(1, 5)
    B = [[r.range(-2, 2) for _ in range(r.range(1, 3))] for _ in range(m)]
    w = max(len(b) for b in B)
    B = [b + [0] * (w - len(b)) for b in B]
    T = [[sum(x * y for x, y in zip(B[i], B[j])) for j in range(m)] for i in range(m)]
    n = r.range(2, 7)
    idx = [r.below(m) for _ in range(n)]
    ops = [f"kern disc {m} " + " ".join(str(v) for row in T for v in row), "ipts " + " ".join(map(str, idx))]
    for _ in range(3):
        ops.append(f"single {r.below(n)} {r.below(n)}")
    a = r.below(n); b = r.range(a + 1, n); c = r.below(n); d = r.range(c + 1, n)
    ops += [f"block {a} {b} {c} {d}", f"sblock {a} {b} {c} {d}", f"block 0 {n} 0 {n}", f"fdist {r.below(n)} {r.below(n)}"]
    parts = [[n], [1] * n, rand_partition(r, n)]
    if all_partitions:
        parts = list(compositions(n))
    for p in parts:
        ops.append(f"gram {r.choice(['0', '1', '1:-1'])} " + " ".join(map(str, p)))
    return ops, dict(exact=True, exact_case=True, kinds={"disc"}, depth=0, n=n, dim=0, parts=len(parts), M=Fraction(1), f=0)


# ----------------------------------------------------------------------------- classification
def kinds_of(ops):
    toks = ops[0].split() if ops else []
    if toks and toks[0] == "mkl": toks = ["kern", "mkl"] + toks[3:]
    names = {"mkl", "lin", "poly", "mono", "gauss", "ard", "norm", "scaled", "wsum", "wsump", "prod", "sub", "disc", "model", "subk", "polyu", "gaussu"}
    ks = {t for t in toks[1:] if t in names}
    if any(o.startswith("mnet ") for o in ops): ks.add("mnet")
    return sorted(ks)


def classify(ops, res):
    kinds = kinds_of(ops)
    opk = sorted({o.split()[0] for o in ops[2:]})
    tag = None
    if res.oracle:
        m = re.search(r"!oracle (\S+)", res.oracle[0]); tag = m.group(1)
    crash = None
    if res.crash:
        m = re.search(r"ERROR: AddressSanitizer: (\S+)|runtime error: ([^\n]*)", res.stderr)
        crash = (m.group(1) or m.group(2)) if m else "crash"
    # the op whose line carries the oracle failure (the named keys below are tied to the op that exposes the listed defect,
    # so that a different violation on a kernel of the same kind is not classified as that finding)
    fop = None
    for o, l in zip(ops, res.impl):
        if "!oracle" in l:
            w = o.split(); fop = w[1] if w[0] in ("ps", "mk", "mn") and len(w) > 1 else w[0]
            break
    reconfigured = any(o in ("setfactor", "setparams") for o in opk)
    if fop is not None:
        blockish = fop in ("block", "gram", "mixed", "fdist") and not reconfigured
    else:
        blockish = any(o in ("block", "gram", "mixed", "fdist") for o in opk) and not reconfigured
    # stable keys of the two defects found while building this check (see findings_proposed/C05.md)
    f4_tags = {"block-vs-single", "gram-vs-single", "asymmetric-block", "asymmetric-gram", "normalized-diag",
               "feature-distance-batch", "block-shape", "negative-eigenvalue"}
    if "norm" in kinds and blockish and (crash or tag in f4_tags):
        return "normalized-stateless-block", (f"NormalizedKernel stateless block evaluation disagrees with single evaluation "
                                             f"({tag or crash}) on ops {ops}")
    if "disc" in kinds and blockish and (crash or tag in f4_tags):
        return "discrete-block-ignores-indices", (f"DiscreteKernel block evaluation ignores the batch contents ({tag or crash}) on ops {ops}")
    if "mono" in kinds and tag == "input-derivative" and fop == "dcheck" and re.search(r"\bmono 1\b", ops[0]):
        return "monomial-degree1-input-derivative", (f"MonomialKernel(1)::weightedInputDerivative is 0 where <x,z> = 0 "
                                                    f"(finite differences disagree) on ops {ops}")
    if "prod" in kinds and tag in ("product-parameter-count", "parameter-vector-size"):
        return "product-uninitialised-parameter-count", (f"ProductKernel::m_numberOfParameters is never initialised: "
                                                        f"numberOfParameters() is garbage ({res.oracle[0][-90:]}) for '{ops[0]}'")
    if "prod" in kinds and crash and "adaptall" in ops and len(res.impl) == ops.index("adaptall"):
        # the harness dies inside the adaptall op itself (its parameterVector() call) on a kernel containing a product
        return "product-stale-parameter-count", (f"ProductKernel::m_numberOfParameters is stale after a factor's parameter count changed "
                                                 f"(setAdaptiveAll): parameterVector() overflows ({crash}) on ops {ops}")
    if tag == "task-table-stale" and fop in ("tsetparams", "tsetgamma"):
        return "gaussian-task-kernel-stale-matrix", (f"GaussianTaskKernel: the task table after {fop} on the live object is not the table of the "
                                                     f"current parameters ({res.oracle[0][-100:]}) on ops {ops}")
    if any(o.startswith("psets") for o in ops) and fop in ("pderiv", "gderiv", "gderivx", "stale") and tag in ("stale-output-param", "gram-param-derivative"):
        return "pointset-parameter-derivative-not-cleared", (f"PointSetKernel::weightedParameterDerivative adds to the gradient it is handed instead of "
                                                             f"overwriting it ({res.oracle[0][-100:]}) on ops {ops}")
    if "prod" in kinds and "prod 0" in ops[0] and (crash or tag):
        return "empty-product-block", f"ProductKernel with no factors: block evaluation fails ({tag or crash}) on ops {ops}"
    if crash:
        return f"crash:{crash}:{'+'.join(kinds)}", f"harness aborted ({crash}) on ops {ops}"
    if tag:
        return f"oracle:{tag}:{'+'.join(kinds)}:{fop}", f"property oracle failed ({tag}) at op {fop} on ops {ops}"
    return f"mismatch:{'+'.join(kinds)}:{'+'.join(opk)}", f"model and implementation disagree at line {res.diff_at} of ops {ops}"


def load_corpus():
    d = os.path.join(core.VERIF, "corpus", "C05")
    out = []
    if os.path.isdir(d):
        for fn in sorted(os.listdir(d)):
            if not fn.endswith(".txt"): continue
            lines = [l.strip() for l in open(os.path.join(d, fn))]
            mode = "float"
            for l in lines:
                if l.startswith("# mode:"): mode = l.split(":", 1)[1].strip()
            ops = [l for l in lines if l and not l.startswith("#")]
            if ops: out.append((ops, mode))
    return out


SPARSE_UNSUPPORTED = {"ard", "norm", "sub", "model", "subk", "mnet"}     # do not compile for CompressedRealVector (see harness/c05.cpp)


def harness_name():
    return "c05" if core.REPO == "/repo" else "c05-" + core.sha(core.REPO)[:6]


def build(ctx):
    return ctx.harness(harness_name(), ["c05.cpp"])


def build_b(ctx):
    """second harness: kernels over structured inputs (GaussianTaskKernel / MultiTaskKernel, MklKernel)"""
    return ctx.harness(harness_name().replace("c05", "c05b", 1), ["c05b.cpp"])


def run(ctx):
    ctx.trusted += ["correspondence harness harness/c05.cpp + generator checks/c05.py",
                    "hand-written model Model/Kernels.lean (the kernel headers are modelled, not translated)",
                    "Float instance of the model = IEEE binary64 + glibc exp/sqrt, same as the C++ (bit mode); "
                    "exactness of the Rat comparison rests on values being dyadic rationals below 2^50 (generator bound)",
                    "ASan/UBSan runtime for the real code's memory safety (not a theorem)"]
    ctx.assumptions += ["points of equal dimension (SIZE_CHECK), batches non-empty, scaled factor > 0, weights > 0, gamma > 0 (the C++ preconditions)",
                        "theorems are exact-arithmetic statements over ordered fields; rounding is outside them",
                        "PSD theorems: kernel_psd_equalDim (all kernels incl. Gaussian/ARD, data of equal dimension) needs no hypothesis; kernel_psd (points of arbitrary lengths, arbitrary exp) carries GaussianPSD as hypothesis"]
    ctx.prove(PROPS)
    if not ctx.quick:
        ctx.leanchecker(PROPS)
    exe = build(ctx)
    exe_b = build_b(ctx)
    drv = ctx.driver("drv_c05")
    if not exe or not exe_b or not drv:
        return
    r = ctx.rng.fork("c05")
    # SHARK_PARALLEL_FOR in the Gram assembly stays parallel (2 threads), but without 16 spinning threads
    env = {"OMP_NUM_THREADS": "2" if ctx.quick else "3", "OMP_WAIT_POLICY": "passive"}
    ncases, ndisc, maxn = (400, 40, 7) if ctx.quick else (2500, 200, 10)
    nderiv = 80 if ctx.quick else 500
    nhist = 300 if ctx.quick else 1000
    nconf = 300 if ctx.quick else 1000
    cases = []       # (ops, info)
    for ops, mode in load_corpus():
        cases.append((ops, dict(exact_case=(mode == "exact"), kinds=set(kinds_of(ops)), depth=-1, n=0, dim=0, parts=0, corpus=True,
                                oracle_only=(mode == "oracle-only"))))
    ctx.cov["corpus_cases"] = len(cases)
    corp = load_corpus()
    ps_stale = probe_fails(exe, env, [o for o, m in corp if any(x.startswith("ps gderiv") or x.startswith("ps pderiv") for x in o)])
    tk_stale = probe_fails(exe_b, env, [o for o, m in corp if any(x.startswith("tset") for x in o)])
    ctx.cov["probe_pointset_parameter_derivative"] = "defect present" if ps_stale else "passes"
    ctx.cov["probe_gaussian_task_kernel_reconfiguration"] = "defect present" if tk_stale else "passes"
    for _ in range(ncases):
        cases.append(gen_case(ctx, r, maxn, ps_reuse_ok=not ps_stale))
    for _ in range(ndisc):
        cases.append(gen_discrete_case(r))
    for _ in range(nderiv):
        cases.append(gen_deriv_case(r, maxn))
    for _ in range(nhist):
        cases.append(gen_history_case(r, maxn))
    # open finding product-stale-parameter-count: while the defect is present, sub-kernels of sums below a ProductKernel are
    # not made adaptive in the generated stream (every such case would die in ProductKernel::parameterVector); the corpus
    # case keeps reporting it, and on a repaired tree the probe passes and those configurations are generated
    stale = probe_fails(exe, env, [o for o, m in load_corpus() if o and "adaptall" in o and "prod" in o[0]])
    ctx.cov["probe_product_stale_parameter_count"] = "defect present" if stale else "passes"
    for _ in range(nconf):
        cases.append(gen_config_case(r, maxn, avoid_prod_adaptive=stale))
    # open findings pointset-parameter-derivative-not-cleared / gaussian-task-kernel-stale-matrix: the corpus cases keep
    # reporting them; the generated stream uses the affected calls (PointSetKernel parameter derivative into a re-used
    # gradient; setParameterVector / setGamma on a live GaussianTaskKernel) only on a tree where the probes pass
    nd2, ntask, nmkl = (250, 120, 120) if ctx.quick else (1200, 500, 500)
    for _ in range(nd2):
        cases.append(gen_deriv2_case(r, maxn, pointset_ok=not ps_stale))
    for _ in range(ntask):
        cases.append(gen_task_case(r, maxn, reconf_ok=not tk_stale))
    for _ in range(nmkl):
        cases.append(gen_mkl_case(r, maxn))
    # ModelKernel over ConcatenatedModel chains (models WITH state): exact chains against the Lean model, smooth chains
    # (tanh / logistic / softmax / normalizer) against finite differences
    nnet_x, nnet_s = (150, 200) if ctx.quick else (800, 1000)
    for _ in range(nnet_x):
        cases.append(gen_mnet_case(r, maxn, True))
    for _ in range(nnet_s):
        cases.append(gen_mnet_case(r, maxn, False))
    if not ctx.quick:
        # partition independence: ALL ordered batch partitions of n points (n <= 12)
        for n in (6, 8, 10, 12):
            for _ in range(3 if n < 12 else 1):
                rr = r.fork(f"allparts{n}")
                while True:
                    ops, info = gen_case(ctx, rr, n, all_partitions=True)
                    if info["n"] == n: break
                cases.append((ops, info))
        cases.append(gen_discrete_case(r, all_partitions=True))
    else:
        rr = r.fork("allparts-quick")
        while True:
            ops, info = gen_case(ctx, rr, 6, all_partitions=True)
            if info["n"] >= 5: break
        cases.append((ops, info))
    # evidence: input distribution
    for ops, info in cases:
        for k in info["kinds"]: ctx.hist("kernel_kinds", k)
        ctx.hist("kernel_depth", info["depth"])
        ctx.hist("points_n", info["n"]); ctx.hist("points_dim", info["dim"])
        ctx.hist("gram_partitions_per_case", min(info["parts"], 64) if info["parts"] < 64 else "64+")
        ctx.hist("mode", "exact(Rat)+bit(Float)" if info["exact_case"] else "bit(Float) only")
        for o in ops[2:]: ctx.hist("op_mix", o.split()[0])
    # boundary classes of the generated inputs (measured, for the evidence)
    for ops, info in cases:
        pl = next((o.split() for o in ops if o.startswith("pts ")), None)
        if pl:
            n_, d_ = int(pl[1]), int(pl[2]); rows = [tuple(pl[3 + i * d_: 3 + (i + 1) * d_]) for i in range(n_)]
            if n_ == 1: ctx.hist("boundary_classes", "one point")
            if len(set(rows)) < n_: ctx.hist("boundary_classes", "duplicate points")
            if any(all(v == "0" for v in row) for row in rows): ctx.hist("boundary_classes", "zero vector among the points")
            if d_ == 1: ctx.hist("boundary_classes", "dimension 1")
        nrec = sum(1 for o in ops if o.split()[0] in ("setparams", "setfactor", "tsetparams", "tsetgamma") or o.startswith("mk setparams"))
        if nrec >= 2: ctx.hist("boundary_classes", "history with >= 2 reconfigurations of one object")
        if "adaptall" in ops: ctx.hist("boundary_classes", "adaptive sub-kernels")
        for o in ops:
            w = o.split()
            if w[0] == "task" and len(set(w[3:])) < int(w[1]): ctx.hist("boundary_classes", "task without examples"); 
            if w[0] == "task" and int(w[1]) == 1: ctx.hist("boundary_classes", "single task")
            if w[0] in ("gram", "gderivx", "gderiv") and len(w) >= 3 and all(x == "1" for x in w[(2 if w[0] == "gram" else 1):]): ctx.hist("boundary_classes", "all batches of size 1")
            if w[0] in ("gderivx", "gderiv") and len(w) == 2: ctx.hist("boundary_classes", "one batch")
            if w[0] in ("pderiv", "ideriv") and int(w[2]) - int(w[1]) == 1 and int(w[4]) - int(w[3]) == 1: ctx.hist("boundary_classes", "1x1 derivative block")
            if w[0] == "kexp" and w[3] == "1": ctx.hist("boundary_classes", "kernel expansion over one basis batch")
            if w[0] == "kexp" and w[2] == "0": ctx.hist("boundary_classes", "kernel expansion without offset")
            if w[0] == "skip" and w[3:] == ["0", "0", "0"]: ctx.hist("boundary_classes", "skip-missing with nothing missing")
            if w[0] in ("mono",) : pass
        if " mono 0" in ops[0] or " mono 1" in ops[0]: ctx.hist("boundary_classes", "monomial exponent 0 or 1")
        if "poly 1 " in ops[0]: ctx.hist("boundary_classes", "polynomial degree 1")
        if any(t in ops[0] for t in ("wsum 1 ", "wsump 1", "subk 1", "prod 1 ")): ctx.hist("boundary_classes", "sum / product of one kernel")
    ctx.cov["evaluations"] = len(cases)
    ctx.cov["distinct_nontrivial"] = len({"\n".join(o) for o, i in cases
                                          if i["depth"] >= 1 or any(x.startswith("gram") and len(x.split()) > 3 for x in o)})
    ctx.cov["gram_ops"] = sum(1 for o, _ in cases for x in o if x.startswith("gram"))
    ctx.sample({"ops": cases[len(cases) // 2][0][:8]})
    ctx.sample({"ops": cases[len(cases) // 3][0][:8]})
    oonly = [o for o, i in cases if i.get("oracle_only")]
    cases = [(o, i) for o, i in cases if not i.get("oracle_only")]
    ctx.cov["cases_oracle_only"] = len(oonly)
    if oonly:
        # one harness process for all of them (the session is reset by every `kern` line); on failure case by case
        e = dict(os.environ); e.setdefault("ASAN_OPTIONS", "detect_leaks=0"); e.update(env)
        import subprocess
        p = subprocess.run([exe, "dense"], input="\n".join(l for o in oonly for l in o) + "\n", capture_output=True, text=True, errors="replace", env=e, timeout=600)
        if p.returncode != 0 or "!oracle" in p.stdout:
            core.oracle_only(ctx, "K-C05[dense,oracle-only histories]", oonly, [exe, "dense"], classify, env=env)
        else:
            ctx.log(f"K-C05[dense,oracle-only histories]: {len(oonly)} cases pass the in-harness oracle")
    # second harness: kernels over structured inputs (dense only)
    bcases = [(o, i) for o, i in cases if is_b_case(o)]
    cases = [(o, i) for o, i in cases if not is_b_case(o)]
    ctx.cov["cases_structured_inputs"] = len(bcases)
    core.correspond(ctx, "K-C05b[float]", [o for o, _ in bcases], [exe_b], [drv, "float"], classify, keep_prefix=2, env=env)
    exb = [o for o, i in bcases if i["exact_case"]]
    ctx.cov["cases_structured_inputs_exact"] = len(exb)
    core.correspond(ctx, "K-C05b[rat]", exb, [exe_b], [drv, "rat"], classify, keep_prefix=2, env=env)
    for inp in ("dense", "sparse"):
        sel = [(o, i) for o, i in cases if inp == "dense" or not (set(i["kinds"]) & SPARSE_UNSUPPORTED)]
        if inp == "sparse":      # weightedInputDerivative / evalSkipMissingFeatures need a dense input type
            sel = [([x for x in o if not x.startswith(("ideriv", "ps ", "psets", "skip"))], i) for o, i in sel]
        ctx.cov[f"cases_{inp}"] = len(sel)
        core.correspond(ctx, f"K-C05[{inp},float]", [o for o, _ in sel], [exe, inp], [drv, "float"], classify, keep_prefix=2, env=env)
        ex = [o for o, i in sel if i["exact_case"]]
        ctx.cov[f"cases_{inp}_exact"] = len(ex)
        core.correspond(ctx, f"K-C05[{inp},rat]", ex, [exe, inp], [drv, "rat"], classify, keep_prefix=2, env=env)
    ctx.sample({"theorems": ["k_symm", "batch_eval_eq_single", "batch_evalS_eq_single", "gram_assembly_correct",
                             "gram_partition_independent", "normalized_diag_one", "isNormalized_diag_one", "featureDistance_def",
                             "history_flag_sound", "history_diag_one", "history_featureDistance_def", "featureDistanceBlock_eq_single",
                             "linear_psd", "kernel_psd", "gram_psd", "gauss_weightedParameterDerivative",
                             "poly_weightedParameterDerivative", "gauss_weightedInputDerivative"]})


def replay(ctx, rep):
    exe = build_b(ctx) if is_b_case(rep["ops"]) else build(ctx); drv = ctx.driver("drv_c05")
    hcmd = list(rep.get("harness_cmd", [exe, "dense"])); hcmd[0] = exe
    dcmd = list(rep.get("driver_cmd", [drv, "float"])); dcmd[0] = drv
    res = core.run_case(ctx, hcmd, dcmd, rep["ops"], env=rep.get("env") or None)
    print("\n".join(f"op   : {o}\nimpl : {a}\nmodel: {b}" for o, a, b in zip(rep["ops"], res.impl, res.model)))
    print("stderr:", res.stderr[-2000:])
    print("OK" if res.ok else "FAILS")
    return 0 if res.ok else 1
