"""Shared pieces of the C03 / C12 checks: an interactive handle on the Lean driver
(the generator asks the *model* for the current partitioning so that it only
emits operations whose C++ preconditions hold), state parsing, corpus loading
and failure classification."""
import os, re, subprocess
from vlib import core

ASAN_ENV = {"ASAN_OPTIONS": "detect_leaks=0:abort_on_error=0:print_legend=0"}


def types(all_types, var):
    """element types to run (env var restricts them, e.g. for mutation self-tests)"""
    want = os.environ.get(var)
    return [t for t in all_types if not want or t[0] in want.split(',')]


class Model:
    """line-buffered conversation with a native Lean driver"""

    def __init__(self, drv, args=()):
        self.p = subprocess.Popen([drv, *args], stdin=subprocess.PIPE, stdout=subprocess.PIPE, text=True, bufsize=1)

    def send(self, line):
        self.p.stdin.write(line + "\n")
        self.p.stdin.flush()
        return self.p.stdout.readline().rstrip("\n")

    def close(self):
        try:
            self.p.stdin.close()
            self.p.wait(timeout=10)
        except Exception:
            self.p.kill()


def nats(s):
    return [int(x) for x in s.split()] if s.strip() else []


DS_RE = re.compile(r"D(\d)\{ish=\[([^\]]*)\] lsh=\[([^\]]*)\] part=\[([^\]]*)\] lpart=\[([^\]]*)\] n=(\d+) el=\[([^\]]*)\] paths=(\S+?)(?: ind=(\S+?))?\}")
V_RE = re.compile(r"V(\d)\{(-|idx=\[([^\]]*)\] el=\[([^\]]*)\])\}")


def parse_state(line):
    """-> (status, {slot: dict(part, n, labels)}, {vslot: size or None})"""
    status = line.split(" ", 1)[0]
    ds, vs = {}, {}
    for m in DS_RE.finditer(line):
        els = m.group(7).split()
        labels = [int(e.split(":")[1]) for e in els if ":" in e]
        ds[int(m.group(1))] = {"part": nats(m.group(4)), "n": int(m.group(6)), "labels": labels, "ind": m.group(9) or "11"}
    for m in V_RE.finditer(line):
        vs[int(m.group(1))] = None if m.group(2) == "-" else len(nats(m.group(3)))
    return status, ds, vs


def load_corpus(pid):
    d = os.path.join(core.VERIF, "corpus", pid)
    out = []
    if os.path.isdir(d):
        for fn in sorted(os.listdir(d)):
            if not fn.endswith(".txt") or fn.startswith("open_"):     # open_*: minimal inputs of open findings, run on their own
                continue
            ops = [l.strip() for l in open(os.path.join(d, fn)) if l.strip() and not l.startswith("#")]
            if ops:
                out.append(ops)
    return out


def classify(ops, res):
    kinds = sorted({o.split()[0] for o in ops[1:]}) or [ops[0].split()[0]]
    last = ops[min(len(res.impl), len(ops) - 1)].split()[0] if ops else "?"
    if res.crash:
        err = res.stderr
        if "division by zero" in err and "optimalBatchSizes" in err or ("division by zero" in err and "Dataset.inl" in err):
            return (f"F1:optimalBatchSizes-division-by-zero:{last}",
                    f"detail::optimalBatchSizes(0, m) divides by zero, reached through `{last}` on ops {ops}")
        if "FPE" in err and not re.search(r"runtime error|AddressSanitizer: (?!FPE)", err):
            return (f"F1:optimalBatchSizes-division-by-zero:{last}",
                    f"SIGFPE (integer division by zero) in `{last}` on ops {ops}")
        if "end of a value-returning function" in err and "sparse_matrix.hpp" in err:
            return (f"F12:compressed_matrix-assign-no-return:{last}",
                    f"compressed_matrix_impl::operator=(const&) has no return statement, reached through `{last}` on ops {ops}")
        if "heap-use-after-free" in err and "compressed_vector" in err:
            if last == "xform":
                return (f"F10:sparse-createBatchFromRange-temporaries:{last}",
                        f"Batch<compressed_vector>::createBatchFromRange reads a destroyed temporary (element-wise transform of sparse data) on ops {ops}")
            return (f"F9:compressed_vector-copy-dangling:{last}",
                    f"a copied compressed_vector points into its source's storage (use after free) in `{last}` on ops {ops}")
        m = re.search(r"ERROR: AddressSanitizer: (\S+)|runtime error: ([^\n]*)", err)
        tag = (m.group(1) or m.group(2)) if m else "crash"
        tag = re.sub(r"[^A-Za-z0-9_.-]+", "-", tag)[:60]
        return f"crash:{tag}:{last}", f"harness aborted ({tag}) in `{last}` on ops {ops}"
    if res.oracle:
        m = re.search(r"!oracle (\S+)", res.oracle[0])
        op = res.oracle[0].split(" ", 1)[0]
        idx = next((i for i, l in enumerate(res.impl) if "!oracle" in l), 0)
        opname = ops[idx].split()[0] if idx < len(ops) else "?"
        return f"oracle:{m.group(1)}:{opname}", f"property oracle failed ({m.group(1)}) after `{opname}` on ops {ops}"
    at = res.diff_at if res.diff_at is not None else 0
    opname = ops[at].split()[0] if at < len(ops) else "?"
    return f"mismatch:{opname}", f"model and implementation disagree at line {res.diff_at} (`{opname}`) of ops {ops}"


def run_types(fn, types_):
    """run the correspondence of the element types two at a time (each is harness + driver processes)"""
    from concurrent.futures import ThreadPoolExecutor
    with ThreadPoolExecutor(max_workers=2) as ex:
        return list(ex.map(fn, types_))
