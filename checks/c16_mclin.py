"""Case generator for K-C16-mclinear: per-example steps of the linear multi-class solvers
(QpMcLinear.h; harness/c16l.cpp  vs  Model/McLinearMc.lean through Driver/C16L.lean).

A case = [mldata ..., mlnew F ..., mlsweep/mlstep ... (several)].  All data are small integers and
C / minAccuracy dyadic rationals, so that many runs stay exact (side channel #x=1 → the Rat instance
must agree exactly); everything else is compared bit by bit on the Float instance.
"""

FORMS = ["WW", "LLW", "ATS", "MMR", "RS", "CS", "ATM", "ADM"]

# (num, shift):  value = num / 2^shift
C_CHOICES = [(1, 0), (1, 0), (2, 0), (1, 1), (4, 0), (3, 1), (1, 3), (1, 6), (64, 0), (5, 2)]
EPS_CHOICES = [(1, 10), (1, 10), (1, 3), (1, 6), (1, 20), (1, 0), (3, 12)]


def gen_mclin_case(r, nsteps, ctx=None, forms=None):
    F = r.choice(forms or FORMS)
    k = r.choice([2, 2, 3, 3, 3, 4, 4, 5])
    n = r.range(max(2, 2), 7)
    d = r.choice([1, 2, 2])            # at most two summands in <w_c, x>: order independent, bit comparable
    kind = r.below(10)
    pts = []
    for i in range(n):
        pts.append([r.range(5, 11) for _ in range(d)])      # coordinate = value - 8 in [-3, 3]
    boundary = []
    if kind == 0:                                           # a zero vector (q = 0: division by zero inside solveSub)
        pts[r.below(n)] = [8] * d; boundary.append("zero-x")
    if kind == 1 and n >= 2:                                # duplicate points
        pts[1] = list(pts[0]); boundary.append("duplicate")
    if kind == 2:                                           # collinear / power-of-two data: long exact runs
        pts = [[r.choice([6, 7, 9, 10, 4, 12])] + [8] * (d - 1) for _ in range(n)]; boundary.append("pow2")
    # labels: every class present when n >= k (else as many as fit), "single example per class" when n == k
    ys = [r.below(k) for _ in range(n)]
    perm = list(range(n))
    for i in range(n - 1, 0, -1):
        j = r.below(i + 1); perm[i], perm[j] = perm[j], perm[i]
    for c in range(min(k, n)):
        ys[perm[c]] = c
    if n <= k: boundary.append("single-per-class")
    if kind == 1 and r.chance(1, 2):                        # duplicate points with different labels
        ys[1] = (ys[0] + 1) % k
    cn, cs = r.choice(C_CHOICES)
    en, es = r.choice(EPS_CHOICES)
    # sum-constrained formulations: half of the cases are LONG histories with strong regularisation (small C), so that examples reach
    # sum alpha == C exactly and are later over-satisfied because other examples moved w (the branch of calcGradient for the simplex face
    # with only negative gradients; seeded change C16-mclinear-cs-kkt-on-simplex-face)
    long_face = F in ("CS", "ATM", "ADM") and k >= 3 and r.chance(1, 2)
    if long_face:
        cn, cs = r.choice([(1, 3), (1, 4), (1, 5), (3, 6), (1, 2)])
        en, es = r.choice([(1, 10), (1, 20), (3, 12)])
        boundary.append("long-small-C")
    if (cn, cs) in ((1, 6), (64, 0)): boundary.append("C-extreme")
    ops = ["mldata %d %d %d %s" % (n, d, k, " ".join(map(str, [v for p in pts for v in p] + ys))),
           f"mlnew {F} {cn} {cs} {en} {es}"]
    for _ in range(r.range(8, 24) if long_face else r.range(1, nsteps)):
        x = 6 if (long_face and r.chance(3, 4)) else r.below(10)
        if x < 3:
            ops.append(f"mlstep {r.below(n)}")
        elif x < 5:                                         # repeated index
            i = r.below(n)
            ops.append("mlsweep " + " ".join(str(i) for _ in range(r.range(2, 4))))
        elif x < 8:                                         # a permutation (one epoch without ACF repetitions)
            p = list(range(n))
            for i in range(n - 1, 0, -1):
                j = r.below(i + 1); p[i], p[j] = p[j], p[i]
            ops.append("mlsweep " + " ".join(map(str, p)))
        else:                                               # arbitrary schedule with repetitions
            ops.append("mlsweep " + " ".join(str(r.below(n)) for _ in range(r.range(1, 2 * n))))
    if ctx is not None:
        ctx.hist("mclin_form", F); ctx.hist("mclin_classes", k); ctx.hist("mclin_examples", n)
        ctx.hist("mclin_dim", d); ctx.hist("mclin_C", f"{cn}/2^{cs}"); ctx.hist("mclin_eps", f"{en}/2^{es}")
        for b in boundary: ctx.hist("mclin_boundary", b)
    return ops
