"""C15 — closed-form trainers: theorems (Props/C15.lean) + correspondence K-C15 between
Model/Trainers.lean (driver drv_c15, exact `Rat` arithmetic) and the real Shark trainers
(harness/c15.cpp, harness/c15b.cpp, harness/c15c.cpp, harness/c15d.cpp) on integer / dyadic datasets with explicit batch partitions:
single ops on fresh objects and histories `op ; op ; ...` executed on the SAME trainer / model / output objects
(every step must give what fresh objects give).

Protocol (two passes, see lean/Driver/C15.lean): the harness prints what the real
trainer returned (doubles exactly, FE_INEXACT flag per call, `!oracle` tags of the
independent plain-loop property oracle); the driver receives `op || observation`,
evaluates the model and answers `ok …` or `FAIL …`."""
import os, re, subprocess
from vlib import core

TRUST = ("Lean 4.33 kernel; axioms at most propext/Classical.choice/Quot.sound (audited per run); hand-written model "
         "Model/Trainers.lean tied to the C++ by the differential correspondence (generator-bounded); ")
MANIFEST = dict(
  text=("Theorems (Props/C15.lean) over exact rational arithmetic, for every dataset (any n, d, label dimension, rank-deficient / constant "
        "features, d > n) and every partition into batches: linear regression — the accumulated normal equations A*beta = X^T L hold iff the "
        "gradient of 1/2|(X|1)beta-L|^2 + 1/2 lambda |W|^2 vanishes (linreg_normal_equations), the gradient is the true one (exact second-order "
        "expansion), and for lambda >= 0 this is equivalent to beta being a global minimiser (linreg_normal_equations_iff_minimiser); the trained model "
        "the normal equations are solvable for every dataset and lambda >= 0 (linreg_system_consistent, rank argument over Mathlib matrices), so the trained model "
        "is optimal given only the semi-definite solver's specification (linreg_train_optimal), and unique for lambda > 0 (linreg_regularised_unique); mean/variance/covariance and the regression system do not "
        "depend on the batch partition (meanvar_batch_independent, linreg_batch_independent, normalizers_batch_independent, lda_batch_independent); unit-variance normaliser: output mean 0 / variance 1 on "
        "non-constant columns, constant columns mapped to 0 (unitvariance_output, sqrt specified); unit-interval normaliser: range [0,1] attained, "
        "constant columns to 1/2 for the repaired trainer, and a witness theorem that the pinned source maps a constant column v to 1/2 - v (F-C15-1); "
        "whitening: covariance t*I given the factor specification C*Cov*C^T = I (whitening_output; whitening_output_general: t*C*Cov*C^T for any factor; linear_image_covariance); ZCA for EVERY covariance, "
        "singular included (zca_output, replaces zca_output_partial): with the eigen-solver specification and the scales the trainer computes (zca_scale_spec: 1/sqrt(D_k), 0 on cleared directions) the "
        "output covariance is t times the orthogonal projector Q*diag(e)*Q^T onto the kept eigen-directions (symmetric, idempotent), t*I in the regular case (zca_output_regular); PCA: orthonormal directions "
        "=> decoder(encoder(x)) is idempotent, its residual is orthogonal to all directions and it is the closest point of mean+span (pca_projection; "
        "pca_projection_general for systems whose columns are unit or zero vectors, as the repaired small-sample branch returns); "
        "small-sample branch: eigenvectors of XX^T/l lift to eigenvectors of the covariance with the same eigenvalue and squared norm l*lambda "
        "(pca_small_sample_agrees, pca_small_sample_agrees_model), encoded training data have covariance diag(eigenvalues) (pca_encoded_covariance) and, with whitening, diag(1,..,1,0,..) "
        "(pca_whitened_covariance); "
        "LDA: the matrix assembled from second moments is the pooled within-class covariance (lda_pooled_covariance, wlda_pooled_covariance for positive weights); with z_c*C = m_c the installed linear discriminant ranks classes exactly like the Gaussian log-posterior with shared covariance C "
        "(lda_bayes_rule_partial: excludes singular covariances whose range misses the class means, witness lda_partial_witness), statistics batch independent (lda_batch_independent); weighted LDA statistics are invariant under scaling all weights "
        "(weights_scale_invariant); LDA::train assembled from these statistics, the solver and the bias (ldaTrainDiscriminant) ranks classes like the Gaussian log-posterior of its estimates given only the solver specification "
        "'returns a solution whenever one exists' (lda_train_bayes_rule_partial); FisherLDA's global mean sum_c n_c m_c / n is the mean of the inputs (fisher_mean); the matrix meanAndScatter hands to the eigen-solver "
        "satisfies Sw*M = Sb by C02's solve_spd_correct (fisher_scatter_spec, no solver specification assumed), such an M is not symmetric (fisher_scatter_not_symmetric_witness, F-C15-7) and the Cholesky-symmetrised "
        "eigenproblem of the proposed repair yields directions with Sb*w = lambda*Sw*w (fisher_symmetrised_direction). "
        "Kernel trainers (Model/TrainersKernel.lean, any kernel function as a parameter): NormalizeKernelUnitVariance -- for a symmetric kernel the batch-pair loop computes the feature-space variance and the installed factor makes it "
        "exactly 1 unless it is 0 (nkuv_unit_variance, F-C15-10), batch independent (nkuv_batch_independent), symmetry is necessary (nkuv_needs_symmetry); KernelMeanClassifier -- decision values differ by -1/2 the difference of the squared "
        "feature-space distances to the weighted class means, binary value = decision_1 - decision_0 (kmean_nearest_mean), invariant under scaling all weights (kmean_weights_scale_invariant) and under re-batching (kmean_batch_independent); "
        "RegularizationNetworkTrainer -- coefficients solving (K + noise*I)*alpha = l - mean(l) make every partial derivative of 1/2 sum (f(x_i)-l_i)^2 + noise/2 alpha^T K alpha vanish (regnet_stationary), and in the Cholesky branch "
        "this holds END TO END through the C02 model of potrf + triangular solves (regnet_train_cholesky_stationary uses C02.solve_spd_correct; hypotheses: potrf returns 0, sqrt at the pivots), batch independent (regnet_batch_independent). "
        "Objects used more than once: the model follows remora's matrix::resize (the linear storage keeps its old numbers, Mat.resize) and proves that "
        "meanvar into an output matrix of any previous shape and content yields the covariance (meanvar_output_reuse), that PCA::setData leaves the same "
        "decomposition on every object whatever it decomposed before, in either branch (pca_setData_history_independent, pca_reused_object_models, "
        "pca_small_sample_object), and that the clear() of the small-sample branch is necessary (witness pca_setData_without_clear_depends_on_history). "
        "The model (Model/Trainers.lean) is tied to the real trainers on every run by a differential correspondence on integer datasets with explicit "
        "batch partitions, single ops on fresh objects AND histories `op ; op ; ...` of 2-4 ops executed on the SAME trainer, model and output objects "
        "(PCA object through setData / train / the data constructor with whitening, algorithm and number of components changed in between; "
        "LinearRegression, LDA (unweighted and weighted mixed) and FisherLDA re-configured through their setters or setParameterVector; RegularizationNetworkTrainer (kernel and regularisation through setC / setParameterVector and -- "
        "when they compile, F-C15-9 -- setNoiseVariance / setPrecision), KernelMeanClassifier, NormalizeKernelUnitVariance and their KernelExpansion / KernelClassifier / ScaledKernel objects re-used across both kernels; one Normalizer "
        "model re-trained with and without offset; one LinearModel shared by regression, whitening and ZCA; meanvar output arguments that arrive "
        "filled; new data of another shape incl. more features than points after fewer and vice versa, the same data under another configuration, "
        "identical repetition) -- every step of a history is judged against the model of that step alone, i.e. must equal what fresh objects give, and "
        "the harness additionally compares bit for bit with freshly constructed objects (oracle tag reuse-dependent); data values are integers or dyadic "
        "fractions (`op@s`: table * 2^-s, s <= 5) so that truncation to integers is visible; values the model determines are compared EXACTLY when FE_INEXACT stayed clear during the Shark call and with relative "
        "tolerance 1e-11 otherwise; results behind sqrt / the pivoted Cholesky solver / the eigen-solver are checked against their specification "
        "(A*beta = X^T L, s*s = var, W*Cov*W^T = t*I, Cov*v = lambda*v, V^T V = I, z*Cov = m) in exact rational arithmetic on the returned doubles "
        "(relative 1e-9); plus an independent plain-loop property oracle in the harness (gradient, output mean/variance/range/covariance, "
        "orthonormality, projection, batch-partition invariance of every trainer (whitening: of W^T W, the factor itself is not unique; regular covariances only), "
        "weight-scale invariance (LDA, KernelMeanClassifier: x2, x3, x1/8), variance()/covariance() wrappers; kernel trainers with LinearKernel and PolynomialKernel(2,1), both exact on the generated data: regnet residual and gradient, "
        "kmean nearest-mean identity on every training point, nkuv unit variance through the real ScaledKernel); FisherLDA's scatter matrix is compared with the model (Sw*M = Sb in exact arithmetic on the returned doubles). "
        "Degenerate data on every run (boundary block per op: n = 1, two equal points, all points equal, constant column, duplicated rows, d > n, single class, one example per class, zero-weight example / class / all weights zero), "
        "distribution measured on the generated text (evidence: degenerate_data, boundary_cases)."),
  note=TRUST + "NOT proved: the specifications of sqrt/log/the symmetric eigen-solver and of the PIVOTED Cholesky solver (symm_semi_pos_def: linear regression, LDA, whitening, the ill-conditioned branch of "
       "RegularizationNetworkTrainer) -- hypotheses (SolverSpec, RightSolverSpec, factor specification), checked at run time on the returned values; C02 models pstrf and the semi-definite solve but has no theorem about them, so only the "
       "symm_pos_def call sites (RegularizationNetworkTrainer's Cholesky branch, FisherLDA::meanAndScatter) compose with C02 theorems. Two theorems stay _partial: lda_bayes_rule_partial / lda_train_bayes_rule_partial "
       "(hypothesis: Z*C = means solvable; fails only for a singular pooled covariance whose range misses a class mean -- lda_partial_witness; the real code was run there (corpus f4, boundary block 'all-points-equal'/'constant-column' with reg = 0): "
       "it returns the finite pseudo-inverse solution, no defect, but the Gaussian model is degenerate, so no Bayes statement exists to prove). Optimality (not just stationarity) of the regularisation network needs K positive semi-definite "
       "and is not stated. FisherLDA's returned directions are not proved optimal (open finding F-C15-7: they are not); floating-point rounding. LassoRegression (iterative coordinate descent, no closed form) and the SVM / SGD trainers are outside this property. "
       "PCA whitening and toleranced comparisons are behind the eigen-solver (toleranced mode). The history-independence theorems are about the object "
       "model (PcaObject, meanvarInto); for the other trainers (no state besides their configuration) and for the models (setStructure overwrites) "
       "independence of earlier use is checked by the correspondence on generated histories only (generator-bounded: 2-4 steps). Large-magnitude data "
       "(2^6 and more) together with tiny regularisation is not generated: the rounding error of the ill-conditioned solves exceeds the comparison tolerances. Findings F-C15-1..10 (findings_proposed/C15.md): 1-6 and 8 are fixed in /repo; open: F-C15-7 (FisherLDA, patch C15-F-C15-7.patch), "
       "F-C15-9 (RegularizationNetworkTrainer::setNoiseVariance/setPrecision cannot be instantiated, compile probe, patch C15-F-C15-9.patch), F-C15-10 (NormalizeKernelUnitVariance installs the factor 1/0 on data without feature-space variance, "
       "patch C15-F-C15-10.patch); the check is green with no known finding hit on a tree with the three patches applied.",
  technique="Lean 4 proofs over exact rational arithmetic (all sizes, dimensions, batch partitions) + differential correspondence with the C++ trainers (ASan/UBSan, FE_INEXACT-gated exact comparison)",
  design="§6 C15")

FINISH = dict(level="proof",
              rule="one op = one trainer call on an integer dataset with an explicit batch partition (SplitMix64 stream): "
                   "meanvar, unitvar, unitint, linreg, whiten, zca, pca/pcat/pcac (setData, train, constructor), lda, wlda, fisher, regnet, kmean, nkuv, optionally `@s` "
                   "(dyadic fractions); a line is one op on fresh objects or a history `op ; op ; ...` on the same objects; a case is non-trivial if it "
                   "is a history or has >1 batch, a constant column, rank deficiency or d>n; distinct = distinct line text")

ENV = {"OPENBLAS_NUM_THREADS": "1", "OMP_NUM_THREADS": "1"}
HARNESS_A_OPS = ("meanvar", "unitvar", "unitint", "linreg", "whiten", "zca")
HARNESS_D_OPS = ("regnet", "kmean", "nkuv")
# families of ops whose steps share objects in a history `op ; op ; ...` (same harness executable, same Session members)
FAMILIES = {"stat": ["meanvar"], "norm": ["unitvar", "unitvar", "unitint"], "lin": ["linreg", "linreg", "whiten", "zca"],
            "pca": ["pca"], "lda": ["lda", "wlda"], "fisher": ["fisher"], "kern": ["regnet", "regnet", "kmean", "kmean", "nkuv"]}
SEP = " ; "


def split_steps(line):
    return [x.strip() for x in line.split(";") if x.strip()]


def opname(line):
    """base name of the (first) op of a line: `pca@3 ...` -> pca"""
    t = line.split()
    return t[0].split("@")[0] if t else ""


def gen_scaled(r, ctx, line):
    """value class: the integer table stands for dyadic fractions (`op@s`: every data value times 2^-s); everything stays
    exactly representable and the model computes with the same rationals.  Only moderate s: together with the unscaled
    constants (bias column of ones, regularisation) large |s| gives condition numbers whose rounding error exceeds the
    comparison tolerances (seen with s = -6 and lambda = 2^-10 on rank-deficient data)"""
    s = r.choice([0, 0, 0, 0, 1, 2, 3, 5])
    ctx.hist("value_scale_log2", -s)
    if s == 0: return line
    t = line.split(" ", 1)
    return f"{t[0]}@{s} {t[1]}"


# --------------------------------------------------------------------------- generators
def compositions(n):
    """all ordered partitions of n into positive parts"""
    out = []
    for mask in range(1 << (n - 1)):
        parts, cur = [], 1
        for i in range(n - 1):
            if mask >> i & 1:
                parts.append(cur); cur = 1
            else:
                cur += 1
        parts.append(cur)
        out.append(parts)
    return out


def gen_partition(r, n):
    x = r.below(10)
    if x < 2: return [n]
    if x < 4: return [1] * n
    if x < 6:
        bs = r.range(1, n); parts = [bs] * (n // bs)
        if n % bs: parts.append(n % bs)
        return parts
    parts, left = [], n
    while left:
        s = r.range(1, left); parts.append(s); left -= s
    return parts


def gen_matrix(r, ctx, n=None, d=None, allow_wide=True):
    """integer data matrix with the structural features the property quantifies over"""
    if n is None:
        n = r.choice([1, 2, 2, 3, 4, 4, 5, 6, 7, 8, 8, 12, 16])
    if d is None:
        d = r.choice([1, 1, 2, 2, 3, 3, 4, 5])
        if allow_wide and r.chance(1, 6): d = n + r.range(1, 3)
    lo, hi = r.choice([(-4, 4), (0, 9), (-1, 1), (-20, 20), (0, 1)])
    rows = [[r.range(lo, hi) for _ in range(d)] for _ in range(n)]
    feats = []
    if r.chance(1, 4) and d >= 1:                      # constant column
        j = r.below(d); c = r.range(lo, hi)
        for row in rows: row[j] = c
        feats.append("const-col")
    if r.chance(1, 5) and d >= 2:                      # linearly dependent column
        j, a = r.below(d), r.below(d)
        if a != j:
            b = r.below(d); f = r.choice([1, -1, 2])
            for row in rows: row[j] = f * row[a] + (row[b] if b != j and b != a else 0)
            feats.append("dependent-col")
    if r.chance(1, 6) and n >= 2:                      # duplicated points
        for _ in range(r.range(1, n)):
            rows[r.below(n)] = list(rows[r.below(n)])
        feats.append("dup-rows")
    if r.chance(1, 25):
        rows = [list(rows[0]) for _ in range(n)]
        feats.append("all-equal")
    if d > n: feats.append("d>n")
    for f in feats or ["generic"]: ctx.hist("data_features", f)
    ctx.hist("n", n); ctx.hist("d", d)
    return n, d, rows


def table(n, d, part, rows):
    return f"{n} {d} {len(part)} " + " ".join(map(str, part)) + " " + " ".join(str(v) for row in rows for v in row)


def gen_case(r, ctx, op, part=None, n=None, hist=False):
    """one op line; hist: the op is a step of a history (shape classes that make re-used objects change size are favoured)"""
    if op in ("meanvar", "unitvar", "unitint"):
        n, d, rows = gen_matrix(r, ctx, n=n)
        if op != "meanvar" and n == 1 and r.chance(3, 4): n, d, rows = gen_matrix(r, ctx, n=r.range(2, 8))
        part = part or gen_partition(r, n)
        pre = f"unitvar {r.below(2)} " if op == "unitvar" else op + " "
        return pre + table(n, d, part, rows)
    if op == "linreg":
        n, d, rows = gen_matrix(r, ctx, n=n)
        k = r.choice([1, 1, 2, 3])
        # labels: an integer linear map of the inputs, optionally plus integer noise
        W = [[r.range(-3, 3) for _ in range(d)] for _ in range(k)]; b = [r.range(-3, 3) for _ in range(k)]
        noise = r.chance(1, 2)
        ctx.hist("linreg_labels", "noisy" if noise else "realizable")
        for row in rows:
            x = row[:d]
            row += [sum(W[c][j] * x[j] for j in range(d)) + b[c] + (r.range(-2, 2) if noise else 0) for c in range(k)]
        lam_num, lam_shift = r.choice([(0, 0), (0, 0), (1, 0), (1, 1), (1, 3), (3, 2), (5, 0), (1, 10)])
        ctx.hist("linreg_lambda", f"{lam_num}/2^{lam_shift}")
        part = part or gen_partition(r, n)
        return f"linreg {lam_num} {lam_shift} {k} " + table(n, d, part, rows)
    if op in ("whiten", "zca"):
        n, d, rows = gen_matrix(r, ctx, n=n, allow_wide=r.chance(1, 10))
        if n < d + 1 and r.chance(9, 10):                    # precondition: at least d+1 points
            n, d, rows = gen_matrix(r, ctx, n=d + 1 + r.range(0, 6), d=d)
        t_num, t_shift = r.choice([(1, 0), (1, 0), (4, 0), (1, 2), (9, 0), (3, 1)])
        part = part or gen_partition(r, n)
        return f"{op} {t_num} {t_shift} " + table(n, d, part, rows)
    if op == "pca":
        n, d, rows = gen_matrix(r, ctx, n=n)
        if n == 1 and r.chance(5, 6): n, d, rows = gen_matrix(r, ctx, n=r.range(2, 9))
        if hist and d <= n and r.chance(1, 3):                  # more features than points
            n, d, rows = gen_matrix(r, ctx, n=n, d=n + r.range(1, 3))
        # entry point: setData + encoder/decoder, train(model), or the constructor PCA(data, whitening) (algorithm AUTO only)
        name = r.choice(["pca", "pca", "pca", "pcat", "pcat", "pcac"])
        ctx.hist("pca_entry", name)
        alg = 0 if name == "pcac" else r.choice([0, 0, 1, 2])
        small = alg == 2 or (alg == 0 and d > n)
        avail = n if small else d
        m = r.choice([0, 0, 1, avail, r.range(1, max(1, avail))])
        m = min(m, avail)
        wh = 1 if r.chance(1, 4) else 0
        ctx.hist("pca_branch", "small-sample" if small else "standard")
        part = part or gen_partition(r, n)
        return f"{name} {wh} {alg} {m} " + table(n, d, part, rows)
    if op in ("lda", "wlda"):
        classes = r.choice([1, 2, 2, 2, 3, 4])
        n, d, rows = gen_matrix(r, ctx, n=n or r.choice([classes, classes + 1, classes + 2, 6, 8, 9, 12, 16]), allow_wide=r.chance(1, 8))
        labels = [i % classes for i in range(n)] if r.chance(4, 5) else [r.below(classes) for _ in range(n)]
        zero_w = op == "wlda" and r.chance(1, 4)                  # some examples (possibly a whole class) with weight 0
        # class-dependent shift so that the class means differ
        for i, row in enumerate(rows):
            for j in range(d): row[j] += labels[i] * ((j % 2) * 2 - 1) * (j + 1) if r.chance(3, 4) else 0
            row.append(labels[i])
            if op == "wlda": row.append(r.choice([0, 0, 1, 2]) if zero_w else r.choice([1, 1, 2, 3, 5, 8]))
        reg_num, reg_shift = r.choice([(0, 0), (0, 0), (1, 0), (1, 3), (1, 10), (5, 1)])
        ctx.hist("lda_reg", f"{reg_num}/2^{reg_shift}")
        part = part or gen_partition(r, n)
        return f"{op} {reg_num} {reg_shift} " + table(n, d, part, rows)
    if op == "fisher":
        classes = r.choice([2, 2, 3, 4])
        n, d, rows = gen_matrix(r, ctx, n=n or r.choice([classes + 2, 6, 8, 9, 12, 16]), d=r.choice([2, 3, 3, 4, 5]), allow_wide=False)
        labels = [i % classes for i in range(n)] if r.chance(4, 5) else [r.below(classes) for _ in range(n)]
        labels[:classes] = list(range(classes))                   # every class occurs
        for i, row in enumerate(rows):
            for j in range(d): row[j] += labels[i] * ((j % 2) * 2 - 1) * (j + 1) if r.chance(3, 4) else 0
            row.append(labels[i])
        dims = r.choice([0, 1, min(classes - 1, d), min(classes, d)])
        if dims == 0 and classes > d and not r.chance(1, 3): dims = d       # default dimension = #classes > d: F-C15-8
        part = part or gen_partition(r, n)
        return f"fisher {r.below(2)} {dims} " + table(n, d, part, rows)
    if op == "regnet":
        n, d, rows = gen_matrix(r, ctx, n=n)
        k = r.choice([1, 1, 2, 3])
        W = [[r.range(-3, 3) for _ in range(d)] for _ in range(k)]; b = [r.range(-3, 3) for _ in range(k)]
        for row in rows:
            x = row[:d]
            row += [sum(W[c][j] * x[j] for j in range(d)) + b[c] + r.range(-2, 2) for c in range(k)]
        kern = r.choice([0, 0, 1])
        # noise variance: powers of two and a few other dyadic values; 2^-10 and 2^-14 with large kernel values take the
        # semi-definite branch of the trainer (noiseVariance/max(diag) < 1e-5)
        b_num, b_shift = r.choice([(1, 0), (1, 0), (1, 1), (1, 3), (4, 0), (3, 1), (5, 0), (1, 10), (1, 14)])
        ctx.hist("regnet_noise", f"{b_num}/2^{b_shift}")
        ctx.hist("kernel", f"regnet:{'linear' if kern == 0 else 'poly2'}")
        part = part or gen_partition(r, n)
        return f"regnet {kern} {b_num} {b_shift} {k} " + table(n, d, part, rows)
    if op == "kmean":
        classes = r.choice([1, 2, 2, 2, 3, 4])
        n, d, rows = gen_matrix(r, ctx, n=n or r.choice([classes, classes + 1, classes + 2, 4, 6, 8, 9, 12]))
        labels = [i % classes for i in range(n)] if r.chance(3, 4) else [r.below(classes) for _ in range(n)]
        weighted = r.below(2)
        zero_w = weighted and r.chance(1, 3)
        for i, row in enumerate(rows):
            for j in range(d): row[j] += labels[i] * ((j % 2) * 2 - 1) * (j + 1) if r.chance(3, 4) else 0
            row.append(labels[i])
            if weighted: row.append(r.choice([0, 0, 1, 2]) if zero_w else r.choice([1, 1, 2, 3, 5, 8]))
        kern = r.choice([0, 0, 1])
        ctx.hist("kernel", f"kmean:{'linear' if kern == 0 else 'poly2'}")
        ctx.hist("kmean_classes", len(set(labels)))
        part = part or gen_partition(r, n)
        return f"kmean {kern} {weighted} " + table(n, d, part, rows)
    if op == "nkuv":
        n, d, rows = gen_matrix(r, ctx, n=n)
        if n == 1 and r.chance(3, 4): n, d, rows = gen_matrix(r, ctx, n=r.range(2, 8))
        kern = r.choice([0, 0, 1])
        ctx.hist("kernel", f"nkuv:{'linear' if kern == 0 else 'poly2'}")
        part = part or gen_partition(r, n)
        return f"nkuv {kern} " + table(n, d, part, rows)
    raise ValueError(op)


def gen_boundary(r, ctx, op):
    """the degenerate datasets the property quantifies over, for one op, on every run: a single point, two equal points,
    all points equal, a constant column, more features than points (d = n + 1), duplicated rows; for the classifiers a single
    class and one example per class, for weighted training zero weights (one example / a whole class)"""
    out = []
    base = gen_case(r, ctx, op, part=None, n=4)
    try:
        head, n, d, extra, sizes, rows = parse_op(base)
    except Exception:
        return [base]
    name = head[0]
    def fix(hd, dd, rs):
        hd = list(hd)
        if name in ("pca", "pcat", "pcac"): hd[3] = "0"                 # default number of components
        if name == "fisher": hd[2] = str(min(int(hd[2]), dd))
        return hd
    def emit(kind, rs, dd=d, parts=None):
        rs = [list(x) for x in rs]
        nn = len(rs)
        if op in ("lda", "wlda", "fisher", "kmean"):                    # class labels stay contiguous from 0
            ds = len(rs[0]) - extra
            rank = {c: i for i, c in enumerate(sorted({x[ds] for x in rs}))}
            for x in rs: x[ds] = rank[x[ds]]
        for ps in (parts or [[nn], [1] * nn]):
            out.append(build_op(fix(head, dd, rs), dd, ps, rs)); ctx.hist("boundary_cases", f"{op}:{kind}")
    emit("n=1", rows[:1])
    emit("two-equal-points", [rows[0], rows[0]])
    emit("all-points-equal", [rows[1]] * 4)
    emit("constant-column", [[7] + x[1:] for x in rows])
    emit("duplicated-rows", [rows[0], rows[1], rows[0], rows[1], rows[2]], parts=[[5], [2, 3], [1, 1, 1, 1, 1]])
    wide = [[(3 * i + 2 * j) % 5 - 2 for j in range(4)] + rows[i][d:] for i in range(3)]
    emit("d>n", wide, dd=4)
    if op in ("lda", "wlda", "fisher", "kmean"):
        emit("single-class", [x[:d] + [0] + x[d + 1:] for x in rows])
        emit("one-example-per-class", [x[:d] + [i] + x[d + 1:] for i, x in enumerate(rows[:3])])
    if op == "wlda" or (op == "kmean" and extra == 2):
        emit("zero-weight-example", [x[:d + 1] + [0 if i == 1 else 2] for i, x in enumerate(rows)])
        emit("zero-weight-class", [x[:d + 1] + [0 if x[d] == rows[0][d] else 1] for x in rows])
        emit("all-weights-zero", [x[:d + 1] + [0] for x in rows])
    return out


def gen_all_partitions(r, ctx, op):
    """one dataset under every batch partition of n (n <= 5)"""
    n = r.choice([3, 4, 5])
    base = gen_case(r, ctx, op, part=[n], n=n)
    head, n, d, extra, sizes, rows = parse_op(base)
    comps = compositions(n) if n <= 5 else [p for k, p in enumerate(compositions(n)) if k % (1 << (n - 6)) == 0]
    return [build_op(head, d, p, rows) for p in comps]


def retable(new, old):
    """the op `new` (configuration) on the dataset of the op `old`, if the columns are compatible; else `new`"""
    try:
        hn, nn, dn, en, sn, rn = parse_op(new)
        ho, no, do, eo, so, ro = parse_op(old)
    except Exception:
        return new
    rows = [list(x) for x in ro]
    full, hn[0], ho[0] = hn[0], hn[0].split("@")[0], ho[0].split("@")[0]
    try:
        return _retable(hn, ho, no, do, en, eo, so, rows, full)
    except Exception:
        return new


def _retable(hn, ho, no, do, en, eo, so, rows, full):
    if hn[0] == "linreg" and ho[0] == "linreg":
        hn = hn[:3] + [ho[3]]
    elif hn[0] == "regnet" and ho[0] == "regnet":
        hn = hn[:4] + [ho[4]]
    elif hn[0] == "kmean" and ho[0] == "kmean":
        if hn[2] == "0": rows = [x[:do + 1] for x in rows]
        elif eo == 1: rows = [x + [1 + (i * 7) % 3] for i, x in enumerate(rows)]
    elif hn[0] == "lda" and ho[0] == "wlda":
        rows = [x[:do + 1] for x in rows]
    elif hn[0] == "wlda" and ho[0] == "lda":
        rows = [x + [1 + (i * 7) % 3] for i, x in enumerate(rows)]
    elif en != eo or (en > 0 and hn[0] != ho[0]):
        raise ValueError("incompatible columns")
    if hn[0] in ("pca", "pcat", "pcac"):
        alg, m = int(hn[2]), int(hn[3])
        avail = no if (alg == 2 or (alg == 0 and do > no)) else do
        hn = hn[:3] + [str(min(m, avail))]
    if hn[0] == "fisher":
        hn = hn[:2] + [str(min(int(hn[2]), do))]
    return build_op([full] + hn[1:], do, so, rows)


def gen_history(r, ctx, fam):
    """2-4 ops of one family executed on the same trainer / model objects: new data of another shape, the same data
    under another configuration, or an identical repetition"""
    k = r.choice([2, 2, 2, 3, 3, 4])
    steps = []
    for i in range(k):
        s = gen_scaled(r, ctx, gen_case(r, ctx, r.choice(FAMILIES[fam]), hist=True))
        kind = "new-data"
        if steps:
            x = r.below(8)
            if x < 2:
                t = retable(s, steps[-1])
                if t != s: s, kind = t, "same-data-new-configuration"
            elif x == 2:
                s, kind = steps[-1], "identical-repetition"
        if steps and kind == "new-data":
            try:
                a, b = parse_op(steps[-1]), parse_op(s)
                kind = "new-data-" + ("same-shape" if (a[1], a[2]) == (b[1], b[2]) else
                                      "wide-after-tall" if (b[2] > b[1] and a[2] <= a[1]) else
                                      "tall-after-wide" if (b[2] <= b[1] and a[2] > a[1]) else
                                      "larger" if b[1] * b[2] > a[1] * a[2] else "smaller")
            except Exception:
                pass
        if steps: ctx.hist("history_transitions", f"{fam}:{kind}")
        steps.append(s)
    ctx.hist("history_length", k)
    return SEP.join(steps)


# --------------------------------------------------------------------------- running
def strip_oracle(line):
    return line.split(" !oracle")[0]


class Res:
    """result of one line (an op or a history); `steps` holds one Res per step of a history"""
    def __init__(self, op):
        self.op, self.impl, self.model, self.oracle, self.crash, self.stderr = op, "", "", [], False, ""
        self.steps = []

    @property
    def ok(self):
        if self.crash or self.oracle: return False
        ms = self.model.split(" ;; ")
        return len(ms) == len(split_steps(self.op)) and all(m.startswith("ok ") for m in ms)

    def finish(self):
        """split a history into per-step results"""
        ops = split_steps(self.op)
        impl, model = self.impl.split(" ;; "), self.model.split(" ;; ")
        self.steps = []
        if len(ops) > 1 and len(impl) == len(ops) and len(model) == len(ops):
            for o, i, m in zip(ops, impl, model):
                st = Res(o); st.impl, st.model, st.oracle = i, m, re.findall(r"!oracle (\S+)", i)
                self.steps.append(st)


def run_lines(ctx, exes, drv, lines, timeout=900):
    """run op lines through the harness(es) and then `op || obs` through the driver"""
    res = [Res(l) for l in lines]
    env = dict(os.environ); env.setdefault("ASAN_OPTIONS", "detect_leaks=0:abort_on_error=0")
    env.setdefault("UBSAN_OPTIONS", "print_stacktrace=1"); env.update(ENV)
    groups = {}
    for i, l in enumerate(lines):
        op = opname(l)
        groups.setdefault("a" if op in HARNESS_A_OPS else "d" if op in HARNESS_D_OPS else "c" if op == "fisher" else "b", []).append(i)   # histories stay within one family
    for g, idx in groups.items():
        exe = exes[g]
        text = "\n".join(lines[i] for i in idx) + "\n"
        try:
            p = subprocess.run([exe], input=text, stdout=subprocess.PIPE, stderr=subprocess.PIPE, text=True,
                               errors="replace", timeout=timeout, env=env)
            out, rc, err = [l[2:] for l in p.stdout.splitlines() if l.startswith("@ ")], p.returncode, p.stderr
        except subprocess.TimeoutExpired:
            out, rc, err = [], -99, "TIMEOUT"
        for k, i in enumerate(idx):
            if k < len(out):
                res[i].impl = out[k]
                res[i].oracle = re.findall(r"!oracle (\S+)", out[k])
            else:
                res[i].crash = True
                res[i].stderr = err[-3000:] if k == len(out) else "(not reached: an earlier op crashed the harness)"
        if rc != 0 and len(out) >= len(idx):
            res[idx[-1]].crash, res[idx[-1]].stderr = True, err[-3000:]
    dl = "\n".join(f"{r.op} || {' ;; '.join(strip_oracle(x) for x in r.impl.split(' ;; '))}" if r.impl else r.op for r in res) + "\n"
    p = subprocess.run([drv], input=dl, stdout=subprocess.PIPE, stderr=subprocess.PIPE, text=True, errors="replace", timeout=timeout)
    mo = p.stdout.splitlines()
    for i, r in enumerate(res):
        r.model = mo[i] if i < len(mo) else "FAIL driver produced no line: " + p.stderr[-300:]
        r.finish()
    return res


def run_until_clean(ctx, exes, drv, lines):
    """like run_lines, but a crash of the harness must not hide the ops behind it"""
    res = run_lines(ctx, exes, drv, lines)
    todo = [i for i, r in enumerate(res) if r.crash and r.stderr.startswith("(not reached")]
    rounds = 0
    while todo and rounds < 20:
        sub = run_lines(ctx, exes, drv, [lines[i] for i in todo])
        for i, r in zip(todo, sub): res[i] = r
        todo = [i for i in todo if res[i].crash and res[i].stderr.startswith("(not reached")]
        rounds += 1
    return res


def parse_op(line):
    """-> (head tokens, n, d, extra, sizes, rows) of an op line"""
    t = line.split()
    op = t[0].split("@")[0]
    nhead = {"meanvar": 1, "unitint": 1, "unitvar": 2, "linreg": 4, "whiten": 3, "zca": 3, "pca": 4, "pcat": 4, "pcac": 4,
             "lda": 3, "wlda": 3, "fisher": 3, "regnet": 5, "kmean": 3, "nkuv": 2}[op]
    head = t[:nhead]
    extra = (int(t[3]) if op == "linreg" else int(t[4]) if op == "regnet" else 1 + int(t[2]) if op == "kmean" else
             1 if op in ("lda", "fisher") else 2 if op == "wlda" else 0)
    n, d, nb = int(t[nhead]), int(t[nhead + 1]), int(t[nhead + 2])
    sizes = [int(x) for x in t[nhead + 3:nhead + 3 + nb]]
    vals = [int(x) for x in t[nhead + 3 + nb:]]
    w = d + extra
    rows = [vals[i * w:(i + 1) * w] for i in range(n)]
    if len(vals) != n * w or len(sizes) != nb: raise ValueError("malformed op " + line[:60])
    return head, n, d, extra, sizes, rows


def build_op(head, d, sizes, rows):
    return " ".join(head) + " " + table(len(rows), d, sizes, [list(r) for r in rows])


def shrink(ctx, exes, drv, line, same):
    """shrink a failing line: drop steps of a history, then shrink the data of every remaining step"""
    steps = split_steps(line)
    if len(steps) <= 1:
        return shrink_step(ctx, exes, drv, [], line, [], same)
    def fails(l):
        try:
            r = run_lines(ctx, exes, drv, [l], timeout=60)[0]
        except Exception:
            return False
        return (not r.ok) and same(r)
    changed = True
    while changed and len(steps) > 1:
        changed = False
        for i in range(len(steps) - 1, -1, -1):
            cand = steps[:i] + steps[i + 1:]
            if fails(SEP.join(cand)):
                steps, changed = cand, True
                break
    for i in range(len(steps)):
        steps[i] = shrink_step(ctx, exes, drv, steps[:i], steps[i], steps[i + 1:], same, budget=80)
    return SEP.join(steps)


def shrink_step(ctx, exes, drv, before, line, after, same, budget=120):
    """greedy data shrinking of one op (a step between the steps `before` and `after` of a history): fewer rows,
    one batch, fewer columns, smaller values"""
    def fails(l):
        try:
            r = run_lines(ctx, exes, drv, [SEP.join(before + [l] + after)], timeout=60)[0]
        except Exception:
            return False
        return (not r.ok) and same(r)
    try:
        head, n, d, extra, sizes, rows = parse_op(line)
    except Exception:
        return line
    cur = line
    changed = True
    while changed and budget > 0:
        changed = False
        head, n, d, extra, sizes, rows = parse_op(cur)
        cands = []
        if "@" in head[0]: cands.append(build_op([head[0].split("@")[0]] + head[1:], d, sizes, rows))
        if len(sizes) > 1: cands.append(build_op(head, d, [n], rows))
        for i in range(n):
            if n > 1:
                rr = rows[:i] + rows[i + 1:]
                cands.append(build_op(head, d, [n - 1], rr))
        if opname(cur) not in ("lda", "wlda", "fisher"):
            for j in range(d):
                if d > 1:
                    cands.append(build_op(head, d - 1, sizes, [r[:j] + r[j + 1:] for r in rows]))
        if opname(cur) in ("pca", "pcat", "pcac") and head[3] != "0":
            cands = [retable(c, c) for c in cands]                  # keep the number of components admissible
        for i in range(n):
            for j in range(len(rows[i])):
                if rows[i][j] not in (0, 1):
                    rr = [list(r) for r in rows]; rr[i][j] = 0 if abs(rows[i][j]) < 2 else rows[i][j] // 2
                    cands.append(build_op(head, d, sizes, rr))
        for c in cands:
            budget -= 1
            if budget <= 0: break
            if c != cur and fails(c):
                cur, changed = c, True
                break
    return cur


def classify(r):
    """-> (key, what, concrete failing input found)"""
    if len(split_steps(r.op)) > 1 and not r.crash:
        for i, st in enumerate(r.steps):
            if st.ok: continue
            key, what, found = classify(st)
            reuse = sorted({t for t in st.oracle if t.startswith("reuse-")})
            if reuse:
                op = opname(st.op)
                return (f"reuse:{op}:{'+'.join(reuse)}",
                        f"step {i + 1} of the history `{r.op}` ({op} on objects that were used before) does not give what freshly "
                        f"constructed objects give ({reuse}); other oracle tags {sorted(set(st.oracle) - set(reuse))}; model says: {st.model[:300]}", True)
            return key, what + f" [step {i + 1} of the history `{r.op}`]", found
        return "mismatch:history:protocol", f"history `{r.op}`: {r.model[:300]}", False
    op = opname(r.op)
    if op == "fisher" and r.crash and r.op.split()[2] == "0":
        return ("F-C15-8:fisherlda-default-dimension",
                f"FisherLDA with the default subspace dimension (= number of classes) > input dimension reads past the eigenvector matrix: `{r.op}`", True)
    if r.crash:
        m = re.search(r"ERROR: AddressSanitizer: (\S+)|runtime error: ([^\n]*)", r.stderr)
        tag = (m.group(1) or m.group(2)) if m else "crash"
        return f"crash:{op}:{tag}", f"harness aborted ({tag}) on `{r.op}`", True
    if "unitinterval-constant-column" in r.oracle or "unitinterval-constant-column" in r.model:
        return ("F-C15-1:unitinterval-constant-column",
                f"NormalizeComponentsUnitInterval maps a constant column with value v to 0.5 - v, outside [0,1]: `{r.op}` -> {r.model}", bool(r.oracle))
    if "zca-nonfinite" in r.oracle:
        return ("F-C15-2:zca-singular-covariance",
                f"NormalizeComponentsZCA returns a non-finite model for data with singular covariance: `{r.op}`", True)
    if op in ("pca", "pcat", "pcac") and ("pca-nonfinite-direction" in r.oracle or "pca-not-orthonormal" in r.oracle) and r.op.split()[2] != "1":
        return ("F-C15-3:pca-small-sample-null-direction",
                f"PCA (small-sample branch) normalises a direction without variance (0/0): `{r.op}` -> {r.oracle}", True)
    if op in ("pca", "pcat", "pcac") and "pca-nonfinite-model" in r.oracle and r.op.split()[1] == "1":
        return ("F-C15-3b:pca-whitening-zero-variance",
                f"PCA encoder/decoder with whitening divide by sqrt(0) when all points coincide: `{r.op}`", True)
    if op == "fisher" and ("fisher-mean" in r.oracle or "fisherlda-mean" in r.model):
        return ("F-C15-6:fisherlda-mean-divided-twice",
                f"FisherLDA::meanAndScatter divides the global mean by the number of inputs twice: `{r.op}` -> {r.model[:160]}", bool(r.oracle))
    # only the listed defect itself: any further oracle tag or a model mismatch on the same input is reported on its own
    if op == "fisher" and set(r.oracle) == {"fisher-direction-not-stationary"} and r.model.startswith("ok "):
        return ("F-C15-7:fisherlda-nonsymmetric-eigenproblem",
                f"FisherLDA feeds the non-symmetric Sw^-1*Sb to the symmetric eigen-solver; returned directions do not satisfy Sb*w = lambda*Sw*w: `{r.op}`", True)
    if op == "nkuv" and ("nkuv-zero-variance" in r.model) and set(r.oracle) <= {"nkuv-nonfinite-factor"}:
        return ("F-C15-10:nkuv-zero-feature-variance",
                f"NormalizeKernelUnitVariance on data without variance in feature space (all points coincide) installs the factor 1/0 = inf "
                f"(SHARK_ASSERT(tm > 0) is compiled out in release builds): `{r.op}` -> {r.impl[:80]}", True)
    if op == "fisher" and "fisher-scatter" in r.model:
        return ("mismatch:fisher:scatter", f"the matrix FisherLDA::meanAndScatter hands to the eigen-solver is not the solution of Sw*M = Sb for the "
                f"model's scatter matrices: `{r.op}` -> {r.model[:200]}; oracle tags {r.oracle}", bool(r.oracle))
    if op == "lda" and "lda-n-equals-classes" in r.model:
        return ("F-C15-4:lda-n-equals-classes",
                f"LDA divides the scatter matrix by n - classes = 0: `{r.op}` -> {r.impl[:80]}", True)
    if r.oracle:
        return f"oracle:{op}:{'+'.join(sorted(set(r.oracle)))}", f"property oracle failed ({r.oracle}) on `{r.op}`; model says: {r.model}", True
    what = re.sub(r"\[[0-9,]+\]", "[]", r.model.split(":")[0])[:60]
    return f"mismatch:{op}:{what}", f"model and implementation disagree on `{r.op}`: {r.model}", False


def correspond(ctx, name, exes, drv, lines, max_report=8):
    import time
    t = time.time()
    res = run_until_clean(ctx, exes, drv, lines)
    ctx.count("traces_validated_against_impl", len(lines))
    ctx.count("ops_compared", len(lines))
    for r in [st for x in res for st in (x.steps or [x])]:
        m = re.match(r"ok exact=(\d+) tol=(\d+) rel=(\d+) tags=(\S*)", r.model)
        if m:
            ctx.count("values_compared_exactly", int(m.group(1)))
            ctx.count("values_compared_with_tolerance", int(m.group(2)))
            ctx.count("specification_checks_on_returned_doubles", int(m.group(3)))
            op = opname(r.op)
            for tg in filter(None, m.group(4).split(",")):
                ctx.hist("model_tags", f"{op}:{tg}")
            ctx.hist("fe_inexact", f"{op}:{'exact' if ' I=0' in r.impl else 'inexact' if ' I=1' in r.impl else 'exception'}")
    bad = [r for r in res if not r.ok]
    if not bad:
        ctx.log(f"{name}: {len(lines)} ops agree ({time.time()-t:.1f}s)")
        return 0
    ctx.log(f"{name}: {len(bad)} of {len(lines)} ops FAIL")
    seen = set()
    for r in bad:
        key, what, found = classify(r)
        if key in seen: continue
        seen.add(key)
        small = shrink(ctx, exes, drv, r.op, lambda q, key=key: classify(q)[0] == key)
        rs = run_lines(ctx, exes, drv, [small], timeout=60)[0]
        if rs.ok or classify(rs)[0] != key: small, rs = r.op, r
        key, what, found = classify(rs)
        b = ctx.broken("correspondence", f"{name}:{key}", what); b["resolved"] = True
        replay = {"ops": [small], "impl_output": [rs.impl], "model_output": [rs.model], "oracle": rs.oracle,
                  "crash": rs.crash, "stderr_tail": rs.stderr[-1500:], "env": ENV, "original_op": r.op}
        ctx.violation(key, replay, found_input=found, what=what)
        if len(seen) >= max_report: break
    return len(bad)


def load_corpus():
    d = os.path.join(core.VERIF, "corpus", "C15")
    out = []
    if os.path.isdir(d):
        for fn in sorted(os.listdir(d)):
            out += [l.strip() for l in open(os.path.join(d, fn)) if l.strip() and not l.startswith("#")]
    return out


LAKE_TARGETS = ["SharkVerif.Props.C15", "drv_c15"]

REGNET_PROBE = """#include <shark/Algorithms/Trainers/RegularizationNetworkTrainer.h>
#include <shark/Models/Kernels/LinearKernel.h>
using namespace shark;
double probe(){ LinearKernel<RealVector> k; RegularizationNetworkTrainer<RealVector> t(&k, 1.0); t.setNoiseVariance(0.5); t.setPrecision(4.0); return t.noiseVariance(); }
"""


def regnet_setters_compile(ctx):
    """RegularizationNetworkTrainer::setNoiseVariance / setPrecision are members of a class template: whether they can be
    instantiated is only seen when they are used (finding F-C15-9: `this->C() = ...` assigns to an rvalue).  Syntax-only
    compile of a probe, cached by the content of the two headers involved."""
    import hashlib
    hdrs = [os.path.join(core.REPO, "include/shark/Algorithms/Trainers", h) for h in ("RegularizationNetworkTrainer.h", "AbstractSvmTrainer.h")]
    key = hashlib.sha256(("".join(open(h).read() for h in hdrs) + REGNET_PROBE).encode()).hexdigest()[:16]
    d = os.path.join(core.CACHE, "c15probe"); os.makedirs(d, exist_ok=True)
    res = os.path.join(d, key + ".res")
    if os.path.exists(res):
        return open(res).read().strip() == "ok"
    src = os.path.join(d, key + ".cpp"); open(src, "w").write(REGNET_PROBE)
    pr = subprocess.run(["g++", "-std=c++11", "-DNDEBUG", "-w", "-fopenmp", "-fsyntax-only", "-I" + ctx.shark_h(),
                         "-I" + os.path.join(core.REPO, "include"), src], capture_output=True, text=True)
    open(res, "w").write("ok" if pr.returncode == 0 else "fail\n" + pr.stderr[-2000:])
    return pr.returncode == 0


def build(ctx):
    # three executables built one after the other: at most 3 compiler jobs of Shark translation units at a time
    # (src/Core/Random.cpp is a 2-second TU)
    a = ctx.harness("c15", ["c15.cpp"], repo_sources=["src/Algorithms/LinearRegression.cpp",
                                                      "src/Algorithms/NormalizeComponentsWhitening.cpp"])
    b = ctx.harness("c15b", ["c15b.cpp"], repo_sources=["src/Algorithms/PCA.cpp", "src/Algorithms/LDA.cpp", "src/Core/Random.cpp"])
    c = ctx.harness("c15c", ["c15c.cpp"], repo_sources=["src/Algorithms/FisherLDA.cpp"])
    flags = ["-DC15_HAVE_REGNET_SETTERS"] if regnet_setters_compile(ctx) else []
    d = ctx.harness("c15d" + ("s" if flags else ""), ["c15d.cpp"], repo_sources=["src/Core/Random.cpp"], flags=flags)   # header-only kernel trainers
    return {"a": a, "b": b, "c": c, "d": d}


def nontrivial(line):
    try:
        steps = split_steps(line)
        if len(steps) > 1: return True                    # a history: re-used objects
        head, n, d, extra, sizes, rows = parse_op(line)
        const = any(all(r[j] == rows[0][j] for r in rows) for j in range(d))
        return len(sizes) > 1 or const or d > n
    except Exception:
        return False


def degenerate(step):
    """the degenerate-data classes of one op line (measured on the generated text, not on the generator's intent)"""
    head, n, d, extra, sizes, rows = parse_op(step)
    op = head[0].split("@")[0]
    xs = [tuple(x[:d]) for x in rows]
    out = []
    if n == 1: out.append("n=1")
    if n == 2: out.append("n=2")
    if d > n: out.append("d>n")
    if n > 1 and len(set(xs)) == 1: out.append("all-points-equal")
    elif len(set(xs)) < n: out.append("duplicated-rows")
    if n > 1 and any(len({x[j] for x in xs}) == 1 for j in range(d)): out.append("constant-column")
    if all(v == 0 for x in xs for v in x): out.append("all-zero")
    if max([abs(v) for x in xs for v in x] + [0]) >= 16: out.append("large-values")
    if op in ("lda", "wlda", "fisher", "kmean"):
        labs = [x[d] for x in rows]
        if len(set(labs)) == 1: out.append("single-class")
        if len(set(labs)) == n and n > 1: out.append("one-example-per-class")
    if op == "wlda" or (op == "kmean" and extra == 2):
        ws = [x[d + 1] for x in rows]
        if any(w == 0 for w in ws): out.append("zero-weight")
        if all(w == 0 for w in ws): out.append("all-weights-zero")
    return out or ["none"]


def run(ctx):
    ctx.trusted += ["correspondence harnesses harness/c15.cpp, harness/c15b.cpp, harness/c15c.cpp, harness/c15d.cpp + generator checks/c15.py",
                    "hand-written models Model/Trainers.lean, Model/TrainersKernel.lean (the trainers are modelled, not translated)",
                    "FE_INEXACT flag semantics (x86-64 SSE2, -ffp-contract=off, OPENBLAS_NUM_THREADS=1) for the exact comparisons",
                    "ASan/UBSan runtime for the real code's memory safety (not a theorem)"]
    ctx.assumptions += ["exact rational arithmetic: the theorems do not cover floating-point rounding",
                        "sqrt, log, the symmetric eigen-solver and the positive SEMI-definite (pivoted Cholesky) solver are parameters of the model -- the positive definite "
                        "(Cholesky) solver is not: those call sites use the C02 model and theorem solve_spd_correct; "
                        "their specifications are hypotheses of the theorems and are checked on the values the real code returns"]
    ctx.prove(["SharkVerif.Props.C15"])
    if not ctx.quick:
        ctx.leanchecker(["SharkVerif.Props.C15"])
    exes = build(ctx)
    drv = ctx.driver("drv_c15")
    if not all(exes.values()) or not drv:
        return
    r = ctx.rng.fork("c15")
    corpus = load_corpus()
    ctx.cov["corpus_cases"] = len(corpus)
    per = 300 if ctx.quick else 3000
    lines = list(corpus)
    if not regnet_setters_compile(ctx):
        ctx.violation("F-C15-9:regnet-setters-not-instantiable",
                      {"probe": REGNET_PROBE, "compile": "g++ -std=c++11 -fsyntax-only -I<repo>/include probe.cpp"}, found_input=True,
                      what="RegularizationNetworkTrainer::setNoiseVariance / setPrecision cannot be instantiated (`this->C() = ...` assigns to an rvalue)")
    OPS = ("meanvar", "unitvar", "unitint", "linreg", "whiten", "zca", "pca", "lda", "wlda", "fisher", "regnet", "kmean", "nkuv")
    for op in OPS:
        for _ in range(2 if ctx.quick else 10):
            lines += gen_boundary(r, ctx, op)
    for op in OPS:
        lines += [gen_scaled(r, ctx, gen_case(r, ctx, op)) for _ in range(per)]
        for _ in range(3 if ctx.quick else 30):
            allp = gen_all_partitions(r, ctx, op)
            ctx.count("all_partition_families", 1)
            lines += allp
    nh = 120 if ctx.quick else 1200
    for fam in sorted(FAMILIES):
        hs = [gen_history(r, ctx, fam) for _ in range(nh * (3 if fam == "pca" else 1))]
        ctx.count("histories", len(hs))
        lines += hs
    for l in lines:
        for st in split_steps(l):
            ctx.hist("op_mix", opname(st))
            try:
                ctx.hist("batches", len(parse_op(st)[4]))
                for f in degenerate(st): ctx.hist("degenerate_data", f"{opname(st)}:{f}"); ctx.hist("degenerate_data_all_ops", f)
            except Exception:
                pass
    ctx.cov["evaluations"] = len(lines)
    ctx.cov["distinct_nontrivial"] = len({l for l in lines if nontrivial(l)})
    ctx.sample({"op": lines[len(lines) // 2]})
    correspond(ctx, "K-C15", exes, drv, lines)


def replay(ctx, rep):
    exes = build(ctx); drv = ctx.driver("drv_c15")
    res = run_lines(ctx, exes, drv, rep["ops"])
    for r in res:
        print(f"op   : {r.op}\nimpl : {r.impl}\nmodel: {r.model}\noracle: {r.oracle} crash: {r.crash}\n{r.stderr[-1500:]}")
    ok = all(r.ok for r in res)
    print("OK" if ok else "FAILS")
    return 0 if ok else 1
