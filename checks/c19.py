"""C19 — text importers: theorems (Props/C19.lean) + correspondence K-C19 between
Model/Import.lean + Model/ImportLex.lean (driver drv_c19) and the real LibSVM / CSV
importers (harness/c19.cpp links src/Data/SparseData.cpp and src/Data/Csv.cpp,
ASan+UBSan, allocation limit, watchdog)."""
import os, re
from vlib import core

TRUST = ("Lean 4.33 kernel; axioms at most propext/Classical.choice/Quot.sound (audited per run); "
         "hand-written model tied to the C++ by the correspondence harness (differential, generator-bounded); ")
MANIFEST = dict(
  text=("Theorems (Props/C19.lean) about an executable model of the importers' logic, for every list of parsed records, every "
        "dimension argument, batch size and value type: the LibSVM logic with the proposed repair returns the library's "
        "exception or a well-formed dataset (equal dimensions = shape, sparse indices increasing and in range, labels below "
        "numberOfClasses, one element per record, batches adding up and bounded) and never writes out of bounds "
        "(import_wellformed_or_error_svm, sparse_writes_in_bounds); the logic as it is in the tree does so for strictly "
        "increasing indices only (sparse_writes_in_bounds_partial, with decide-checked out-of-bounds / empty-input witnesses) and "
        "agrees with the repaired one on such inputs (repaired_eq_current); the three CSV overload families return the "
        "exception or a well-formed dataset with batches <= requested (import_wellformed_or_error_csv_*, via lemmas about "
        "optimalBatchSizes); exported records are read back unchanged at token level (csv_roundtrip, csv_roundtrip_regression, libsvm_roundtrip); the PEG model of the eight phrase_parse grammars never loops without consuming input (parser_total). "
        "The model — a PEG-with-skipper interpreter with the phrase_parse grammars of Csv.cpp/SparseData.cpp, spirit's numeric "
        "lexers, exact decimal->double conversion, and the post-parse logic — is tied to the real importers by an exact "
        "line-by-line correspondence on grammar-directed files, byte-level mutations and exporter->importer round trips, for all "
        "14 LibSVM/CSV overloads, under ASan/UBSan with an allocation limit and a watchdog."),
  note=TRUST + "boost::spirit's own parsing and memory safety are runtime evidence only (sanitizers + watchdog over the generated files); 'never hangs' is a theorem "
       "about the PEG model of the grammars (parser_total), for the real parsers it is the watchdog; "
       "numeric values are compared only for tokens of at most 15 digits and one-digit exponents (others run for memory safety + oracle only); "
       "the scalar CSV readers (Data<int/unsigned/float/double>) are not covered; libsvm_roundtrip is proved for regression labels and dense export (classification label mapping 2l-1 / l+1 only exercised by the rt stream).",
  technique="Lean 4 proof about an executable importer model + differential correspondence with the C++ (ASan/UBSan)",
  design="§6 C19")

FINISH = dict(level="proof",
              rule="files from one SplitMix64 stream: grammar-directed mostly-valid LibSVM/CSV text with format variations, "
                   "and byte-level mutations of those; a case is non-trivial if the file has at least 2 records; "
                   "distinct = distinct op text")

LAKE_TARGETS = ["SharkVerif.Props.C19", "drv_c19"]


def hx(b):
    return b.hex() if b else "-"


# ------------------------------------------------------------------ mode
DIGRUN = re.compile(rb"[0-9][0-9.]*")
EXPO = re.compile(rb"[0-9.][eE][+-]?[0-9]")


def mode_of(data):
    """X: values are compared exactly; S: memory safety + oracle only.
    S when some numeric token may not be parsed with a single rounding by spirit:
    more than 15 digits in a run, or any exponent part at all with 2+ digits."""
    for m in DIGRUN.finditer(data):
        if sum(1 for c in m.group(0) if 48 <= c <= 57) > 15:
            return "S"
    for m in re.finditer(rb"[0-9.][eE][+-]?([0-9]+)", data):
        if len(m.group(1)) > 1:
            return "S"
    return "X"


# ------------------------------------------------------------------ generators
def num_token(r, integral=False):
    """a numeric token spirit parses with one rounding"""
    k = r.below(100)
    if integral or k < 35:
        return str(r.range(-3, 12))
    if k < 50: return r.choice(["0.5", "-0.25", "1.75", "2.", ".5", "-.125", "+3", "1e1", "2.5e-1", "1E2", "0", "-0", "0.0"])
    if k < 75: return f"{r.range(-99, 99)}.{r.range(0, 999)}"
    if k < 80: return r.choice(["nan", "inf", "-inf", "NaN", "infinity", "nan(1)", "-nan"])
    if k < 90: return f"{r.range(0, 9)}.{r.range(0, 99)}e{r.choice(['', '+', '-'])}{r.range(0, 6)}"
    return f"0.{r.range(1, 999999999)}"


def gen_svm_file(r, ctx=None):
    n = r.choice([0, 1, 1, 2, 3, 4, 5, 7, 9, 12])
    kind = r.below(100)
    zero_based = r.chance(1, 4)
    labelset = r.choice(["pm1", "01", "12", "multi", "real", "neg"])
    maxdim = r.choice([1, 2, 3, 5, 8, 20])
    lines = []
    for _ in range(n):
        if labelset == "pm1": lab = r.choice(["-1", "1", "+1", "1.0"])
        elif labelset == "01": lab = r.choice(["0", "1"])
        elif labelset == "12": lab = r.choice(["1", "2"])
        elif labelset == "multi": lab = str(r.range(0, 5))
        elif labelset == "neg": lab = r.choice(["-1", "1", "-2", "3", "0"])
        else: lab = num_token(r)
        lo = 0 if zero_based else 1
        idx = sorted({r.range(lo, maxdim) for _ in range(r.range(0, min(5, maxdim)))})
        if kind < 12 and idx:      # unordered / duplicated / zero indices
            z = r.below(4)
            if z == 0: r_ = idx[:]; idx = r_[::-1]
            elif z == 1: idx = idx + [idx[0]]
            elif z == 2: idx = idx + [0]
            else: idx = [idx[-1]] + idx
        if kind in (12, 13) and idx:
            idx[-1] = r.choice([4294967295, 4294967296, 100000, 131072, 65536, 70000])
        sep = r.choice([" ", " ", " ", "  ", "\t"])
        col = r.choice([":", ":", ":", " :", ": ", " : "])
        feats = [f"{i}{col}{num_token(r)}" for i in idx]
        lines.append(sep.join([lab] + feats))
    eol = r.choice(["\n", "\n", "\n", "\r\n", "\n\n", "mixed"])
    out = ""
    for i, l in enumerate(lines):
        e = r.choice(["\n", "\r\n", "\n\n", " \n"]) if eol == "mixed" else eol
        if i == len(lines) - 1 and r.chance(1, 4): e = ""
        out += l + e
    if r.chance(1, 12): out = "\n" + out
    if ctx:
        ctx.hist("svm_records", n); ctx.hist("svm_labelset", labelset); ctx.hist("svm_eol", repr(eol))
        ctx.hist("svm_index_kind", "unordered/dup/zero" if kind < 12 else "huge" if kind < 14 else "sorted")
    return out.encode()


def mutate(r, data, ctx=None):
    b = bytearray(data)
    for _ in range(r.range(1, 3)):
        k = r.below(7)
        if ctx: ctx.hist("mutation", ["flip", "insert", "delete", "dup-chunk", "special", "truncate", "digit"][k])
        if k == 0 and b:
            b[r.below(len(b))] = r.below(256)
        elif k == 1:
            b.insert(r.below(len(b) + 1), r.below(256))
        elif k == 2 and b:
            del b[r.below(len(b))]
        elif k == 3 and b:
            i = r.below(len(b)); j = min(len(b), i + r.range(1, 8))
            b[i:i] = b[i:j]
        elif k == 4:
            s = r.choice([b":", b" ", b"\n", b"\r", b"-", b".", b"e", b"#", b"?", b",", b"\x00", b"+", b"nan", b"inf", b"\t", b"1", b"0"])
            i = r.below(len(b) + 1); b[i:i] = s
        elif k == 5 and b:
            del b[r.below(len(b)):]
        elif k == 6 and b:
            i = r.below(len(b)); b[i] = 48 + r.below(10)
    return bytes(b)


def svm_op(r, data, ctx=None, forced=None):
    fmt = r.choice(["d", "s"]); lab = r.choice(["c", "r"]); ty = r.choice(["f64", "f32"])
    dims = r.choice([0, 0, 0, 1, 3, 8, 25])
    bs = r.choice([0, 1, 2, 3, 4, 256])
    if forced: fmt, lab, ty, dims, bs = forced
    m = mode_of(data)
    if ctx:
        ctx.hist("svm_overload", f"{fmt}{lab}{ty}"); ctx.hist("mode", m); ctx.hist("batch_size_arg", bs); ctx.hist("dims_arg", dims)
    return f"svm {fmt} {lab} {ty} {dims} {bs} {m} {hx(data)}"


def gen_csv_file(r, kind, lp, sep, nout, ctx=None):
    """kind u/c/r; returns bytes"""
    n = r.choice([0, 1, 1, 2, 3, 4, 5, 7, 9, 12])
    d = r.choice([1, 1, 2, 3, 4, 6])
    ws = sep in " \t"
    labelset = r.choice(["pm1", "01", "12", "multi", "neg", "dot"])
    ragged = r.chance(1, 10)
    lines = []
    for _ in range(n):
        dd = d + (r.range(-1, 1) if ragged and r.chance(1, 3) else 0)
        cells = []
        for _ in range(max(dd, 0)):
            k = r.below(100)
            if k < 6: cells.append("?")
            elif k < 10 and not ws: cells.append("")
            else: cells.append(num_token(r))
        if kind == "c":
            if labelset == "pm1": lab = r.choice(["-1", "1", "+1"])
            elif labelset == "01": lab = r.choice(["0", "1"])
            elif labelset == "12": lab = r.choice(["1", "2"])
            elif labelset == "multi": lab = str(r.range(0, 5))
            elif labelset == "neg": lab = r.choice(["-1", "1", "-2", "3", "0", "2147483648"])
            else: lab = r.choice(["1.", "1.0", "2.000", "0.5", "3.5", "1"])
            cells = [lab] + cells if lp == "F" else cells + [lab]
        pad = r.choice(["", "", "", " ", "  "])
        joiner = (sep if not ws else r.choice([sep, sep, sep + sep])) if True else sep
        if not ws and pad: joiner = pad + sep + pad
        line = joiner.join(cells)
        k = r.below(40)
        if k == 0: line += " # trailing comment"
        elif k == 1: line = "# a comment line\n" + line
        elif k == 2: line = " " + line + " "
        elif k == 3 and not ws: line += sep
        lines.append(line)
    eol = r.choice(["\n", "\n", "\n", "\r\n", "\r", "\n\n", "mixed"])
    out = ""
    for i, l in enumerate(lines):
        e = r.choice(["\n", "\r\n", "\r", "\n\n", " \n"]) if eol == "mixed" else eol
        if i == len(lines) - 1 and r.chance(1, 3): e = ""
        out += l + e
    if r.chance(1, 15): out = r.choice(["\n", "# header\n", " "]) + out
    if ctx:
        ctx.hist("csv_records", n); ctx.hist("csv_eol", repr(eol)); ctx.hist("csv_dims", d)
        if kind == "c": ctx.hist("csv_labelset", labelset)
    return out.encode()


def csv_params(r):
    kind = r.choice(["u", "c", "c", "r"]); ty = r.choice(["f64", "f32"]); lp = r.choice(["F", "L"])
    sep = r.choice([",", ",", ";", " ", "\t", "|", ":"])
    nout = r.choice([1, 1, 2, 0, 3]) if kind == "r" else 1
    maxb = r.choice([1, 2, 3, 4, 256])
    return kind, ty, lp, sep, nout, maxb


def csv_op(params, data, ctx=None):
    kind, ty, lp, sep, nout, maxb = params
    m = mode_of(data)
    if ctx:
        ctx.hist("csv_overload", f"{kind}{ty}{lp if kind != 'u' else ''}"); ctx.hist("mode", m)
        ctx.hist("csv_separator", repr(sep)); ctx.hist("batch_size_arg", maxb)
    return f"csv {kind} {ty} {lp} {nout} {ord(sep)} {ord('#')} {maxb} {m} {hx(data)}"


def gen_csv1(r, ctx=None):
    """scalar readers: whitespace / comment separated values"""
    ty = r.choice(["int", "uint", "f64"])
    n = r.choice([0, 1, 2, 3, 5, 9])
    toks = []
    for _ in range(n):
        if ty == "f64": toks.append(num_token(r))
        elif ty == "int": toks.append(r.choice([str(r.range(-50, 50)), "+7", "-0", "2147483647", "-2147483648", "2147483648", "007"]))
        else: toks.append(r.choice([str(r.range(0, 99)), "4294967295", "4294967296", "-1", "00"]))
        if r.chance(1, 12): toks.append("# note " + str(r.below(9)) + "\n")
    out = ""
    for t in toks:
        out += t + r.choice([" ", " ", "\n", "\t", "\r\n", "  "])
    if r.chance(1, 3): out = out.rstrip()
    maxb = r.choice([1, 2, 3, 256])
    if ctx: ctx.hist("csv1_type", ty); ctx.hist("csv1_values", n)
    return ty, maxb, out.encode()


def csv1_op(ty, maxb, data, ctx=None):
    m = mode_of(data)
    if ctx: ctx.hist("mode", m)
    return f"csv1 {ty} {ord('#')} {maxb} {m} {hx(data)}"


def gen_rt(r, ctx=None):
    """exporter, then importer: every separator, label position, batch size"""
    n = r.choice([0, 1, 2, 3, 5, 8, 13]); dim = r.choice([1, 2, 3, 6]); seed = r.below(40)
    if r.chance(3, 5):
        kind = r.choice(["c", "r"]); lp = r.choice(["F", "L"]); sep = r.choice([",", ";", " ", "\t", "|", ":"])
        nout = r.choice([1, 2, 3]) if kind == "r" else 1
        maxb = r.choice([1, 2, 3, 5, 256])
        if ctx:
            ctx.hist("rt_kind", f"csv-{kind}-{lp}"); ctx.hist("rt_separator", repr(sep)); ctx.hist("rt_batch", maxb); ctx.hist("rt_elements", n)
        return f"rt csv {kind} {lp} {nout} {ord(sep)} {maxb} {dim} {seed} {n}"
    lab = r.choice(["c", "r"]); bs = r.choice([0, 1, 2, 3, 5, 256])
    if ctx:
        ctx.hist("rt_kind", f"svm-{lab}"); ctx.hist("rt_batch", bs); ctx.hist("rt_elements", n)
    return f"rt svm d {lab} {bs} {dim} {seed} {n}"


# ------------------------------------------------------------------ corpus / classification
def load_corpus():
    d = os.path.join(core.VERIF, "corpus", "C19")
    out = []
    if os.path.isdir(d):
        for fn in sorted(os.listdir(d)):
            if not fn.endswith(".txt"): continue
            ops = [l.strip() for l in open(os.path.join(d, fn)) if l.strip() and not l.startswith("#")]
            out += [[o] for o in ops]
    return out


def decode(op):
    t = op.split()
    if t[0] == "rt": return b""
    return bytes.fromhex(t[-1]) if t[-1] != "-" else b""


def svm_unsorted(data):
    for line in data.split(b"\n"):
        idx = [int(m) for m in re.findall(rb"(\d+)\s*:", line)]
        if any(a >= b for a, b in zip(idx, idx[1:])):
            return True
    return False


def classify(ops, res):
    op = ops[-1]; t = op.split(); data = decode(op)
    what_in = f"{' '.join(t[:-1])} bytes={data[:80]!r}"
    if t[0] == "rt":
        what_in = op
        feat = "F2b-empty-input" if t[1] == "svm" and t[-1] == "0" else "roundtrip"
    elif t[0] == "svm":
        if not data.strip(b"\n") and t[2] == "c":
            feat = "F2b-empty-input"
        elif svm_unsorted(data):
            feat = "F2a-unsorted-indices"
        elif re.search(rb"(^|\s)0+\s*:", data):
            feat = "F2c-zero-based-shape"
        else:
            feat = "other"
    else:
        feat = "F9-fractional-label" if t[1] == "c" and re.search(rb"\d\.\d*[1-9]|\d[ \t]+\d", data) else "other"
    if res.crash:
        m = re.search(r"(?:ERROR|SUMMARY): AddressSanitizer: (\S+)|runtime error: ([^\n]*)", res.stderr)
        tag = (m.group(1) or m.group(2)) if m else ("timeout" if "TIMEOUT" in res.stderr else "crash")
        tag = re.sub(r"0x[0-9a-f]+", "ADDR", tag)[:60].replace(" ", "_")
        return f"{t[0]}:{feat}:crash:{tag}", f"importer aborted ({tag}) on {what_in}"
    if res.oracle:
        m = re.search(r"!oracle (\S+)", res.oracle[0])
        return f"{t[0]}:{feat}:oracle:{m.group(1)}", f"property oracle failed ({m.group(1)}) on {what_in}"
    return f"{t[0]}:{feat}:mismatch", f"model and implementation disagree on {what_in}: impl={res.impl[-1:]} model={res.model[-1:]}"


def build(ctx):
    return ctx.harness("c19", ["c19.cpp"], repo_sources=["src/Data/SparseData.cpp", "src/Data/Csv.cpp"])


def run(ctx):
    ctx.trusted += ["correspondence harness harness/c19.cpp + generator checks/c19.py",
                    "hand-written model Model/Import.lean, Model/ImportLex.lean (SparseData.cpp, Csv.cpp are modelled, not translated)",
                    "boost::spirit (parsing, value conversion) and libstdc++: exercised under ASan/UBSan, not modelled"]
    ctx.assumptions += ["maximum batch size >= 1 for the CSV importers (0 divides by zero in optimalBatchSizes: documented precondition)",
                        "values of numeric tokens are compared only when spirit converts them with a single rounding (<= 15 digits, 1-digit exponent)",
                        "a single allocation above 1 MiB inside an importer is answered by std::bad_alloc (harness operator new)"]
    ctx.prove(["SharkVerif.Props.C19"])
    if not ctx.quick:
        ctx.leanchecker(["SharkVerif.Props.C19"])
    exe = build(ctx)
    drv = ctx.driver("drv_c19")
    if not exe or not drv:
        return
    nvalid, nmut = (1500, 2500) if ctx.quick else (15000, 35000)
    cases = load_corpus()
    ctx.cov["corpus_cases"] = len(cases)
    r = ctx.rng.fork("c19")
    for _ in range(nvalid):
        cases.append([svm_op(r, gen_svm_file(r, ctx), ctx)])
    for _ in range(nmut):
        base = gen_svm_file(r)
        cases.append([svm_op(r, mutate(r, base, ctx), ctx)])
    for _ in range(nvalid):
        prm = csv_params(r)
        cases.append([csv_op(prm, gen_csv_file(r, prm[0], prm[2], prm[3], prm[4], ctx), ctx)])
    for _ in range(nmut):
        prm = csv_params(r)
        cases.append([csv_op(prm, mutate(r, gen_csv_file(r, prm[0], prm[2], prm[3], prm[4]), ctx), ctx)])
    for _ in range(nvalid // 5):
        ty, maxb, data = gen_csv1(r, ctx)
        cases.append([csv1_op(ty, maxb, data, ctx)])
    for _ in range(nmut // 5):
        ty, maxb, data = gen_csv1(r)
        cases.append([csv1_op(ty, maxb, mutate(r, data, ctx), ctx)])
    nrt = 300 if ctx.quick else 5000
    cases += [[gen_rt(r, ctx)] for _ in range(nrt)]
    ctx.cov["evaluations"] = len(cases)
    ctx.cov["distinct_nontrivial"] = len({c[0] for c in cases if decode(c[0]).count(b"\n") >= 2 or (c[0].startswith("rt") and int(c[0].split()[-1]) >= 2)})
    ctx.sample({"op": cases[len(cases) // 2][0][:200]})
    env = {"ASAN_OPTIONS": "detect_leaks=0:abort_on_error=0:allocator_may_return_null=1:max_allocation_size_mb=512"}
    tmp = os.path.join(core.CACHE, "tmp"); os.makedirs(tmp, exist_ok=True)
    # chunks: a failing case only costs a one-by-one rerun of its own chunk
    size = 2000
    for k in range(0, len(cases), size):
        core.correspond(ctx, f"K-C19[{k // size}]", cases[k:k + size], [exe, tmp], [drv], classify, env=env,
                        keep_prefix=0, max_report=6)


def replay(ctx, rep):
    exe = build(ctx); drv = ctx.driver("drv_c19")
    tmp = os.path.join(core.CACHE, "tmp"); os.makedirs(tmp, exist_ok=True)
    res = core.run_case(ctx, [exe, tmp], [drv], rep["ops"], env=rep.get("env"))
    print("\n".join(f"impl : {a}\nmodel: {b}" for a, b in zip(res.impl, res.model)))
    print("stderr:", res.stderr[-2000:])
    print("OK" if res.ok else "FAILS")
    return 0 if res.ok else 1
