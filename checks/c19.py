"""C19 — text importers: theorems (Props/C19.lean) + correspondence K-C19 between
Model/Import.lean + Model/ImportLex.lean (driver drv_c19) and the real LibSVM / CSV
importers (harness/c19.cpp links src/Data/SparseData.cpp and src/Data/Csv.cpp,
ASan+UBSan, allocation limit, watchdog)."""
import os, re
from vlib import core

TRUST = ("Lean 4.33 kernel; axioms at most propext/Classical.choice/Quot.sound (audited per run); "
         "hand-written model tied to the C++ by the correspondence harness (differential, generator-bounded); ")
MANIFEST = dict(
  text=("Theorems (Props/C19.lean, 48) about an executable model of the importers and exporters. FIRST SENTENCE, FROM BYTES, for every "
        "byte sequence and every configuration: the models of importSparseData (line splitting, PEG model of the record grammar, "
        "index-order check, dimension / zero-base / label logic, dense or sparse, classification or regression, any highestIndex and "
        "batch size) and of the three csvStringToData families (PEG model of the seven phrase_parse grammars, then row/label/batch "
        "logic; any separator, comment character, label position, number of outputs, maximum batch size incl. 0 = unlimited) return the "
        "library's exception, bad_alloc (dense LibSVM vectors beyond the allocation limit) or a well-formed dataset — equal dimensions = "
        "shape, sparse indices increasing and in range, labels below numberOfClasses, one element per record, batches adding up and "
        "bounded — and never write out of bounds (import_bytes_wellformed_or_error_svm, import_bytes_wellformed_or_error_csv, "
        "sparse_writes_in_bounds; file overloads = string overloads on a suffix: dropTitleLines_suffix); the same for the grammar TEXT "
        "of Csv.cpp since the repair of F-C19-11 (cleanNumber<T>() = &p >> p in place of every double_/auto_): "
        "csv_grammars_as_written (parse_cleanReal: identical result, rest and events on every input), "
        "import_bytes_wellformed_or_error_csv_as_written. NEVER HANG: parser_total (no `*`/`+`/`%` loop of the eight grammars iterates "
        "without consuming) and last_column_loop_terminates (the hand-written do/while around phrase_parse in "
        "import_csv_reader_points(LAST_COLUMN): every successful call consumes, so no call is repeated at the same position and "
        "length+1 iterations suffice). SECOND SENTENCE: token level for all datasets — csv_roundtrip (class 0 present, else the importer's "
        "documented shift: csv_roundtrip_shift_witness), csv_roundtrip_regression, libsvm_roundtrip (dense), libsvm_roundtrip_sparse, "
        "libsvm_roundtrip_class (label mappings label+1 and -1/+1 with oneMinusOne, sparse or dense entries); BYTE level — "
        "printed_number_charset (every printed number, label and index consists of digits, sign, '.', 'e' and the letters of inf/nan "
        "only, plus setw blanks in a CSV cell: a separator outside these never occurs inside a cell — the separator hypothesis as a "
        "checked fact), label_index_bytes_roundtrip (int_/uint_ read printed labels/indices back exactly), value_bytes_roundtrip_sci "
        "and value_bytes_roundtrip_general (for EVERY binary64 value, %.<p>e and all three layouts of %.<p>g: double_ consumes exactly "
        "the token and returns spirit's conversion of the value rounded to the printed number of significant digits), "
        "printed_decimal_is_nearest (that decimal has at most p+1 digits and is within half a unit in the last printed place: 'equals "
        "the original up to the printed precision' — precision 10 is NOT bit-exact, witness in the file), real_intDigits / roundBin_nat "
        "(integer tokens below 2^53 are converted exactly), and END TO END for exportSparseData -> importSparseData: "
        "libsvm_export_import_bytes_all — for every dataset of binary64 values (regression labels, or class labels with oneMinusOne "
        "on/off, sortLabels off), sparse or dense, any batch size: importing the exported BYTES succeeds (no printed double is "
        "rejected: readBack_fmtG_some, no carry into 1e+309) and yields the same structure, indices, shape, batches and class labels "
        "with every value = spirit's reading of its 6-digit rounding; and for exportCSV -> csvStringToData: csv_export_import_bytes — "
        "for every non-empty dataset of binary64 values (unlabelled Data<RealVector>, and LabeledData<RealVector,RealVector> with the "
        "labels first or last), every separator / comment character satisfying SepOk, scientific format on or off, field width 0, every "
        "maximum batch size incl. 0: the exporter produces bytes, and importing them through the PEG model of the row grammar "
        "(skipper, `%` lists, eol handling, trailing line feed) yields the dataset with the same element count, dimensions and batch "
        "partition and every value = spirit's reading of its 11-digit rounding (readRows_csvRows / readRows_csvRegr in "
        "Lemmas/ExportCsv.lean: the row reader reads a printed file token by token); csv_export_import_bytes_class_first / _last — the "
        "same for LabeledData<RealVector, unsigned int> with the label in the FIRST column (label grammar lexeme[int_ >> -('.' >> *'0') "
        ">> !digit], then *(sep >> cell), rows % eol) and in the LAST column (the hand-written record loop around *(cell >> sep) >> label "
        ">> (+eol|eoi): the cell loop backs off the label token, one record per phrase_parse call, readPointsLastLoop_print): the "
        "imported labels are the exported ones (class 0 present), dimensions and batches as constructed. So the second sentence is "
        "proved from bytes for every exporter/importer family, label position, batch size and every separator allowed by SepOk. "
        "The model — PEG-with-skipper interpreter, spirit 1.83's numeric lexers with every rounding of real_impl/scale, exact IEEE "
        "rounding, the post-parse logic, the exporters as BYTE printers (%.10e / %.10g / %.6g by exact decimal conversion, setw, inf/nan, "
        "label mappings, sortLabels, append) — is tied to the real code by exact line-by-line correspondence under ASan/UBSan + "
        "-fsanitize=float-cast-overflow with an allocation limit and a 20 s watchdog per op, in both tiers: all 16 importSparseData "
        "overloads (stream and file), csvStringToData and importCSV (string and file, titleLines) for Data<RealVector/FloatVector/int/"
        "unsigned/float/double> and both labelled families, exportCSV and exportSparseData (all options): the written file is compared "
        "byte for byte, then imported again and compared value for value; an independent oracle in the harness judges round trip and "
        "well-formedness. Streams: grammar-directed files, byte mutations, a hostile generator (13+3 classes), one import in eight into a "
        "dataset object that already holds data, maximumBatchSize 0 in every family — histograms in the evidence."),
  note=TRUST + "boost::spirit's and iostream's own code is runtime evidence only (sanitizers + watchdog + exact comparison with the model over the "
       "generated files); 'never hangs' is a theorem about the PEG model and the modelled record loop, for the real parsers it is the watchdog; "
       "numeric values are compared for tokens whose digits fit spirit's uint64 accumulator (<= 17 digits, any exponent); longer tokens "
       "(spirit's excess-digit path, not modelled) and, for the float scalar reader, anything but plain integers of <= 7 digits run for "
       "memory safety + oracle only; the formatting model fmtE/fmtG itself (= what iostream prints) is tied by exact correspondence, not "
       "proved; what IS proved is that the lexer model reads the printer model's bytes back as stated. Byte-level END-TO-END is proved for "
       "exportSparseData/importSparseData (sortLabels off) and for exportCSV/csvStringToData in all three families and both label "
       "positions, for separators that are not white space (SepOk: also not NUL, not a character of a number, E, i/I, '(' ) and "
       "field width 0; for white-space separators (the *Ws grammars) and setw padding the composition through the PEG grammars is "
       "correspondence + oracle (ops rt, xcsv), the theorems being token level (csv_roundtrip*) + per token + character set; the "
       "Data<FloatVector> variants differ by static_cast<float> of each value (correspondence). "
       "'Reproduces the data' therefore means: structure, labels, indices exactly; each value as the correctly rounded decimal with 11 "
       "(CSV) / 6 (LibSVM) significant digits read by spirit (two roundings for |exponent| > 22) — exact for integers and short decimals, "
       "not bit-exact in general; separators that are characters of a number (digits - + . e, and E after a plain %g number) are "
       "outside the claim. sortLabels only in the correspondence, for <= 13 elements (std::sort is unstable beyond 16). "
       "Open finding F-C19-13 (libsvm classification label converted to int before the range check: UB for NaN/inf/out-of-int-range "
       "labels, caught by -fsanitize=float-cast-overflow) is probed on every run; while the probe fails such files run one by one in "
       "their own group. F10/F11/F12 are repaired in /repo; their probes stay as regression tests.",
  technique="Lean 4 proof about an executable importer/exporter model + differential correspondence with the C++ (ASan/UBSan)",
  design="§6 C19, §14 C19")

FINISH = dict(level="proof",
              rule="ops from one SplitMix64 stream: grammar-directed mostly-valid LibSVM/CSV text with format variations, byte-level "
                   "mutations of those, hostile files of 13 named classes, scalar files, and export ops carrying random datasets "
                   "(full-range doubles/floats, inf, nan, zeros, sparse/dense); a case is non-trivial if the file / dataset has at "
                   "least 2 records; distinct = distinct op text")

LAKE_TARGETS = ["SharkVerif.Props.C19", "drv_c19"]


def hx(b):
    return b.hex() if b else "-"


# ------------------------------------------------------------------ mode
DIGRUN = re.compile(rb"[0-9][0-9.]*")
EXPTOKEN = re.compile(rb"([0-9]*)(?:\.([0-9]*))?[eE]([+-]?[0-9]+)")
EXPONENT_RANGE_REPAIRED = False      # set by the probe `exponent-out-of-range` in run()


LABEL_CAST_REPAIRED = False          # set by the probe `label-cast` in run() (finding F-C19-13)
LABTOKEN = re.compile(rb"^[ \t\r\v\f]*([+-]?(?:nan|inf(?:inity)?|(?:[0-9]+\.?[0-9]*|\.[0-9]+)(?:[eE][+-]?[0-9]+)?))", re.I)


def label_cast_trigger(data):
    """finding F-C19-13: libsvm_importer_classification converts the label to int BEFORE any range check; a label that is
    NaN, infinite or outside the range of int is undefined behaviour there (-fsanitize=float-cast-overflow aborts).
    True if some line of the file starts with such a label."""
    for line in data.split(b"\n"):
        m = LABTOKEN.match(line)
        if not m: continue
        try: x = float(m.group(1).decode())
        except ValueError: continue
        if x != x or x >= 2147483648.0 or x <= -2147483649.0:
            return True
    return False


def mode_of(data, float_scalar=False):
    """X: values are compared exactly; S: memory safety + oracle only.
    The model follows boost 1.83's real_impl (uint64 accumulator, pow10 table, every rounding), so any
    token whose integer+fraction digits fit the accumulator (<= 17 digits) is compared, with any exponent.
    The float scalar reader (uint32 accumulator, float arithmetic) is compared for plain integers of
    at most 7 digits only."""
    lim = 7 if float_scalar else 17
    for m in DIGRUN.finditer(data):
        if sum(1 for c in m.group(0) if 48 <= c <= 57) > lim:
            return "S"
    if float_scalar and re.search(rb"[.eE]", data):
        return "S"
    if not EXPONENT_RANGE_REPAIRED and exp_out_of_range(data, float_scalar):
        return "S"
    return "X"


def exp_out_of_range(data, float_scalar=False):
    hi, lo, run = (38, -74, rb"[0-9]{30,}") if float_scalar else (308, -614, rb"[0-9]{300,}")
    if True:
        # finding F11: a number whose decimal exponent is outside [-614, 308] makes spirit's double_ fail WITHOUT
        # restoring the iterator; the CSV grammars then read it as a missing value / drop it.  The model has the
        # repaired behaviour (the number does not parse), so such files run for memory safety + oracle only.
        for m in EXPTOKEN.finditer(data):
            try: e = int(m.group(3))
            except ValueError: continue
            if abs(e) > 2147483648: continue
            ni, nf = len(m.group(1) or b""), len(m.group(2) or b"")
            acc = 7 if float_scalar else 17          # digits spirit accumulates; later integer digits count as exponent
            k = e - min(nf, max(0, acc - ni)) + max(0, ni - acc)
            if k > hi or k < lo:
                return True
        # same effect without an exponent part: digits beyond the accumulator count as a positive exponent
        for m in re.finditer(run, data):
            return True
    return False


# ------------------------------------------------------------------ generators
EDGE_NUMBERS = ["1.7976931348623157e308", "1.7976931348623159e308", "1e308", "1e309", "9e308", "4.9e-324", "2.4e-324", "2.5e-324",
                "4.9406564584124654e-324", "2.2250738585072014e-308", "2.2250738585072011e-308", "1e-307", "1e-308", "1e-323",
                "1e-614", "1e-615", "123e-330", "0.000000000000000000001", "9007199254740993", "9007199254740992", "18014398509481985",
                "4294967295", "4294967296", "2147483647", "2147483648", "-2147483648", "-2147483649", "1844674407370955161",
                "9999999999999999999", "0.30000000000000004", "1e22", "1e23", "8.5e22", "5e-1", "1e+0", "1e-0", "1E5", "3.4028235e38",
                "3.4028236e38", "1.4e-45", "7e-46", "16777217", "-0.0", "-0e5", "0e999999999", "1e2147483647", "1e2147483648",
                "1e-2147483648", "00000000000000000001", "1.e3", ".5e1", "5.e-1"]


def num_token(r, integral=False):
    """a numeric token spirit parses with one rounding"""
    k = r.below(100)
    if integral or k < 35:
        return str(r.range(-3, 12))
    if k < 50: return r.choice(["0.5", "-0.25", "1.75", "2.", ".5", "-.125", "+3", "1e1", "2.5e-1", "1E2", "0", "-0", "0.0"])
    if k < 75: return f"{r.range(-99, 99)}.{r.range(0, 999)}"
    if k < 80: return r.choice(["nan", "inf", "-inf", "NaN", "infinity", "nan(1)", "-nan"])
    if k < 86: return f"{r.range(0, 9)}.{r.range(0, 99)}e{r.choice(['', '+', '-'])}{r.range(0, 6)}"
    if k < 92: return f"{r.range(1, 9)}.{r.range(0, 10**r.range(1, 15))}e{r.choice(['', '+', '-'])}{r.range(0, 330)}"
    if k < 96: return r.choice(EDGE_NUMBERS)
    return f"0.{r.range(1, 999999999)}"


def gen_svm_file(r, ctx=None):
    n = r.choice([0, 1, 1, 2, 3, 4, 5, 7, 9, 12])
    kind = r.below(100)
    zero_based = r.chance(1, 4)
    labelset = r.choice(["pm1", "01", "12", "multi", "real", "neg"])
    maxdim = r.choice([1, 2, 3, 5, 8, 20])
    lines = []
    for _ in range(n):
        if labelset == "pm1": lab = r.choice(["-1", "1", "+1", "1.0"])
        elif labelset == "01": lab = r.choice(["0", "1"])
        elif labelset == "12": lab = r.choice(["1", "2"])
        elif labelset == "multi": lab = str(r.range(0, 5))
        elif labelset == "neg": lab = r.choice(["-1", "1", "-2", "3", "0"])
        else: lab = num_token(r)
        lo = 0 if zero_based else 1
        idx = sorted({r.range(lo, maxdim) for _ in range(r.range(0, min(5, maxdim)))})
        if kind < 12 and idx:      # unordered / duplicated / zero indices
            z = r.below(4)
            if z == 0: r_ = idx[:]; idx = r_[::-1]
            elif z == 1: idx = idx + [idx[0]]
            elif z == 2: idx = idx + [0]
            else: idx = [idx[-1]] + idx
        if kind in (12, 13) and idx:
            idx[-1] = r.choice([4294967295, 4294967296, 100000, 131072, 65536, 70000])
        sep = r.choice([" ", " ", " ", "  ", "\t"])
        col = r.choice([":", ":", ":", " :", ": ", " : "])
        feats = [f"{i}{col}{num_token(r)}" for i in idx]
        lines.append(sep.join([lab] + feats))
    eol = r.choice(["\n", "\n", "\n", "\r\n", "\n\n", "mixed"])
    out = ""
    for i, l in enumerate(lines):
        e = r.choice(["\n", "\r\n", "\n\n", " \n"]) if eol == "mixed" else eol
        if i == len(lines) - 1 and r.chance(1, 4): e = ""
        out += l + e
    if r.chance(1, 12): out = "\n" + out
    if ctx:
        ctx.hist("svm_records", n); ctx.hist("svm_labelset", labelset); ctx.hist("svm_eol", repr(eol))
        ctx.hist("svm_index_kind", "unordered/dup/zero" if kind < 12 else "huge" if kind < 14 else "sorted")
    return out.encode()


def mutate(r, data, ctx=None):
    b = bytearray(data)
    for _ in range(r.range(1, 3)):
        k = r.below(7)
        if ctx: ctx.hist("mutation", ["flip", "insert", "delete", "dup-chunk", "special", "truncate", "digit"][k])
        if k == 0 and b:
            b[r.below(len(b))] = r.below(256)
        elif k == 1:
            b.insert(r.below(len(b) + 1), r.below(256))
        elif k == 2 and b:
            del b[r.below(len(b))]
        elif k == 3 and b:
            i = r.below(len(b)); j = min(len(b), i + r.range(1, 8))
            b[i:i] = b[i:j]
        elif k == 4:
            s = r.choice([b":", b" ", b"\n", b"\r", b"-", b".", b"e", b"#", b"?", b",", b"\x00", b"+", b"nan", b"inf", b"\t", b"1", b"0"])
            i = r.below(len(b) + 1); b[i:i] = s
        elif k == 5 and b:
            del b[r.below(len(b)):]
        elif k == 6 and b:
            i = r.below(len(b)); b[i] = 48 + r.below(10)
    return bytes(b)


HOSTILE = ["huge-index", "duplicate-index", "descending-index", "zero-index", "odd-label", "crlf-mix", "trailing-separator",
           "embedded-nul", "long-line", "edge-number", "comment", "blank-lines", "colon-spacing"]


def gen_hostile_svm(r, ctx=None):
    """one malformed-ish LibSVM file of a named class"""
    cls = r.choice(HOSTILE)
    n = r.choice([1, 1, 2, 3, 5])
    lines = []
    for i in range(n):
        lab = r.choice(["1", "-1", "0", "2", "1"])
        idx = sorted({r.range(1, 9) for _ in range(r.range(0, 4))})
        feats = [f"{k}:{num_token(r)}" for k in idx]
        if cls == "huge-index":
            feats.append(f"{r.choice([4294967295, 4294967296, 4294967294, 2147483648, 1 << 63, 1 << 64, 10**30, 131072, 131073, 262144, 100000])}:1")
        elif cls == "duplicate-index" and idx:
            feats.insert(r.below(len(feats) + 1), f"{r.choice(idx)}:{num_token(r)}")
        elif cls == "descending-index":
            feats = feats[::-1] if len(feats) > 1 else feats + ["3:1", "2:1"]
        elif cls == "zero-index":
            z = r.below(3)
            feats = (["0:1"] + feats) if z == 0 else (feats + ["0:1"]) if z == 1 else (["00:2"] + feats)
        elif cls == "odd-label":
            lab = r.choice(["-0", "-1.0", "0.5", "1e0", "2.0000", "-2", "1.5e1", "+1", "nan", "inf", "-inf", "1e10", "2147483647", "2147483648",
                            "-2147483649", "3000000000", "1.0000000000000002", "0.9999999999999999", "-1e-320", "", "+", "-", "1-1", "0x1"])
        elif cls == "edge-number":
            feats = [f"{k}:{r.choice(EDGE_NUMBERS)}" for k in (idx or [1])]
            if r.chance(1, 3): lab = r.choice(EDGE_NUMBERS)
        elif cls == "colon-spacing":
            feats = [f.replace(":", r.choice([" :", ": ", " : ", "::", ":", "\t:\t", ":\r"])) for f in feats]
        line = " ".join([lab] + feats)
        if cls == "trailing-separator":
            line += r.choice([" ", "  ", "\t", " :", " 3:", " 3", ":", " 4:1 ", ","])
        elif cls == "embedded-nul":
            k = r.below(len(line) + 1); line = line[:k] + "\x00" + line[k:]
        elif cls == "long-line" and i == 0:
            z = r.below(4)
            if z == 0: line = lab + "".join(f" {k}:{k % 7}" for k in range(1, r.range(300, 900)))
            elif z == 1: line = lab + " 1:" + "1" * r.range(400, 4000)
            elif z == 2: line = lab + " " * r.range(1000, 6000) + "1:1"
            else: line = lab + " 1:0." + "0" * r.range(300, 700) + "1"
        elif cls == "comment":
            line = r.choice(["# comment", line + " # c", "#" + line, line + "#"])
        lines.append(line)
    if cls == "crlf-mix":
        out = "".join(l + r.choice(["\r\n", "\r", "\n\r", "\n", "\r\r\n", "\n\n", "\v\n", "\f\n"]) for l in lines)
    elif cls == "blank-lines":
        out = r.choice(["", "\n", "\n\n", " \n", "\t\n"]) + "".join(l + r.choice(["\n", "\n\n", "\n \n", "\n\t\n"]) for l in lines)
    else:
        out = "\n".join(lines) + r.choice(["\n", "", "\n\n"])
    if ctx: ctx.hist("hostile_svm_class", cls)
    return out.encode("latin-1")


def gen_hostile_csv(r, kind, lp, sep, ctx=None):
    cls = r.choice(HOSTILE[4:] + ["ragged", "missing-values", "separator-run"])
    n = r.choice([1, 1, 2, 3, 5]); d = r.choice([1, 2, 3])
    ws = sep in " \t"
    lines = []
    for i in range(n):
        cells = [num_token(r) for _ in range(d)]
        lab = r.choice(["0", "1", "1", "2", "-1"])
        if cls == "odd-label":
            lab = r.choice(["-0", "-1.0", "0.5", "1e0", "2.0000", "-2", "1.", "+1", "nan", "2147483647", "2147483648", "-2147483649",
                            "1.00x", "1.0 0", "3.50", "1.000000000000000000000", "", "-", "1.5.0", "00", "0.0.0"])
        elif cls == "edge-number":
            cells = [r.choice(EDGE_NUMBERS) for _ in range(d)]
        elif cls == "missing-values":
            cells = [r.choice(["?", "", "?", " ? ", "??", "nan", "NaN", "?1", "1?"]) if r.chance(1, 2) else c for c in cells]
        elif cls == "ragged" and r.chance(1, 2):
            cells = cells[:r.below(d + 1)] + ([num_token(r)] * r.below(3))
        if kind == "c": cells = [lab] + cells if lp == "F" else cells + [lab]
        j = sep
        if cls == "separator-run": j = sep * r.range(1, 3)
        line = j.join(cells)
        if cls == "trailing-separator": line += r.choice([sep, sep + sep, sep + " ", " " + sep, sep + "\t"])
        elif cls == "embedded-nul":
            k = r.below(len(line) + 1); line = line[:k] + "\x00" + line[k:]
        elif cls == "long-line" and i == 0:
            z = r.below(3)
            if z == 0: line = sep.join(str(k % 10) for k in range(r.range(300, 1200)))
            elif z == 1: line = "1" * r.range(400, 3000) + (sep + "1" if kind != "u" else "")
            else: line = line + " " * r.range(1000, 5000) + "# long comment " + "x" * r.range(100, 3000)
            if kind == "c": line = ("1" + sep + line) if lp == "F" else (line + sep + "1") if z != 2 else line
        elif cls == "comment":
            line = r.choice(["# comment", line + " # c", "#" + line, line + "#", "#", "##", line + "#\r", "# a\r\n# b"])
        lines.append(line)
    if cls == "crlf-mix":
        out = "".join(l + r.choice(["\r\n", "\r", "\n\r", "\n", "\r\r\n", "\n\n", "\v\n", "\f\n", " \r"]) for l in lines)
    elif cls == "blank-lines":
        out = r.choice(["", "\n", "\r\n\r\n", " \n", "\t\n"]) + "".join(l + r.choice(["\n", "\n\n", "\n \n", "\n\t\n", "\r\r"]) for l in lines)
    else:
        out = "\n".join(lines) + r.choice(["\n", "", "\n\n", "\r\n"])
    if ctx: ctx.hist("hostile_csv_class", cls)
    return out.encode("latin-1")


# ------------------------------------------------------------------ exporters (datasets are written into the op)
def val_tok(x):
    import math
    if x != x: return "nan"
    if math.isinf(x): return "inf" if x > 0 else "-inf"
    if x == 0: return "-0^0" if math.copysign(1, x) < 0 else "0^0"
    m, e = math.frexp(abs(x)); mi = int(math.ldexp(m, 53)); e -= 53
    while mi % 2 == 0: mi //= 2; e += 1
    return ("-" if x < 0 else "") + f"{mi}^{e}"


def gen_value(r, f32, ctx=None, allow_nan=True):
    import struct
    k = r.below(100)
    if k < 25: x, c = (r.range(-20, 20)) / 4.0, "dyadic-small"
    elif k < 40: x, c = float(r.range(-10**6, 10**6)), "integer"
    elif k < 55: x, c = r.range(-10**9, 10**9) / 10.0 ** r.range(0, 12), "decimal"
    elif k < 75:
        bits = r.below(1 << 64)
        x = struct.unpack("<d", struct.pack("<Q", bits))[0]; c = "random-bits"
        if x != x or x in (float("inf"), float("-inf")): x, c = 1.0, "dyadic-small"
    elif k < 80: x, c = r.choice([0.0, -0.0]), "zero"
    elif k < 84: x, c = r.choice([float("inf"), float("-inf")]), "infinity"
    elif k < 87 and allow_nan: x, c = float("nan"), "nan"
    elif k < 92: x, c = r.choice([5e-324, 2.2250738585072014e-308, 1.7976931348623157e308, -1.7976931348623157e308, 1e-310, 9.999999999949999e22,
                                  9.99999999995e-5, 99999.95, 999999.5, 0.0001, 0.00001, 123456789012.0, 9999999999.5, 0.999999999995, 999999.4999999999]), "edge"
    else: x, c = r.choice([1, -1, 3, 7, 9, 99]) * 10.0 ** r.range(-30, 30), "power-of-ten"
    if f32 and x == x:
        try: x = struct.unpack("<f", struct.pack("<f", x))[0]
        except OverflowError: x = float("inf") if x > 0 else float("-inf")
    if ctx: ctx.hist("export_value_class", c)
    return x


XSEPS = [",", ",", ";", " ", "\t", "|", ":", "/", "_", "@", "&"]


def gen_xcsv(r, ctx=None):
    kind = r.choice(["u", "c", "c", "r", "r"]); ty = r.choice(["f64", "f64", "f32"]); lp = r.choice(["F", "L"])
    nout = r.choice([1, 2, 3]) if kind == "r" else 1
    sep = r.choice(XSEPS); sci = r.choice([1, 1, 0]); width = r.choice([0, 0, 0, 1, 8, 12, 20, 30])
    maxB = r.choice([1, 2, 3, 5, 256] + ([0] if 0 in MAXB_CHOICES else [])); n = r.choice([0, 1, 2, 3, 5, 8, 13]); dim = r.choice([1, 1, 2, 3, 6, 0] if r.chance(1, 6) else [1, 2, 3, 6])
    labelset = r.choice(["01", "012", "12", "all0", "all1", "02", "big"])
    toks = []
    for e in range(n):
        toks += [val_tok(gen_value(r, ty == "f32", ctx)) for _ in range(dim)]
        if kind == "c":
            toks.append(str({"01": e % 2, "012": r.below(3), "12": 1 + r.below(2), "all0": 0, "all1": 1, "02": 2 * r.below(2), "big": r.choice([0, 7, 2000000000])}[labelset]))
        if kind == "r": toks += [val_tok(gen_value(r, ty == "f32", ctx)) for _ in range(nout)]
    if ctx:
        ctx.hist("xcsv_kind", f"{kind}{ty}{lp if kind != 'u' else ''}"); ctx.hist("xcsv_separator", repr(sep)); ctx.hist("xcsv_format", f"sci={sci} width={width}")
        ctx.hist("xcsv_elements", n); ctx.hist("xcsv_dim", dim); ctx.hist("xcsv_batch", maxB)
        if kind == "c": ctx.hist("xcsv_labelset", labelset)
    return " ".join(["xcsv", kind, ty, lp, str(nout), str(ord(sep)), str(sci), str(width), str(maxB), str(n), str(dim)] + toks)


def gen_xsvm(r, ctx=None):
    fmt = r.choice(["d", "s"]); lab = r.choice(["c", "r"]); ty = r.choice(["f64", "f64", "f32"])
    n = r.choice([0, 1, 2, 3, 5, 8, 13]); dim = r.choice([1, 2, 3, 6, 9])
    dims = r.choice([dim, dim, dim, 0, dim + 2]); bs = r.choice([0, 1, 2, 3, 5, 256])
    omo = r.choice([1, 1, 0]); srt = 1 if lab == "c" and r.chance(1, 5) else 0; app = 1 if r.chance(1, 6) else 0
    labelset = r.choice(["01", "01", "012", "12", "all0", "all1", "02"])
    toks = []
    for e in range(n):
        if fmt == "s":
            idx = sorted({r.below(dim) for _ in range(r.range(0, dim))})
            toks.append(str(len(idx)))
            for i in idx: toks += [str(i), val_tok(gen_value(r, ty == "f32", ctx))]
        else:
            toks += [val_tok(gen_value(r, ty == "f32", ctx)) for _ in range(dim)]
        if lab == "c":
            toks.append(str({"01": e % 2, "012": r.below(3), "12": 1 + r.below(2), "all0": 0, "all1": 1, "02": 2 * r.below(2)}[labelset]))
        else:
            toks.append(val_tok(gen_value(r, ty == "f32", ctx)))
    if ctx:
        ctx.hist("xsvm_kind", f"{fmt}{lab}{ty}"); ctx.hist("xsvm_options", f"oneMinusOne={omo} sort={srt} append={app}")
        ctx.hist("xsvm_highestIndex", "dim" if dims == dim else "0" if dims == 0 else "dim+2"); ctx.hist("xsvm_batch", bs); ctx.hist("xsvm_elements", n)
        if lab == "c": ctx.hist("xsvm_labelset", labelset)
    return " ".join(["xsvm", fmt, lab, ty, str(dims), str(bs), str(omo), str(srt), str(app), str(n), str(dim)] + toks)


def reuse_prefix(r, ctx=None):
    """boundary class "reuse of objects": one import in eight goes into a dataset object that already holds data"""
    re_ = r.chance(1, 8)
    if ctx: ctx.hist("target_object", "holds-data" if re_ else "fresh")
    return "reuse " if re_ else ""


def strip_reuse(op):
    return op[6:] if op.startswith("reuse ") else op


def svm_op(r, data, ctx=None, forced=None):
    fmt = r.choice(["d", "s"]); lab = r.choice(["c", "r"]); ty = r.choice(["f64", "f32"])
    dims = r.choice([0, 0, 0, 1, 3, 8, 25, 25, 131072, 4294967295])
    bs = r.choice([0, 1, 2, 3, 4, 256])
    if forced: fmt, lab, ty, dims, bs = forced
    m = mode_of(data)
    via = "svmf" if r.chance(1, 4) else "svm"
    if ctx:
        ctx.hist("svm_overload", f"{fmt}{lab}{ty}{'-file' if via == 'svmf' else '-stream'}"); ctx.hist("mode", m); ctx.hist("batch_size_arg", bs); ctx.hist("dims_arg", dims)
    return reuse_prefix(r, ctx) + f"{via} {fmt} {lab} {ty} {dims} {bs} {m} {hx(data)}"


def gen_csv_file(r, kind, lp, sep, nout, ctx=None, comment="#"):
    """kind u/c/r; returns bytes"""
    n = r.choice([0, 1, 1, 2, 3, 4, 5, 7, 9, 12])
    d = r.choice([1, 1, 2, 3, 4, 6])
    ws = sep in " \t"
    labelset = r.choice(["pm1", "01", "12", "multi", "neg", "dot"])
    ragged = r.chance(1, 10)
    lines = []
    for _ in range(n):
        dd = d + (r.range(-1, 1) if ragged and r.chance(1, 3) else 0)
        cells = []
        for _ in range(max(dd, 0)):
            k = r.below(100)
            if k < 6: cells.append("?")
            elif k < 10 and not ws: cells.append("")
            else: cells.append(num_token(r))
        if kind == "c":
            if labelset == "pm1": lab = r.choice(["-1", "1", "+1"])
            elif labelset == "01": lab = r.choice(["0", "1"])
            elif labelset == "12": lab = r.choice(["1", "2"])
            elif labelset == "multi": lab = str(r.range(0, 5))
            elif labelset == "neg": lab = r.choice(["-1", "1", "-2", "3", "0", "2147483648"])
            else: lab = r.choice(["1.", "1.0", "2.000", "0.5", "3.5", "1"])
            cells = [lab] + cells if lp == "F" else cells + [lab]
        pad = r.choice(["", "", "", " ", "  "])
        joiner = (sep if not ws else r.choice([sep, sep, sep + sep])) if True else sep
        if not ws and pad: joiner = pad + sep + pad
        line = joiner.join(cells)
        k = r.below(40)
        if k == 0: line += f" {comment} trailing comment"
        elif k == 1: line = f"{comment} a comment line\n" + line
        elif k == 2: line = " " + line + " "
        elif k == 3 and not ws: line += sep
        lines.append(line)
    eol = r.choice(["\n", "\n", "\n", "\r\n", "\r", "\n\n", "mixed"])
    out = ""
    for i, l in enumerate(lines):
        e = r.choice(["\n", "\r\n", "\r", "\n\n", " \n"]) if eol == "mixed" else eol
        if i == len(lines) - 1 and r.chance(1, 3): e = ""
        out += l + e
    if r.chance(1, 15): out = r.choice(["\n", f"{comment} header\n", " "]) + out
    if ctx:
        ctx.hist("csv_records", n); ctx.hist("csv_eol", repr(eol)); ctx.hist("csv_dims", d)
        if kind == "c": ctx.hist("csv_labelset", labelset)
    return out.encode()


MAXB_CHOICES = [1, 2, 3, 4, 256]     # 0 is added once the probe `maxbatch-zero` passes (finding F10)


def csv_params(r):
    kind = r.choice(["u", "c", "c", "r"]); ty = r.choice(["f64", "f32"]); lp = r.choice(["F", "L"])
    sep = r.choice([",", ",", ";", " ", "\t", "|", ":"])
    nout = r.choice([1, 1, 2, 0, 3]) if kind == "r" else 1
    maxb = r.choice(MAXB_CHOICES)
    comment = r.choice(["#", "#", "#", "#", "%", ";", "!"])
    if comment == sep: comment = "#"
    title = r.choice([0, 0, 1, 2, 5]) if r.chance(1, 4) else None
    return kind, ty, lp, sep, nout, maxb, comment, title


def avoid_f11(ctx, make, float_scalar=False):
    """while finding F11 is open, keep its trigger out of the generated CSV stream (it stays in the corpus):
    every hit would cost a one-by-one rerun of its chunk"""
    data = make()
    for _ in range(8):
        if EXPONENT_RANGE_REPAIRED or not exp_out_of_range(data, float_scalar): break
        ctx.count("csv_files_regenerated_to_avoid_F11")
        data = make()
    return data


def csv_op(params, data, ctx=None, r=None):
    pre = reuse_prefix(r, ctx) if r is not None else ""
    return pre + csv_op0(params, data, ctx)


def csv_op0(params, data, ctx=None):
    kind, ty, lp, sep, nout, maxb = params[:6]
    comment = params[6] if len(params) > 6 else "#"
    title = params[7] if len(params) > 7 else None
    m = mode_of(data)
    if ctx:
        ctx.hist("csv_overload", f"{kind}{ty}{lp if kind != 'u' else ''}{'-string' if title is None else '-file'}"); ctx.hist("mode", m)
        ctx.hist("csv_separator", repr(sep)); ctx.hist("batch_size_arg", maxb); ctx.hist("csv_comment_char", repr(comment))
        if title is not None and kind == "u": ctx.hist("csv_title_lines", title)
    if title is None:
        return f"csv {kind} {ty} {lp} {nout} {ord(sep)} {ord(comment)} {maxb} {m} {hx(data)}"
    return f"csvf {kind} {ty} {lp} {nout} {ord(sep)} {ord(comment)} {maxb} {title if kind == 'u' else 0} {m} {hx(data)}"


def gen_csv1(r, ctx=None):
    """scalar readers: whitespace / comment separated values"""
    ty = r.choice(["int", "uint", "f64", "f32"])
    n = r.choice([0, 1, 2, 3, 5, 9])
    toks = []
    for _ in range(n):
        if ty == "f64": toks.append(num_token(r))
        elif ty == "f32": toks.append(num_token(r) if r.chance(1, 2) else str(r.range(-99999, 9999999)))
        elif ty == "int": toks.append(r.choice([str(r.range(-50, 50)), "+7", "-0", "2147483647", "-2147483648", "2147483648", "007"]))
        else: toks.append(r.choice([str(r.range(0, 99)), "4294967295", "4294967296", "-1", "00"]))
        if r.chance(1, 12): toks.append("# note " + str(r.below(9)) + "\n")
    out = ""
    for t in toks:
        out += t + r.choice([" ", " ", "\n", "\t", "\r\n", "  "])
    if r.chance(1, 3): out = out.rstrip()
    maxb = r.choice(MAXB_CHOICES)
    if ctx: ctx.hist("csv1_type", ty); ctx.hist("csv1_values", n); ctx.hist("csv1_batch", maxb)
    return ty, maxb, out.encode()


def csv1_op(ty, maxb, data, ctx=None, r=None):
    m = mode_of(data, float_scalar=(ty == "f32"))
    if ctx: ctx.hist("mode", m)
    pre = reuse_prefix(r, ctx) if r is not None else ""
    return pre + f"csv1 {ty} {ord('#')} {maxb} {m} {hx(data)}"


def gen_rt(r, ctx=None):
    """exporter, then importer: every separator, label position, batch size"""
    n = r.choice([0, 1, 2, 3, 5, 8, 13]); dim = r.choice([1, 2, 3, 6]); seed = r.below(40)
    if r.chance(3, 5):
        kind = r.choice(["c", "r"]); lp = r.choice(["F", "L"]); sep = r.choice([",", ";", " ", "\t", "|", ":"])
        nout = r.choice([1, 2, 3]) if kind == "r" else 1
        maxb = r.choice([1, 2, 3, 5, 256] + ([0] if 0 in MAXB_CHOICES else []))
        if ctx:
            ctx.hist("rt_kind", f"csv-{kind}-{lp}"); ctx.hist("rt_separator", repr(sep)); ctx.hist("rt_batch", maxb); ctx.hist("rt_elements", n)
        return f"rt csv {kind} {lp} {nout} {ord(sep)} {maxb} {dim} {seed} {n}"
    lab = r.choice(["c", "r"]); bs = r.choice([0, 1, 2, 3, 5, 256])
    if ctx:
        ctx.hist("rt_kind", f"svm-{lab}"); ctx.hist("rt_batch", bs); ctx.hist("rt_elements", n)
    return f"rt svm d {lab} {bs} {dim} {seed} {n}"


# ------------------------------------------------------------------ corpus / classification
def load_corpus():
    d = os.path.join(core.VERIF, "corpus", "C19")
    out = []
    if os.path.isdir(d):
        for fn in sorted(os.listdir(d)):
            if not fn.endswith(".txt"): continue
            ops = [l.strip() for l in open(os.path.join(d, fn)) if l.strip() and not l.startswith("#")]
            out += [[o] for o in ops]
    return out


def decode(op):
    t = strip_reuse(op).split()
    if t[0] in ("rt", "xcsv", "xsvm"): return b""
    return bytes.fromhex(t[-1]) if t[-1] != "-" else b""


def svm_unsorted(data):
    for line in data.split(b"\n"):
        idx = [int(m) for m in re.findall(rb"(\d+)\s*:", line)]
        if any(a >= b for a, b in zip(idx, idx[1:])):
            return True
    return False


def classify(ops, res):
    op = strip_reuse(ops[-1]); t = op.split(); data = decode(op)
    what_in = f"{' '.join(t[:-1])} bytes={data[:80]!r}"
    if t[0] == "rt":
        what_in = op
        feat = "F2b-empty-input" if t[1] == "svm" and t[-1] == "0" else "roundtrip"
    elif t[0] in ("xcsv", "xsvm"):
        what_in = op[:300]
        feat = "export-roundtrip"
    elif t[0] in ("csv", "csvf") and t[7] == "0":
        feat = "F10-maxbatch-zero"
    elif t[0] in ("csv", "csvf", "csv1") and exp_out_of_range(data, t[0] == "csv1" and t[1] == "f32"):
        feat = "F11-exponent-out-of-range"
    elif t[0] in ("svm", "svmf"):
        if not data.strip(b"\n") and t[2] == "c":
            feat = "F2b-empty-input"
        elif svm_unsorted(data):
            feat = "F2a-unsorted-indices"
        elif re.search(rb"(^|\s)0+\s*:", data):
            feat = "F2c-zero-based-shape"
        else:
            feat = "other"
    else:
        feat = "F9-fractional-label" if t[1] == "c" and re.search(rb"\d\.\d*[1-9]|\d[ \t]+\d", data) else "other"
    if res.crash and t[0] in ("svm", "svmf") and t[2] == "c" and \
            re.search(r"runtime error: \S+ is outside the range of representable values of type 'int'", res.stderr):
        return f"{t[0]}:F13-label-cast-before-range-check:crash:float-cast-overflow", \
               f"libsvm classification importer converted an out-of-range label to int (undefined behaviour) on {what_in}"
    if res.crash:
        m = re.search(r"(?:ERROR|SUMMARY): AddressSanitizer: (\S+)|runtime error: ([^\n]*)", res.stderr)
        tag = (m.group(1) or m.group(2)) if m else ("timeout" if "TIMEOUT" in res.stderr else "crash")
        tag = re.sub(r"0x[0-9a-f]+", "ADDR", tag)[:60].replace(" ", "_")
        return f"{t[0]}:{feat}:crash:{tag}", f"importer aborted ({tag}) on {what_in}"
    if res.oracle:
        m = re.search(r"!oracle (\S+)", res.oracle[0])
        return f"{t[0]}:{feat}:oracle:{m.group(1)}", f"property oracle failed ({m.group(1)}) on {what_in}"
    return f"{t[0]}:{feat}:mismatch", f"model and implementation disagree on {what_in}: impl={res.impl[-1:]} model={res.model[-1:]}"


def build(ctx):
    # -fsanitize=float-cast-overflow is not part of -fsanitize=undefined: the importers convert parsed doubles to int
    return ctx.harness("c19", ["c19.cpp"], repo_sources=["src/Data/SparseData.cpp", "src/Data/Csv.cpp"],
                       flags=["-fsanitize=float-cast-overflow"])


PROBE_EXPRANGE = "csv1 f64 35 256 X 3120322031652d363135"    # "1 2 1e-615": three values (finding F11)
PROBE_LABELCAST = "svm d c f64 0 0 X 3165313020313a310a"   # "1e10 1:1\\n" as classification data (finding F-C19-13)
PROBE_MAXB0 = "csv u f64 F 1 44 35 0 X 312c320a332c340a"      # "1,2\\n3,4\\n" with maximumBatchSize = 0 (finding F10)


def strip_kind(ctx):
    """line comparison: the harness appends ` #<which check fired>` to exception lines (evidence only)"""
    def cmp(impl, model):
        head, _, kind = impl.partition(" #")
        if head == model:
            if kind: ctx.hist("error_kind", kind.strip())
            return True
        return False
    return cmp


def outcome_class(line):
    if line.startswith("exp="):
        line = line.split(" imp=", 1)[1] if " imp=" in line else line[4:]
    for k in ("ok", "shark-exception", "std-exception bad_alloc", "safety-only", "rt same", "rt shark-exception"):
        if line.startswith(k): return k
    return line.split(" ")[0][:30]


def run(ctx):
    ctx.trusted += ["correspondence harness harness/c19.cpp + generator checks/c19.py",
                    "hand-written model Model/Import.lean, Model/ImportLex.lean, Model/Peg.lean, Model/ImportCsv.lean, Model/ExportFmt.lean "
                    "(SparseData.cpp, Csv.cpp, Csv.h, SparseData.h are modelled, not translated)",
                    "boost::spirit 1.83 (parsing, value conversion), libstdc++ iostream number formatting: exercised under ASan/UBSan and "
                    "compared byte for byte / bit for bit with the model, not proved about"]
    ctx.assumptions += ["values of numeric tokens are compared when their integer+fraction digits fit spirit's uint64 accumulator (<= 17 digits; any exponent); "
                        "longer tokens run for memory safety and the oracle only",
                        "a single allocation above 1 MiB inside an importer is answered by std::bad_alloc (harness operator new)",
                        "exportSparseData(sortLabels=true) uses std::sort, which is not stable: exercised for at most 13 elements, where libstdc++ sorts by insertion",
                        "round trip: separator outside the characters of a printed number (0-9 . e + - i n f a: proved to be all of them, "
                        "printed_number_charset), E, the blank characters and the comment character"]
    ctx.prove(["SharkVerif.Props.C19"])
    if not ctx.quick:
        ctx.leanchecker(["SharkVerif.Props.C19"])
    exe = build(ctx)
    drv = ctx.driver("drv_c19")
    if not exe or not drv:
        return
    env = {"ASAN_OPTIONS": "detect_leaks=0:abort_on_error=0:allocator_may_return_null=1:max_allocation_size_mb=512"}
    tmp = os.path.join(core.CACHE, "tmp"); os.makedirs(tmp, exist_ok=True)
    cmp = strip_kind(ctx)
    # compile probe: every exporter overload the property names must be instantiable (finding F12: export_libsvm)
    probe = os.path.join(core.VERIF, "harness", "c19_export_libsvm_probe.cpp")
    rc, out = core.sh(["g++", "-std=c++11", "-DNDEBUG", "-w", "-fopenmp", "-fsyntax-only", "-I" + ctx.shark_h(),
                       "-I" + os.path.join(core.REPO, "include"), probe], timeout=600)
    ctx.cov["probe_export_libsvm_instantiable"] = "passes" if rc == 0 else "fails"
    if rc != 0:
        m = re.search(r"error: [^\n]*", out)
        ctx.violation("export:F12-export-libsvm-uninstantiable", {"compile": probe, "error": (m.group(0) if m else out[-500:])},
                      found_input=True, what="export_libsvm(dataset, fn) does not compile: " + (m.group(0) if m else ""))
    # probe: maximumBatchSize = 0 (F10).  While the tree divides by zero there, the generated stream keeps maxB >= 1.
    pr = core.run_case(ctx, [exe, tmp], [drv], [PROBE_MAXB0], env=env, cmp=cmp)
    ctx.cov["probe_maxbatch_zero"] = "passes" if pr.ok else "fails"
    global MAXB_CHOICES, EXPONENT_RANGE_REPAIRED, LABEL_CAST_REPAIRED
    pl = core.run_case(ctx, [exe, tmp], [drv], [PROBE_LABELCAST], env=env, cmp=cmp)
    ctx.cov["probe_label_cast"] = "passes" if pl.ok else "fails"
    LABEL_CAST_REPAIRED = pl.ok
    pe = core.run_case(ctx, [exe, tmp], [drv], [PROBE_EXPRANGE], env=env, cmp=cmp)
    ctx.cov["probe_exponent_out_of_range"] = "passes" if pe.ok else "fails"
    EXPONENT_RANGE_REPAIRED = pe.ok
    MAXB_CHOICES = [1, 2, 3, 4, 256] + ([0] if pr.ok else [])
    nvalid, nmut, nhost, nexp = (1500, 2500, 1500, 1500) if ctx.quick else (15000, 35000, 15000, 12000)
    corpus = load_corpus()
    ctx.cov["corpus_cases"] = len(corpus)
    core.correspond(ctx, "K-C19[corpus]", corpus, [exe, tmp], [drv], classify, env=env, keep_prefix=0, max_report=8, cmp=cmp)
    cases = []
    f13_cases = []      # while F-C19-13 is open: files that trigger it abort the harness, so they run one by one in their own group
    def add_svm(data):
        op = svm_op(r, data, ctx)
        if not LABEL_CAST_REPAIRED and strip_reuse(op).split()[2] == "c" and label_cast_trigger(data):
            f13_cases.append([op]); ctx.count("svm_cases_with_label_outside_int_range")
        else:
            cases.append([op])
    r = ctx.rng.fork("c19")
    for _ in range(nvalid):
        add_svm(gen_svm_file(r, ctx))
    for _ in range(nmut):
        base = gen_svm_file(r)
        add_svm(mutate(r, base, ctx))
    for k in range(nhost):
        data = gen_hostile_svm(r, ctx)
        if k % 3 == 2: data = mutate(r, data, ctx)
        add_svm(data)
    for _ in range(nvalid):
        prm = csv_params(r)
        cases.append([csv_op(prm, avoid_f11(ctx, lambda: gen_csv_file(r, prm[0], prm[2], prm[3], prm[4], ctx, comment=prm[6])), ctx, r)])
    for _ in range(nmut):
        prm = csv_params(r)
        cases.append([csv_op(prm, avoid_f11(ctx, lambda: mutate(r, gen_csv_file(r, prm[0], prm[2], prm[3], prm[4], comment=prm[6]), ctx)), ctx, r)])
    for k in range(nhost):
        prm = csv_params(r)
        data = avoid_f11(ctx, lambda: mutate(r, gen_hostile_csv(r, prm[0], prm[2], prm[3], ctx), ctx) if k % 3 == 2 else gen_hostile_csv(r, prm[0], prm[2], prm[3], ctx))
        cases.append([csv_op(prm, data, ctx, r)])
    for _ in range(nvalid // 5):
        ty, maxb, data = gen_csv1(r, ctx)
        for _ in range(8):
            if EXPONENT_RANGE_REPAIRED or not exp_out_of_range(data, ty == "f32"): break
            ty, maxb, data = gen_csv1(r, ctx)
        cases.append([csv1_op(ty, maxb, data, ctx, r)])
    for _ in range(nmut // 5):
        ty, maxb, data = gen_csv1(r)
        data = avoid_f11(ctx, lambda: mutate(r, data, ctx), ty == "f32")
        cases.append([csv1_op(ty, maxb, data, ctx, r)])
    nrt = 300 if ctx.quick else 3000
    cases += [[gen_rt(r, ctx)] for _ in range(nrt)]
    for _ in range(nexp):
        cases.append([gen_xcsv(r, ctx)])
        cases.append([gen_xsvm(r, ctx)])
    ctx.cov["evaluations"] = len(cases) + len(corpus) + len(f13_cases)
    if f13_cases:
        core.correspond(ctx, "K-C19[label-outside-int-range]", f13_cases, [exe, tmp], [drv], classify, env=env, keep_prefix=0, max_report=8, cmp=cmp)
    def nontrivial(op):
        t = strip_reuse(op).split()
        if t[0] in ("xcsv", "xsvm"): return int(t[9]) >= 2
        if t[0] == "rt": return int(t[-1]) >= 2
        return decode(op).count(b"\n") >= 2
    ctx.cov["distinct_nontrivial"] = len({c[0] for c in cases if nontrivial(c[0])})
    ctx.sample({"op": cases[len(cases) // 2][0][:200]})
    ctx.cov["watchdog_seconds_per_op"] = 20
    # chunks: a failing case only costs a one-by-one rerun of its own chunk
    size = 2000
    slowest = 0.0
    import time as _t
    for k in range(0, len(cases), size):
        chunk = cases[k:k + size]
        t0 = _t.time()
        big = core.run_case(ctx, [exe, tmp], [drv], [l for c in chunk for l in c], env=env, timeout=900, cmp=cmp)
        slowest = max(slowest, _t.time() - t0)
        for l in big.impl: ctx.hist("outcome", outcome_class(l))
        if big.ok:
            ctx.count("traces_validated_against_impl", len(chunk)); ctx.count("ops_compared", len(chunk))
            continue
        core.correspond(ctx, f"K-C19[{k // size}]", chunk, [exe, tmp], [drv], classify, env=env,
                        keep_prefix=0, max_report=6, cmp=cmp)
    ctx.cov["slowest_chunk_s"] = round(slowest, 1)
    ctx.log(f"K-C19: {len(cases)} cases, slowest chunk of {size}: {slowest:.1f}s (harness + driver)")


def replay(ctx, rep):
    exe = build(ctx); drv = ctx.driver("drv_c19")
    tmp = os.path.join(core.CACHE, "tmp"); os.makedirs(tmp, exist_ok=True)
    res = core.run_case(ctx, [exe, tmp], [drv], rep["ops"], env=rep.get("env"), cmp=strip_kind(ctx))
    print("\n".join(f"impl : {a}\nmodel: {b}" for a, b in zip(res.impl, res.model)))
    print("stderr:", res.stderr[-2000:])
    print("OK" if res.ok else "FAILS")
    return 0 if res.ok else 1
