"""Compiler confirmation of T1's *uninstantiable* classification.

For every rule that translate/remora_rules.py classifies as uninstantiable there is a public-API
expression that selects exactly that specialisation.  The C++ compiler must reject it; if it
compiles, the classification (or the source) changed and the tie is broken.  A second list of
control expressions (neighbouring, instantiable rules) must compile, so that a broken include
path cannot make everything "fail as expected".
"""
import os, subprocess
from concurrent.futures import ThreadPoolExecutor

TRIGGERS = {
    "rule_vector_range__matrix_row_transform": "vector<double> r = subrange(sum(as_rows(A)),0,1);",
    "rule_matrix_diagonal__scalar_matrix": "vector<double> r = diag(repeat(1.0,2,2));",
    "rule_matrix_rows__matrix_matrix_prod": "matrix<double> r = rows(prod(A,B),0,1);",
    "rule_matrix_vector_prod__vector_repeater_column_major__V2": "vector<double> r = prod(trans(repeat(v,2)),w);",
    "rule_matrix_matrix_prod__matrix_scalar_multiply__M2": "matrix<double> r = prod(2.0*A,B);",
    "rule_matrix_matrix_prod__M1__matrix_scalar_multiply": "matrix<double> r = prod(A,2.0*B);",
    "rule_matrix_matrix_prod__mscal__mscal": "matrix<double> r = prod(2.0*A,2.0*B);",
}
CONTROLS = {
    "control_range_of_scaled_vector": "vector<double> r = subrange(2.0*v,0,1);",
    "control_diag_of_outer_product": "vector<double> r = diag(outer_prod(v,v));",
    "control_rows_of_sum": "matrix<double> r = rows(A+A,0,1);",
    "control_prod_of_row_repeat": "vector<double> r = prod(repeat(v,2),v);",
    "control_prod_matrix_matrix": "matrix<double> r = prod(A,B);",
}
TEMPLATE = """#include <shark/LinAlg/BLAS/remora.hpp>
using namespace remora;
void f(){ vector<double> v(2,1.0), w(2,1.0); matrix<double> A(2,2,1.0), B(2,2,1.0); %s (void)r; }
"""


def compiles(repo, inc, stmt, workdir, name):
    src = os.path.join(workdir, name + ".cpp")
    with open(src, "w") as f:
        f.write(TEMPLATE % stmt)
    p = subprocess.run(["g++", "-std=c++11", "-DNDEBUG", "-w", "-fsyntax-only", "-I" + inc,
                        "-I" + os.path.join(repo, "include"), src], stdout=subprocess.PIPE, stderr=subprocess.STDOUT, text=True)
    return p.returncode == 0


def confirm(ctx, repo, inc, table, workdir, jobs=4):
    """table: parsed rules.json.  Records results in ctx.cov, breaks the tie on a contradiction."""
    os.makedirs(workdir, exist_ok=True)
    unin = [r["name"] for r in table["rules"] if r["status"] == "uninstantiable"]
    jobs_list = [(n, TRIGGERS[n], False) for n in unin if n in TRIGGERS] + [(n, s, True) for n, s in CONTROLS.items()]
    with ThreadPoolExecutor(max_workers=jobs) as ex:
        res = list(ex.map(lambda j: (j[0], j[2], compiles(repo, inc, j[1], workdir, j[0])), jobs_list))
    confirmed, contradicted = [], []
    for name, want, got in res:
        if want == got:
            confirmed.append(name)
        else:
            contradicted.append(name)
            ctx.broken("translator", "uninstantiable:" + name,
                       ("control expression no longer compiles" if want else
                        "T1 classifies the rule as uninstantiable but its trigger expression compiles"))
    ctx.cov["uninstantiable_rules_confirmed_by_compiler"] = [n for n in confirmed if n in TRIGGERS]
    ctx.cov["uninstantiable_rules_without_trigger"] = [n for n in unin if n not in TRIGGERS]
    ctx.cov["uninstantiable_controls_ok"] = [n for n in confirmed if n in CONTROLS]
    return not contradicted
