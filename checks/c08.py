"""C08 — the SVM solver keeps its dual state consistent and never loses objective.

Theorems: Props/C08.lean about Model/Smo.lean (hand-written model of SvmProblem /
BoxConstrainedProblem / BoxBasedShrinkingStrategy / QpSolver) and about the
T0-generated Gen/Analytic.lean (regenerated from AnalyticProblems.h on every run).
Tie: K-C08 correspondence between the native driver drv_c08 (Float instance of the
model, bit-for-bit; Rat instance, exact whenever the C++ raised no FE_INEXACT) and
the real classes driven by harness/c08.cpp (ASan+UBSan) with an independent oracle.
"""
import math, os, re
from concurrent.futures import ThreadPoolExecutor
from vlib import core

TRUST = ("Lean 4.33 kernel; axioms at most propext/Classical.choice/Quot.sound (audited per run); "
         "analytic sub-solvers are translated from the C++ on every run (translate/cxx2lean_analytic.py, clang-14 AST) "
         "and additionally compared bit-for-bit with the real functions; the problem classes / solver loop are "
         "hand-modelled and tied by the correspondence (differential, generator-bounded); ")
MANIFEST = dict(
  text=("Theorems (Props/C08.lean) over Rat, for all sizes, symmetric matrices and boxes. (1) State invariant of the model of "
        "SvmProblem/BoxConstrainedProblem + BoxBasedShrinkingStrategy -- gradient = lin - K*alpha on the active variables, edge "
        "gradient = lin - K*alpha restricted to variables at a bound, box, bound flags = coefficients at bounds, permutation "
        "injective and in range, diagonal = K under the permutation, shrunk variables at a bound -- holds for the constructed "
        "problem (init_inv) and is preserved by EVERY finite sequence of SMO steps of both problem kinds (updateSMO_inv_svm: "
        "clipped step with the max(denominator,1e-12) guard + gradient update + updateGradientEdge; updateSMO_inv_box: the "
        "T0-generated solveQuadraticEdge/solveQuadratic2DBox, i=j included), coordinate flips, shrink(eps) (with its internal "
        "unshrink and back-to-front loop) and unshrink (reachable_inv, induction over the op list); after unshrink the gradient "
        "of ALL variables is lin - K*alpha (grad_all_after_unshrink). Admissibility of an SMO step = the C++ SIZE_CHECKs "
        "(i,j < active) plus, for the equality-constrained kind, the orientation g_i >= g_j that every selection criterion "
        "returns (smo_svm_orientation_witness: without it the modelled step leaves the box). (2) sum_inv: the sum of the "
        "coefficients of the equality-constrained problem is the same after every admissible history. (3) Objective: "
        "smo_step_gain -- the clipped step changes lin.alpha - 1/2 alpha^T K alpha by exactly mu*(g_i-g_j) - 1/2 mu^2 "
        "(K_ii+K_jj-2K_ij) >= 1/2 mu (g_i-g_j) >= 0 with 0 <= mu <= (g_i-g_j)/max(kappa,1e-12); the guard needs no hypothesis "
        "and not even kappa >= 0 is needed (smo_step_gain_pos: strict gain for a strictly violating pair with room to move); "
        "box2d_gain_nonneg -- the regenerated 2-D box sub-solver never loses objective for any box/start point when Q_ii >= 0 "
        "(witness for negative definite Q; box2d_F5_instance_repaired); box_step_gain_two / box_step_gain_one_partial for the "
        "solver steps; objective_monotone_svm (every history of the equality-constrained solver, any symmetric K) and "
        "objective_monotone_partial (both kinds, diagonal entries 0 or >= 1e-12, i.e. outside the curvature guard of the 1-D "
        "sub-solver, with edge_gain_negative_witness / box_step_gain_one_negative_witness inside it). solveQuadraticEdge and "
        "solveQuadratic2DBox return points of the box (all inputs). (4) shrink_sound: shrink(eps) is the back-to-front loop started "
        "from the state after its optional unshrink with bounds valid for all active variables; at EVERY removal in that loop the "
        "invariant holds, the bounds are still valid for the remaining active variables, and the removed variable cannot take "
        "part in an improving step: for the equality-constrained kind every feasible sum-preserving two-variable move involving "
        "it (any active partner, curvature >= 0) strictly decreases the dual objective (exact, second order); for the box kind "
        "every feasible move of it has strictly negative first-order effect and moving it alone strictly decreases the objective "
        "(K_aa >= 0). shrink_final_sound: the same read off the FINAL state of shrink(eps), the form the harness oracle checks on the real "
        "code: with m = size of the start set of the call (shrinkStart_size: all n variables exactly when the call un-shrinks "
        "first -- m_isUnshrinked false and KKT gap of the active variables < 10 eps --, the active ones otherwise), every variable "
        "of the start set carries its true gradient lin - K alpha, box and flags in the final state (the re-activated and the "
        "removed ones too), and a removed variable has no feasible first-order ascending move: equality-constrained kind -- with "
        "ANY other variable of the start set, still active or removed by the same call (PairNoAscent, strict); box kind -- on its "
        "own (SingleNoAscent). shrink_unshrink_branch_witness: a reachable state with two shrunk variables, one of which has "
        "become a KKT violator; shrink(1/1000) un-shrinks and, with the thresholds recomputed over all variables, removes "
        "nothing, whereas the thresholds of the formerly active variables alone (seeded defect stale-active-count) remove a "
        "variable that forms a feasible ascending pair with the violator. (5) select_valid: whenever a selection criterion (MVP / LibSVM second order / maximum gain) reports a positive "
        "violation the working set it returns is admissible for updateSMO (indices active; g_i >= g_j for MVP/LibSVM; MVP needs "
        "the gradients inside the sentinel range [-1e100,1e100]). (6) The solver's own runs: solveIter_inv_box / solve_inv_box -- "
        "for the box-constrained problem with maximum-gain selection and eps > 0 EVERY run of the model of QpSolver::solve (any "
        "iteration limit, the re-selection inside the stopping branch included) ends in a state satisfying the invariant, with no "
        "admissibility hypothesis left; solveIter_inv_svm / solve_inv_svm_partial -- the same for the equality-constrained "
        "problem with LibSVM second-order selection as long as the gradients of the un-shrunk state stay strictly inside the "
        "sentinel range (-1e100,1e100) at the start of every pass (selectLibSVM_sentinel_witness outside). "
        "Tie: the Float instance of the same definitions is compared bit-for-bit, the Rat instance exactly on FE_INEXACT-free "
        "prefixes, with the real classes driven through QpSolver::solve (MVP / LibSVM / maximum-gain selection) and through "
        "adversarial op sequences (double/float entries, CachedMatrix with minimal and larger caches) under ASan/UBSan; an "
        "independent oracle re-derives lin - K*alpha and checks every clause of the property (incl. objective monotonicity, sum "
        "preservation and soundness of shrinking) after every operation -- after every updateSMO/shrink/unshrink the real "
        "QpSolver::solve performs as well (the state before each such call is snapshotted inside the shadowing subclass). "
        "Shrinking oracle (independent of the implementation's thresholds; own gradient of ALL variables in long double from "
        "the oracle's copy of the data, exact in exact mode, 1e-9 relative otherwise): after EVERY real shrink(), for both "
        "SvmShrinkingProblem and BoxConstrainedShrinkingProblem, no variable removed by this call (start set minus active "
        "set; start set = all variables when the call un-shrank, detected through the m_isUnshrinked hook or the oracle's "
        "own mirror of it) has a feasible ascending partner in the start set (box kind: ascends on its own). "
        "Histories: besides uniformly random op sequences the generator builds, on every run and in both tiers, the "
        "histories the shrinking clause needs -- noisy two-class / regression problems with bounded support vectors, "
        "duplicated and leverage points (linear / polynomial / dyadic Gaussian kernel, cold and bound-heavy warm starts); "
        "shrink with a tiny eps early, solver-selected (new op ssmo: real selection criterion + updateSMO, no schedule) and "
        "arbitrary admissible steps on the reduced problem, then the ONE call whose internal un-shrink fires (directly and "
        "from inside QpSolver::solve), re-shrinking, later calls with the flag set, dense shrinking schedules, and "
        "constructively planted wrong guesses (movers / leverage victims / bystanders). The harness measures on the real "
        "objects how often a shrink() un-shrank with a re-activated KKT violator such that the thresholds of the formerly "
        "active variables alone would remove a different set (reached[...] in the evidence; typically 70-90 per quick run, "
        "both kinds, 10-30 of them inside QpSolver::solve); the check reports a broken coverage obligation when this falls "
        "below a floor (10 svm / 5 box / 3 in-solve)."),
  note=TRUST + "NOT proved, covered by the exact/bit-for-bit correspondence and the oracle only: solver runs with the MVP selection "
       "criterion (select_valid covers its direct selections, not its re-selection), runs of the equality-constrained solver "
       "whose gradients leave the sentinel range (-1e100,1e100); for the box kind a JOINT "
       "two-variable move involving a shrunk variable is only covered to first order; objective monotonicity of the 1-D "
       "box step inside the guard region 0 < K_ii < 1e-12 is false for the code as it is (documented guard; witness theorems). "
       "The proofs about the 2-D box solver are about the definition regenerated from the current source (they fail, and the "
       "check reports a broken obligation, if the function changes shape). "
       "Rounding: theorems are about exact arithmetic. HMG working-set selection is not modelled in Lean: the same histories are "
       "run with `solve hmg` against the implementation alone (uncached matrix and 2-row cache, so that the genuine HMG branch "
       "and not its small-problem LibSVM fallback is taken) and every clause is checked by the independent oracle after every "
       "step/shrink/unshrink (K-C08[hmg]; open finding F-C08-HMG1: out-of-range read for one-variable problems). "
       "deactivateVariable/scaleBoxConstraints/setLinear are not modelled; "
       "termination is not claimed.",
  technique="Lean 4 invariant proof by induction over operation sequences + T0 translation of the analytic kernels + "
            "differential correspondence with the C++ (exact / bit-for-bit, ASan/UBSan)",
  design="§6 C08")

FINISH = dict(level="proof",
              rule="problems: n in 1..12 (random family), 5..32 (shrink-history families), K = X X^T (+ dyadic ridge, * 2^s) with "
                   "small-integer X (PSD, often singular), polynomial and dyadic Gaussian kernels, duplicated and leverage points, "
                   "C-SVM style, regression style and general boxes, cold and warm starts; op sequences mix real QpSolver::solve "
                   "bursts (MVP / LibSVM / maximum-gain selection) with solver-selected single steps (ssmo) and adversarial "
                   "asmo/shrink/unshrink/aflip; families random / planted / history / converge / schedule (see gen_*_case); "
                   "analytic cases: random dyadic and tiny/degenerate 2-D problems. non-trivial = at least one state-changing "
                   "step and one shrink or flip; distinct = distinct op text")

LAKE_TARGETS = ["SharkVerif.Props.C08", "drv_c08"]
PID = "C08"


# ----------------------------------------------------------------------------- tokens
def tok(x):
    """exact token of a Python float: m@e with m odd"""
    if x != x: return "nan"
    if x in (math.inf, -math.inf): return "inf" if x > 0 else "-inf"
    if x == 0: return "-0@0" if math.copysign(1, x) < 0 else "0@0"
    m, e = math.frexp(x)
    mi = int(m * (1 << 53)); e -= 53
    while mi % 2 == 0:
        mi //= 2; e += 1
    return f"{mi}@{e}"


def untok(t):
    if t in ("nan", "inf", "-inf"): return float(t)
    m, e = t.split("@")
    return math.ldexp(int(m), int(e)) if m != "-0" else -0.0


# ----------------------------------------------------------------------------- generators
def gen_matrix(r, n, style):
    d = r.range(1, 3)
    X = [[r.range(-2, 2) for _ in range(d)] for _ in range(n)]
    K = [[float(sum(X[i][k] * X[j][k] for k in range(d))) for j in range(n)] for i in range(n)]
    if style == "dup" and n >= 2:          # duplicate points: singular 2x2 sub-problems
        src, dst = r.below(n), r.below(n)
        X[dst] = list(X[src])
        K = [[float(sum(X[i][k] * X[j][k] for k in range(d))) for j in range(n)] for i in range(n)]
    ridge = r.choice([0.0, 0.0, 1.0, 0.5, 0.25, 2.0])
    for i in range(n):
        K[i][i] += ridge
    scale = {"tiny": 2.0 ** -r.range(18, 30), "big": 2.0 ** r.range(3, 8)}.get(style, r.choice([1.0, 1.0, 1.0, 0.5, 2.0, 0.25]))
    return [[K[i][j] * scale for j in range(n)] for i in range(n)]


def f32exact(x):
    import struct
    return struct.unpack("f", struct.pack("f", x))[0] == x


def dyadic(r, lo, hi, bits=2):
    return r.range(lo * (1 << bits), hi * (1 << bits)) / float(1 << bits)


def gen_problem(r, quick):
    kind = r.choice(["svm", "svm", "box"])
    n = r.choice([1, 2, 2, 3, 3, 4, 4, 5, 6, 8] if quick else [1, 2, 3, 4, 5, 6, 7, 8, 10, 12])
    style = r.choice(["plain", "plain", "plain", "dup", "tiny", "big"])
    K = gen_matrix(r, n, style)
    shrink = 1 if r.chance(3, 4) else 0
    boxstyle = r.choice(["csvm", "csvm", "general", "wide"])
    C = r.choice([0.25, 0.5, 1.0, 1.0, 2.0, 8.0, 64.0, 1024.0])
    lin, L, U = [], [], []
    for i in range(n):
        if boxstyle == "csvm":
            y = 1.0 if r.chance(1, 2) else -1.0
            w = r.choice([1.0, 1.0, 1.0, 0.5, 2.0, 0.0 if r.chance(1, 6) else 1.0])
            lin.append(y); L.append(0.0 if y > 0 else -C * w); U.append(C * w if y > 0 else 0.0)
        elif boxstyle == "general":
            lin.append(dyadic(r, -2, 2)); L.append(-dyadic(r, 0, 2)); U.append(dyadic(r, 0, 2))
        else:
            lin.append(dyadic(r, -3, 3)); L.append(-C); U.append(C)
    warm = r.chance(1, 3)
    a0 = []
    for i in range(n):
        if not warm: a0.append(0.0)
        else:
            c = r.below(4)
            a0.append(L[i] if c == 0 else U[i] if c == 1 else 0.0 if c == 2 else
                      L[i] + (U[i] - L[i]) * r.choice([0.25, 0.5, 0.75]))
    if kind == "svm" and warm and n >= 2:
        pass  # any feasible start is admissible: the invariant is "sum unchanged", not "sum = 0"
    return dict(kind=kind, n=n, shrink=shrink, K=K, lin=lin, L=L, U=U, a0=a0, style=style, box=boxstyle, warm=warm)


def new_line(p, edge):
    nums = [x for row in p["K"] for x in row] + p["lin"] + p["L"] + p["U"] + p["a0"]
    return f"new {p['kind']} {p['n']} {p['shrink']} {1 if edge else 0} " + " ".join(tok(x) for x in nums)


def gen_case(r, quick, edge):
    p = gen_problem(r, quick)
    n = p["n"]
    strategies = ["mvp", "libsvm"] if p["kind"] == "svm" else ["maxgain"]
    eps = r.choice([2.0 ** -10, 2.0 ** -3, 2.0 ** -20, 1e-3, 0.5])
    ops = [new_line(p, edge)]
    for _ in range(r.range(1, 14 if quick else 40)):
        x = r.below(100)
        if x < 30:
            ops.append(f"solve {r.choice(strategies)} {tok(eps)} {r.range(1, 6 if quick else 25)}")
        elif x < 60:
            ops.append(f"asmo {r.below(64)} {r.below(64)}")
        elif x < 72:
            ops.append(f"shrink {tok(r.choice([eps, eps, 2.0 ** -30, 4.0]))}")
        elif x < 80:
            ops.append("unshrink")
        elif x < 88:
            ops.append(f"aflip {r.below(64)} {r.below(64)}")
        elif x < 94:
            ops.append(f"select {r.choice(strategies)}")
        else:
            ops.append("kkt")
    if r.chance(1, 2):     # finish with a full solver run
        ops.append(f"solve {r.choice(strategies)} {tok(eps)} {200 if quick else 2000}")
    return ops, p


# ---- shrink histories --------------------------------------------------------------------------
# The clause "variables removed by shrinking are only ones that cannot improve the objective at that
# moment" quantifies over every shrink() of every history, in particular over the ONE call per
# problem object whose internal un-shrink fires (m_isUnshrinked false, KKT gap of the active
# sub-problem below 10*eps) while earlier calls have removed variables that meanwhile became KKT
# violators.  Uniformly random short op sequences on tiny problems practically never get there, so
# this family builds such histories on purpose: noisy two-class problems with many bounded support
# vectors (small C, overlapping classes, duplicated points, label noise), early shrinking with a
# tiny eps (no un-shrink), further steps that move the gradients of the shrunk variables, then a
# shrink with a large eps (un-shrink + immediate re-shrink), then more of the same and a full run.
# The harness measures on the real objects how often the decisive situation was reached
# (reached[...] in the evidence); run() requires it on every run.
def gen_noisy_problem(r, quick, kind=None, nrange=None):
    kind = kind or r.choice(["svm", "svm", "box"])
    n = r.range(*nrange) if nrange else r.range(5, 14) if quick else r.range(5, 28)
    d = r.range(1, 2)
    y = [1.0 if r.chance(1, 2) else -1.0 for _ in range(n)]
    sep = r.choice([0, 1, 1, 2])
    X = [[r.range(-2, 2) + (sep if (y[i] > 0) != r.chance(1, 5) else -sep) * (1 if k == 0 else 0) for k in range(d)]
         for i in range(n)]
    # leverage points: scaled copies of other points -- their gradients move `s` times as fast as the gradients of
    # the points that take the steps, so a shrink() decision about them is overtaken by the next few steps
    lev = 0
    X0 = [list(x) for x in X]
    if r.chance(3, 4):
        lev = r.range(1, max(1, n // 3))
        for _ in range(lev):
            src, dst = r.below(n), r.below(n)
            sc = r.choice([-8, -4, -3, 3, 4, 8])
            X[dst] = [sc * v for v in X0[src]]
    kern = r.choice(["linear", "linear", "linear", "rbf", "poly"]) if lev else r.choice(["linear", "rbf", "rbf", "poly"])
    def k(a, b):
        ip = sum(u * v for u, v in zip(a, b))
        if kern == "linear": return float(ip)
        if kern == "poly": return float((ip + 1) ** 2)
        return 2.0 ** -sum((u - v) ** 2 for u, v in zip(a, b))       # Gaussian kernel with gamma = ln 2: dyadic, PSD
    ridge = r.choice([0.0, 0.0, 0.0, 0.25, 1.0])
    if lev and kern == "rbf":       # scaled copies would underflow the Gaussian kernel: leverage in feature space instead
        X, lev = X0, 0
    K = [[k(X[i], X[j]) + (ridge if i == j else 0.0) for j in range(n)] for i in range(n)]
    if not all(f32exact(v) for row in K for v in row):     # the float-cache variants need entries that are exact floats
        kern = "linear"
        K = [[k(X[i], X[j]) + (ridge if i == j else 0.0) for j in range(n)] for i in range(n)]
    assert all(f32exact(v) for row in K for v in row)
    C = r.choice([0.125, 0.25, 0.5, 1.0, 1.0, 2.0, 4.0])
    lin, L, U = [], [], []
    style = r.choice(["csvm", "csvm", "csvm", "regression"])
    for i in range(n):
        if style == "csvm":
            w = r.choice([1.0, 1.0, 1.0, 0.5, 2.0])
            lin.append(y[i]); L.append(0.0 if y[i] > 0 else -C * w); U.append(C * w if y[i] > 0 else 0.0)
        else:    # epsilon-regression-like: symmetric boxes, targets on a grid
            lin.append(dyadic(r, -2, 2)); L.append(-C); U.append(C)
    # warm start far from the optimum, mostly at the bounds: the first shrink() calls guess on a state whose gradients
    # still move a lot, so that removed variables DO become violators later (what happens on large noisy problems)
    warm = r.chance(2, 3)
    a0 = [0.0] * n
    if warm:
        for i in range(n):
            c = r.below(6)
            a0[i] = L[i] if c < 2 else U[i] if c < 4 else 0.0 if c == 4 else L[i] + (U[i] - L[i]) * r.choice([0.25, 0.5, 0.75])
    return dict(kind=kind, n=n, shrink=1, K=K, lin=lin, L=L, U=U, a0=a0, style="noisy-" + kern + ("-lev" if lev else ""), box=style, warm=warm)


def gen_history_case(r, quick, edge):
    """adversarial history: early shrinking with a tiny eps, steps, then the shrink whose internal un-shrink fires"""
    p = gen_noisy_problem(r, quick)
    strategies = ["mvp", "libsvm"] if p["kind"] == "svm" else ["maxgain"]
    tiny, big = 2.0 ** -30, r.choice([4.0, 64.0, 1024.0])
    ops = [new_line(p, edge)]
    selmix = r.choice([2, 5, 8])        # share of solver-selected steps (out of 10), the rest are arbitrary admissible pairs
    def steps(lo, hi, bursts=True):
        for _ in range(r.range(lo, hi)):
            x = r.below(10)
            if x < selmix: ops.append(f"ssmo {r.choice(strategies)}")
            elif x < 9 or not bursts: ops.append(f"asmo {r.below(64)} {r.below(64)}")
            else: ops.append(f"aflip {r.below(64)} {r.below(64)}")
    steps(2, 8)
    for _ in range(r.range(1, 3)):          # early shrinking without un-shrink, then the active problem moves on
        ops.append(f"shrink {tok(tiny)}")
        steps(3, 16)
    shape = r.below(10)
    if shape < 6:
        ops.append(f"shrink {tok(big)}")                                   # gap < 10*big: the one automatic un-shrink
    elif shape < 8:
        ops.append(f"solve {r.choice(strategies)} {tok(big / 8)} {r.range(1, 3)}")   # the same from inside QpSolver::solve
    else:
        ops.append("unshrink"); ops.append(f"shrink {tok(tiny)}")       # explicit un-shrink, flag set, shrink again
    steps(1, 6)
    ops.append(f"shrink {tok(r.choice([tiny, big]))}")                    # flag already set: no second un-shrink
    steps(0, 4)
    if r.chance(2, 3):
        ops.append(f"solve {r.choice(strategies)} {tok(r.choice([2.0 ** -10, 2.0 ** -3, 1e-3]))} {300 if quick else 3000}")
    return ops, p


def gen_converge_case(r, quick, edge, nlo=6, nhi=16, m=(10, 50)):
    """early guesses far from the optimum, then the active sub-problem is (nearly) solved, then the shrink whose
    internal un-shrink fires -- called directly or from inside QpSolver::solve (a solver object is created per
    `solve` op, so its shrinking schedule starts over: step, shrink(eps), steps)"""
    p = gen_noisy_problem(r, quick, nrange=(nlo, nhi) if quick else (nlo, 2 * nhi))
    strat = r.choice(["mvp", "libsvm"]) if p["kind"] == "svm" else "maxgain"
    tiny = 2.0 ** -30
    ops = [new_line(p, edge)]
    def step():
        return f"ssmo {strat}" if not r.chance(1, 8) else f"asmo {r.below(64)} {r.below(64)}"
    for _ in range(r.range(1, 2)):
        for _ in range(r.range(0, 5)):
            ops.append(step())
        ops.append(f"shrink {tok(tiny)}" if r.chance(2, 3) else f"solve {strat} {tok(tiny)} {r.range(1, 3)}")
    for _ in range(r.range(*m)):
        ops.append(step())
    eps = 2.0 ** -r.range(0, 8)
    ops.append(f"shrink {tok(eps)}" if r.chance(1, 2) else f"solve {strat} {tok(eps)} {r.range(1, 4)}")
    for _ in range(r.range(0, 6)):
        ops.append(step())
    ops.append(f"shrink {tok(r.choice([tiny, eps]))}")
    if r.chance(1, 2):
        ops.append(f"solve {strat} {tok(r.choice([2.0 ** -10, 2.0 ** -3, 1e-3]))} {300 if quick else 3000}")
    return ops, p


def gen_planted_case(r, quick, edge):
    """planted wrong guesses (constructive, then randomised): linear kernel on two features.
    movers     (+-1, 0): the only violating pairs at the cold start; solving them moves w = sum x_b alpha_b to (w1, 0);
    victims    (-+t, 0), t >= 2, at a bound with a gradient just beyond the cold-start thresholds (shrunk by the first
               shrink()), which the movers' steps push far to the other side (lin + t*w1): KKT violators while shrunk;
    bystanders (0, u) at a bound, gradients spread between the cold-start thresholds and the victims' final gradients:
               also shrunk at the start; after the un-shrink the victims' gradients are the thresholds that decide
               whether a bystander may be removed again;
    fillers    free or bounded variables with small gradients (random; they perturb the plan).
    Then: shrink(tiny) at (or right after) the cold start, solver-selected steps until the active sub-problem is
    (nearly) solved, shrink(eps) / solve(eps) -> the one automatic un-shrink with wrongly shrunk variables present."""
    kind = r.choice(["svm", "svm", "box"])
    strat = r.choice(["mvp", "libsvm"]) if kind == "svm" else "maxgain"
    B = r.choice([0.25, 1.0, 4.0, 16.0])
    w1 = min(2 * B, 1.0)
    pts = []      # (x, lin, L, U)
    for _ in range(r.range(1, 2)):
        pts.append(((1.0, 0.0), 1.0, 0.0, B)); pts.append(((-1.0, 0.0), -1.0, -B, 0.0))
    top = 0.0
    for _ in range(r.range(1, 3)):              # victims
        t = r.choice([2.0, 4.0, 8.0]); dl = r.choice([0.25, 0.5, 1.0, 2.0]); W = r.choice([0.5, 1.0, 4.0])
        if r.chance(1, 2):   # at its lower bound, shrunk because g = -1-dl < smallestDown; ends at -1-dl+t*w1
            pts.append(((-t, 0.0), -1.0 - dl, 0.0, W)); top = max(top, -1.0 - dl + t * w1)
        else:                # at its upper bound, shrunk because g = 1+dl > largestUp; ends at 1+dl-t*w1
            pts.append(((t, 0.0), 1.0 + dl, -W, 0.0)); top = max(top, -(1.0 + dl - t * w1))
    span = int(max(top, 1.0) * 4) + 4
    for _ in range(r.range(2, 6)):              # bystanders
        u = r.choice([0.0, 0.0, 1.0, -1.0]); W = r.choice([0.5, 1.0, 4.0])
        gc = 1.0 + r.range(1, span) / 4.0
        if r.chance(1, 2): pts.append(((0.0, u), gc, -W, 0.0))       # at its upper bound, g > largestUp
        else: pts.append(((0.0, u), -gc, 0.0, W))                     # at its lower bound, g < smallestDown
    for _ in range(r.range(0, 3)):              # fillers
        u = r.choice([1.0, -1.0, 2.0]); W = r.choice([0.5, 1.0, 4.0])
        c = r.below(3)
        pts.append(((0.0, u), dyadic(r, -1, 1), (-W, 0.0, -W)[c], (W, W, 0.0)[c]))
    order = list(range(len(pts)))
    for k in range(len(order) - 1, 0, -1):      # Fisher-Yates with the check's generator
        j = r.below(k + 1); order[k], order[j] = order[j], order[k]
    pts = [pts[k] for k in order]
    n = len(pts)
    ridge = r.choice([0.0, 0.0, 0.0, 0.25])
    K = [[pts[i][0][0] * pts[j][0][0] + pts[i][0][1] * pts[j][0][1] + (ridge if i == j else 0.0) for j in range(n)] for i in range(n)]
    p = dict(kind=kind, n=n, shrink=1, K=K, lin=[q[1] for q in pts], L=[q[2] for q in pts], U=[q[3] for q in pts],
             a0=[0.0] * n, style="planted", box="planted", warm=False)
    tiny = 2.0 ** -30
    ops = [new_line(p, edge)]
    if r.chance(1, 4): ops.append(f"ssmo {strat}")
    ops.append(f"shrink {tok(tiny)}" if r.chance(3, 4) else f"solve {strat} {tok(tiny)} 1")
    eps = r.choice([2.0 ** -4, 0.25, 1.0, 4.0])
    direct = r.chance(1, 2)
    # directly: steps, then shrink(eps); from inside the solver: QpSolver::solve does step, shrink(eps), steps
    for _ in range(r.range(1, 8) if direct else r.range(0, 2)):
        ops.append(f"ssmo {strat}" if not r.chance(1, 10) else f"asmo {r.below(64)} {r.below(64)}")
    ops.append(f"shrink {tok(eps)}" if direct else f"solve {strat} {tok(eps)} {r.range(1, 4)}")
    for _ in range(r.range(0, 5)):
        ops.append(f"ssmo {strat}")
    ops.append(f"shrink {tok(r.choice([tiny, eps]))}")
    if r.chance(1, 2):
        ops.append(f"solve {strat} {tok(r.choice([2.0 ** -10, 2.0 ** -3, 1e-3]))} {300 if quick else 3000}")
    return ops, p


def gen_schedule_case(r, quick, edge):
    """the solver's own loop with a denser shrinking schedule: `period` solver-selected steps, shrink(eps), ... -- the
    un-shrink fires by itself when the active sub-problem is solved to 10*eps, as in QpSolver::solve on large problems
    (there every 1000 iterations; the property does not depend on the period)"""
    p = gen_noisy_problem(r, quick)
    strat = r.choice(["mvp", "libsvm"]) if p["kind"] == "svm" else "maxgain"
    eps = r.choice([2.0 ** -3, 2.0 ** -5, 2.0 ** -7, 1e-3])
    period = r.range(1, 6)
    ops = [new_line(p, edge)]
    total = r.range(10, 40 if quick else 150)
    k = 0
    while k < total:
        for _ in range(period):
            ops.append(f"ssmo {strat}" if not r.chance(1, 8) else f"asmo {r.below(64)} {r.below(64)}"); k += 1
        ops.append(f"shrink {tok(eps)}")
    if r.chance(1, 2):
        ops.append(f"solve {strat} {tok(eps)} {300 if quick else 3000}")
    return ops, p


def gen_analytic(r, count):
    """one case = one line (stateless ops)"""
    out = []
    def val(style):
        if style == 0: return dyadic(r, -4, 4, 3)
        if style == 1: return r.choice([0.0, 1.0, -1.0, 0.5, 2.0, 1e-12, 1e-13, 1e-6, 1e6, -1e-7])
        if style == 2: return dyadic(r, -4, 4, 3) * 2.0 ** -r.range(10, 45)
        return (r.below(1 << 30) / float(1 << 29) - 1.0) * 10.0 ** r.range(-8, 3)
    for _ in range(count):
        st = r.below(4)
        which = r.below(100)
        # a PSD 2x2 matrix  [[a^2+c, ab],[ab, b^2+d]]
        a, b = val(st), val(st)
        c, d = abs(val(st)) * r.choice([0, 0, 1]), abs(val(st)) * r.choice([0, 0, 1])
        Qii, Qjj, Qij = a * a + c, b * b + d, a * b
        gi, gj = val(st), val(st)
        Li, Lj = -abs(val(r.below(2))), -abs(val(r.below(2)))
        Ui, Uj = abs(val(r.below(2))), abs(val(r.below(2)))
        pick = lambda lo, hi: r.choice([lo, hi, lo + (hi - lo) * 0.5, lo + (hi - lo) * 0.25])
        ai, aj = pick(Li, Ui), pick(Lj, Uj)
        if which < 40:
            out.append(["box " + " ".join(tok(x) for x in (ai, aj, gi, gj, Qii, Qij, Qjj, Li, Ui, Lj, Uj))])
        elif which < 55:
            out.append(["edge " + " ".join(tok(x) for x in (ai, gi, Qii, Li, Ui))])
        elif which < 75:
            m = abs(val(r.below(2))) + 0.5
            ti = m * r.choice([0.0, 0.25, 0.5]); tj = m * r.choice([0.0, 0.25, 0.5])
            out.append(["tri " + " ".join(tok(x) for x in (ti, tj, gi, gj, Qii, Qij, Qjj, m))])
        elif which < 88:
            out.append(["mg2d " + " ".join(tok(x) for x in (Qii, Qjj, Qij, gi, gj))])
        else:
            out.append(["mgline " + " ".join(tok(x) for x in (Qii, Qjj, Qij, gi, gj))])
    return out


# ----------------------------------------------------------------------------- comparison
INNER_ORACLE = re.compile(r" !oracle [^|;]*?(?= \||$| ;)")
COVLINE = re.compile(r"C08COV ((?:\S+=\d+ ?)+)")
SUFFIX = re.compile(r" ;(?:x|q)=([01]) ;fv=(\S+)(.*)$")


def split_line(l):
    m = SUFFIX.search(l)
    if not m:
        return l.split(" !oracle")[0], None, None
    return INNER_ORACLE.sub("", l[:m.start()]), m.group(1), m.group(2)


class Res:
    def __init__(self):
        self.ok, self.crash, self.oracle, self.diff_at, self.kind = True, False, [], None, ""
        self.impl, self.model, self.stderr = [], [], ""


def run_case(ctx, hcmd, dcmd, ops, timeout=300):
    r = Res()
    text = "\n".join(ops) + "\n"
    r.impl, r.model, rc, r.stderr = ctx.run_pair(hcmd, dcmd, text, timeout=timeout)
    if rc != 0:
        r.crash, r.ok, r.kind = True, False, "crash"
    r.oracle = [l for l in r.impl if "!oracle" in l]
    if r.oracle:
        r.ok = False
        r.kind = r.kind or "oracle"
    exact_lines = rat_checked = 0
    for k in range(max(len(r.impl), len(r.model))):
        if k >= len(r.impl) or k >= len(r.model):
            r.diff_at, r.ok, r.kind = k, False, r.kind or "mismatch"
            break
        hb, hx, hfv = split_line(r.impl[k])
        db, dq, dfv = split_line(r.model[k])
        if hb != db:
            r.diff_at, r.ok, r.kind = k, False, r.kind or "mismatch"
            break
        if hx == "1":
            exact_lines += 1
            # the C++ raised no FE_INEXACT so far: the exact (Rat) model must coincide
            if dq != "1":
                r.diff_at, r.ok, r.kind = k, False, r.kind or "rat-mismatch"
                break
            rat_checked += 1
            if hfv != "-" and hfv != dfv:
                r.diff_at, r.ok, r.kind = k, False, r.kind or "objective-mismatch"
                break
    r.exact_lines, r.rat_checked = exact_lines, rat_checked
    return r


def first_tag(res):
    m = re.search(r"!oracle (\S+?)(?:[@(]|\s|$)", res.oracle[0]) if res.oracle else None
    return m.group(1) if m else "?"


def classify(ops, res):
    head = ops[0].split()
    what = head[1] if head[0] == "new" else head[0]
    kinds = "+".join(sorted({o.split()[0] for o in ops if not o.startswith("new")})) or head[0]
    if res.crash:
        m = re.search(r"ERROR: AddressSanitizer: (\S+)|runtime error: ([^\n]*)", res.stderr)
        tag = (m.group(1) or m.group(2)) if m else "crash"
        return f"crash:{tag}:{what}", f"harness aborted ({tag}) on ops {ops}"
    if res.oracle:
        return f"oracle:{first_tag(res)}:{what}", f"property oracle failed ({res.oracle[0][res.oracle[0].index('!oracle'):][:200]}) on {len(ops)} ops [{kinds}]"
    return f"{res.kind}:{what}:{kinds}", f"model and implementation disagree ({res.kind}) at line {res.diff_at}"


def correspond(ctx, name, cases, hcmd, dcmd, max_report=4):
    import time
    t = time.time()
    all_ops = [l for c in cases for l in c]
    big = run_case(ctx, hcmd, dcmd, all_ops, timeout=1500)
    m = COVLINE.search(big.stderr)
    if m:     # coverage measured by the harness on the real objects (see struct Coverage in harness/c08.cpp)
        for kv in m.group(1).split():
            k, v = kv.split("=")
            ctx.hist("reached[" + name.split("[")[1].rstrip("]") + "]", k, int(v))
    ctx.count("traces_validated_against_impl", len(cases))
    ctx.count("ops_compared", len(all_ops))
    ctx.count("lines_exact_mode(no FE_INEXACT so far; Rat model == C++ exactly)", big.exact_lines)
    ctx.count("lines_bit_mode_only", len(all_ops) - big.exact_lines)
    if big.ok:
        ctx.log(f"{name}: {len(cases)} cases / {len(all_ops)} ops agree "
                f"({big.exact_lines} lines exact-mode, rest bit-mode) ({time.time()-t:.1f}s)")
        return 0
    with ThreadPoolExecutor(max_workers=4) as ex:
        results = list(ex.map(lambda c: run_case(ctx, hcmd, dcmd, c, timeout=300), cases))
    failing = [(c, r) for c, r in zip(cases, results) if not r.ok] or [(all_ops, big)]
    ctx.log(f"{name}: {len(failing)} of {len(cases)} cases FAIL")
    seen, seen0 = set(), set()
    # failing inputs confirmed by the property oracle / a sanitizer first, short ones first; one minimisation per kind of failure
    failing.sort(key=lambda cr: (not (cr[1].oracle or cr[1].crash), len(cr[0])))
    for c, r in failing:
        key0 = classify(c, r)[0]
        if key0 in seen0:
            continue
        seen0.add(key0)
        def fails(ops):
            rr = run_case(ctx, hcmd, dcmd, ops, timeout=120)
            return (not rr.ok) and classify(ops, rr)[0] == key0
        small = core.shrink_ops(c, fails, keep_prefix=1, max_rounds=60) if len(c) > 2 else c
        rs = run_case(ctx, hcmd, dcmd, small, timeout=120)
        if rs.ok:
            small, rs = c, r
        key, what = classify(small, rs)
        if key in seen:
            continue
        seen.add(key)
        found = bool(rs.oracle) or rs.crash
        b = ctx.broken("correspondence", f"{name}:{key}", what)
        b["resolved"] = True
        replay = {"harness_cmd": hcmd, "driver_cmd": dcmd, "ops": small,
                  "impl_output": [l[:3000] for l in rs.impl[-6:]], "model_output": [l[:3000] for l in rs.model[-6:]],
                  "first_diff_line": rs.diff_at, "oracle": [l[l.index("!oracle"):][:300] for l in rs.oracle[:5]],
                  "crash": rs.crash, "stderr_tail": rs.stderr[-1500:]}
        ctx.violation(key, replay, found_input=found, what=what)
        if len(seen) >= max_report:
            break
    return len(failing)


def oracle_alone(ctx, name, cases, hcmd):
    """implementation + independent oracle only (operations the Lean model does not cover)"""
    import subprocess, time
    t = time.time()
    env = dict(os.environ); env.setdefault("ASAN_OPTIONS", "detect_leaks=0:abort_on_error=0"); env.setdefault("UBSAN_OPTIONS", "print_stacktrace=1")
    def run(ops):
        p = subprocess.run(hcmd, input="\n".join(ops) + "\n", capture_output=True, text=True, errors="replace", env=env, timeout=1500)
        r = Res(); r.impl = p.stdout.splitlines()
        m = re.search(r"ERROR: AddressSanitizer: (\S+)|runtime error: ([^\n]*)", p.stderr)
        fr = re.search(r"#\d+ \S+ in (?:\w+ )?shark::(\w+)::(\w+)", p.stderr[m.start():] if m else "")
        # head of the sanitizer report (error kind + innermost shark frame) first: classify() reads it
        r.stderr = ((m.group(0) + (f" in shark::{fr.group(1)}::{fr.group(2)}" if fr else "") + "\n") if m else "") + p.stderr[-3000:]
        r.site = f"{fr.group(1)}::{fr.group(2)}" if fr else "?"
        r.crash = p.returncode != 0; r.oracle = [l for l in r.impl if "!oracle" in l]
        r.ok = not (r.crash or r.oracle or any(l == "bad-op" for l in r.impl)); r.kind = "crash" if r.crash else "oracle" if r.oracle else "bad-op"
        return r
    # one-variable problems run one process each (a sanitizer abort there must not end the batch: F-C08-HMG1)
    single = [c for c in cases if c[0].split()[2] == "1"]
    batch = [c for c in cases if c[0].split()[2] != "1"]
    big = run([l for c in batch for l in c])
    ctx.count("oracle_only_cases(hmg)", len(cases))
    steps = sum(l.count("smo ") for l in big.impl)
    ctx.count("oracle_only_solver_steps(hmg)", steps)
    todo = sorted(single, key=len) + ([] if big.ok else sorted(batch, key=len))
    seen = set()
    for c in todo:
        r = run(c)
        if r.ok:
            continue
        def keyof(ops, rr):
            # narrow key: kind of failure, innermost shark frame of a sanitizer report, problem size class
            k = "hmg:" + classify(ops, rr)[0]
            if rr.crash:
                n = int(ops[0].split()[2]) if ops[0].startswith("new") else 0
                k += f":{rr.site}:n={'1' if n == 1 else '>1'}"
            return k
        key, what = keyof(c, r), classify(c, r)[1]
        if key in seen:
            continue
        seen.add(key)
        def fails(ops):
            rr = run(ops)
            return (not rr.ok) and keyof(ops, rr) == key
        small = core.shrink_ops(c, fails, keep_prefix=1, max_rounds=40) if len(c) > 2 else c
        rs = run(small)
        if rs.ok: small, rs = c, r
        ctx.violation(key, {"harness_cmd": hcmd, "ops": small, "impl_output": [l[:3000] for l in rs.impl[-4:]],
                            "oracle": [l[l.index("!oracle"):][:300] for l in rs.oracle[:5]], "crash": rs.crash,
                            "stderr_tail": rs.stderr[-1500:], "oracle_only": True}, found_input=True, what="HMG selection: " + what)
        if len(seen) >= 3:
            break
    if big.ok and not seen:
        ctx.log(f"{name}: {len(cases)} cases / {steps} solver steps, oracle silent ({time.time()-t:.1f}s)")
        return 0
    if not seen:
        ctx.violation("hmg:batch-only", {"harness_cmd": hcmd, "ops": [l for c in cases for l in c][:200]}, found_input=False,
                      what="oracle failure only in the concatenated run")
    ctx.log(f"{name}: {len(seen)} kinds of oracle failure / sanitizer report (listed known findings included)")
    return len(seen)


# ----------------------------------------------------------------------------- check
def translate(ctx):
    return ctx.translate("cxx2lean_analytic.py")


def build(ctx):
    # one cached binary per repo tree (scratch worktrees via VERIF_REPO do not evict each other)
    tag = "" if core.REPO == "/repo" else "-" + core.sha(core.REPO)[:8]
    return ctx.harness("c08" + tag, ["c08.cpp"])


def load_corpus(edge):
    d = os.path.join(core.VERIF, "corpus", PID)
    out = []
    if os.path.isdir(d):
        for fn in sorted(os.listdir(d)):
            ops = [l.strip() for l in open(os.path.join(d, fn)) if l.strip() and not l.startswith("#")]
            ops = [re.sub(r"^(new \S+ \d+ [01]) [01] ", lambda m: f"{m.group(1)} {1 if edge else 0} ", o) for o in ops]
            if ops: out.append(ops)
    return out


def nontrivial(ops):
    ks = [o.split()[0] for o in ops]
    return any(k in ("solve", "asmo", "ssmo") for k in ks) and any(k in ("shrink", "aflip", "solve") for k in ks) and len(ops) > 3


def run(ctx):
    ctx.trusted += ["translator translate/cxx2lean_analytic.py (clang-14 JSON AST -> Lean), cross-checked by the bit-for-bit correspondence",
                    "correspondence harness harness/c08.cpp + generator checks/c08.py",
                    "hand-written model Model/Smo.lean (SvmProblems.h, BoxConstrainedProblems.h, BoxBasedShrinkingStrategy.h, QpSolver.h are modelled, not translated)",
                    "x86-64 SSE2 IEEE doubles, -ffp-contract=off, sticky FE_INEXACT (exact mode)"]
    ctx.assumptions += ["kernel matrix symmetric (PSD where the objective is concerned); rows returned by the matrix/cache are the true entries under the current permutation (property C09)",
                        "working pairs of the equality-constrained problem satisfy gradient(i) >= gradient(j), i != j, both active (what every selection strategy returns)",
                        "exact arithmetic in the theorems; rounding enters only through the Float instance compared bit-for-bit"]
    translate(ctx)
    ctx.prove(["SharkVerif.Props.C08"])
    if not ctx.quick:
        ctx.leanchecker(["SharkVerif.Props.C08"])
    exe = build(ctx)
    drv = ctx.driver("drv_c08")
    if not exe or not drv:
        return
    rc, caps = core.sh([exe, "caps"])
    edge = "edge=1" in caps
    ctx.cov["hook_gradient_edge_present"] = edge
    if not edge:
        ctx.log("hook SHARK_VERIF_HOOK_GRADIENT_EDGE absent in this tree: m_gradientEdge / m_isUnshrinked are not "
                "compared directly (edge_inv is exercised only through the gradient rebuilt by unshrink)")
    r = ctx.rng.fork("c08")
    ncase, nan = (260, 1500) if ctx.quick else (2500, 20000)
    corpus = load_corpus(edge)
    ctx.cov["corpus_cases"] = len(corpus)
    cases = []
    nfam = dict(random=ncase, planted=ncase, history=ncase // 3, converge=ncase, schedule=ncase // 4) if ctx.quick else \
           dict(random=ncase, planted=ncase // 2, history=ncase // 6, converge=ncase // 3, schedule=ncase // 10)
    gens = dict(random=gen_case, planted=gen_planted_case, history=gen_history_case, converge=gen_converge_case,
                schedule=gen_schedule_case)
    for fam in ("random", "planted", "history", "converge", "schedule"):
      for _ in range(nfam[fam]):
        ops, p = gens[fam](r, ctx.quick, edge)
        cases.append(ops)
        ctx.hist("case_family", fam)
        ctx.hist("problem_kind", p["kind"]); ctx.hist("n", p["n"]); ctx.hist("matrix_style", p["style"])
        ctx.hist("box_style", p["box"]); ctx.hist("warm_start", p["warm"]); ctx.hist("shrinking", p["shrink"])
        for o in ops[1:]:
            ctx.hist("op_mix", o.split()[0])
        ctx.hist("ops_per_case", min(len(ops) // 5 * 5, 50))
    analytic = gen_analytic(r, nan)
    for c in analytic:
        ctx.hist("analytic_fn", c[0].split()[0])
    ctx.cov["evaluations"] = len(cases) + len(analytic) + len(corpus)
    ctx.cov["distinct_nontrivial"] = len({"\n".join(c) for c in cases if nontrivial(c)})
    ctx.sample({"ops": [o[:160] for o in cases[len(cases) // 2][:8]]})
    # corpus first
    modelled = [c for c in corpus if not any(" hmg " in o for o in c)]       # `solve hmg` is oracle-only (below)
    if modelled:
        correspond(ctx, "K-C08[corpus]", modelled, [exe, "dd"], [drv])
    correspond(ctx, "K-C08[analytic]", analytic, [exe, "dd"], [drv])
    variants = [("dd", "2"), ("cf", "2"), ("cd", "3"), ("df", "2")] if ctx.quick else \
               [("dd", "2"), ("df", "2"), ("cd", "2"), ("cd", "5"), ("cf", "2"), ("cf", "3"), ("cf", "16")]
    with ThreadPoolExecutor(max_workers=4) as ex:
        list(ex.map(lambda v: correspond(ctx, f"K-C08[{v[0]},cacheRows={v[1]}]", cases, [exe, v[0], v[1]], [drv]), variants))
    # HMG working-set selection (stateful: the last working set survives the flips of shrink() until reset()) is not
    # modelled: the same histories with `solve hmg`, implementation alone, every clause checked by the oracle after
    # every step / shrink / unshrink of the real solver.  dd without shrinking and cd with a 2-row cache keep
    # sqr(active) >= getMaxCacheSize(), i.e. the genuine HMG branch instead of its small-problem LibSVM fallback.
    hmg = []
    for c in cases:
        if c[0].startswith("new svm") and any(o.startswith("solve") for o in c):
            hmg.append([re.sub(r"^solve (mvp|libsvm) ", "solve hmg ", o) for o in c] +
                       [f"solve hmg {tok(2.0 ** -10)} {300 if ctx.quick else 3000}"])
    hmg = [c for c in corpus if any(" hmg " in o for o in c)] + hmg[:400 if ctx.quick else 4000]
    for v in (("dd", "2"), ("cd", "2")):
        oracle_alone(ctx, f"K-C08[hmg,{v[0]},cacheRows={v[1]}]", hmg, [exe, v[0], v[1]])
    # the histories the shrinking clause quantifies over must have been reached on the REAL objects (measured by the
    # harness): shrink() calls whose internal un-shrink re-activated a KKT violator such that the thresholds of the
    # formerly active variables alone would have removed a different set of variables -- both problem kinds, called
    # directly and from inside QpSolver::solve
    reached = ctx.cov.get(f"reached[{variants[0][0]},cacheRows={variants[0][1]}]", {})
    for key, least in (("unshrink_discriminating_svm", 10), ("unshrink_discriminating_box", 5),
                       ("unshrink_discriminating_in_solve", 3), ("shrink_after_flag_set", 10), ("shrunk_became_violator", 10)):
        if reached and reached.get(key, 0) < least:
            ctx.broken("coverage", f"shrink-history:{key}", f"the generated histories reached {key} only {reached.get(key, 0)} times (< {least})")
    ctx.sample({"theorems": "see obligation_names"})


def replay(ctx, rep):
    translate(ctx)
    exe = build(ctx); drv = ctx.driver("drv_c08")
    cmd = list(rep.get("harness_cmd", [exe, "dd"])); cmd[0] = exe
    if rep.get("oracle_only"):
        import subprocess
        p = subprocess.run(cmd, input="\n".join(rep["ops"]) + "\n", capture_output=True, text=True, errors="replace")
        bad = [l[l.index("!oracle"):][:200] for l in p.stdout.splitlines() if "!oracle" in l]
        print("\n".join(l[:1500] for l in p.stdout.splitlines()[-4:])); print("stderr:", p.stderr[-2000:])
        print("OK" if not bad and p.returncode == 0 else f"FAILS (oracle: {bad[:3]}, rc={p.returncode})")
        return 0 if not bad and p.returncode == 0 else 1
    res = run_case(ctx, cmd, [drv], rep["ops"])
    for a, b in zip(res.impl, res.model):
        print("impl :", a[:1500]); print("model:", b[:1500])
    print("stderr:", res.stderr[-2000:])
    print("OK" if res.ok else f"FAILS ({res.kind}; oracle: {[l[l.index('!oracle'):][:200] for l in res.oracle[:3]]})")
    return 0 if res.ok else 1
