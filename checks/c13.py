"""C13 — dominance, non-dominated sorting, hypervolume: theorems (Props/C13.lean) +
exact correspondence K-C13 between Model/Pareto.lean, Model/Hypervolume.lean (driver
drv_c13) and the real Shark algorithms (harness/c13.cpp)."""
import os, re
from vlib import core

TRUST = ("Lean 4.33 kernel; axioms at most propext/Classical.choice/Quot.sound (audited per run); "
         "hand-written models tied to the C++ by the exact correspondence harness (differential, generator-bounded); ")
MANIFEST = dict(
  text=("Theorems (Props/C13.lean) for all finite sets of integer points of every size (and, where stated, every dimension): dominance = its definition; "
        "rankSpec = one plus the highest rank among the dominators (unique solution); fastNonDominatedSort model = rankSpec; the divide-and-conquer sort model "
        "(sweepA, sweepB, median splits, ndHelperA/ndHelperB recursion, sort/unique/lower_bound front end) = rankSpec for every dimension m >= 2, hence "
        "nonDominatedSort = rankSpec whatever its size/dimension switch selects; hvSpec (count of dominated unit cells = measure of the dominated region for integer "
        "points) is invariant under permutation, adding dominated or duplicate points, translation, homogeneous of degree m under scaling, monotone, sub-additive; "
        "HypervolumeCalculator2D model = hvSpec for every key-sorted order; HypervolumeCalculator3D model (sweep with the std::map staircase) = hvSpec for every "
        "z-sorted order incl. boundary points; WFG recursion = hvSpec for every tie resolution of its sorts; the HypervolumeCalculator front end = hvSpec in 2, 3 "
        "and >= 5 objectives; HypervolumeContribution2D model = hvSpec S - hvSpec (S without p) per point for mutually non-dominated sets (duplicates allowed, every "
        "outcome of the sorts); HypervolumeContributionMD model (clipping, rank-1 compaction loop, box volume minus restricted hypervolume) = the same for all sets, "
        "end to end with the modelled nonDominatedSort and front end for m != 4; k-smallest/k-largest selection returns min(k,n) sorted pairs dominating the rest, "
        "the first being an arg-min/arg-max (every outcome of the unstable sort); HypervolumeSubsetSelection2D model: the deque upper envelope equals the running maximum, "
        "the dynamic programme value equals the best chain area = hvSpec, back-tracking + fill-up return exactly k points of maximal hypervolume among all sub-lists of at "
        "most k points; operator-level theorem for the operator as written: its comparator is regenerated from the source on every run and proved to be the "
        "lexicographic order (ssp_comparator_is_lexicographic), so an edit of the tie-break breaks the check. "
        "Rational coordinates: hvQ/rankQ via a common denominator are well defined, agree with hvSpec/rankSpec on integers, rankQ satisfies the rank definition for the "
        "rational dominance, nonDominatedSort on the scaled points returns rankQ. All models are tied to the real code by exact line-by-line correspondence on generated "
        "integer point sets (2..6 objectives, ties, duplicates, dominated, collinear points, points on the boundary of the reference box, extreme magnitudes for the "
        "sorts, the three arms of the sort switch, all k; subset selection is compared by the selected indices), each with an independent oracle in the harness. "
        "Intermediate states are tied where the real code exposes them: HypervolumeCalculatorMDHOY::stream is called directly on generated reachable (region, points, "
        "split, cover) states (ops hoys, oracle = definition on the region), ndHelperA/ndHelperB (hence sweepA, sweepB, the splits) are called directly with preset front "
        "numbers (ops dca/dcb, the real header compiled with access control lifted, oracle = the pre/postconditions of figures 2 and 7), and the sweeps of "
        "HypervolumeCalculator3D, HOY, HypervolumeContribution3D and the sorts are observed on every prefix of the input in sweep order. "
        "Scale classes (every run, both tiers): the ops dom, sort (fast, divide-and-conquer, switch), hv (2-D, 3-D, HOY, WFG, front end), con (2-D, 3-D, MD, front end; "
        "k-smallest/k-largest) and ssp are also run with points AND reference multiplied by 2^e, e in {-60,-52,-44,-34,-24,-16,-14,-12,-10,-4,-1,1,4,10,24,34,44,60} "
        "(same op at every class = scale family) and at random e in -60..60 (exact in binary floating point, no over-/underflow); expected: ranks, dominance "
        "relations, contributor indices and selected index sets IDENTICAL to the unscaled line and hypervolumes / contributions times exactly 2^(e*m) - the "
        "expected value comes from the theorems rankSpec_scale / fastSort_scale / hvSpec_scale_shift / hvQ_scale, not from a tolerance; an absolute tolerance "
        "anywhere in these algorithms shows at some class. Translation classes: dom, hv, con, ssp are also run with points and reference shifted by +-2^k, k in {20,30,40,45} "
        "(exact; every result must be identical: rankSpec_shift, hvSpec_scale_shift), which exposes a relative tolerance (the sorts have affine images up to 2^51). Tolerance inventory: translate/c13_tolerances.py regenerates on every run the list of all floating "
        "literals with 0 < |v| < 1 and epsilon-style identifiers in the 14 anchored files (Gen/C13Tolerances.lean); Props/C13Tol.lean proves it equal to the "
        "accounted list (c13_tolerances_inventory, c13_order_algorithms_have_no_tolerance), so a new or changed tolerance breaks an obligation."),
  note=TRUST + "only partially proved (`_partial` theorems in Props/C13.lean; tied by exact correspondence + oracle on every run): (1) HypervolumeCalculatorMDHOY - cover scan, "
       "pile/trellis case, split with an in-region bound and the entry are proved; hvHoy = hvSpec holds for every run accepted by the Boolean replay `hoyOk` (depth budget not exhausted, "
       "every bound inside its region); the C++ can choose a bound outside the region (stale median, reachable from operator(), corpus/C13/subroutines.txt) - observed harmless, the "
       "signed-extent argument is not formalised; hence the front end and HypervolumeContributionMD in exactly 4 objectives are `_partial`; (2) HypervolumeContribution3D - index part, "
       "boundary points, reduction of the operator to the inner sweep, slicing by height, conservation laws of both cuts and the geometry of new boxes are proved; the loop invariant of "
       "the sweep (`SweepCorrect`) is open, the operator theorem is stated from it. "
       "HypervolumeContributionMD computes exp(sum(log(ref-p))): its results are compared after rounding to the nearest integer (tolerance 1e-6), everything else exactly. "
       "Theorems are about integer coordinates and lifted to rationals by the common-denominator argument (Lemmas/Scale.lean, Lemmas/RatLift.lean); the C++ runs on doubles, the "
       "correspondence uses integer-valued doubles. The two 1e-10 tolerances in upperEnvelope (regenerated inventory) are modelled as exact comparisons. Since /repo de702950 they are RELATIVE to the compared values, so this is sound at every scale on the "
       "generated grids (distinct intersections / partial hypervolumes differ relatively by far more than 1e-10) and the ssp scale classes run over the full range -60..60. Before that repair the tolerances were "
       "absolute and the code returned sub-optimal subsets below 2^-16 (objective values ~1e-5): finding C13-SSP-ABSTOL (F-C13-5, corpus/C13/f5_ssp_abstol.txt), fixed; (fixed). Scale classes use powers of two only (other factors would "
       "introduce rounding); hoys/dca/dcb are not scaled. translate/c13_tolerances.py (regex over comment-stripped source) is trusted. Finding C13-SSP-LEXLESS (F-C13-4: comparator `f2 < rhs.f1`, std::sort overflow with > 16 points "
       "of equal first coordinate) is fixed in /repo d62b7243. `stream` is tied and (as far as proved) specified on REACHABLE states only: objectives behind `split` are uncut; "
       "on other states the real stream and the model agree with each other but not with the definition (the median collected for an earlier split objective falls outside "
       "the region; example in the generator comment) - harmless in real runs by the invariant, see Lemmas/HOY*.lean. In the WFG model the rank-1 filter of limitSet is written as 'has no dominator'; WFG is exercised on at most 12 points. "
       "The switch of nonDominatedSort is modelled as n < 3^(m+1) for log(n)/log(3) < m+1 (unobservable: both branches are proved equal to rankSpec).",
  technique="Lean 4 proofs by induction / loop invariants / well-founded recursion over point lists + exact differential correspondence with the C++ (ASan/UBSan)",
  design="§6 C13, §14")

FINISH = dict(level="proof",
              rule="integer point sets from one SplitMix64 stream: dims 2..6, sizes 0..40 (quick) / ..300 (thorough), coordinates from small grids "
                   "(incl. negative values) with ties, duplicates, dominated and collinear points; sorts also on affine images with magnitudes up to 2^51 and at the "
                   "sizes 3^(m+1)-2..3^(m+1)+30 of the algorithm switch (one n > 5000 case in the thorough tier); subset selection up to 40 (120) points; "
                   "reference points weakly above all points; scale classes 2^e, e in -60..60, as families of 18 classes on 6 (30) ops per kind and at random on 1/4 of the ops; translation classes +-2^k, k in {20,30,40,45}, on 1/6 of the dom/hv/con/ssp ops; "
                   "a case is non-trivial if it has >= 3 points and (for sort/hv) at least one tie or dominated pair; distinct = distinct op text")

LAKE_TARGETS = ["SharkVerif.Props.C13", "SharkVerif.Props.C13Tol", "drv_c13"]   # Props imports Lemmas/{FastSort,Hypervolume,HV3D,Contrib,DCFront,Subset2D,RatLift,Contrib3DE,HOY}
REPO_SOURCES = ["src/Core/Random.cpp"]


def translate(ctx):
    a = ctx.translate("ssp_point_less.py")
    # tolerance inventory of the anchored files -> Gen/C13Tolerances.lean (obligation Props/C13Tol.lean)
    b = ctx.translate("c13_tolerances.py")
    return a and b


def build(ctx):
    return ctx.harness("c13", ["c13.cpp"], repo_sources=REPO_SOURCES)


# ----------------------------------------------------------------- generators
def gen_points(r, m, n, width, base, mode):
    """n integer points in m dims; coordinates base..base+width-1"""
    P = []
    for i in range(n):
        x = r.below(100)
        if P and mode == "dup" and x < 35:
            P.append(list(r.choice(P)))
        elif P and x < 15:                                  # duplicate
            P.append(list(r.choice(P)))
        elif P and x < 30:                                  # dominated by / dominating an existing point
            q = r.choice(P); s = r.choice([1, -1])
            P.append([min(base + width - 1, max(base, c + s * r.below(2))) for c in q])
        elif len(P) >= 2 and x < 40:                        # collinear with two existing points
            a, b = r.choice(P), r.choice(P); t = r.range(-1, 2)
            P.append([min(base + width - 1, max(base, a[d] + t * (b[d] - a[d]))) for d in range(m)])
        elif mode == "front" or x < 55:                     # anti-chain flavour: constant coordinate sum (+-1)
            s = (m * (width - 1)) // 2
            p = [0] * m
            for _ in range(s + r.range(-1, 1)):
                d = r.below(m)
                if p[d] < width - 1: p[d] += 1
            P.append([base + c for c in p])
        else:
            P.append([base + r.below(width) for _ in range(m)])
    return P


def nondominated(P):
    def le(p, q): return all(a <= b for a, b in zip(p, q))
    return [p for p in P if not any(le(q, p) and q != p for q in P)]


def gen_ref(r, P, m, base, width):
    mx = [max([p[d] for p in P], default=base) for d in range(m)]
    return [mx[d] + r.choice([0, 0, 1, 1, 2]) for d in range(m)]


def width_for(r, m, big=False):
    return r.choice({2: [2, 3, 4, 6, 9], 3: [2, 3, 4, 6], 4: [2, 3, 4], 5: [2, 3], 6: [2, 3]}[m])


def flat(P): return " ".join(str(c) for p in P for c in p)


def is_tok(t):
    """q<den> (coordinates divided by den) or e<k> (coordinates multiplied by 2^k, k may be negative)"""
    return len(t) > 1 and ((t[0] == "q" and t[1:].isdigit()) or (t[0] in "et" and re.fullmatch(r"-?\d+", t[1:]) is not None))


# scale classes 2^e applied to points AND reference (power-of-two scaling: every comparison, difference and product in the
# algorithms stays exact, no over-/underflow for |e| <= 60, m <= 6, |coordinate| < 2^53). Expected line = the unscaled line
# (ranks / indices identical, volumes times 2^(e*m): rankSpec_scale, hvSpec_scale_shift, hvQ_scale)
SCALES = [-60, -52, -44, -34, -24, -16, -14, -12, -10, -4, -1, 1, 4, 10, 24, 34, 44, 60]
# HypervolumeSubsetSelection2D::upperEnvelope contains the absolute tolerances 1e-10 (regenerated: Gen/C13Tolerances.lean) on
# intersections (unit: objective) and on partial hypervolumes (unit: objective^2).  On integer grids with offsets from the
# reference below 250 two different intersections differ by >= 2^e/250^2 and two different areas by >= 4^e, so the unchanged
# code is exact iff 4^e > 1e-10, i.e. e >= -16; below that it returns sub-optimal subsets (finding C13-SSP-ABSTOL)
SSP_MIN_SCALE = int(os.environ.get("VERIF_C13_SSP_MIN_SCALE", "-60"))   # -60 since the relative tolerance of /repo de702950 (was -16 with the absolute 1e-10: finding F-C13-5)


def scales_for(kind):
    return [e for e in SCALES if kind != "ssp" or e >= SSP_MIN_SCALE]


def gen_case(r, kind, nmax, ctx):
    m = r.choice([2, 2, 3, 3, 4, 5, 6])
    base = r.choice([0, 0, 1, -1, -3])
    if kind == "dom":
        w = r.choice([2, 3]); p = [base + r.below(w) for _ in range(m)]
        q = list(p) if r.chance(1, 4) else [base + r.below(w) for _ in range(m)]
        return f"dom {m} {flat([p, q])}"
    if kind == "sort":
        n = r.choice([0, 1, 2, 3]) if r.chance(1, 6) else r.range(0, nmax)
        big = r.chance(1, 12)
        if big:
            # the size/dimension switch of nonDominatedSort: fast sort from n >= 3^(m+1) on (m = 3: 81, m = 4: 243)
            m = r.choice([3, 3, 4] if nmax > 40 else [3])
            n = 3 ** (m + 1) + r.choice([-2, -1, 0, 1, 2, 7, 30])
        w = width_for(r, m) + (r.choice([0, 3, 8]) if n > 40 else 0)
        P = gen_points(r, m, n, w, base, r.choice(["mix", "dup", "front"]))
        mag = r.choice([0, 0, 0, 1, 2])
        if mag:
            # extreme magnitudes (sorting is order-only): affine images x -> a*x + b with large a, b, per coordinate
            a = [r.choice([1, 1000003, 2 ** 40]) for _ in range(m)]; b = [r.choice([0, -2 ** 50, 2 ** 51 - 2 ** 43]) for _ in range(m)]
            P = [[a[d] * p[d] + b[d] for d in range(m)] for p in P]
        ctx.hist("sort_n", min(n // 10 * 10, 300)); ctx.hist("sort_m", m); ctx.hist("sort_large_magnitude", bool(mag))
        ctx.hist("sort_nds_uses", "empty" if n == 0 else ("dc" if (m == 2 or n > 5000 or n < 3 ** (m + 1)) else "fast"))
        ctx.hist("sort_has_duplicates", len({tuple(p) for p in P}) < n)
        ctx.hist("sort_all_equal_in_some_coordinate", n > 1 and any(len({p[d] for p in P}) == 1 for d in range(m)))
        return f"sort {m} {n} {flat(P)}".rstrip()
    if kind == "hv":
        n = r.choice([0, 1, 2, 3]) if r.chance(1, 6) else r.range(0, min(nmax, 40 if m <= 4 else 12))
        w = width_for(r, m)
        P = gen_points(r, m, n, w, base, r.choice(["mix", "dup", "front"]))
        ref = gen_ref(r, P, m, base, w)
        ctx.hist("hv_n", n // 5 * 5); ctx.hist("hv_m", m)
        ctx.hist("hv_point_on_ref_boundary", any(p[d] == ref[d] for p in P for d in range(m)))
        ctx.hist("hv_has_duplicates", len({tuple(p) for p in P}) < n)
        ctx.hist("hv_has_dominated", len(nondominated(P)) < n)
        ctx.hist("hv_equal_first_coordinate", len({p[0] for p in P}) < n)
        ctx.hist("hv_ties_in_last_coordinate", len({p[-1] for p in P}) < n)
        return f"hv {m} {n} {flat([ref])} {flat(P)}".rstrip()
    if kind == "con":
        alg = r.choice(["2d", "3d", "md", "md", "disp"])
        m = {"2d": 2, "3d": 3}.get(alg, r.choice([2, 3, 4, 5]))
        w = {2: r.choice([3, 5, 8, 12]), 3: r.choice([3, 4, 6]), 4: 4, 5: 3}[m]
        P = nondominated(gen_points(r, m, r.range(0, 14), w, base, "front"))
        P = P[:10]
        for _ in range(r.choice([0, 0, 1, 2])):              # duplicates are allowed by the property
            if P: P.insert(r.below(len(P) + 1), list(r.choice(P)))
        n = len(P)
        ref = gen_ref(r, P, m, base, w)
        k = r.choice([0, 1, n, r.range(0, n)]) if n else 0
        k = min(k, n)
        side = r.choice(["small", "large"])
        ctx.hist("con_alg", f"{alg}/{side}/m{m}"); ctx.hist("con_n", n); ctx.hist("con_k_is_0_or_n", k in (0, n))
        ctx.hist("con_duplicates", len({tuple(p) for p in P}) < n)
        ctx.hist("con_point_on_ref_boundary", any(p[d] == ref[d] for p in P for d in range(m)))
        ctx.hist("con_ties_in_a_coordinate", any(len({p[d] for p in P}) < n for d in range(m)))
        return f"con {alg} {side} {k} {m} {n} {flat([ref])} {flat(P)}".rstrip()
    if kind == "ssp":
        w = r.choice([3, 4, 6, 9])
        if r.chance(1, 6):
            # more than 16 points (std::sort leaves its insertion-sort regime): pairwise distinct first
            # coordinates, see finding C13-SSP-LEXLESS for equal ones
            n = r.range(17, 40 if nmax <= 40 else 120)
            xs = list(range(base, base + 2 * n)); xs = [xs.pop(r.below(len(xs))) for _ in range(n)]
            mode = r.choice(["front", "rand"])
            P = [[x, (base + 2 * n - (x - base) + r.range(-2, 2)) if mode == "front" else base + r.below(2 * n)] for x in xs]
        else:
            n = r.range(1, 16)
            P = gen_points(r, 2, n, w, base, r.choice(["mix", "front", "dup"]))
        ref = gen_ref(r, P, 2, base, w)
        nd = len({tuple(p) for p in nondominated(P)})
        k = r.range(1, nd)
        ctx.hist("ssp_k_equals_front_size", k == nd); ctx.hist("ssp_point_on_ref_boundary", any(p[d] == ref[d] for p in P for d in range(2)))
        ctx.hist("ssp_has_dominated", nd < len({tuple(p) for p in P})); ctx.hist("ssp_has_duplicates", len({tuple(p) for p in P}) < n)
        ctx.hist("ssp_n", n if n <= 16 else ">16"); ctx.hist("ssp_k", min(k, 10)); ctx.hist("ssp_has_equal_x", len({p[0] for p in P}) < n)
        return f"ssp {k} {n} {flat([ref])} {flat(P)}"
    if kind == "hoys":
        # HypervolumeCalculatorMDHOY::stream called directly on a (possibly nested-looking) region; even point coordinates
        # (the median of two of them is an integer, so model and C++ compute the same bounds)
        m = r.choice([3, 3, 4, 4, 5]); w = r.choice([2, 3, 4, 5])
        lo = [r.range(-1, w) for _ in range(m)]; up = [lo[d] + r.range(1, 2 * w + 1 - lo[d]) for d in range(m)]
        cover = 2 * r.range(1, w + 1)
        split = 0 if r.chance(1, 2) else r.range(0, m - 2)
        P = []
        style = r.choice(["any", "any", "piles", "two"])
        for _ in range(r.choice([0, 1, 2]) if r.chance(1, 8) else r.range(3, 14)):
            if P and r.chance(1, 8): P.append(list(r.choice(P))); continue
            # coordinates: even, below `up` (the point reaches into the region), last one below `cover`
            q = [2 * r.range(min(0, (up[d] - 1) // 2), (up[d] - 1) // 2) for d in range(m - 1)] + [2 * r.range(0, cover // 2 - 1)]
            stick = [d for d in range(m - 1) if q[d] > lo[d]]
            want = {"any": None, "piles": 1, "two": 2}[style] if not r.chance(1, 5) else None
            if want is not None:
                keep = set()
                cand = list(range(m - 1))
                while cand and len(keep) < want: keep.add(cand.pop(r.below(len(cand))))
                for d in range(m - 1):
                    if d in keep and q[d] <= lo[d] and 2 * ((lo[d] // 2) + 1) < up[d]: q[d] = 2 * r.range(lo[d] // 2 + 1, (up[d] - 1) // 2)
                    if d not in keep and q[d] > lo[d]: q[d] = 2 * (lo[d] // 2) - 2 * r.below(2)
            if any(q[d] >= up[d] for d in range(m - 1)) or q[m - 1] >= cover: continue
            if sum(1 for d in range(split) if lo[d] < q[d]) >= 2: continue
            P.append(q)
        # reachable states only: an objective behind `split` has never been cut, regionLow is the minimum over all points there
        # (on other states the real `stream` and the model agree with each other but not with the definition: the
        # median collected for an earlier split objective can fall outside the region, e.g.
        # hoys 5 5 2 0 4 0 3 -1 0 5 5 10 3 6 9 2 2 2 0 0 0 4 0 2 0 4 4 0 2 0 4 2 0 0 2 2 2 0 2 2 gives 1800 instead of 1760)
        for d in range(split + 1, m - 1):
            if P: lo[d] = min(lo[d], min(p[d] for p in P))
        P.sort(key=lambda p: p[m - 1])
        n = len(P)
        sq = r.choice([0, 1, 2, 3, int(n ** 0.5)])
        ctx.hist("hoys_m", m); ctx.hist("hoys_n", n); ctx.hist("hoys_split_positive", split > 0)
        npile = sum(1 for p in P if sum(1 for d in range(m - 1) if p[d] > lo[d]) >= 2)
        ctx.hist("hoys_has_non_pile_point", npile > 0); ctx.hist("hoys_has_covering_point", any(all(p[d] <= lo[d] for d in range(m - 1)) for p in P))
        return f"hoys {m} {n} {sq} {split} {cover} {flat([lo, up])} {flat(P)}".rstrip()
    if kind in ("dca", "dcb"):
        # ndHelperA / ndHelperB of the divide-and-conquer sort called directly with preset front numbers
        m = r.choice([2, 3, 3, 4, 5]); k = r.range(2, m)
        w = r.choice([2, 3, 4])
        P = gen_points(r, m, r.range(0, 14), w, base, r.choice(["mix", "front"]))
        if kind == "dca" and k < m and not r.chance(1, 4):
            P = [p[:k] + [base] * (m - k) for p in P]          # precondition of A: equal in the objectives >= k
        P = sorted({tuple(p) for p in P}); P = [list(p) for p in P]
        if kind == "dca":
            L, H = P, []
        elif k < m and not r.chance(1, 4) and P:
            t = r.choice(P)[k]                                 # precondition of B: L not worse than H in objective k
            L = [p for p in P if p[k] <= t]; H = [p for p in P if p[k] > t]
            if r.chance(1, 2):                                 # equal in objective k is allowed across L and H
                e = [p for p in L if p[k] == t]
                if len(e) > 1: L = [p for p in L if p not in e[1:]]; H = sorted(H + e[1:])
        else:
            L = [p for p in P if r.chance(1, 2)]; H = [p for p in P if p not in L]
        frt = [r.choice([1, 1, 1, 2, 3, 4]) for _ in L] + [r.choice([1, 1, 1, 1, 2, 3]) for _ in H]
        ctx.hist(kind + "_k_m", f"k{k}/m{m}"); ctx.hist(kind + "_sizes", f"{min(len(L), 6)}/{min(len(H), 6)}")
        return f"{kind} {k} {m} {len(L)} {len(H)} {flat(L + H)} {' '.join(map(str, frt))}".replace("  ", " ").rstrip()
    raise ValueError(kind)


def prefix_family(r, line, ctx):
    """observation of intermediate sweep states through the public interface: the op on every prefix of the input in
    sweep order (third / last objective for the hypervolume sweeps, lexicographic for the sorts)"""
    d = parse_line(line)
    if d is None or len(d["P"]) < 2 or len(d["P"]) > 14: return []
    P = sorted(d["P"]) if d["op"] == "sort" else sorted(d["P"], key=lambda p: p[-1])
    out = []
    for i in range(1, len(P) + 1):
        c = dict(d); c["P"] = P[:i]
        out.append(unparse(c))
    ctx.hist("prefix_family", d["op"] + (":" + d["alg"] if d["op"] == "con" else "") + ":m" + str(d["m"]))
    return out


# ----------------------------------------------------- shrinking of one op line
def parse_line(line):
    t = line.split()
    if t and is_tok(t[0]):
        d = parse_line(" ".join(t[1:]))
        if d is not None: d["q"] = t[0]
        return d
    op = t[0]
    if op == "sort":
        m, n = int(t[1]), int(t[2]); nums = list(map(int, t[3:]))
        return dict(op=op, m=m, head=[], P=[nums[i * m:(i + 1) * m] for i in range(n)])
    if op == "hv":
        m, n = int(t[1]), int(t[2]); nums = list(map(int, t[3:]))
        return dict(op=op, m=m, ref=nums[:m], P=[nums[m + i * m:m + (i + 1) * m] for i in range(n)])
    if op == "con":
        k, m, n = int(t[3]), int(t[4]), int(t[5]); nums = list(map(int, t[6:]))
        return dict(op=op, alg=t[1], side=t[2], k=k, m=m, ref=nums[:m], P=[nums[m + i * m:m + (i + 1) * m] for i in range(n)])
    if op == "ssp":
        k, n = int(t[1]), int(t[2]); nums = list(map(int, t[3:]))
        return dict(op=op, k=k, m=2, ref=nums[:2], P=[nums[2 + 2 * i:4 + 2 * i] for i in range(n)])
    return None


def unparse(d):
    if d.get("q"):
        c = dict(d); q = c.pop("q")
        return q + " " + unparse(c)
    P = d["P"]; n = len(P)
    if d["op"] == "sort": return f"sort {d['m']} {n} {flat(P)}".rstrip()
    if d["op"] == "hv": return f"hv {d['m']} {n} {flat([d['ref']])} {flat(P)}".rstrip()
    if d["op"] == "con": return f"con {d['alg']} {d['side']} {min(d['k'], n)} {d['m']} {n} {flat([d['ref']])} {flat(P)}".rstrip()
    if d["op"] == "ssp": return f"ssp {max(1, min(d['k'], n))} {n} {flat([d['ref']])} {flat(P)}"


def shrink_line(line, fails, budget=150):
    d = parse_line(line)
    if d is None: return line
    changed = True
    while changed and budget > 0:
        changed = False
        for i in range(len(d["P"]) - 1, -1, -1):
            if d["op"] == "ssp" and len(d["P"]) <= 1: break
            c = dict(d); c["P"] = d["P"][:i] + d["P"][i + 1:]
            budget -= 1
            if fails(unparse(c)):
                d = c; changed = True
            if budget <= 0: break
        if "k" in d and d["k"] > 1 and budget > 0:
            c = dict(d); c["k"] = d["k"] - 1; budget -= 1
            if fails(unparse(c)): d = c; changed = True
    return unparse(d)


def classify(ops, res):
    op = ops[0].split()
    scale = ""; shift = ""
    if is_tok(op[0]):
        # scale class in the key: a defect that only shows at some scales is not the same finding as one at scale 1
        if op[0][0] == "e": scale = "@2^" + op[0][1:]
        if op[0][0] == "t": shift = "+shift"
        op = op[1:]
    tag = op[0] + (":" + op[1] + ":" + op[2] if op[0] == "con" else "") + (":m" + op[1] if op[0] in ("sort", "hv") else "") + scale + shift
    if res.crash and op[0] == "ssp" and "HypervolumeSubsetSelection2D::Point" in res.stderr and \
            re.search(r"std::__(unguarded_partition|introsort_loop|insertion_sort|unguarded_linear_insert)", res.stderr):
        d = parse_line(ops[0])
        a_type = {}
        for p in d["P"]:
            if p[1] - d["ref"][1] < p[0] - d["ref"][0]: a_type[p[0]] = a_type.get(p[0], 0) + 1
        if len(d["P"]) > 16 and any(c >= 2 for c in a_type.values()):
            return "C13-SSP-LEXLESS:sort-overflow:ssp", f"std::sort with the inconsistent Point::operator< left the vector on {ops}"
    if res.crash:
        m = re.search(r"SUMMARY: \w+: (\S+)[^\n]*? in (?:\w+ )*(?:shark::)?(\w+)|runtime error: ([^\n]*)", res.stderr)
        t = (f"{m.group(1)}@{m.group(2)}" if m.group(1) else m.group(3)) if m else ("timeout" if "TIMEOUT" in res.stderr else "crash")
        return f"crash:{t}:{tag}", f"harness aborted ({t}) on {ops}"
    if res.oracle:
        m = re.search(r"!oracle (\S+(?: \S+)?)", res.oracle[0])
        return f"oracle:{m.group(1).replace(' ', '-')}:{tag}", f"property oracle failed ({m.group(1)}) on {ops}"
    return f"mismatch:{tag}", f"model/spec and implementation disagree on {ops}: impl={res.impl[:1]} model={res.model[:1]}"


def correspond_lines(ctx, name, lines, hcmd, dcmd, classify=None, shrink=None, max_report=6, timeout=900):
    """every case is one op line; the batch is run through implementation and model, a sanitizer
    abort only loses the aborting line (the rest is re-run); failing lines are shrunk and reported"""
    import time
    classify = classify or globals()["classify"]; shrink = shrink or shrink_line
    t = time.time()
    ctx.count("traces_validated_against_impl", len(lines)); ctx.count("ops_compared", len(lines))
    bad, rest, rounds = [], list(lines), 0
    while rest and rounds < 12:
        rounds += 1
        big = core.run_case(ctx, hcmd, dcmd, rest, timeout=timeout)
        if big.ok: break
        k = min(len(big.impl), len(big.model), len(rest))
        for l, a, b in zip(rest[:k], big.impl, big.model):
            if "!oracle" in a or a.split(" !oracle")[0] != b: bad.append(l)
        if k < len(rest):            # output stops at line k: that op aborted (sanitizer) or hung
            bad.append(rest[k]); rest = rest[k + 1:]
        else:
            break
    if not bad:
        ctx.log(f"{name}: {len(lines)} ops agree ({time.time()-t:.1f}s)")
        return 0
    ctx.log(f"{name}: {len(bad)} of {len(lines)} ops FAIL")
    seen = set()
    for l in bad:
        first = core.run_case(ctx, hcmd, dcmd, [l], timeout=60)
        if first.ok: continue
        key0, _ = classify([l], first)
        if key0 in seen: continue
        fails = lambda x: not core.run_case(ctx, hcmd, dcmd, [x], timeout=60).ok
        small = shrink(l, fails)
        rs = core.run_case(ctx, hcmd, dcmd, [small], timeout=60)
        if rs.ok: small, rs = l, first
        key, what = classify([small], rs)
        seen.add(key0)
        if key in seen and key != key0: continue
        seen.add(key)
        b = ctx.broken("correspondence", f"{name}:{key}", what); b["resolved"] = True
        replay = {"harness_cmd": hcmd, "driver_cmd": dcmd, "ops": [small], "original_op": l,
                  "impl_output": rs.impl[-3:], "model_output": rs.model[-3:], "oracle": rs.oracle[:3],
                  "crash": rs.crash, "stderr_tail": rs.stderr[-1500:]}
        ctx.violation(key, replay, found_input=bool(rs.oracle) or rs.crash, what=what)
        if len(seen) >= 2 * max_report: break
    return len(bad)


def load_corpus():
    d = os.path.join(core.VERIF, "corpus", "C13")
    out = []
    if os.path.isdir(d):
        for fn in sorted(os.listdir(d)):
            out += [l.strip() for l in open(os.path.join(d, fn)) if l.strip() and not l.startswith("#")]
    return out


def nontrivial(line):
    d = parse_line(line)
    if d is None or len(d["P"]) < 3: return False
    P = d["P"]
    return len({tuple(p) for p in P}) < len(P) or any(len({p[c] for p in P}) < len(P) for c in range(d["m"]))


def run(ctx):
    ctx.trusted += ["correspondence harness harness/c13.cpp + generator checks/c13.py",
                    "hand-written models Model/{Pareto,Hypervolume,HV3D,HOY,DCSort,Contrib,Contrib3D,Subset2D}.lean (the C++ is modelled, not translated; "
                    "only the comparator of HypervolumeSubsetSelection2D::Point is machine-translated, translate/ssp_point_less.py)",
                    "ASan/UBSan runtime for the real code's memory safety (not a theorem)"]
    ctx.assumptions += ["points have integer coordinates (exactly representable doubles); all vectors of a call have equal dimension",
                        "the reference point is weakly dominated by every point (C++ documented precondition)",
                        "contribution queries: mutually non-dominated sets (duplicates allowed), 0 <= k <= n; subset selection: 1 <= k <= number of distinct non-dominated points"]
    translate(ctx)
    ctx.prove(["SharkVerif.Props.C13", "SharkVerif.Props.C13Tol"])
    if not ctx.quick:
        ctx.leanchecker(["SharkVerif.Props.C13", "SharkVerif.Props.C13Tol"])
    exe = build(ctx)
    drv = ctx.driver("drv_c13")
    if not exe or not drv:
        return
    lines = load_corpus()
    ctx.cov["corpus_cases"] = len(lines)
    r = ctx.rng.fork("c13")
    plan = dict(dom=60, sort=260, hv=260, con=200, ssp=120, hoys=160, dca=100, dcb=140) if ctx.quick else \
        dict(dom=300, sort=1500, hv=1500, con=1200, ssp=700, hoys=1200, dca=600, dcb=900)
    fam = {"sort": 0, "hv": 0, "con": 0}
    SCALED = ("dom", "sort", "hv", "con", "ssp"); sfam = {k: 0 for k in SCALED}
    for kind, cnt in plan.items():
        for i in range(cnt):
            nmax = 40 if ctx.quick else (300 if (kind == "sort" and i % 6 == 0) else 60)
            l = gen_case(r, kind, nmax, ctx)
            if kind in ("dom", "sort", "hv", "con", "ssp") and r.chance(1, 5) and not (kind == "sort" and "2243003" in l or "1125899" in l):
                # dyadic rational coordinates: the C++ gets every coordinate divided by a power of two
                l = f"q{r.choice([2, 4, 8, 64])} " + l; ctx.hist("rational_coordinates", kind)
            elif kind in SCALED and r.chance(1, 4):
                e = r.choice(scales_for(kind)) if r.chance(2, 3) else r.range(SSP_MIN_SCALE if kind == "ssp" else -60, 60)
                l = f"e{e} " + l; ctx.hist("scale_class_random", f"{kind}:{'neg' if e < 0 else 'pos'}")
            elif kind in ("dom", "hv", "con", "ssp") and r.chance(1, 6):
                # translation class: points and reference shifted by +-2^k (sorts: affine images up to 2^51 above)
                l = f"t{r.choice(['', '-'])}{r.choice([20, 30, 40, 45])} " + l; ctx.hist("translation_class", kind)
            elif kind in SCALED and sfam[kind] < (6 if ctx.quick else 30) and len(l) < 700 and (kind == "dom" or nontrivial(l)):
                # scale family: the same op at EVERY scale class (and unscaled)
                sfam[kind] += 1
                for e in scales_for(kind):
                    lines.append(f"e{e} " + l); ctx.hist("scale_family", f"{kind}:2^{e}")
            lines.append(l)
            # prefix families (intermediate states of the sweeps): 3-/4-objective hypervolume, 3-D contributions, sorts
            if kind in fam and fam[kind] < (12 if ctx.quick else 60):
                t = l.split()
                if (kind == "hv" and t[1] in ("3", "4")) or (kind == "con" and t[1] in ("3d", "disp") and t[4] == "3") or kind == "sort":
                    pf = prefix_family(r, l, ctx)
                    if pf: fam[kind] += 1; lines += pf
    if not ctx.quick:
        # third arm of the switch: n > 5000 goes back to the divide-and-conquer sort
        P = gen_points(r, 3, 5003, 9, 0, "mix")
        lines.append(f"sort 3 5003 {flat(P)}"); ctx.hist("sort_nds_uses", "dc(n>5000)")
    for l in lines: ctx.hist("op_mix", [t for t in l.split() if not is_tok(t)][0])
    ctx.cov["evaluations"] = len(lines)
    ctx.cov["distinct_nontrivial"] = len({l for l in lines if nontrivial(l)})
    ctx.sample({"op": lines[len(lines) // 2][:200]})
    correspond_lines(ctx, "K-C13", lines, [exe], [drv])


def replay(ctx, rep):
    exe = build(ctx); drv = ctx.driver("drv_c13")
    res = core.run_case(ctx, [exe], [drv], rep["ops"])
    print("\n".join(f"op   : {o}\nimpl : {a}\nmodel: {b}" for o, a, b in zip(rep["ops"], res.impl, res.model)))
    print("stderr:", res.stderr[-2000:])
    print("OK" if res.ok else "FAILS")
    return 0 if res.ok else 1
