"""C17 — tree-based nearest-neighbour search: theorems (Props/C17.lean) + exact
correspondence K-C17 between Model/NN.lean (driver drv_c17) and the real
KDTree/LCTree/KHCTree + IterativeNNQuery + TreeNearestNeighbors +
SimpleNearestNeighbors + NearestNeighborModel (harness/c17.cpp, ASan/UBSan)."""
import json, os, re, shutil, subprocess, sys
from vlib import core

TRUST = ("Lean 4.33 kernel; axioms at most propext/Classical.choice/Quot.sound (audited per run by #audit_module); "
         "hand-written model tied to the C++ by the correspondence harness (differential, exact, generator-bounded); ")
MANIFEST = dict(
  text=("Theorems (Props/C17.lean, 27; Gen/NNStateless.lean, 2 regenerated from the C++ per run) about executable models of the three tree constructions, of IterativeNNQuery and of "
        "NearestNeighborModel.  QUERY (trace tree with NONE/PARTIAL/COMPLETE marks, queue ordered by (distance, tie rank), squaredRadius, "
        "head pointer, nextIndex), for EVERY tree shape, every admissible lower-bound function, every query and number of next() calls: "
        "squaredRadius never exceeds the distance of a point not yet queued (radius_is_lower_bound); where every queue entry carries the true "
        "distance of its points (LeafUniform) the first k calls, every k <= n, return k distinct points with their TRUE squared distances, each "
        "minimal among the points not yet returned (next_returns_min), non-decreasing (next_distances_nondecreasing), equal to the k smallest "
        "distances of exhaustive search (tree_knn_eq_bruteforce, search_exact_of_ready); without LeafUniform the leaf queue of the C++ is wrong "
        "(witness next_wrong_without_leafuniform, k1Tree_hypotheses = finding K1) and computes exactly the search for the leaf-first distances "
        "(k1_exact_for_leaf_distance).  CONSTRUCTION, kd-tree (KDTree::buildTree, calculateCuttingDimension, BinaryTree::splitList), all data "
        "sets/dimensions/bucket sizes/depth limits: index list a permutation (indexList_perm, split_partitions); a successful split puts values "
        "strictly below the midpoint threshold left and strictly above right, both sides non-empty and smaller (split_separates); it fails iff "
        "all values are equal (split_fails_iff_all_equal); 'unsplittable' only for cells of identical points (calcCutDim_dim_uniform); the "
        "recursion terminates - any fuel >= n gives the same tree, duplicates included (kd_construction_terminates); every node's "
        "squaredDistanceLowerBound never exceeds the true distance of any point below it, for every leaf order/address ranks the real tree may "
        "have (kd_bound_admissible); END TO END for the C++ as it is: kd-tree with bucket size 1, any depth limit, any data and query, all "
        "k <= n: the reported distances are the k smallest in order - NO hypothesis on the tree left (kd_search_exact: admissibility, uniform "
        "leaves, non-empty leaves, permutation all proved from the construction).  LC-tree and KHC-tree (buildTree + calculateNormal + "
        "splitList, ideal arithmetic, every kernel, every pivot choice): permutation, strict separation at every node, no empty leaf, "
        "termination for all inputs, oversize leaves only where all projections coincide (lc_khc_construction); squaredDistanceLowerBound "
        "admissible for the Euclidean LC-tree and for the KHC-tree over the kernel (<x,y>+1)^2 - Cauchy-Schwarz in the feature space, proved "
        "for both kernels (lc_bound_admissible, khc_bound_admissible); exact search on LC/KHC trees with the leaf queue under LeafUniform "
        "(lc_khc_search_exact_leaf_queue_partial: that a bucket-1 leaf with several points holds identical points needs the maximality of "
        "the farthest pair, which is not proved - the harness checks it on every real tree).  POINT QUEUE (the validated repair of K1, "
        "findings_proposed/C17-K1.patch; the harness detects at compile time which queue the tree under test has and the driver switches the "
        "model): exact search for EVERY bucket size on kd, LC and KHC trees with no hypothesis on the tree (kd_search_exact_point_queue, "
        "lc_search_exact_point_queue, khc_search_exact_point_queue).  MODEL: votes, soft output (any distance weights) and predicted class "
        "depend only on the multiset of (distance,label) neighbours (nn_model_backend_independent); any two k-NN selections of the same data "
        "predict identically when no tie crosses the k-th boundary or all points at the k-th distance share a label "
        "(knn_prediction_determined), and otherwise the prediction is not well defined (knn_prediction_not_determined_on_ties); "
        "featureDist2_linear.  "
        "CORRESPONDENCE (exact, line by line, every run, both tiers): full query state after every next(); kd construction (the model's "
        "kdTree must equal the real tree: shape, cut dimensions, thresholds, leaf index sets; adoptKD) and every kd bound/isLeft; LC/KHC "
        "construction node by node on the real tree: the real pivot pair (read from m_normal / mep_positive, mep_negative) must be a pair of "
        "maximal distance of the cell (cells <= 25 points), the model's splitList on the scaled projections must give the real children's "
        "index sets and the real threshold (within 2^-40 of the projections' magnitude; where ideal projections tie across the real cut the "
        "rounded doubles decide and the node is counted), real leaves above the bucket size must be unsplittable; LC/KHC ideal bounds "
        "(pivTrace) against the real rounded ones (relative 2^-20) and isLeft decisions; kNN lists (distance AND label) of both back-ends, "
        "classification (uniform exact; 1/distance same IEEE operations) AND regression (NearestNeighborModel<RealVector,RealVector>, both "
        "weightings, tree back-end bit-exact, exhaustive one within 1e-12) on batches of 1-4 queries; k > n (tree throws, exhaustive pads and "
        "votes for class 0); generated integer point sets (1-6 dim; grid, collinear, duplicates with differing labels, all points equal, one "
        "varying coordinate, points on the cut value, two values; coordinates times 2^e for e in -20..30), data batches of 1/2/3/4/7/one, "
        "KDTree/LCTree/KHCTree(linear)/KHCTree((<x,y>+1)^2), bucket sizes 1-4, depth limits, k=1/k=n/1<k<n, a second tree on the same data; "
        "a slice re-run with 3 OpenMP threads.  Independent brute-force oracle in the harness (ASan/UBSan), by definition.  "
        "SCALES: every coordinate times 2^e, e in {-40,-35,-30,-25,-20,-14,-7,9,16,23,30,40}: a fifth of the generated stream plus a "
        "group in which every e gets its share on every run (kd, LC, KHC, all bucket sizes); squared distances stay exact, so the "
        "brute-force oracle demands EQUALITY with exhaustive search at every scale (a tolerance anywhere in the search is scale "
        "dependent and yields a concrete failing input), and the pruning test of IterativeNNQuery::enqueue is extracted from the C++ on "
        "every run and must be the model's pure comparison `bound >= best` (Gen/NNStateless.lean, prune_test_is_pure_comparison).  "
        "ONE CONST TREE SHARED BY THREADS (NearestNeighborModel evaluates the batches of a data set in an OpenMP loop, so this is "
        "ordinary use): op `mt` (harness/c17_mt.cpp), every run: a FRESH kd/LC/KHC/KHC-poly tree (data offset from the origin by "
        "+-2^5..2^20, spans 4-64: ties and duplicates; bucket sizes, depth limits, scales as above) is built 12 (thorough 16) times and, "
        "as its very first use, evaluated by 2-4 threads at once - alternately model(queryData) (the library's own parallel loop) and "
        "TreeNearestNeighbors::getNeighbors on all batches in a parallel loop - on query sets of 2-8 batches (half of the cases with the "
        "SAME query points in every batch so that the threads reach the same unvisited nodes together; queries inside, on data points, "
        "at the origin / mirror image); every repetition is compared with exhaustive search exactly (distances, order, labels, "
        "predictions of both back-ends; independent brute-force oracle) and with the Lean model's exhaustive search (to which the tree "
        "search is equal by the *_search_exact theorems); the same family under ThreadSanitizer (clang-14 + libomp + Archer: a race "
        "between threads on the tree / back-end / DataView is reported whether or not it changed a result); and a regenerated "
        "obligation: the tree, query, back-end, model and DataView headers contain no `mutable` member, no const_cast and no static "
        "datum (translate/nn_stateless.py -> Gen/NNStateless.lean, tree_and_query_classes_hold_no_hidden_state; reviewed exceptions in "
        "translate/nn_stateless_allow.json, none)."),
  note=TRUST + "all compared quantities are exact on the integer grid (squared distances; the reported sqrt is compared through its "
       "square with the nearest-double rule); the order std::nth_element leaves inside a range and the heap-address tie-break are "
       "adopted from the real tree (harness annotation, tools/c17_drv.py) - therefore the LC/KHC pivot pair is READ from the real node and "
       "checked to be a farthest pair instead of being predicted (with ties in the maximal distance the choice depends on that order; the "
       "theorems hold for every pivot choice), and cells of more than 25 points (sampled pivots) are checked for everything but the "
       "farthest-pair property; LC/KHC doubles are rounded: their real bounds are fed to the query model (admissibility checked per query "
       "with slack 2^-40) and compared with the ideal model's bounds. The property as stated quantifies over bucket sizes > 1, where the "
       "real code is wrong (known finding K1, reported with a replay; narrow key: only for the leaf-queue code, a tree built with "
       "maxBucketSize > 1 that has a leaf with distinct points AND whose results pass the whole brute-force oracle w.r.t. the leaf-first "
       "distances, and only where the model reproduces the output line). Open findings found in this round: NB1 (m_neighbors counts leaves: "
       "neighbors() wrong, next() beyond n reads the empty queue; probed on every run, k > n generated only on single-point leaves while "
       "open) and REG1 (regression model's setDistanceWeightType cannot be instantiated; compile probe); K1 and NB1 share the validated "
       "patch C17-K1.patch. Findings T1, R1, L1, S1, KH1 were fixed in /repo; their inputs stay in corpus/C17. "
       "Concurrency: the Lean model is sequential and pure; that the C++ search is a function of (tree, query) also when the tree is "
       "shared is established by the source inventory (token level: declarations `mutable`/const_cast/static, not writes through "
       "pointers held by the object), ThreadSanitizer and the repeated fresh-tree runs (schedule dependent: a sample of schedules, "
       "not all of them); a replay of such a failure repeats the op 5 times. In the fresh-tree family the coordinates reach 2^20 "
       "(kd) / 2^10 (LC, KHC) / 2^7 (KHC-poly) with at most 8 dimensions: squared distances stay below 2^48 and exact.",
  technique="Lean 4 invariant proof over the query state machine and structural induction over the three tree constructions (all inputs) + exact differential correspondence with the C++ (ASan/UBSan) + brute-force oracle at all power-of-two scales + fresh trees shared by OpenMP threads (brute force, ThreadSanitizer) + source-regenerated no-hidden-state / pruning-test obligations",
  design="§6 C17, §14 C17")

FINISH = dict(level="proof",
              rule="fresh-tree cases = (scale, offset point cloud, labels, tree kind/bucket/depth, k, threads, repetitions, query batches) "
                   "from a forked stream, each `mt` op = that many fresh trees each evaluated concurrently; "
                   "cases = (batch size, integer point set, labels, tree kind/bucket/depth, queries, batched knn/model calls) from one "
                   "SplitMix64 stream; every query is run for n next() calls (all k at once) and compared state by state; a case is non-trivial if n >= 4 and the tree "
                   "has inner nodes; distinct = distinct op text")

# one annotation directory per check process (several seeds may run at once)
ANNOT = os.path.join(core.CACHE, f"c17-annot-{os.getpid()}")
DRV_WRAPPER = os.path.join(core.VERIF, "tools", "c17_drv.py")
LAKE_TARGETS = ["SharkVerif.Props.C17", "SharkVerif.Gen.NNStateless", "drv_c17"]
PROP_MODULES = ["SharkVerif.Props.C17", "SharkVerif.Gen.NNStateless"]
# the searches are sequential; OpenMP worker threads of SimpleNearestNeighbors would only spin
ENV = {"OMP_NUM_THREADS": "1", "OMP_WAIT_POLICY": "passive"}


# --------------------------------------------------------------------------- generators
def gen_points(r, ctx, kind, allow_dups, big):
    dim = r.choice([1, 1, 2, 2, 2, 3, 3, 4, 5, 6])
    sizes = [1, 2, 3, 4, 5, 6, 7, 8, 10, 13, 17] + ([25, 26, 31, 40, 60] if big else [])
    n = r.choice(sizes)
    style = r.choice(["grid", "grid", "wide", "collinear", "dups", "dups", "even", "even", "cluster",
                      "all-equal", "one-coordinate-varies", "axis-plane", "two-values"])
    if not allow_dups and style in ("dups", "all-equal", "two-values"):
        style = "wide"
    pts = []
    if style == "all-equal":      # every point the same: the root cannot be split, whatever the bucket size
        c = [r.range(-9, 9) for _ in range(dim)]
        pts = [list(c) for _ in range(n)]
    elif style == "one-coordinate-varies":   # all coordinates equal except one (the kd cut dimension is forced)
        c = [r.range(-9, 9) for _ in range(dim)]
        d0 = r.below(dim)
        pts = []
        for _ in range(n):
            q = list(c); q[d0] = r.range(-6, 6); pts.append(q)
    elif style == "axis-plane":   # many points share the median coordinate of some dimension (points ON the cut value)
        d0 = r.below(dim)
        m = r.range(-3, 3)
        pts = [[(m if (d == d0 and r.chance(2, 3)) else r.range(-5, 5)) for d in range(dim)] for _ in range(n)]
    elif style == "two-values":   # two distinct points, many copies each (labels differ between copies)
        a = [r.range(-4, 4) for _ in range(dim)]
        b = list(a); b[r.below(dim)] += r.choice([-3, -1, 1, 2])
        pts = [list(r.choice([a, b])) for _ in range(n)]
    elif style == "grid":        # tiny coordinate range: many ties, equal coordinates, duplicates
        pts = [[r.range(0, 3) for _ in range(dim)] for _ in range(n)]
    elif style == "wide":
        pts = [[r.range(-50, 50) for _ in range(dim)] for _ in range(n)]
    elif style == "collinear":
        a = [r.range(-5, 5) for _ in range(dim)]
        b = [r.range(-3, 3) for _ in range(dim)]
        if all(x == 0 for x in b): b[0] = 1
        pts = [[a[d] + t * b[d] for d in range(dim)] for t in [r.range(-6, 6) for _ in range(n)]]
    elif style == "dups":
        base = [[r.range(-4, 4) for _ in range(dim)] for _ in range(r.range(1, 3))]
        pts = [list(r.choice(base)) for _ in range(n)]
    elif style == "even":      # even coordinates: thresholds (midpoints) are integers, queries can sit on split planes
        pts = [[2 * r.range(-6, 6) for _ in range(dim)] for _ in range(n)]
    else:
        c = [[r.range(-30, 30) for _ in range(dim)] for _ in range(3)]
        pts = [[x + r.range(-2, 2) for x in r.choice(c)] for _ in range(n)]
    if not allow_dups:
        seen, out = set(), []
        for p in pts:
            while tuple(p) in seen:
                p = list(p); p[r.below(dim)] += r.choice([-1, 1]) * r.range(1, 3)
            seen.add(tuple(p)); out.append(p)
        pts = out
    ctx.hist("point_style", style); ctx.hist("dim", dim); ctx.hist("n", n)
    nd = len({tuple(p) for p in pts})
    ctx.hist("has_duplicates", nd < len(pts))
    ctx.hist("distinct_points", "1" if nd == 1 else ("2" if nd == 2 else ("all" if nd == len(pts) else "some-duplicates")))
    return dim, pts


def gen_query(r, ctx, dim, pts):
    x = r.below(100)
    if x < 20:
        q = list(r.choice(pts)); tag = "data-point"
    elif x < 40:    # midpoint of two data points (on a split plane for even data)
        a, b = r.choice(pts), r.choice(pts)
        q = [(a[d] + b[d]) // 2 for d in range(dim)]; tag = "midpoint"
    elif x < 55:
        q = [r.choice([-1000, 1000, 777, -2000]) for _ in range(dim)]; tag = "far-outside"
    elif x < 65:    # far in one coordinate only
        q = list(r.choice(pts)); q[r.below(dim)] = r.choice([-500, 500]); tag = "far-one-axis"
    else:
        lo = min(min(p) for p in pts) - 2; hi = max(max(p) for p in pts) + 2
        q = [r.range(lo, hi) for _ in range(dim)]; tag = "near"
    ctx.hist("query_style", tag)
    return q


def gen_k(r, ctx, n, pts, labels, beyond=False):
    x = r.below(100)
    if beyond and x < 6:
        k = n + r.range(1, 3)          # outside the property's quantifier: tree back-end throws, exhaustive one pads
    elif x < 25:
        k = n
    elif x < 40:
        k = 1
    else:
        k = r.range(1, n)
    ctx.hist("k_over_n", "k>n" if k > n else ("k=n" if k == n else ("k=1" if k == 1 else "1<k<n")))
    return k


ROOT_LEAF_OK = True
# may next() be called more than n times on a tree with multi-point leaves?  (finding NB1: the guard "No more
# neighbors available" counts leaves, the call reads the empty queue)
BEYOND_N_OK = False


# every coordinate times 2^e: squared distances (<= 2^28 grid units) stay exact for all of these, so the brute-force
# oracle demands equality with exhaustive search at every scale (a tolerance anywhere in the search is scale dependent)
SCALES = [-40, -35, -30, -25, -20, -14, -7, 9, 16, 23, 30, 40]


def gen_case(r, ctx, kinds, allow_lc_dups, big, buckets, scales=None):
    kind = r.choice(kinds)
    bucket = r.choice(buckets)
    allow_dups = kind == "kd" or allow_lc_dups
    while True:
        dim, pts = gen_points(r, ctx, kind, allow_dups, big)
        n = len(pts)
        root_leaf = n <= max(bucket, 1) or len({tuple(p) for p in pts}) == 1
        if ROOT_LEAF_OK or not root_leaf:
            break
    ctx.hist("root_is_leaf", root_leaf)
    ops = []
    # huge / tiny magnitudes: all coordinates times 2^e (every squared distance stays exact); not for the
    # polynomial kernel, whose offset 1 does not scale
    if scales is not None and kind != "khcp":
        e = r.choice(scales)
    else:
        e = r.choice(SCALES) if (kind != "khcp" and r.chance(1, 5)) else 0
    ops.append(f"scale {e}")
    ctx.hist("coordinate_scale_2^e", e)
    if r.chance(1, 3):      # batch structure of the data set (default: batches of 3)
        b = r.choice([1, 2, 4, 7, 1000])
        ops.append(f"batch {b}")
        ctx.hist("batch_size", b)
    else:
        ops.append("batch 0")
    ops.append(f"data {dim} {n} " + " ".join(str(x) for p in pts for x in p))
    nc = r.range(2, 4)          # at least two classes (a one-column Classifier output is thresholded instead of arg-maxed)
    labels = [r.below(nc) for _ in range(n)]
    labels[r.below(n)] = nc - 1
    ops.append("labels " + " ".join(str(l) for l in labels))
    bylab = {}
    for pt, l in zip(pts, labels):
        bylab.setdefault(tuple(pt), set()).add(l)
    ctx.hist("duplicates_with_different_labels", any(len(v) > 1 for v in bylab.values()))
    depth = r.choice([0, 0, 0, 1, 2, 3, 5])
    ops.append(f"build {kind} {depth} {bucket}")
    ctx.hist("tree_kind", kind); ctx.hist("bucket", bucket); ctx.hist("max_depth", depth)
    for _ in range(r.range(2, 4)):
        ops.append("query " + " ".join(str(x) for x in gen_query(r, ctx, dim, pts)))
    # getNeighbors / eval are called on BATCHES of 1-4 query points (one op = one call)
    # k > n only where the real code is defined: every leaf holds one point (or finding NB1 is repaired)
    beyond = BEYOND_N_OK or (bucket <= 1 and len({tuple(p) for p in pts}) == n)
    for _ in range(r.range(1, 3)):
        k = gen_k(r, ctx, n, pts, labels, beyond=beyond)
        m = r.choice([1, 1, 2, 3, 4])
        ops.append(f"knn {k} 0 " + " ".join(str(x) for _ in range(m) for x in gen_query(r, ctx, dim, pts)))
        ctx.hist("batch_rows", m)
    for _ in range(r.range(1, 3)):
        k = gen_k(r, ctx, n, pts, labels, beyond=beyond)
        m = r.choice([1, 1, 2, 3, 4])
        w = r.below(2)
        ops.append(f"model {k} {w} " + " ".join(str(x) for _ in range(m) for x in gen_query(r, ctx, dim, pts)))
        ctx.hist("batch_rows", m); ctx.hist("model_op", "classification," + ("1/distance" if w else "uniform"))
    if r.chance(1, 2):      # regression model (RealVector labels) with both back-ends
        k = gen_k(r, ctx, n, pts, labels)
        m = r.choice([1, 1, 2, 3])
        w = r.below(2)
        ops.append(f"reg {k} {w} " + " ".join(str(x) for _ in range(m) for x in gen_query(r, ctx, dim, pts)))
        ctx.hist("batch_rows", m); ctx.hist("model_op", "regression," + ("1/distance" if w else "uniform"))
    if r.chance(1, 4):   # a second tree over the same data (object reuse: same data set, new tree, new queries)
        kind2 = r.choice([k2 for k2 in kinds if k2 != "khcp" or e == 0]); b2 = r.choice(buckets)
        if (kind2 == "kd" or allow_dups) and (ROOT_LEAF_OK or n > max(b2, 1)):
            ops.append(f"build {kind2} {r.choice([0, 2])} {b2}")
            ops.append("query " + " ".join(str(x) for x in gen_query(r, ctx, dim, pts)))
            k = gen_k(r, ctx, n, pts, labels)
            ops.append(f"knn {k} 0 " + " ".join(str(x) for x in gen_query(r, ctx, dim, pts)))
            ctx.hist("second_tree_on_same_data", kind2)
    return ops


# --------------------------------------------------------------------------- classification
def oracle_keys(line):
    return re.findall(r"!oracle (\S+)", line)


def _known_res():
    try:
        data = json.load(open(os.path.join(core.VERIF, "known_findings.json")))
    except OSError:
        return []
    return [re.compile(e["key"]) for e in data.get("findings", [])
            if e.get("property") == "C17" and e.get("status", "open") == "open"]


KNOWN_RES = _known_res()


def is_known(key):
    return any(rx.fullmatch(key) for rx in KNOWN_RES)


def classify(ops, res):
    kinds = "+".join(sorted({o.split()[1] for o in ops if o.startswith(("build ", "mt "))}))
    if res.crash:
        # (the tail of stderr is kept: ASan's SUMMARY line survives a long recursion trace)
        m = re.search(r"(?:ERROR|SUMMARY): AddressSanitizer: (\S+)|runtime error: ([^\n]*)", res.stderr)
        tag = (m.group(1) or m.group(2)) if m else "crash"
        dup = False
        for o in ops:
            if o.startswith("data "):
                t = o.split(); d, n = int(t[1]), int(t[2])
                pts = [tuple(t[3 + i * d: 3 + (i + 1) * d]) for i in range(n)]
                dup = len(set(pts)) < n
        if "downcast" in res.stderr and "TraceLeaf" in res.stderr:
            return "R1:root-is-leaf:bad-downcast", f"IterativeNNQuery casts the root TraceNode of a single-leaf tree to TraceLeaf (UBSan/ASan); ops {ops}"
        if tag == "stack-overflow" and dup and ("lc" in kinds or "khc" in kinds):
            return f"L1:lc-khc-duplicate-points:{tag}", f"LCTree/KHCTree construction does not terminate on duplicate points ({tag}); ops {ops}"
        return f"crash:{tag}:{kinds}", f"harness aborted ({tag}) on ops {ops}"
    if res.oracle:
        keys = [k for l in res.oracle for k in oracle_keys(l)]
        # a key that is NOT a listed finding names the case (a listed one must never hide it)
        fresh = [k for k in keys if not is_known(k)]
        if fresh:
            return fresh[0], f"property oracle failed ({', '.join(sorted(set(keys)))}) on ops {ops}"
        if res.diff_at is not None and res.diff_at < len(res.impl) and res.diff_at < len(res.model):
            # only listed findings fire, but the implementation ALSO deviates from the model, which reproduces the
            # listed defect exactly (next_wrong_without_leafuniform): something else is wrong
            return (f"mismatch-beyond-known-finding:{kinds}",
                    f"model and implementation disagree at line {res.diff_at} beyond the listed finding(s) {sorted(set(keys))} on ops {ops}")
        return keys[0], f"property oracle failed ({', '.join(sorted(set(keys)))}) on ops {ops}"
    return f"mismatch:{kinds}", f"model and implementation disagree at line {res.diff_at} of ops {ops}"


def load_corpus():
    d = os.path.join(core.VERIF, "corpus", "C17")
    out = []
    if os.path.isdir(d):
        for fn in sorted(os.listdir(d)):
            ops = [l.strip() for l in open(os.path.join(d, fn)) if l.strip() and not l.startswith("#")]
            if ops: out.append((fn, ops))
    return out


def nontrivial(ops):
    t = [o for o in ops if o.startswith("data ")][0].split()
    return int(t[2]) >= 4


# finding REG1: the regression model's setDistanceWeightType / getDistanceWeightType cannot be instantiated
def reg_probe(ctx):
    src = os.path.join(core.VERIF, "harness", "c17_regprobe.cpp")
    cmd = ["g++", "-std=c++11", "-w", "-fsyntax-only", "-DNDEBUG", "-I" + ctx.shark_h(),
           "-I" + os.path.join(core.REPO, "include"), src]
    p = subprocess.run(cmd, stdout=subprocess.PIPE, stderr=subprocess.PIPE, text=True)
    ok = p.returncode == 0
    ctx.cov["regression_model_weight_setter_instantiable"] = ok
    if not ok:
        errs = [l for l in p.stderr.splitlines() if "error" in l][:3]
        key = ("REG1:regression-model-setDistanceWeightType-not-instantiable"
               if any("decisionFunction" in l for l in errs) else "regprobe-does-not-compile")
        ctx.violation(key, {"cmd": cmd, "errors": errs}, found_input=True,
                      what="NearestNeighborModel<RealVector,RealVector>::setDistanceWeightType does not compile: " + " | ".join(errs))


def drv_stats(ctx):
    """statistics the Lean driver printed on stderr (collected by tools/c17_drv.py)"""
    path = os.path.join(ANNOT, "stats.txt")
    tot = {}
    if os.path.exists(path):
        for l in open(path):
            t = l.split()
            if t[:1] == ["STAT"]:
                for k, v in zip(t[1::2], t[2::2]):
                    tot[k] = tot.get(k, 0) + int(v)
    for k, v in tot.items():
        ctx.cov[k] = v


# --------------------------------------------------------------------------- correspondence with known-finding pre-pass
def correspond(ctx, name, cases, hcmd, dcmd, ENV=ENV):
    """One batched run; cases whose ONLY failures are oracle tags of known findings (and whose
    model/implementation lines otherwise agree) are reported once per finding (KNOWN-FINDING) and
    counted; every other failing case goes through core.correspond (isolation, shrinking, VIOLATION)."""
    seen, uniq = set(), []
    for c in cases:
        k = "\n".join(c)
        if k not in seen:
            seen.add(k); uniq.append(c)
    cases = uniq
    all_ops = [l for c in cases for l in c]
    big = core.run_case(ctx, hcmd, dcmd, all_ops, env=ENV, timeout=1800)
    if big.ok:
        ctx.count("traces_validated_against_impl", len(cases)); ctx.count("ops_compared", len(all_ops))
        ctx.log(f"{name}: {len(cases)} cases / {len(all_ops)} ops agree")
        return 0
    if big.crash or len(big.impl) != len(all_ops) or len(big.model) != len(all_ops):
        return core.correspond(ctx, name, cases, hcmd, dcmd, classify, env=ENV, keep_prefix=4)
    rest, pos, nknown = [], 0, 0
    for c in cases:
        impl, model = big.impl[pos:pos + len(c)], big.model[pos:pos + len(c)]
        pos += len(c)
        bad, knownkeys = False, []
        for a, b in zip(impl, model):
            keys = oracle_keys(a)
            fs = [ctx.known(k) for k in keys]
            if any(f is None for f in fs):
                bad = True; break
            if a.split(" !oracle")[0] != b and not any(f.get("model_is_spec") for f in fs):
                bad = True; break
            knownkeys += keys
        if bad:
            rest.append(c)
        elif knownkeys:
            nknown += 1
            for k in sorted(set(knownkeys)):
                f = ctx.known(k)
                ctx.hist("known_finding_cases", f["id"])
                if f["id"] not in ctx.known_hits:
                    ctx.violation(k, {"harness_cmd": hcmd, "driver_cmd": dcmd, "ops": c, "impl_output": impl[-6:],
                                      "model_output": model[-6:]}, found_input=True, what=f"known finding {f['id']} on ops {c}")
    ctx.count("traces_validated_against_impl", len(cases) - len(rest)); ctx.count("ops_compared", len(all_ops))
    ctx.log(f"{name}: {len(cases)} cases, {nknown} hit only known findings, {len(rest)} need isolation")
    if rest:
        # isolation + shrinking is expensive: a dozen failing cases are enough to name the failure
        ctx.cov["failing_cases_" + name] = len(rest)
        return core.correspond(ctx, name + "[isolate]", rest[:12], hcmd, dcmd, classify, env=ENV, keep_prefix=4)
    return 0


def _suffix():
    return "" if core.REPO == "/repo" else "-" + core.sha(core.REPO)[:8]


def translate(ctx):
    return ctx.translate("nn_stateless.py")


def build(ctx):
    # one cached binary per repo tree (scratch worktrees via VERIF_REPO do not evict the /repo build)
    from concurrent.futures import ThreadPoolExecutor
    with ThreadPoolExecutor(max_workers=3) as ex:
        f1 = ex.submit(ctx.harness, "c17" + _suffix(), ["c17.cpp"])
        f2 = ex.submit(ctx.harness, "c17_mt" + _suffix(), ["c17_mt.cpp"])
        f3 = ex.submit(build_tsan, ctx)
        exe, mt = f1.result(), f2.result()
        try:
            tsan = f3.result()
        except Exception as e:
            ctx.log(f"tsan build failed: {e}"); tsan = None
    ctx._c17_mt = (mt, tsan)
    return exe


C17_HEADERS = ["include/shark/Models/Trees", "include/shark/Algorithms/NearestNeighbors", "include/shark/Models/NearestNeighborModel.h",
               "include/shark/Models/AbstractModel.h", "include/shark/Models/Classifier.h", "include/shark/Data/Dataset.h",
               "include/shark/Data/DataView.h", "include/shark/Core/OpenMP.h"]


def build_tsan(ctx):
    """harness/c17_mt.cpp with clang-14 -fsanitize=thread + libomp + Archer (the recipe of checks/c20.py); keyed by the
    harness source and the state of the checked tree"""
    inc = ctx.shark_h()
    exe = os.path.join(core.CACHE, "bin", "c17_mt_tsan" + _suffix())
    os.makedirs(os.path.dirname(exe), exist_ok=True)
    src = os.path.join(core.VERIF, "harness", "c17_mt.cpp")
    git = lambda *a: subprocess.run(["git", "-C", core.REPO, *a], capture_output=True, text=True).stdout
    key = core.sha(core.file_sha(src) + core.file_sha(os.path.join(core.VERIF, "harness", "common.hpp")) +
                   git("rev-parse", "HEAD") + git("status", "--porcelain", "--untracked-files=no") + git("diff"))
    kf = exe + ".key"
    if os.path.exists(exe) and os.path.exists(kf) and open(kf).read() == key:
        return exe
    cmd = ["clang++-14", "-std=c++14", "-O1", "-g", "-DNDEBUG", "-w", "-fopenmp", "-fsanitize=thread",
           "-I" + inc, "-I" + os.path.join(core.REPO, "include"), "-I" + os.path.join(core.VERIF, "harness"),
           src, "-o", exe, "-lboost_serialization", "-lboost_system", "-lopenblas"]
    rc, out = core.sh(cmd, timeout=1800)
    if rc != 0:
        ctx.log("TSan build failed:\n" + out[-3000:])
        ctx.broken("harness-build", "c17_mt_tsan", out[-2000:])
        return None
    open(kf, "w").write(key)
    return exe


# --------------------------------------------------------------------------- fresh tree shared by threads
def gen_mt_case(r, ctx, kinds, reps, tag="mt"):
    """one data set (integer grid cloud OFFSET from the origin by large dyadic values, so that a bound computed from
    anything but the cell is far off), one `mt` op: `reps` fresh trees, each evaluated at once by T >= 2 threads on a
    query data set of several batches.  Half of the cases give every batch the SAME query points, so that the threads
    reach the same (not yet visited) nodes of the fresh tree at the same time."""
    kind = r.choice(kinds)
    dim = r.choice([1, 2, 2, 3, 3, 5, 8] if kind != "khcp" else [1, 2, 3, 4])
    n = r.choice([24, 40, 64, 64, 96, 128, 160])
    maxoff = {"kd": 20, "lc": 10, "khc": 10, "khcp": 5}[kind]
    off = [r.choice([-1, 1]) * (1 << r.range(maxoff // 2, maxoff)) for _ in range(dim)]
    if r.chance(1, 6): off = [0] * dim
    span = r.choice([4, 16, 64, 64])          # small span: many ties and duplicates
    pts = [[off[d] + r.range(0, span - 1) for d in range(dim)] for _ in range(n)]
    e = r.choice(SCALES + [0, 0, 0, 0]) if kind != "khcp" else 0
    nc = r.range(2, 4)
    labels = [r.below(nc) for _ in range(n)]; labels[r.below(n)] = nc - 1
    T = r.choice([2, 2, 3, 4])
    qb = r.choice([1, 2, 4, 6])                 # query points per batch
    nbat = T * r.choice([1, 1, 2])              # >= 2 batches, at least one per thread
    def q():
        x = r.below(10)
        if x < 6: return [off[d] + r.range(-3, span + 2) for d in range(dim)]
        if x < 8: return list(r.choice(pts))
        return [r.choice([0, -off[d], 3 * off[d] + 1]) for d in range(dim)]      # far outside (the origin, the mirror image)
    aligned = r.chance(1, 2)
    base = [q() for _ in range(qb)]
    qs = []
    for b in range(nbat):
        qs += base if aligned else [q() for _ in range(qb)]
    bucket = r.choice([1, 1, 1, 0, 2, 4]); depth = r.choice([0, 0, 0, 3, 6])
    k = r.choice([1, 1, 2, 3, 5, n if n <= 40 else 7])
    ctx.hist(tag + "_tree_kind", kind); ctx.hist(tag + "_threads", T); ctx.hist(tag + "_query_batches", nbat)
    ctx.hist(tag + "_same_queries_in_every_batch", aligned); ctx.hist(tag + "_scale_2^e", e)
    ctx.hist(tag + "_offset_log2", max((abs(o).bit_length() - 1 if o else 0) for o in off)); ctx.hist(tag + "_bucket", bucket)
    ctx.count(tag + "_fresh_trees", reps)
    return [f"scale {e}", f"batch {r.choice([0, 0, 1, 7, 1000])}", f"data {dim} {n} " + " ".join(str(x) for p in pts for x in p),
            "labels " + " ".join(map(str, labels)),
            f"mt {kind} {depth} {bucket} {k} {T} {reps} {qb} " + " ".join(str(x) for p in qs for x in p)]


MT_ENV = {"OMP_WAIT_POLICY": "active", "GOMP_SPINCOUNT": "100000", "OMP_DYNAMIC": "false"}


def run_mt(ctx, name, cases, hcmd, dcmd, env=MT_ENV):
    """the fresh-tree family: one run of harness and driver over all cases; a failing case is reported from THIS run
    (a race does not repeat on demand: no isolation / shrinking re-runs)"""
    all_ops = [l for c in cases for l in c]
    big = core.run_case(ctx, hcmd, dcmd, all_ops, env=env, timeout=1800)
    ctx.count("traces_validated_against_impl", len(cases)); ctx.count("ops_compared", len(all_ops))
    if big.ok:
        ctx.log(f"{name}: {len(cases)} cases / {len(all_ops)} ops agree")
        return 0
    if big.crash or len(big.impl) != len(all_ops) or len(big.model) != len(all_ops):
        return core.correspond(ctx, name, cases, hcmd, dcmd, classify, env=env, keep_prefix=4)
    pos, seen, nbad = 0, set(), 0
    for c in cases:
        impl, model = big.impl[pos:pos + len(c)], big.model[pos:pos + len(c)]
        pos += len(c)
        res = core.CaseResult()
        res.impl, res.model = impl, model
        res.oracle = [l for l in impl if "!oracle" in l]
        res.diff_at = core.Ctx.first_diff([l.split(" !oracle")[0] for l in impl], model)
        if not res.oracle and res.diff_at is None:
            continue
        nbad += 1
        key, what = classify(c, res)
        if key in seen or len(seen) >= 4:
            continue
        seen.add(key)
        b = ctx.broken("correspondence", f"{name}:{key}", what); b["resolved"] = True
        ctx.violation(key, {"harness_cmd": hcmd, "driver_cmd": dcmd, "ops": c, "impl_output": impl[-3:], "model_output": model[-3:],
                            "first_diff_line": res.diff_at, "oracle": res.oracle[:5], "env": env,
                            "note": "concurrent use of a fresh tree: the failure depends on the thread schedule; replay repeats the op"},
                      found_input=bool(res.oracle), what=what)
    ctx.log(f"{name}: {nbad} of {len(cases)} cases FAIL")
    return nbad


def run_tsan(ctx, tsan, cases):
    env = dict(os.environ)
    env.update({"TSAN_OPTIONS": "ignore_noninstrumented_modules=1 halt_on_error=0 exitcode=0", "OMP_NUM_THREADS": "4"})
    ops = [l for c in cases for l in c]
    try:
        p = subprocess.run([tsan], input="\n".join(ops) + "\n", capture_output=True, text=True, errors="replace", env=env, timeout=1500)
    except subprocess.TimeoutExpired:
        ctx.broken("tsan", "c17_mt_tsan", "timeout"); return
    races = re.findall(r"WARNING: ThreadSanitizer: data race.*?(?=\n=+\n|\Z)", p.stderr, flags=re.S)
    ctx.cov["tsan_reports"] = len(races); ctx.cov["tsan_cases"] = len(cases)
    lines = p.stdout.splitlines()
    if p.returncode != 0 or len(lines) != len(ops):
        ctx.violation("crash:c17_mt_tsan", {"harness_cmd": [tsan], "ops": ops[-5:], "stderr": p.stderr[-2000:]}, True,
                      "ThreadSanitizer build of the fresh-tree family crashed")
    sites = set()
    for rep in races:
        fr = re.findall(r"#\d+ .*? (/[^\s:]+):(\d+)(?::\d+)? \(", rep)
        inrepo = [(f, ln) for f, ln in fr if f.startswith(os.path.abspath(core.REPO) + "/")]
        site = next((f"{os.path.relpath(f, os.path.abspath(core.REPO))}:{ln}" for f, ln in inrepo), None) or "outside-the-repo-tree"
        if site in sites or len(sites) >= 3:
            continue
        sites.add(site)
        ctx.violation(f"tsan:{site}", {"harness_cmd": [tsan], "ops": ops, "env": {"TSAN_OPTIONS": env["TSAN_OPTIONS"], "OMP_NUM_THREADS": "4"},
                                       "report": rep[:3000], "tsan": True}, True,
                      f"ThreadSanitizer: data race at {site} while several threads query one const tree")
    for i, l in enumerate(lines):
        if "!oracle" in l:
            ctx.violation(oracle_keys(l)[0], {"harness_cmd": [tsan], "ops": ops, "line": l, "tsan": True}, True,
                          f"property oracle failed under the ThreadSanitizer build: {l[-200:]}")
            break
    ctx.log(f"K-C17[fresh tree, TSan]: {len(cases)} cases, {len(races)} race reports")
    return len(races)


R1_PROBE = [["data 1 1 2", "labels 1", "build kd 0 1", "query 1"],
            ["data 2 3 1 1 1 1 1 1", "labels 0 1 1", "build kd 0 1", "query 0 0", "knn 2 0 3 3"]]
L1_PROBE = [["data 2 3 1 1 1 1 5 5", "labels 0 0 1", "build lc 0 1", "query 0 0"],
            ["data 1 4 7 7 3 9", "labels 0 0 1 1", "build khc 0 1", "query 1"]]


# next() beyond the last point on a tree whose leaf holds two copies of one point (finding NB1): k = 3 > n = 2
NB1_PROBE = [["data 1 2 5 5", "labels 0 1", "build kd 0 1", "knn 3 0 4"]]


# kernel-induced metric: 2 points, the Euclidean-nearest of the query is not the kernel-nearest (finding KH1)
KH1_PROBE = [["data 1 2 -3 2", "labels 0 1", "build khcp 0 1", "query -1", "knn 1 0 -1", "model 1 0 -1"]]


def run(ctx):
    ctx.trusted += ["correspondence harness harness/c17.cpp + harness/c17_mt.cpp + generator checks/c17.py + tools/c17_drv.py",
                    "translator translate/nn_stateless.py (token-level scan shared with translate/par_regions.py); clang-14 ThreadSanitizer + libomp + Archer",
                    "hand-written model Model/NN.lean (TreeNearestNeighbors.h, KDTree.h, LCTree.h, KHCTree.h, BinaryTree.h, NearestNeighborModel.h are modelled, not translated)",
                    "leaf order, node address ranks and the LC/KHC pivot pairs are read from the real tree; LC/KHC real (rounded) lower bounds drive the query model (checked for admissibility per query and against the ideal model's bounds)",
                    "ASan/UBSan runtime for the real code's memory safety (not a theorem)"]
    ctx.assumptions += ["integer coordinates (|x| <= 2000, <= 6 dimensions; fresh-tree family: |x| <= 2^20 + 64, <= 8 dimensions) times 2^e, |e| <= 40: all squared distances and kd bounds are exact in double",
                        "shared-tree use is sampled: 2-4 OpenMP threads, the schedules that occur in the repetitions; ThreadSanitizer's happens-before analysis of those runs",
                        "next() is called at most n times per query (the C++ precondition)",
                        "kd_search_exact needs no hypothesis on the tree; LC/KHC theorems are about ideal arithmetic (the C++ rounds), their leaf-queue version assumes LeafUniform (checked on every real tree by the harness)",
                        "points and query have the same number of coordinates"]
    translate(ctx)
    ctx.prove(PROP_MODULES)
    if not ctx.quick:
        ctx.leanchecker(PROP_MODULES)
    exe = build(ctx)
    mt_exe, tsan_exe = getattr(ctx, "_c17_mt", (None, None))
    drv = ctx.driver("drv_c17")
    if not exe or not drv:
        return
    shutil.rmtree(ANNOT, ignore_errors=True)
    os.makedirs(ANNOT, exist_ok=True)
    hcmd = [exe, ANNOT]
    dcmd = [sys.executable, DRV_WRAPPER, drv, ANNOT]
    r = ctx.rng.fork("c17")
    reg_probe(ctx)

    # corpus first (each file one case)
    corpus = load_corpus()
    ctx.cov["corpus_cases"] = len(corpus)
    if corpus:
        correspond(ctx, "K-C17[corpus]", [c for _, c in corpus], hcmd, dcmd)

    # does LCTree/KHCTree survive duplicate points on this tree? (finding L1)
    res = [core.run_case(ctx, hcmd, dcmd, c, env=ENV) for c in L1_PROBE]
    lc_dups_ok = all(x.ok for x in res)
    ctx.cov["lc_khc_duplicates_generated"] = lc_dups_ok
    if not lc_dups_ok:
        core.correspond(ctx, "K-C17[L1-probe]", L1_PROBE, hcmd, dcmd, classify, env=ENV, keep_prefix=4)

    # does a KHCTree over a non-linear kernel search in the kernel's metric? (finding KH1)  While it does not,
    # the generated stream keeps the kernel-based trees on the linear kernel (where both metrics coincide)
    res = [core.run_case(ctx, hcmd, dcmd, c, env=ENV) for c in KH1_PROBE]
    khcp_ok = all(x.ok for x in res)
    ctx.cov["nonlinear_kernel_trees_generated"] = khcp_ok
    if not khcp_ok:
        correspond(ctx, "K-C17[KH1-probe]", KH1_PROBE, hcmd, dcmd)

    # does IterativeNNQuery survive a tree whose root is a leaf? (finding R1)
    res = [core.run_case(ctx, hcmd, dcmd, c, env=ENV) for c in R1_PROBE]
    root_leaf_ok = not any(x.crash for x in res)
    ctx.cov["root_leaf_trees_generated"] = root_leaf_ok
    if not all(x.ok for x in res):
        correspond(ctx, "K-C17[R1-probe]", R1_PROBE, hcmd, dcmd) if root_leaf_ok else \
            core.correspond(ctx, "K-C17[R1-probe]", R1_PROBE, hcmd, dcmd, classify, env=ENV, keep_prefix=4)
    global ROOT_LEAF_OK, BEYOND_N_OK
    ROOT_LEAF_OK = root_leaf_ok

    # is the end-of-data guard of next() effective on multi-point leaves? (finding NB1)
    res = [core.run_case(ctx, hcmd, dcmd, c, env=ENV) for c in NB1_PROBE]
    BEYOND_N_OK = all(x.ok for x in res)
    ctx.cov["k_beyond_n_generated_on_multi_point_leaves"] = BEYOND_N_OK
    if not BEYOND_N_OK:
        x = res[0]
        if x.crash and "getNextPoint" in x.stderr and "AddressSanitizer" in x.stderr:
            ctx.violation("NB1:neighbors-counts-leaves:next-beyond-n-reads-empty-queue",
                          {"harness_cmd": hcmd, "driver_cmd": dcmd, "ops": NB1_PROBE[0], "stderr": x.stderr[-1500:]},
                          found_input=True, what=f"IterativeNNQuery::next() beyond the last point reads the empty queue on ops {NB1_PROBE[0]}")
        else:
            core.correspond(ctx, "K-C17[NB1-probe]", NB1_PROBE, hcmd, dcmd, classify, env=ENV, keep_prefix=4)

    # ---- a FRESH tree shared by >= 2 threads (model(dataset) / getNeighbors on several batches at once), every run
    kinds_all = ["lc", "khc", "khcp"] if khcp_ok else ["lc", "khc"]
    rm = ctx.rng.fork("c17mt")
    if mt_exe:
        nM, reps = (48, 12) if ctx.quick else (400, 16)
        mt_cases = [gen_mt_case(rm, ctx, ["kd", "kd", "kd"] + kinds_all, reps) for _ in range(nM)]
        ctx.cov["fresh_tree_concurrent_cases"] = len(mt_cases)
        ctx.sample({"fresh_tree_op": [o[:160] for o in mt_cases[0]]})
        run_mt(ctx, "K-C17[fresh tree, >= 2 threads]", mt_cases, [mt_exe], [drv])
    if tsan_exe:
        ts_cases = [gen_mt_case(rm, ctx, ["kd", "kd"] + kinds_all, 3, tag="tsan") for _ in range(6 if ctx.quick else 40)]
        run_tsan(ctx, tsan_exe, ts_cases)

    nA, nB, nC, nS = (2000, 500, 1000, 360) if ctx.quick else (16000, 4000, 8000, 3600)
    groups = [
        ("kd,bucket=1", [gen_case(r, ctx, ["kd"], lc_dups_ok, True, [1, 1, 1, 0]) for _ in range(nA)]),
        ("kd,bucket>1", [gen_case(r, ctx, ["kd"], lc_dups_ok, True, [2, 3, 4]) for _ in range(nB)]),
        ("lc+khc", [gen_case(r, ctx, kinds_all, lc_dups_ok, True, [1, 1, 0, 2, 3, 4])
                    for _ in range(nC)]),
        # every scale 2^e of the list gets its share of cases on every run (all tree kinds, all bucket sizes); squared
        # distances stay exact, so the brute-force oracle applies unchanged
        ("scaled 2^e", [gen_case(r, ctx, ["kd", "kd", "lc", "khc"], lc_dups_ok, True, [1, 1, 0, 2, 3, 4], scales=[SCALES[i % len(SCALES)]])
                        for i in range(nS)]),
    ]
    allcases = [c for _, cs in groups for c in cs]
    ctx.cov["evaluations"] = len(allcases) + len(corpus)
    ctx.cov["distinct_nontrivial"] = len({"\n".join(c) for c in allcases if nontrivial(c)})
    ctx.cov["queries"] = sum(1 for c in allcases for o in c if o.split()[0] in ("query", "knn", "model", "reg"))
    ctx.sample({"ops": allcases[len(allcases) // 2][:6]})
    for gname, cs in groups:
        correspond(ctx, f"K-C17[{gname}]", cs, hcmd, dcmd)
    # the exhaustive-search back-end keeps one heap per OpenMP thread and merges them: a slice of every group again
    # with 3 threads (the tree back-end is sequential; all observations are thread-count independent)
    nT = 150 if ctx.quick else 1000
    mt = [c for _, cs in groups for c in cs[:nT]]
    ctx.cov["cases_rerun_with_3_threads"] = len(mt)
    correspond(ctx, "K-C17[3 threads]", mt, hcmd, dcmd, ENV=dict(ENV, OMP_NUM_THREADS="3"))
    drv_stats(ctx)
    shutil.rmtree(ANNOT, ignore_errors=True)
    # a broken generated obligation (hidden state in the shared classes / a changed pruning test) for which the run
    # produced a concrete failing input is reported through that input
    if any(found for _, found in ctx.violations):
        for b in ctx.breaks:
            if "NNStateless" in b["name"]:
                b["resolved"] = True
    ctx.sample({"theorems": ["radius_is_lower_bound", "next_returns_min", "next_distances_nondecreasing",
                             "tree_knn_eq_bruteforce", "search_exact_of_ready", "next_wrong_without_leafuniform", "k1Tree_hypotheses",
                             "k1_exact_for_leaf_distance", "indexList_perm", "split_partitions", "split_separates",
                             "split_fails_iff_all_equal", "calcCutDim_dim_uniform", "kd_construction_terminates",
                             "kd_bound_admissible", "kd_search_exact", "kd_search_exact_point_queue", "lc_khc_construction",
                             "lc_bound_admissible", "khc_bound_admissible", "lc_search_exact_point_queue",
                             "khc_search_exact_point_queue", "lc_khc_search_exact_leaf_queue_partial", "featureDist2_linear",
                             "nn_model_backend_independent", "knn_prediction_determined",
                             "knn_prediction_not_determined_on_ties"]})


def replay(ctx, rep):
    exe = build(ctx); drv = ctx.driver("drv_c17")
    mt_exe, tsan_exe = getattr(ctx, "_c17_mt", (None, None))
    if rep.get("tsan"):
        n = run_tsan(ctx, tsan_exe, [rep["ops"]])
        print("FAILS" if (n or ctx.violations) else "OK")
        return 1 if (n or ctx.violations) else 0
    if any(o.startswith("mt ") for o in rep["ops"]):
        # schedule dependent: repeat the op a few times
        bad = 0
        for _ in range(5):
            res = core.run_case(ctx, [mt_exe], [drv], rep["ops"], env=rep.get("env") or MT_ENV)
            bad += 0 if res.ok else 1
        print("\n".join(f"impl : {a[:300]}\nmodel: {b[:300]}" for a, b in zip(res.impl, res.model)))
        print(f"FAILS in {bad} of 5 runs" if bad else "OK")
        return 1 if bad else 0
    os.makedirs(ANNOT, exist_ok=True)
    res = core.run_case(ctx, [exe, ANNOT], [sys.executable, DRV_WRAPPER, drv, ANNOT], rep["ops"], env=ENV)
    print("\n".join(f"impl : {a}\nmodel: {b}" for a, b in zip(res.impl, res.model)))
    print("stderr:", res.stderr[-2000:])
    print("OK" if res.ok else "FAILS")
    return 0 if res.ok else 1
