"""Class-level interpreter of remora's rewrite-rule table (as parsed by translate/remora_rules.py).

Given the expression *classes* of the operands it predicts the class of the expression an
optimiser returns (or that the combination cannot be instantiated), by running the `create`
bodies of the parsed table on class values.  The K-C01 generator uses it to know which
proxy-of-expression / product combinations exist in the library, so that generated programs
exercise the rewrite rules and never contain statements that cannot compile.

class values:  ("dense",)  |  (head, (kid classes...), flag)
"""


class Unsupported(Exception):
    pass


DENSE = ("dense",)
# role of every template argument of an expression class: kid index, 'flag', or '-' (ignored)
TEMPLATE_ROLES = {
    "vector_scalar_multiply": [0], "scalar_vector": ["-", "-"], "unit_vector": ["-", "-"],
    "vector_unary": [0, "-"], "vector_addition": [0, 1], "vector_binary": [0, 1, "-"], "vector_concat": [0, 1],
    "matrix_vector_prod": [0, 1], "matrix_row_transform": [0, "-", "-"],
    "matrix_scalar_multiply": [0], "matrix_addition": [0, 1], "vector_repeater": [0, "flag"],
    "scalar_matrix": ["-", "-", "-"], "matrix_unary": [0, "-"], "matrix_binary": [0, 1, "-"],
    "outer_product": [0, 1], "matrix_matrix_prod": [0, 1], "diagonal_matrix": [0],
    "matrix_concat": [0, 1, "flag"], "vector_set": [0, "flag"],
}
# optimisers that dense.hpp specialises for containers / dense proxies
DENSE_PROXIES = {"vector_range_optimizer", "matrix_transpose_optimizer", "matrix_row_optimizer",
                 "matrix_diagonal_optimizer", "matrix_range_optimizer", "matrix_rows_optimizer"}


def negate(flag):
    return {"row_major": "column_major", "column_major": "row_major", "true": "false", "false": "true"}[flag]


class ClassCalc:
    def __init__(self, table):
        self.classes = table["classes"]
        self.opt_sorts = table["optimizers"]
        self.rules = {}
        self.table_rules = table["rules"]
        for r in table["rules"]:
            self.rules.setdefault(r["opt"], []).append(r)
        self.fired = {}

    def rules_in_order(self):
        return list(self.table_rules)

    # ---- pattern matching
    def match(self, pat, cls, tparams, bind):
        """returns specificity (number of class heads matched) or None"""
        _, head, targs, tail = pat
        if head in tparams and not targs:
            bind[head] = cls
            return 0
        if head not in TEMPLATE_ROLES:
            return None
        if cls is None or cls == DENSE or cls[0] != head:
            return None
        score = 1
        roles = TEMPLATE_ROLES[head]
        for role, ta in zip(roles, targs):
            if role == "-":
                continue
            if role == "flag":
                if ta[1] in tparams:
                    bind[ta[1]] = cls[2]
                elif ta[1] != cls[2]:
                    return None
                else:
                    score += 1
            else:
                s = self.match(ta, cls[1][role], tparams, bind)
                if s is None:
                    return None
                score += s
        return score

    def apply(self, opt, args):
        """class of `opt<...>::create(args)`; args: class values, None for scalars/sizes"""
        nexpr = sum(1 for s in self.opt_sorts[opt] if s in ("V", "M", "W"))
        best, default = [], None
        for r in self.rules.get(opt, []):
            ast = r["ast"]
            if ast["pattern"] is None:
                default = r
                continue
            bind, score, ok = {}, 0, True
            for k, pat in enumerate(ast["pattern"][:nexpr]):
                s = self.match(pat, args[k], ast["tparams"], bind)
                if s is None:
                    ok = False
                    break
                score += s
            if ok and score > 0:
                best.append((score, r, bind))
        if best:
            top = max(b[0] for b in best)
            cands = [b for b in best if b[0] == top]
            if len(cands) > 1:
                raise Unsupported(f"ambiguous specialisations of {opt}")
            _, r, bind = cands[0]
            if r["status"] != "translated":
                raise Unsupported(f"{r['name']} is uninstantiable")
            self.fired[r["name"]] = self.fired.get(r["name"], 0) + 1
            return self.run(r, args, bind)
        if default is not None:
            bind = {}
            for k, tp in enumerate(default["ast"]["tparams"][:nexpr]):
                bind[tp] = args[k]
            self.fired[default["name"]] = self.fired.get(default["name"], 0) + 1
            return self.run(default, args, bind)
        if opt in DENSE_PROXIES and args[0] == DENSE:
            return DENSE
        raise Unsupported(f"no specialisation of {opt} for {args[0][0] if args[0] else args[0]}")

    # ---- running a create body on class values
    def run(self, r, args, bind):
        ast = r["ast"]
        env = {}
        for k, pn in enumerate(ast["params"]):
            if pn is not None and k < len(args):
                env[pn] = args[k]
        for st in ast["stmts"]:
            if st[0] == "let":
                env[st[1]] = self.ev(st[2], env, ast, bind)
            elif st[0] == "return":
                return self.ev(st[1], env, ast, bind)
        raise Unsupported("no return")

    def resolve(self, ty, ast, depth=0):
        _, head, targs, tail = ty
        if head in ast["typedefs"] and not targs and depth < 20:
            return self.resolve(ast["typedefs"][head], ast, depth + 1)
        return ty

    def flag(self, ty, bind):
        _, head, targs, tail = ty
        if head.startswith("!"):
            return negate(self.flag(["T", head[1:], targs, tail], bind))
        if head.endswith("::transposed_orientation"):
            return negate(self.flag(["T", head[:-len("::transposed_orientation")], targs, ""], bind))
        if tail == "::transposed_orientation":
            return negate(self.flag(["T", head, targs, ""], bind))
        if head in ("row_major", "column_major", "true", "false"):
            return head
        if head in bind:
            return bind[head]
        raise Unsupported(f"flag {head}")

    def ev(self, e, env, ast, bind):
        k = e[0]
        if k == "name":
            return env.get(e[1])
        if k == "member":
            o = self.ev(e[1], env, ast, bind)
            if isinstance(o, tuple) and o != DENSE and o[0] in self.classes:
                kid = 0
                for (a, srt) in self.classes[o[0]]:
                    if a.startswith("@"):
                        continue
                    if srt in ("V", "M"):
                        if a == e[2]:
                            return o[1][kid]
                        kid += 1
            return None
        if k == "call":
            f, cargs = e[1], e[2]
            if f[0] == "name" and f[1] not in env:
                n = f[1]
                vals = [self.ev(a, env, ast, bind) for a in cargs]
                if n.endswith("::create"):
                    t = self.resolve(["T", n[:-len("::create")], [], ""], ast)
                    if t[1] not in self.opt_sorts:
                        raise Unsupported(f"{n}: not an optimiser")
                    return self.apply(t[1], vals)
                if n in ast["typedefs"] or n == "type":
                    t = self.resolve(["T", n, [], ""], ast)
                    head = t[1]
                    if head in TEMPLATE_ROLES:
                        kids = tuple(v for v, (a, srt) in zip(
                            vals, [(a, s) for a, s in self.classes[head] if not a.startswith("@")]) if srt in ("V", "M"))
                        fl = None
                        if "flag" in TEMPLATE_ROLES[head]:
                            fl = self.flag(t[2][TEMPLATE_ROLES[head].index("flag")], bind)
                        return (head, kids, fl)
                return None
            o = self.ev(f, env, ast, bind)
            if not cargs:
                return o
            return None
        return None


# ---- the public functions of vector_expression.hpp / matrix_expression.hpp / proxy_expressions.hpp
class Api:
    def __init__(self, calc):
        self.c = calc

    def smul(self, x): return self.c.apply("vector_scalar_multiply_optimizer", [x, None])
    def msmul(self, x): return self.c.apply("matrix_scalar_multiply_optimizer", [x, None])
    def add(self, a, b): return ("vector_addition", (a, b), None)
    def madd(self, a, b): return ("matrix_addition", (a, b), None)
    def sub(self, a, b): return self.add(a, self.smul(b))
    def msub(self, a, b): return self.madd(a, self.msmul(b))
    def un(self, x): return self.c.apply("vector_unary_optimizer", [x, None])
    def mun(self, x): return self.c.apply("matrix_unary_optimizer", [x, None])
    def bin(self, a, b): return ("vector_binary", (a, b), None)
    def mbin(self, a, b): return ("matrix_binary", (a, b), None)
    def cvec(self): return ("scalar_vector", (), None)
    def unit(self): return ("unit_vector", (), None)
    def cmat(self): return ("scalar_matrix", (), None)
    def concat(self, a, b): return ("vector_concat", (a, b), None)
    def trans(self, m): return self.c.apply("matrix_transpose_optimizer", [m])
    def mv(self, m, v): return self.c.apply("matrix_vector_prod_optimizer", [m, v])
    def vm(self, v, m): return self.mv(self.trans(m), v)
    def mm(self, a, b): return self.c.apply("matrix_matrix_prod_optimizer", [a, b])
    def range(self, x): return self.c.apply("vector_range_optimizer", [x, None, None])
    def row(self, m): return self.c.apply("matrix_row_optimizer", [m, None])
    def col(self, m): return self.row(self.trans(m))
    def diag(self, m): return self.c.apply("matrix_diagonal_optimizer", [m])
    def mrange(self, m): return self.c.apply("matrix_range_optimizer", [m, None, None, None, None])
    def rows(self, m): return self.c.apply("matrix_rows_optimizer", [m, None, None])
    def cols(self, m): return self.trans(self.rows(self.trans(m)))
    def outer(self, u, v): return ("outer_product", (u, v), None)
    def repeat(self, v): return ("vector_repeater", (v,), "row_major")
    def diagm(self, v): return ("diagonal_matrix", (v,), None)
    def concatr(self, a, b): return ("matrix_concat", (a, b), "true")
    def concatb(self, a, b): return ("matrix_concat", (a, b), "false")
    def sumrows(self, m): return self.c.apply("fold_vector_set_optimizer", [("vector_set", (m,), "row_major"), None, None])
    def sumcols(self, m): return self.c.apply("fold_vector_set_optimizer", [("vector_set", (m,), "column_major"), None, None])
