"""C18 — serialization round trips: translator T3 (translate/serial_fields.py ->
Gen/SerialData.lean + Gen/Serial.lean, regenerated on every run), theorems
(Props/C18.lean) and correspondence K-C18 (harness/c18.cpp, c18_opt.cpp: real
objects through polymorphic text and binary archives)."""
import os, re
from vlib import core

TRUST = ("Lean 4.33 kernel; axioms at most propext/Classical.choice/Quot.sound (audited per run); "
         "translator translate/serial_fields.py (regex/brace parser of the C++ read/write pairs; members by Shark's "
         "m_/mp_/mep_/mpe_ naming) is trusted to render the source faithfully; ")
MANIFEST = dict(
  text=("Regenerated on every run from ALL hand-written read/write pairs (68) and serialize templates (42) under include/ and "
        "src/: per class the ordered lists of archived expressions of read and of write and the data members. Theorems "
        "(Gen/Serial.lean, Props/C18.lean): for every class read and write archive the same expressions in the same order with "
        "the ISerializable signatures, and every data member is archived or on a reviewed allow-list with a reason "
        "(closed by decide on the generated lists); a generic hand-proved lemma turns this into 'reading what was written "
        "restores every archived expression, for every state and every fresh object' (read_write_id, class_roundtrip, "
        "behaviour_preserved, optimizer_continues); dataset codecs (dense, sparse, labelled; any batch structure incl. empty "
        "and single-element) decode what they encode (dataset_roundtrip_*). The correspondence round-trips real instances "
        "(models, kernels incl. ModelKernel, kernel expansions with kernel, normalizer, datasets, eight optimizers after k "
        "steps) through polymorphic text and binary archives and compares behaviour exactly."),
  note=TRUST + "boost.serialization (tokens <-> bytes, pointer tracking) is not modelled; that a member's value determines behaviour "
       "the way the C++ uses it is exercised by the harness on the instantiated classes only (~25 of 108 classes); "
       "allow-list entries marked NOTED-unprobed (RBM layers, DropoutLayer, CMAChromosome::m_lastZ, PenalizingEvaluator) are not claimed.",
  technique="Lean 4 proof over field lists regenerated from the C++ by a translator + differential round-trip harness (ASan/UBSan)",
  design="§6 C18, §4 T3")

FINISH = dict(level="proof",
              rule="datasets: kind x archive format x dimension x batch-size lists (incl. no batch, empty batches, single element) "
                   "from one SplitMix64 stream; objects: every harness label x {text, binary} (optimizers after k in 0..4 (thorough: up to 25) steps); "
                   "non-trivial = dataset with >= 2 batches or any object case; distinct = distinct op text")

LAKE_TARGETS = ["SharkVerif.Props.C18", "drv_c18"]

# harness label -> classes whose generated obligations the prediction rests on
OBJECTS = {
    "LinearModel-offset": "LinearModel", "LinearModel-nooffset": "LinearModel",
    "Normalizer": "Normalizer", "LinearClassifier": "Classifier,LinearModel", "LinearModel-float": "LinearModel",
    "RBFLayer": "RBFLayer",
    "ConcatenatedModel": "ConcatenatedModel,LinearModel", "ConcatenatedModel-frozen-layer": "ConcatenatedModel,LinearModel",
    "GaussianRbfKernel": "GaussianRbfKernel", "GaussianRbfKernel-unconstrained": "GaussianRbfKernel",
    "LinearKernel": "LinearKernel", "PolynomialKernel": "PolynomialKernel", "MonomialKernel": "MonomialKernel",
    "ARDKernel": "ARDKernelUnconstrained", "ScaledKernel": "ScaledKernel,GaussianRbfKernel",
    "NormalizedKernel": "AbstractMetric", "WeightedSumKernel": "WeightedSumKernel,GaussianRbfKernel,PolynomialKernel",
    "ProductKernel": "ProductKernel,GaussianRbfKernel,PolynomialKernel",
    "ModelKernel": "ModelKernel,ModelKernelImpl,GaussianRbfKernel,LinearModel",
    "KernelExpansion-offset": "KernelExpansion,GaussianRbfKernel,Data",
    "KernelExpansion-nooffset": "KernelExpansion,GaussianRbfKernel,Data",
    "KernelExpansion-single-basis": "KernelExpansion,GaussianRbfKernel,Data",
}
OPTIMIZERS = {
    "SteepestDescent": "SteepestDescent", "Rprop": "Rprop", "Adam": "Adam",
    "BFGS": "BFGS,AbstractLineSearchOptimizer,LineSearch", "LBFGS": "LBFGS,AbstractLineSearchOptimizer,LineSearch",
    "CG": "CG,AbstractLineSearchOptimizer,LineSearch", "TrustRegionNewton": "TrustRegionNewton", "CMA": "CMA",
}


def gen_ds(r, ctx=None):
    kind = r.choice(["dense", "sparse", "dense-cls", "sparse-cls", "dense-reg"])
    fmt = r.choice(["text", "binary"])
    dim = r.choice([0, 1, 1, 2, 3, 5, 8])
    shape = r.below(10)
    if shape == 0: bs = []
    elif shape == 1: bs = [1]
    elif shape == 2: bs = [0]
    elif shape == 3: bs = [r.range(1, 6)]
    else: bs = [r.choice([0, 1, 1, 2, 3, 4, 7]) for _ in range(r.range(2, 6))]
    if ctx:
        ctx.hist("ds_kind", kind); ctx.hist("archive_format", fmt); ctx.hist("ds_batches", len(bs))
        ctx.hist("ds_elements", sum(bs)); ctx.hist("ds_dim", dim)
    return f"ds {kind} {fmt} {dim} {r.below(50)} " + " ".join(map(str, bs))


def object_ops(ctx=None, warm=(0, 1, 2, 4)):
    ops = []
    for fmt in ("text", "binary"):
        for lab, cls in OBJECTS.items():
            ops.append(f"obj {lab} {fmt} {cls}")
        for lab, cls in OPTIMIZERS.items():
            for k in warm:
                ops.append(f"obj {lab}-after-{k} {fmt} {cls}")
    if ctx:
        for o in ops: ctx.hist("object_class", o.split()[1].split("-")[0])
    return ops


def load_corpus():
    d = os.path.join(core.VERIF, "corpus", "C18")
    out = []
    if os.path.isdir(d):
        for fn in sorted(os.listdir(d)):
            if fn.endswith(".txt"):
                out += [[l.strip()] for l in open(os.path.join(d, fn)) if l.strip() and not l.startswith("#")]
    return out


FINDING_OF = {"ModelKernel": "F7-ModelKernel-read-signature",
              "ConcatenatedModel": "F10-ConcatenatedModel-read-into-copy"}


def classify(ops, res):
    t = ops[-1].split()
    base = t[1].split("-")[0] if t[0] == "obj" else t[1]
    feat = FINDING_OF.get(base, base)
    what_in = " ".join(t[:8])
    if res.crash:
        m = re.search(r"(?:ERROR|SUMMARY): AddressSanitizer: (\S+)|runtime error: ([^\n]*)", res.stderr)
        tag = (m.group(1) or m.group(2)) if m else "crash"
        tag = re.sub(r"0x[0-9a-f]+", "ADDR", tag)[:60].replace(" ", "_")
        return f"{t[0]}:{feat}:crash:{tag}", f"round trip aborted ({tag}) on `{what_in}`"
    if res.oracle:
        m = re.search(r"!oracle (\S+)", res.oracle[0])
        return f"{t[0]}:{feat}:oracle:{m.group(1)}", f"restored object differs ({m.group(1)}) on `{what_in}`: {res.impl[-1][:400]}"
    return f"{t[0]}:{feat}:mismatch", f"model and implementation disagree on `{what_in}`: impl={res.impl[-1:]} model={res.model[-1:]}"


# a mis-synchronised archive makes boost read garbage sizes: bound what one allocation / the process may take
ENV = {"ASAN_OPTIONS": "detect_leaks=0:abort_on_error=0:max_allocation_size_mb=512:hard_rss_limit_mb=3000"}


def translate(ctx):
    return ctx.translate("serial_fields.py")


def build(ctx):
    return ctx.harness("c18", ["c18.cpp", "c18_opt.cpp"], flags=["-I" + core.REPO])


def run(ctx):
    ctx.trusted += ["translator translate/serial_fields.py + reviewed allow-list translate/serial_transient.json",
                    "correspondence harness harness/c18.cpp, c18_opt.cpp + generator checks/c18.py",
                    "boost.serialization, libstdc++: exercised under ASan/UBSan, not modelled"]
    ctx.assumptions += ["the fresh object is of the same type, wired to equivalent external objects (kernels, sub-models, objective "
                        "function via init()) and configured by the same constructor arguments — allow-list categories external/config",
                        "optimizer state is restored into an optimizer that was init()-ialised on the same objective from another point"]
    translate(ctx)
    ctx.prove(["SharkVerif.Gen.Serial", "SharkVerif.Props.C18"])
    if not ctx.quick:
        ctx.leanchecker(["SharkVerif.Props.C18"])
    exe = build(ctx)
    drv = ctx.driver("drv_c18")
    if not exe or not drv:
        return
    nds = 300 if ctx.quick else 20000
    cases = load_corpus()
    ctx.cov["corpus_cases"] = len(cases)
    r = ctx.rng.fork("c18")
    cases += [[o] for o in object_ops(ctx, (0, 1, 2, 4) if ctx.quick else (0, 1, 2, 3, 4, 7, 12, 25))]
    cases += [[gen_ds(r, ctx)] for _ in range(nds)]
    ctx.cov["evaluations"] = len(cases)
    ctx.cov["distinct_nontrivial"] = len({c[0] for c in cases if c[0].startswith("obj") or len(c[0].split()) >= 7})
    ctx.sample({"ops": [cases[0][0], cases[len(cases) // 2][0], cases[-1][0]]})
    core.correspond(ctx, "K-C18", cases, [exe], [drv], classify, env=ENV, keep_prefix=0, max_report=8, timeout=900)


def replay(ctx, rep):
    translate(ctx)
    exe = build(ctx); drv = ctx.driver("drv_c18")
    res = core.run_case(ctx, [exe], [drv], rep["ops"], env=rep.get("env") or ENV)
    print("\n".join(f"impl : {a}\nmodel: {b}" for a, b in zip(res.impl, res.model)))
    print("stderr:", res.stderr[-2000:])
    print("OK" if res.ok else "FAILS")
    return 0 if res.ok else 1
