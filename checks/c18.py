"""C18 — serialization round trips: translator T3 (translate/serial_fields.py ->
Gen/SerialData.lean + Gen/Serial.lean, regenerated on every run), theorems
(Props/C18.lean) and correspondence K-C18 (harness/c18.cpp, c18_opt.cpp: real
objects through polymorphic text and binary archives)."""
import os, re
from vlib import core

TRUST = ("Lean 4.33 kernel; axioms at most propext/Classical.choice/Quot.sound (audited per run); "
         "translator translate/serial_fields.py (regex/brace parser of the C++ read/write pairs; members by Shark's "
         "m_/mp_/mep_/mpe_ naming) is trusted to render the source faithfully; ")
MANIFEST = dict(
  text=("Regenerated on every run from ALL hand-written read/write pairs (68) and serialize templates (42) under include/ and src/: "
        "per class the ordered archived expressions of read and of write, the data members, the members mentioned by the behaviour "
        "functions (eval, operator(), parameterVector, numberOfParameters, step, inputShape, outputShape and the methods they call), "
        "the members rebuilt by read, the class family; and token codecs of the container classes (MatrixStorage, compressed_matrix, "
        "Shape, SharedContainer, Data, LabeledData, BaseWeightedDataset) built from the field lists and declared member types. "
        "Theorems (Gen/Serial.lean, Gen/SerialCodec.lean, Props/C18.lean): per class read and write archive the same expressions in "
        "the same order with the ISerializable signatures; every data member is archived or on a reviewed allow-list; every member a "
        "behaviour function reads is archived, rebuilt by read or allow-listed with a reason (dep_<Class>); hence reading what was "
        "written restores every archived expression for every state and every target object, used or not (read_write_id, "
        "class_roundtrip, read_overwrites_stale, read_twice_idem, rewrite_same_archive), behaviour functions agree when the target "
        "agrees on the unarchived dependency keys only (family_behaviour_preserved), optimizers continue identically after a restore "
        "at every step index (optimizer_continues_every_index); every generated container encoder decodes what it encodes followed "
        "by any rest, for all sizes incl. no batch / empty batches / single elements (Codec law; dense/sparse/labelled/weighted "
        "dataset token theorems), remora::vector and remora::matrix load correctly into ANY old object (vecLoad_roundtrip, "
        "matLoad_roundtrip). The correspondence compares the payload token stream of the real write (recording archive) with the "
        "generated encoder token by token, and runs 72 of the 108 classes (all dataset kinds incl. weighted and DataView-converted, "
        "21 model classes incl. trainer-produced, 13 kernel classes incl. composites, kernel expansions dense/sparse/composite, "
        "all 22 optimizer and all 19 operator classes, result sets, decompositions, compressed vectors; optimizers after every step "
        "index 0..6 (thorough 0..25)) through write -> read into a used target -> read another state -> read twice -> second "
        "generation -> byte-equal rewritten archive, in polymorphic text and binary archives — 100 of the 109 classes. "
        "Object sharing: several objects that share batch objects in ONE archive (labels = inputs, a data set and its copy, a "
        "subset, a set appended to itself, two labelled sets with the same inputs; dense and sparse; text and binary) are modelled "
        "with pointer identity (writePtrs/readPtrs/writeConts/readConts: an object is written once, later occurrences are back "
        "references) and proved to round-trip with values AND sharing pattern preserved for every sharing pattern "
        "(readPtrs_writePtrs, shared_values, shared_identity, readConts_writeConts); the recording archive emits the pointer tokens "
        "and the streams are compared. The dependency lists of 23 classes are cross-checked against clang's AST member references. "
        "If the translator rejects the source or an obligation breaks, the harness still runs alone with its oracle (core.oracle_only)."),
  note=TRUST + "boost.serialization (bytes, pointer tracking, its bookkeeping tokens) is not modelled; the type table CODEC_CLASSES (which "
       "codec a C++ member type denotes) and the three pinned serialize bodies (vector, matrix, compressed_matrix_impl: modelled by "
       "hand, pinned by text) are reviewed knowledge; that a member's VALUE determines behaviour the way the C++ uses it is exercised "
       "by the harness on the 100 round-tripped classes only. Not round-tripped (9): AbstractModel (abstract base, empty default read/write, "
       "reached through every model); CSvmDerivative (read/write deliberately empty: a cache over an external KernelExpansion, not "
       "serializable by design); triangular_matrix (its header includes a file that does not exist: cannot be compiled); "
       "OptimizationTrainer (archives nothing of its own, only external pointers to loss/optimizer/stopping criterion); "
       "BipolarLayer, GaussianTaskKernel + MultiTaskSample, MklKernelWrapper, ResultTable: constructible, not brought in for lack "
       "of time (BipolarLayer is field-for-field BinaryLayer without base rate; the MKL/multi-task kernels need tuple/dataset rigs). "
       "Pointer tracking of boost is modelled for objects saved through pointers only (by-value tracked std::vectors get no id token; "
       "a by-value back reference shows up as token R and never occurs in an intact tree); "
       "allow-list entries marked NOTED-unprobed (BinaryLayer::m_baseRate, DropoutLayer, CMAChromosome::m_lastZ) are not claimed.",
  technique="Lean 4 proof over field lists, dependency lists and token codecs regenerated from the C++ by a translator + differential "
            "round-trip harness with a token-recording archive (ASan/UBSan)",
  design="§6 C18, §4 T3, §14")

FINISH = dict(level="proof",
              rule="datasets: every kind x {text, binary} x 7 boundary batch structures, then kind x format x dimension x batch-size lists "
                   "from one SplitMix64 stream; vectors into used vectors; std wrappers; objects: every harness label x {text, binary} "
                   "(optimizers after every k in 0..6 (thorough: 0..25) steps); "
                   "non-trivial = dataset with >= 2 batches or any object case; distinct = distinct op text")

LAKE_TARGETS = ["SharkVerif.Props.C18", "drv_c18"]

# harness label -> classes whose generated obligations the prediction rests on
DATA = "Data,SharedContainer,Shape"
OBJECTS = {
    # models, normaliser
    "LinearModel-offset": "LinearModel,Shape,matrix,vector", "LinearModel-nooffset": "LinearModel", "LinearModel-float": "LinearModel",
    "Normalizer": "Normalizer", "Normalizer-nooffset": "Normalizer", "LinearClassifier": "Classifier,LinearModel",
    "ConcatenatedModel": "ConcatenatedModel,LinearModel", "ConcatenatedModel-frozen-layer": "ConcatenatedModel,LinearModel",
    "ConcatenatedModel-nested": "ConcatenatedModel,LinearModel",
    "RBFLayer": "RBFLayer", "Conv2DModel": "Conv2DModel", "Conv2DModel-valid": "Conv2DModel", "PoolingLayer": "PoolingLayer",
    "ResizeLayer": "ResizeLayer", "NeuronLayer": "NeuronLayer", "DropoutLayer": "DropoutLayer", "CMACMap": "CMACMap",
    "CARTree-classifier": "CARTree,Node", "CARTree-regression": "CARTree,Node",
    "Centroids": "Centroids," + DATA, "Centroids-kmeans": "Centroids," + DATA,
    "HardClusteringModel": "ClusteringModel,AbstractClustering,Centroids", "SoftClusteringModel": "ClusteringModel,AbstractClustering,Centroids",
    "NearestNeighborModel": "BaseNearestNeighbor", "Ensemble": "EnsembleImpl,LinearModel",
    "BinaryRBM": "RBM,BinaryLayer", "GaussianBinaryRBM": "RBM,GaussianLayer,BinaryLayer",
    "BinaryRBM-baserate": "RBM,BinaryLayer", "OneVersusOneClassifier": "OneVersusOneClassifier,Classifier,LinearModel",
    # containers, result sets, operators, grid searches (serializable on their own)
    "compressed_vector": "compressed_vector,BaseSparseVector,VectorStorage",
    "cholesky_decomposition": "cholesky_decomposition,matrix", "symm_eigenvalue_decomposition": "symm_eigenvalue_decomposition,matrix,vector",
    "KeyValuePair": "KeyValuePair", "ResultSet": "ResultSet", "ValidatedSingleObjectiveResultSet": "ValidatedSingleObjectiveResultSet,ResultSet",
    "TypedFlags": "TypedFlags", "MultiNomialDistribution": "MultiNomialDistribution",
    "AdditiveEpsilonIndicator": "AdditiveEpsilonIndicator", "CrowdingDistance": "CrowdingDistance", "NSGA3Indicator": "NSGA3Indicator",
    "HypervolumeCalculator": "HypervolumeCalculator,HypervolumeApproximator",
    "HypervolumeContribution": "HypervolumeContribution,HypervolumeContributionApproximator",
    "BitflipMutator": "BitflipMutator", "UniformCrossover": "UniformCrossover", "UniformCrossover-default": "UniformCrossover", "PartiallyMappedCrossover": "PartiallyMappedCrossover",
    "GridSearch": "GridSearch", "NestedGridSearch": "NestedGridSearch", "PointSearch": "PointSearch",
    # trainer-produced models
    "trained-Normalizer": "Normalizer", "trained-LDA": "Classifier,LinearModel", "trained-LinearRegression": "LinearModel",
    # kernels
    "GaussianRbfKernel": "GaussianRbfKernel", "GaussianRbfKernel-unconstrained": "GaussianRbfKernel",
    "LinearKernel": "LinearKernel", "PolynomialKernel": "PolynomialKernel", "MonomialKernel": "MonomialKernel",
    "ARDKernel": "ARDKernelUnconstrained", "ARDKernel-resized": "ARDKernelUnconstrained", "ScaledKernel": "ScaledKernel,GaussianRbfKernel",
    "NormalizedKernel": "AbstractMetric", "WeightedSumKernel": "WeightedSumKernel,GaussianRbfKernel,PolynomialKernel",
    "WeightedSumKernel-of-composites": "WeightedSumKernel,ScaledKernel,ProductKernel,GaussianRbfKernel,PolynomialKernel",
    "ProductKernel": "ProductKernel,GaussianRbfKernel,PolynomialKernel",
    "ModelKernel": "ModelKernel,ModelKernelImpl,GaussianRbfKernel,LinearModel",
    "DiscreteKernel": "DiscreteKernel", "SubrangeKernel": "SubrangeKernelWrapper,WeightedSumKernel,GaussianRbfKernel,PolynomialKernel",
    # kernel expansions with their kernel
    "KernelExpansion-offset": "KernelExpansion,GaussianRbfKernel," + DATA,
    "KernelExpansion-nooffset": "KernelExpansion,GaussianRbfKernel," + DATA,
    "KernelExpansion-single-basis": "KernelExpansion,GaussianRbfKernel," + DATA,
    "KernelExpansion-composite-kernel": "KernelExpansion,WeightedSumKernel,GaussianRbfKernel,PolynomialKernel," + DATA,
    "KernelExpansion-sparse": "KernelExpansion,LinearKernel,compressed_matrix,compressed_matrix_impl,MatrixStorage," + DATA,
    "KernelClassifier": "Classifier,KernelExpansion,GaussianRbfKernel," + DATA,
}
LS = ",AbstractLineSearchOptimizer,LineSearch"
OPTIMIZERS = {
    "SteepestDescent": "SteepestDescent", "Rprop": "Rprop", "Adam": "Adam",
    "BFGS": "BFGS" + LS, "LBFGS": "LBFGS" + LS, "CG": "CG" + LS, "TrustRegionNewton": "TrustRegionNewton",
    "CMA": "CMA,MultiVariateNormalDistribution", "CMSA": "CMSA,MultiVariateNormalDistribution",
    "ElitistCMA": "ElitistCMA,Individual,CMAChromosome,MultiVariateNormalDistributionCholesky",
    "CrossEntropyMethod": "CrossEntropyMethod", "SimplexDownhill": "SimplexDownhill",
    "MOCMA": "IndicatorBasedMOCMA,Individual,CMAChromosome,IndicatorBasedSelection,HypervolumeIndicator,PenalizingEvaluator",
    "SteadyStateMOCMA": "IndicatorBasedSteadyStateMOCMA,Individual,CMAChromosome,IndicatorBasedSelection,HypervolumeIndicator",
    "SMSEMOA": "SMSEMOA,Individual,IndicatorBasedSelection,HypervolumeIndicator,SimulatedBinaryCrossover,PolynomialMutator",
    "RealCodedNSGAII": "IndicatorBasedRealCodedNSGAII,Individual,IndicatorBasedSelection,SimulatedBinaryCrossover,PolynomialMutator",
    "MOEAD": "MOEAD,Individual,SimulatedBinaryCrossover,PolynomialMutator",
    "RVEA": "RVEA,Individual,SimulatedBinaryCrossover,PolynomialMutator,ReferenceVectorGuidedSelection,ReferenceVectorAdaptation",
}
# classes reached only when a compile probe succeeds (open findings while it fails)
PROBED = {"MOEAD": "MOEAD_RVEA", "RVEA": "MOEAD_RVEA"}
DS_KINDS = {"dense": DATA + ",matrix", "sparse": DATA + ",compressed_matrix,compressed_matrix_impl,MatrixStorage",
            "sparse-loose": DATA + ",compressed_matrix", "dense-cls": "LabeledData,vector," + DATA, "sparse-cls": "LabeledData," + DATA,
            "dense-reg": "LabeledData," + DATA, "dense-w": "BaseWeightedDataset," + DATA, "sparse-cls-w": "BaseWeightedDataset,LabeledData," + DATA,
            "dense-view": DATA}


def gen_ds(r, ctx=None, kind=None):
    kind = kind or r.choice(list(DS_KINDS))
    fmt = r.choice(["text", "binary"])
    dim = r.choice([0, 1, 1, 2, 3, 5, 8])
    shape = r.below(10)
    if shape == 0: bs = []
    elif shape == 1: bs = [1]
    elif shape == 2: bs = [0]
    elif shape == 3: bs = [r.range(1, 6)]
    else: bs = [r.choice([0, 1, 1, 2, 3, 4, 7]) for _ in range(r.range(2, 6))]
    if ctx:
        ctx.hist("ds_kind", kind); ctx.hist("archive_format", fmt); ctx.hist("ds_batches", len(bs))
        ctx.hist("ds_elements", sum(bs)); ctx.hist("ds_dim", dim)
        ctx.hist("ds_boundary", "no-batch" if not bs else "only-empty-batches" if sum(bs) == 0 else
                 "single-element" if sum(bs) == 1 else "has-empty-batch" if 0 in bs else "regular")
    return f"ds {kind} {fmt} {dim} {r.below(50)} " + " ".join(map(str, bs))


SHR_VARIANTS = ["autoenc", "copy", "subset", "selfappend", "twolabeled"]


def gen_shr(r, ctx=None, variant=None, kind=None, fmt=None):
    """several objects sharing batch objects in ONE archive"""
    variant = variant or r.choice(SHR_VARIANTS); kind = kind or r.choice(["dense", "sparse"]); fmt = fmt or r.choice(["text", "binary"])
    dim = r.choice([1, 2, 3, 5])
    bs = [r.choice([0, 1, 1, 2, 3, 4]) for _ in range(r.choice([0, 1, 1, 2, 3, 4]))]
    if ctx:
        ctx.hist("shared_variant", f"{variant}/{kind}/{fmt}"); ctx.hist("shared_batches", len(bs))
        ctx.hist("shared_boundary", "no-batch" if not bs else "only-empty-batches" if sum(bs) == 0 else "single-batch" if len(bs) == 1 else "regular")
    return f"shr {variant} {fmt} {kind} {dim} {r.below(50)} " + " ".join(map(str, bs))


def gen_vec(r, ctx=None):
    n = r.choice([0, 0, 1, 2, 3, 5]); old = r.choice([0, 1, 3, 8])
    if ctx: ctx.hist("vec_saved_vs_target", f"{'empty' if n == 0 else 'one' if n == 1 else 'many'}-into-{'empty' if old == 0 else 'shorter' if old < n else 'longer' if old > n else 'equal'}")
    return f"vec {r.choice(['text', 'binary'])} {old} " + " ".join(str(r.range(-9, 10)) for _ in range(n))


def object_ops(ctx=None, warm=(0, 1, 2, 4), skip=()):
    ops = []
    for fmt in ("text", "binary"):
        for lab, cls in OBJECTS.items():
            ops.append(f"obj {lab} {fmt} {cls}")
        for lab, cls in OPTIMIZERS.items():
            if lab in skip: continue
            for k in warm:
                ops.append(f"obj {lab}-after-{k} {fmt} {cls}")
    if ctx:
        for o in ops: ctx.hist("object_class", o.split()[1].split("-")[0])
        for o in ops:
            if "-after-" in o: ctx.hist("optimizer_restore_step_index", o.split()[1].rsplit("-", 1)[1])
    return ops


def load_corpus():
    d = os.path.join(core.VERIF, "corpus", "C18")
    out = []
    if os.path.isdir(d):
        for fn in sorted(os.listdir(d)):
            if fn.endswith(".txt"):
                out += [[l.strip()] for l in open(os.path.join(d, fn)) if l.strip() and not l.startswith("#")]
    return out


FINDING_OF = {"ModelKernel": "F7-ModelKernel-read-signature",
              "ConcatenatedModel": "F10-ConcatenatedModel-read-into-copy",
              "ElitistCMA": "F-C18-4-ElitistCMA-best-not-archived",
              "SubrangeKernel": "F-C18-5-SubrangeKernel-subkernels-not-archived"}
FINDING_LABEL = {"BinaryRBM-baserate": "F-C18-6-BinaryLayer-baserate-not-archived",
                 "UniformCrossover-default": "F-C18-7-UniformCrossover-default-ctor-throws",
                 "OneVersusOneClassifier": "F-C18-8-OneVersusOneClassifier-unregistered-class"}


def classify(ops, res):
    t = ops[-1].split()
    base = t[1].split("-")[0] if t[0] == "obj" else t[1]
    feat = FINDING_LABEL.get(t[1], FINDING_OF.get(base, base)) if t[0] == "obj" else base
    what_in = " ".join(t[:8])
    if res.crash:
        m = re.search(r"(?:ERROR|SUMMARY): AddressSanitizer: (\S+)|runtime error: ([^\n]*)", res.stderr)
        tag = (m.group(1) or m.group(2)) if m else "crash"
        tag = re.sub(r"0x[0-9a-f]+", "ADDR", tag)[:60].replace(" ", "_")
        return f"{t[0]}:{feat}:crash:{tag}", f"round trip aborted ({tag}) on `{what_in}`"
    if res.oracle:
        m = re.search(r"!oracle (\S+)", res.oracle[0])
        return f"{t[0]}:{feat}:oracle:{m.group(1)}", f"restored object differs ({m.group(1)}) on `{what_in}`: {res.impl[-1][:400]}"
    return f"{t[0]}:{feat}:mismatch", f"model and implementation disagree on `{what_in}`: impl={res.impl[-1:]} model={res.model[-1:]}"


# a mis-synchronised archive makes boost read garbage sizes: bound what one allocation / the process may take
ENV = {"ASAN_OPTIONS": "detect_leaks=0:abort_on_error=0:max_allocation_size_mb=512:hard_rss_limit_mb=3000"}


def translate(ctx):
    return ctx.translate("serial_fields.py")


PROBES = {"MOEAD_RVEA": ("F-C18-3:moead-rvea-serialize-signature",
                         "MOEAD::serialize(Archive&) / RVEA::serialize(Archive&) lack the version parameter and hide "
                         "ISerializable::serialize: `archive << moead` does not compile, and through an ISerializable& nothing is archived",
                         ["include/shark/Algorithms/DirectSearch/MOEAD.h", "include/shark/Algorithms/DirectSearch/RVEA.h"]),
          "CVEC": ("F-C18-2:compressed_vector-serialize-does-not-compile",
                   "remora::compressed_vector::serialize archives its base BaseSparseVector, which has no serialize(): "
                   "serializing a CompressedRealVector does not compile",
                   ["include/shark/LinAlg/BLAS/sparse.hpp", "include/shark/LinAlg/BLAS/cpu/sparse.hpp"])}


def probe(ctx, name):
    """syntax-only compile probe, cached by the hash of the headers involved"""
    import subprocess, hashlib
    d = os.path.join(core.CACHE, "c18probe"); os.makedirs(d, exist_ok=True)
    h = hashlib.sha256(name.encode())
    for f in PROBES[name][2] + ["include/shark/Core/ISerializable.h"]:
        h.update(core.file_sha(os.path.join(core.REPO, f)).encode())
    h.update(core.file_sha(os.path.join(core.VERIF, "harness", "c18_probe.cpp")).encode())
    key = os.path.join(d, name + "-" + h.hexdigest()[:16])
    if os.path.exists(key):
        return open(key).read().strip() == "ok"
    cmd = ["g++", "-std=c++11", "-DNDEBUG", "-w", "-fopenmp", "-fsyntax-only", "-DPROBE_" + name, "-I" + ctx.shark_h(),
           "-I" + os.path.join(core.REPO, "include"), os.path.join(core.VERIF, "harness", "c18_probe.cpp")]
    ok = subprocess.run(cmd, stdout=subprocess.DEVNULL, stderr=subprocess.DEVNULL).returncode == 0
    open(key, "w").write("ok" if ok else "fails")
    return ok


def deps_crosscheck(ctx):
    """T3b: behaviour-dependency lists of the regex reader vs clang's AST member references (cached by source hash)"""
    import hashlib, importlib.util
    spec = importlib.util.spec_from_file_location("sdc", os.path.join(core.VERIF, "translate", "serial_deps_clang.py"))
    sdc = importlib.util.module_from_spec(spec); spec.loader.exec_module(sdc)
    h = hashlib.sha256()
    for f in [os.path.join(core.REPO, rel) for rel, _ in sdc.TARGETS] + \
             [os.path.join(core.VERIF, "translate", n) for n in ("serial_fields.py", "serial_deps_clang.py", "serial_transient.json")]:
        h.update(core.file_sha(f).encode())
    d = os.path.join(core.CACHE, "c18probe"); os.makedirs(d, exist_ok=True)
    key = os.path.join(d, "deps-" + h.hexdigest()[:16])
    if os.path.exists(key):
        ctx.log("serial_deps_clang.py (cached): " + open(key).read().strip())
        ctx.cov["deps_clang_crosscheck"] = open(key).read().strip()
        return True
    ok = ctx.translate("serial_deps_clang.py", "--inc", ctx.shark_h())
    if ok:
        line = [l for l in ctx.log_lines if "clang cross-check:" in l][-1].split("clang cross-check:")[-1].strip()
        open(key, "w").write(line); ctx.cov["deps_clang_crosscheck"] = line
    return ok


def build(ctx):
    flags = ["-I" + core.REPO]
    ctx.c18_probes = {n: probe(ctx, n) for n in PROBES}
    if ctx.c18_probes["MOEAD_RVEA"]: flags.append("-DC18_HAVE_MOEAD_RVEA")
    if ctx.c18_probes["CVEC"]: flags.append("-DC18_HAVE_CVEC")
    return ctx.harness("c18", ["c18.cpp", "c18_opt.cpp", "c18_models.cpp", "c18_moo.cpp"], flags=flags)


def translator_classes():
    """class names and families found by the translator (parsed from the generated Lean)"""
    txt = open(os.path.join(core.LEAN, "SharkVerif", "Gen", "SerialData.lean")).read()
    return dict(re.findall(r'name := "([^"]+)",.*?family := "([^"]*)"', txt, re.S))


def coverage(ctx, cases):
    found = translator_classes()
    reached = set()
    for c in cases:
        t = c[0].split()
        if t[0] == "obj":
            if t[-1] == "PROBE-FAILS": continue
            reached.update(t[3].split(","))
        elif t[0] == "ds": reached.update(DS_KINDS.get(t[1], "").split(","))
        elif t[0] == "shr": reached.update((DATA + ",LabeledData,matrix,compressed_matrix").split(","))
        elif t[0] == "vec": reached.add("vector")
    reached &= set(found)
    missing = sorted(set(found) - reached)
    ctx.cov["classes_found_by_translator"] = len(found)
    ctx.cov["classes_round_tripped"] = len(reached)
    fam = {}
    for c, f in found.items():
        fam.setdefault(f, [0, 0]); fam[f][0] += 1; fam[f][1] += c in reached
    ctx.cov["round_tripped_per_family"] = {f: f"{v[1]}/{v[0]}" for f, v in sorted(fam.items())}
    ctx.sample({"classes_not_round_tripped": missing})
    ctx.log(f"coverage: {len(reached)}/{len(found)} classes of the translator round-tripped; per family " +
            ", ".join(f"{f} {v[1]}/{v[0]}" for f, v in sorted(fam.items())))
    ctx.log("not round-tripped: " + " ".join(f"{c}({found[c]})" for c in missing))


def run(ctx):
    ctx.trusted += ["translator translate/serial_fields.py + reviewed allow-list translate/serial_transient.json + type table CODEC_CLASSES",
                    "correspondence harness harness/c18*.cpp (recording archive c18_tok.hpp) + generator checks/c18.py",
                    "boost.serialization, libstdc++: exercised under ASan/UBSan, not modelled (bookkeeping tokens dropped by the recording archive)"]
    ctx.assumptions += ["the target object is of the same type, wired to equivalent external objects (kernels, sub-models, objective "
                        "function via init(), random number generator) and configured by the same constructor arguments — allow-list categories external/config",
                        "optimizer state is restored into an optimizer that was init()-ialised on the same objective (from another point, and stepped)"]
    ok_t = translate(ctx)
    ok_t = deps_crosscheck(ctx) and ok_t
    ctx.prove(["SharkVerif.Gen.Serial", "SharkVerif.Gen.SerialCodec", "SharkVerif.Props.C18"])
    if not ctx.quick:
        ctx.leanchecker(["SharkVerif.Props.C18"])
    exe = build(ctx)
    drv = ctx.driver("drv_c18") if ok_t and not any(not b_.get("resolved") for b_ in ctx.breaks) else None
    if not exe:
        return
    skip = set()
    for name, ok in ctx.c18_probes.items():
        key, what, _ = PROBES[name]
        ctx.cov["probe_" + name] = "compiles: exercised" if ok else "does not compile (finding)"
        if not ok:
            skip |= {l for l, p in PROBED.items() if p == name}
            ctx.violation(key, {"ops": [], "probe": f"g++ -fsyntax-only -DPROBE_{name} harness/c18_probe.cpp"}, True, what)
    nds = 400 if ctx.quick else 20000
    cases = load_corpus()
    ctx.cov["corpus_cases"] = len(cases)
    r = ctx.rng.fork("c18")
    cases += [[o] for o in object_ops(ctx, (0, 1, 2, 3, 4, 5, 6) if ctx.quick else tuple(range(0, 26)), skip)]
    # every dataset kind x every boundary batch structure, then random ones
    for kind in DS_KINDS:
        for fmt in ("text", "binary"):
            for bs in ("", "0", "1", "0 0", "0 2 0", "1 1", "3 0 1"):
                cases.append([f"ds {kind} {fmt} {r.choice([0, 1, 2, 3])} {r.below(50)} {bs}".strip()])
    cases += [[gen_ds(r, ctx)] for _ in range(nds)]
    # shared batch objects inside one archive: every variant x element kind x format on fixed batch structures, then random
    for variant in SHR_VARIANTS:
        for kind in ("dense", "sparse"):
            for fmt in ("text", "binary"):
                for bs in ("2 1", "1", "3 0 2", ""):
                    cases.append([f"shr {variant} {fmt} {kind} {r.choice([1, 2, 3])} {r.below(50)} {bs}".strip()])
    cases += [[gen_shr(r, ctx)] for _ in range(100 if ctx.quick else 4000)]
    cases += [[gen_vec(r, ctx)] for _ in range(40 if ctx.quick else 2000)]
    cases += [[f"wrap {r.choice(['text', 'binary'])} {r.choice([0, 1, 2, 5])} {r.below(20)}"] for _ in range(10 if ctx.quick else 300)]
    ctx.cov["evaluations"] = len(cases)
    ctx.cov["distinct_nontrivial"] = len({c[0] for c in cases if c[0].startswith("obj") or len(c[0].split()) >= 7})
    ctx.sample({"ops": [cases[0][0], cases[len(cases) // 2][0], cases[-1][0]]})
    coverage(ctx, cases)
    if drv:
        core.correspond(ctx, "K-C18", cases, [exe], [drv], classify, env=ENV, keep_prefix=0, max_report=8, timeout=1800)
    else:
        # the translator rejected its source, a regenerated obligation failed or the driver no longer builds: the tie is
        # broken, but the harness and its independent oracle do not need the model — search the implementation alone
        # for a CONCRETE failing input (datasets and shared-batch archives first: they are the cheapest)
        order = sorted(cases, key=lambda c: {"shr": 0, "ds": 1, "vec": 2, "wrap": 3}.get(c[0].split()[0], 4))
        core.oracle_only(ctx, "K-C18[oracle-only]", order, [exe], classify, env=ENV, max_report=6, timeout=900)


def replay(ctx, rep):
    translate(ctx)
    exe = build(ctx); drv = ctx.driver("drv_c18")
    res = core.run_case(ctx, [exe], [drv], rep["ops"], env=rep.get("env") or ENV)
    print("\n".join(f"impl : {a}\nmodel: {b}" for a, b in zip(res.impl, res.model)))
    print("stderr:", res.stderr[-2000:])
    print("OK" if res.ok else "FAILS")
    return 0 if res.ok else 1
