"""C09 — kernel-matrix caches: theorems (Props/C09.lean) + correspondence K-C09
between Model/Cache.lean (driver drv_c09) and the real LRUCache / CachedMatrix."""
import os, re
from vlib import core

TRUST = ("Lean 4.33 kernel; axioms at most propext/Classical.choice/Quot.sound (audited per run by #audit_module); "
         "hand-written model tied to the C++ by the correspondence harness (differential, generator-bounded); ")
MANIFEST = dict(
  text=("Theorems (Props/C09.lean) for every finite history of valid CachedMatrix operations, every size and capacity: "
        "cached/returned/storage-copied entries equal the base matrix under the current permutation, size accounting, "
        "capacity bound, LRU list = cached lines, two most recent rows survive a third fetch iff capacity allows "
        "(with a decide-checked witness for the converse); wrapper matrices (regularised, modified, precomputed, 2x2-block, difference, partly precomputed) "
        "equal the direct kernel formula at the permuted original indices after any flip history. The model (Model/Cache.lean) is tied to the real "
        "LRUCache/CachedMatrix by an exact line-by-line correspondence over random histories (double and float caches) "
        "under ASan/UBSan, plus an independent in-harness property oracle."),
  note=TRUST + "memory safety of the real object code is runtime evidence (ASan/UBSan over the generated histories), the theorem is about the model; "
       "wrapper matrices: Kernel/Regularized/Modified/Precomputed/Block2x2/Difference/PartlyPrecomputed are modelled and proved for all flip histories over an arbitrary kernel function; "
       "tied on integer points with the linear kernel; GaussianKernelMatrix is covered by a toleranced in-harness oracle only (not modelled), ExampleModifiedKernelMatrix is not covered; matrix() is only exercised before the first flip.",
  technique="Lean 4 invariant proof by induction over operation histories + differential correspondence with the C++ (ASan/UBSan)",
  design="§6 C09")

FINISH = dict(level="proof",
              rule="histories of CachedMatrix ops (row/rows/entry/flip/maxidx/clear) and raw LRUCache ops "
                   "(get/resize/mark/swap) from one SplitMix64 stream; a case is non-trivial if it evicts, "
                   "resizes or flips a cached line at least once; distinct = distinct op text")


def gen_cm_case(r, maxlen):
    n = r.choice([1, 2, 3, 4, 5, 6, 8, 12])
    # capacities from the minimum admissible one (n: one full row) upward
    cap = n + r.choice([0, 0, 1, n, n + 1, 2 * n, 3 * n, n * n])
    ops = [f"new {n} {cap}"]
    for _ in range(r.range(1, maxlen)):
        x = r.below(100)
        if x < 45:
            ops.append(f"row {r.below(n)} {r.range(1, n)}")
        elif x < 60:
            e = r.range(0, n); s = r.range(0, e)
            if r.chance(2, 3): s = 0          # "prefix" requests
            ops.append(f"rows {r.below(n)} {s} {e}")
        elif x < 82:
            ops.append(f"flip {r.below(n)} {r.below(n)}")
        elif x < 90:
            ops.append(f"maxidx {r.range(0, n)}")
        elif x < 95:
            ops.append(f"entry {r.below(n)} {r.below(n)}")
        else:
            ops.append("clear")
    return ops


def gen_pressure_case(r, maxlen):
    """full-length rows under a capacity of 2..3 rows: hits on the oldest line followed by misses
    (the "two most recent rows stay valid if capacity allows" clause)"""
    n = r.range(3, 7)
    cap = n * r.range(2, 3) + r.choice([0, 0, 1, n - 1])
    ops = [f"new {n} {cap}"]
    for _ in range(r.range(4, maxlen)):
        if r.chance(1, 12):
            ops.append(f"flip {r.below(n)} {r.below(n)}")
        else:
            ops.append(f"row {r.below(n)} {n if r.chance(3, 4) else r.range(1, n)}")
    return ops


def gen_lru_case(r, maxlen):
    n = r.choice([1, 2, 3, 4, 6, 9])
    cap = r.range(1, 3 * n + 2)
    ops = [f"new {n} {cap}"]
    lens = {}
    for _ in range(r.range(1, maxlen)):
        x = r.below(100)
        if x < 45:
            ops.append(f"get {r.below(n)} {r.range(1, cap)}")
        elif x < 55:
            ops.append(f"mark {r.below(n)}")
        elif x < 85:
            ops.append(f"swap {r.below(n)} {r.below(n)}")
        elif x < 92:
            ops.append("clear")
        else:
            # resizeLine requires a cached line: emit get first
            i = r.below(n)
            ops.append(f"get {i} {r.range(1, cap)}")
            ops.append(f"resize {i} {r.range(1, cap)}")
    return ops


def gen_wrapper_case(r, maxlen):
    """wrapper matrices over integer points + linear kernel (exact)"""
    n = r.choice([1, 2, 3, 4, 5, 7])
    d = r.choice([1, 2, 3])
    bs = r.range(1, n + 1)
    xs = [r.range(0, 16) for _ in range(n * d)]          # coordinate = value - 8
    labels = [r.below(3) for _ in range(n)]
    diag = [r.below(5) for _ in range(n)]
    ops = ["wdata %d %d %d %s" % (n, d, bs, " ".join(map(str, xs + labels + diag)))]
    if r.chance(1, 10):
        fl = " ".join(f"{r.below(n)} {r.below(n)}" for _ in range(r.below(4)))
        return ops + [f"wgauss {r.range(1, 8)} {r.range(0, 4)} {fl}".strip()]
    ty = r.choice(["kernel", "reg", "mod", "pre", "pre", "block", "diff", "partly"])
    size = n
    if ty == "mod":
        ops.append(f"wmk mod {r.range(0, 3)} {r.range(0, 3)}")
    elif ty == "pre":
        if r.chance(1, 12) and n >= 2:
            # K2: precomputation of an already flipped base matrix
            i = r.below(n); j = (i + 1 + r.below(n - 1)) % n
            ops.append(f"wmk pre {i} {j}")
        else:
            ops.append("wmk pre")                 # precomputed at construction (no prior flips)
    elif ty == "diff":
        m = r.range(1, 5); size = m
        ops.append("wmk diff " + " ".join(str(r.below(n)) for _ in range(2 * m)))
    elif ty == "partly":
        ops.append(f"wmk partly {r.range(n * 8, n * 8 * (n + 1))}")
    else:
        ops.append("wmk " + ty)
        if ty == "block": size = 2 * n
    flipped = False
    for _ in range(r.range(1, maxlen)):
        x = r.below(100)
        if x < 35 and ty != "partly":
            ops.append(f"wflip {r.below(size)} {r.below(size)}"); flipped = True
        elif x < 60:
            ops.append(f"wentry {r.below(size)} {r.below(size)}")
        elif x < 90:
            e = r.range(0, size); st = r.range(0, e)
            ops.append(f"wrow {r.below(size)} {st} {e}")
        elif not flipped and ty in ("kernel", "reg", "mod", "block", "diff"):
            # matrix() of the KernelMatrix-based wrappers ignores flips by construction
            # (it evaluates the dataset in its original order): only asked before any flip
            ops.append("wmatrix")
    return ops


def classify(ops, res):
    kinds = sorted({o.split()[0] for o in ops[1:]})
    if any(o.startswith("wmk pre ") for o in ops) and not res.crash:
        return "K2:precomputed-after-flips", f"PrecomputedMatrix built from a flipped KernelMatrix holds the unflipped matrix; ops {ops}"
    if res.crash:
        m = re.search(r"ERROR: AddressSanitizer: (\S+)|runtime error: ([^\n]*)", res.stderr)
        tag = (m.group(1) or m.group(2)) if m else "crash"
        return f"crash:{tag}:{'+'.join(kinds)}", f"harness aborted ({tag}) on ops {ops}"
    if res.oracle:
        m = re.search(r"!oracle (\S+)", res.oracle[0])
        return f"oracle:{m.group(1)}:{'+'.join(kinds)}", f"property oracle failed ({m.group(1)}) on ops {ops}"
    return f"mismatch:{'+'.join(kinds)}", f"model and implementation disagree at line {res.diff_at} of ops {ops}"


def load_corpus():
    d = os.path.join(core.VERIF, "corpus", "C09")
    out = []
    if os.path.isdir(d):
        for fn in sorted(os.listdir(d)):
            ops = [l.strip() for l in open(os.path.join(d, fn)) if l.strip() and not l.startswith("#")]
            if ops: out.append(ops)
    return out


def nontrivial(ops):
    return sum(1 for o in ops if o.split()[0] in ("flip", "swap", "resize")) >= 1 and len(ops) > 4


LAKE_TARGETS = ["SharkVerif.Props.C09", "drv_c09"]


def build(ctx):
    return ctx.harness("c09", ["c09.cpp"]), ctx.harness("c09b", ["c09b.cpp"])


def run(ctx):
    ctx.trusted += ["correspondence harness harness/c09.cpp + generator checks/c09.py",
                    "hand-written model Model/Cache.lean (LRUCache.h, CachedMatrix.h are modelled, not translated)",
                    "ASan/UBSan runtime for the real code's memory safety (not a theorem)"]
    ctx.assumptions += ["requests respect the C++ preconditions: 0 < size <= capacity, indices < n, resizeLine only on cached lines",
                        "base matrix is an arbitrary function under a permutation; kernel evaluation itself is C05's subject"]
    ctx.prove(["SharkVerif.Props.C09"])
    if not ctx.quick:
        ctx.leanchecker(["SharkVerif.Props.C09"])
    exe, exeb = build(ctx)
    drv = ctx.driver("drv_c09")
    if not exe or not exeb or not drv:
        return
    ncm, nlru, maxlen = (150, 100, 60) if ctx.quick else (1500, 800, 400)
    corpus = load_corpus()
    cases = [c for c in corpus if not c[0].startswith("w")]
    ctx.cov["corpus_cases"] = len(corpus)
    r = ctx.rng.fork("c09")
    cases += [gen_cm_case(r, maxlen) for _ in range(ncm)]
    cases += [gen_lru_case(r, maxlen) for _ in range(nlru)]
    cases += [gen_pressure_case(r, min(maxlen, 40)) for _ in range(ncm // 2)]
    for c in cases:
        for o in c:
            ctx.hist("op_mix", o.split()[0])
        ctx.hist("history_length", min(len(c) // 20 * 20, 400))
    ctx.cov["evaluations"] = len(cases)
    ctx.cov["distinct_nontrivial"] = len({"\n".join(c) for c in cases if nontrivial(c)})
    ctx.sample({"ops": cases[len(cases) // 2][:12]})
    for ty in ("double", "float"):
        core.correspond(ctx, f"K-C09[{ty}]", cases, [exe, ty], [drv], classify)
    nw = 150 if ctx.quick else 1500
    wcases = [c for c in corpus if c[0].startswith("w")]
    wcases += [gen_wrapper_case(r, 25 if ctx.quick else 80) for _ in range(nw)]
    for c in wcases:
        ctx.hist("wrapper_types", c[1].split()[1] if c[1].startswith("wmk") else c[1].split()[0])
        for o in c: ctx.hist("op_mix", o.split()[0])
    ctx.cov["evaluations"] += len(wcases)
    ctx.cov["distinct_nontrivial"] += len({"\n".join(c) for c in wcases if any(o.startswith("wflip") for o in c)})
    ctx.sample({"ops": wcases[0][:8]})
    for ty in ("double", "float"):
        core.correspond(ctx, f"K-C09-wrappers[{ty}]", wcases, [exeb, ty], [drv], classify, keep_prefix=2)
    ctx.sample({"theorems": ["cache_entries_true", "returned_row_true", "storage_row_true", "size_accounting",
                             "two_recent_rows_valid", "two_recent_rows_evicted_when_too_small"]})


def replay(ctx, rep):
    exe, exeb = build(ctx); drv = ctx.driver("drv_c09")
    cmd = rep.get("harness_cmd", [exe, "double"])
    cmd[0] = exeb if any(o.startswith("w") for o in rep["ops"]) else exe
    res = core.run_case(ctx, cmd, [drv], rep["ops"])
    print("\n".join(f"impl : {a}\nmodel: {b}" for a, b in zip(res.impl, res.model)))
    print("stderr:", res.stderr[-2000:])
    print("OK" if res.ok else "FAILS")
    return 0 if res.ok else 1
