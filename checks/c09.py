"""C09 — kernel-matrix caches: theorems (Props/C09.lean) + correspondence K-C09
between Model/Cache.lean (driver drv_c09) and the real LRUCache / CachedMatrix."""
import os, re
from vlib import core

TRUST = ("Lean 4.33 kernel; axioms at most propext/Classical.choice/Quot.sound (audited per run by #audit_module); "
         "hand-written model tied to the C++ by the correspondence harness (differential, generator-bounded); ")
MANIFEST = dict(
  text=("Theorems (Props/C09.lean) about a statement-level model of LRUCache/CachedMatrix<Matrix> (junk-filled fresh buffers, "
        "bounds-checked accesses, the intrusive-list surgery of swapLineIndices case by case, buffer identities): "
        "cachedMatrix_refines_spec -- for every base-matrix class whose ranged row writes its entries and whose flip exchanges two variables, every size, "
        "capacity and finite history of row/rows/entry/flip/setMaxCachedIndex/clear calls that meet the SIZE_CHECK guards in the state they are issued in "
        "(zero-length requests admitted on cached lines), no access leaves a buffer, the observations are those of (i,j) -> entry0(pi i, pi j), and size accounting, "
        "capacity bound, LRU list = cached lines (no duplicates), truth of every held value hold in every reachable state; swapLineIndicesIL_eq -- the four list cases of the C++ "
        "refine the renaming i<->j; smo_three_rows_valid -- rows i, j stay the same buffers with the same contents while a third row is fetched if capacity allows "
        "(decide-checked witness for the converse); request_beyond_capacity_is_stuck -- below the capacity guard eviction runs out of lines. "
        "All nine wrapper classes (Kernel, Gaussian, Regularized, Modified, ExampleModified, Difference, Block2x2, Precomputed, PartlyPrecomputed) are modelled with entry, "
        "ranged row, flip and matrix(); *_lawful / lawful_row_true / *_entry_true prove entry and every row range equal to the direct formula at the permuted original indices "
        "for all flip histories, and make them instances of the end-to-end theorem. The driver runs this model against the real classes -- a real CachedMatrix on top of every "
        "wrapper -- line by line (LRU order, line contents, buffer identities; double and float caches) under ASan/UBSan, with an independent in-harness oracle (direct formula, "
        "accounting, pointer stability)."),
  note=TRUST + "memory safety of the real object code is runtime evidence (ASan/UBSan over the generated histories); the theorem is that the model's bounds-checked accesses never fail; "
       "models are hand-written and tied by exact correspondence only (no translator), two source flags (KernelMatrix::matrix honours flips; ExampleModifiedKernelMatrix flips its scaling) are read off the source by the check; "
       "GaussianKernelMatrix is tied through the squared distance decoded from the returned exp (the exp itself is libm's) plus a toleranced comparison with GaussianRbfKernel; "
       "ExampleModifiedKernelMatrix is tied with power-of-two scaling coefficients and no missing features; PartlyPrecomputedMatrix has no flips/ranged row and is checked stand-alone; "
       "buffer identities are observed as serials of distinct data pointers (ASan quarantine assumed); ModifiedKernelMatrix row = entry needs commutativity of the value type's multiplication (hypothesis of modified_lawful); "
       "open findings K2 (matrix() ignores flips), F-C09-1 (ExampleModified flip leaves scaling in place), F-C09-2/3 (members that cannot be instantiated) are reported as KNOWN-FINDING, model follows the code as written.",
  technique="Lean 4 refinement proof (statement-level model ⊑ abstract model ⊑ specification) by induction over operation histories + differential correspondence with the C++ (ASan/UBSan) + compile probes",
  design="§6 C09, §14")

FINISH = dict(level="proof",
              rule="histories of CachedMatrix ops (row/rows/entry/flip/maxidx/clear) over a synthetic base and over every wrapper class, and raw LRUCache ops "
                   "(get/resize/mark/swap), from one SplitMix64 stream; generators for LRU pressure, multi-line eviction, the SMO three-row pattern with shrinking, "
                   "all four swapLineIndices cases; what the histories do is measured by running the model (row_requests, swapLineIndices_cases, third_row_after_two, ...); "
                   "a case is non-trivial if it flips, swaps or resizes at least once; distinct = distinct op text")


def cm_ops(r, n, cap, maxlen, pre=""):
    """client ops of a CachedMatrix of size n, capacity cap >= n (guards of the C++ respected)"""
    ops = []
    for _ in range(r.range(1, maxlen)):
        x = r.below(100)
        if x < 40:
            k = r.below(n)
            ops.append(f"{pre}row {k} {r.range(1, n)}")
            if r.chance(1, 6):
                ops.append(f"{pre}row {k} 0")       # length 0: admissible only on a cached line
        elif x < 58:
            k = r.below(n)
            y = r.below(6)
            if y == 0: s_, e = 0, n                                   # whole row
            elif y == 1: e = k; s_ = r.range(0, e)                    # end == k
            elif y == 2: e = min(k + 1, n); s_ = r.range(0, e)        # end == k+1
            elif y == 3: e = r.range(0, n); s_ = e                    # empty range
            elif y == 4: e = r.range(1, n); s_ = r.range(1, e)        # start > 0
            else: e = r.range(0, n); s_ = 0                           # prefix
            ops.append(f"{pre}rows {k} {s_} {e}")
        elif x < 80:
            i = r.below(n)
            j = r.choice([r.below(n), r.below(n), r.below(n), (i + 1) % n, (i + 1) % n, i])
            ops.append(f"{pre}flip {i} {j}")
        elif x < 89:
            ops.append(f"{pre}maxidx {r.range(0, n)}")     # may cut below the length of cached lines
        elif x < 95:
            ops.append(f"{pre}entry {r.below(n)} {r.below(n)}")
        else:
            ops.append(f"{pre}clear")                      # in the middle of a history
    return ops


def gen_cm_case(r, maxlen):
    n = r.choice([1, 1, 2, 3, 4, 5, 6, 8, 12])
    # capacities from the minimum admissible one (n: one full row) upward
    cap = n + r.choice([0, 0, 1, n, n + 1, 2 * n, 3 * n, n * n])
    return [f"new {n} {cap}"] + cm_ops(r, n, cap, maxlen)


def gen_evict_case(r, maxlen):
    """many short lines, then a long request that has to evict several of them at once; then the pattern again"""
    n = r.range(4, 9)
    cap = n + r.choice([0, 1, 2, n // 2])
    ops = [f"new {n} {cap}"]
    for _ in range(r.range(1, 3)):
        ks = list(range(n)); 
        for k in ks[:r.range(2, n)]:
            ops.append(f"row {k} {r.range(1, 2)}")
        if r.chance(1, 3): ops.append(f"flip {r.below(n)} {r.below(n)}")
        ops.append(f"row {r.below(n)} {n}")
        if r.chance(1, 2): ops.append(f"row {r.below(n)} {r.range(n - 1, n)}")
    return ops


def gen_swap_case(r, maxlen):
    """many cached lines of different lengths, then flips between lines that are adjacent / far apart / at the two
    ends of the LRU list, with partially cached columns (the four list cases of swapLineIndices)"""
    n = r.range(3, 8)
    ops = [f"new {n} {n * n}"]
    order = list(range(n))
    for k in order[:r.range(2, n)]:
        ops.append(f"row {k} {r.range(1, n)}")
    for _ in range(r.range(2, 12)):
        x = r.below(10)
        if x < 7: ops.append(f"flip {r.below(n)} {r.below(n)}")
        elif x < 9: ops.append(f"row {r.below(n)} {r.range(1, n)}")
        else: ops.append(f"rows {r.below(n)} 0 {n}")
    return ops


def gen_smo_case(r, maxlen):
    """the access pattern of an SMO step: rows i, j of the working set, then a third row, repeatedly, with
    shrinking (maxidx + flips) in between; capacity from 'barely one row' to 'three rows'"""
    n = r.range(3, 8)
    cap = r.choice([n, 2 * n - 1, 2 * n, 3 * n - 1, 3 * n, 3 * n + 1])
    active = n
    ops = [f"new {n} {cap}"]
    for _ in range(r.range(2, max(3, maxlen // 4))):
        i = r.below(active); j = r.below(active); c = r.below(active)
        ops += [f"row {i} {active}", f"row {j} {active}", f"row {c} {active}"]
        if active > 2 and r.chance(1, 4):
            ops.append(f"flip {r.below(active)} {active - 1}"); active -= 1
            ops.append(f"maxidx {active}")
        elif r.chance(1, 10):
            active = n; ops.append(f"maxidx {n}")
    return ops


def gen_pressure_case(r, maxlen):
    """full-length rows under a capacity of 2..3 rows: hits on the oldest line followed by misses
    (the "two most recent rows stay valid if capacity allows" clause)"""
    n = r.range(3, 7)
    cap = n * r.range(2, 3) + r.choice([0, 0, 1, n - 1])
    ops = [f"new {n} {cap}"]
    for _ in range(r.range(4, maxlen)):
        if r.chance(1, 12):
            ops.append(f"flip {r.below(n)} {r.below(n)}")
        else:
            ops.append(f"row {r.below(n)} {n if r.chance(3, 4) else r.range(1, n)}")
    return ops


def gen_lru_case(r, maxlen):
    n = r.choice([1, 2, 3, 4, 6, 9])
    cap = r.range(1, 3 * n + 2)
    ops = [f"new {n} {cap}"]
    lens = {}
    for _ in range(r.range(1, maxlen)):
        x = r.below(100)
        if x < 45:
            ops.append(f"get {r.below(n)} {r.range(1, cap)}")
        elif x < 55:
            ops.append(f"mark {r.below(n)}")
        elif x < 85:
            ops.append(f"swap {r.below(n)} {r.below(n)}")
        elif x < 92:
            ops.append("clear")
        else:
            # resizeLine requires a cached line: emit get first
            i = r.below(n)
            ops.append(f"get {i} {r.range(1, cap)}")
            ops.append(f"resize {i} {r.range(1, cap)}")
    return ops


WRAPPERS = ["kernel", "reg", "mod", "pre", "block", "diff", "partly", "gauss", "exmod"]


def wrapper_head(r, flags, ty=None, known_ok=True):
    """wflags/wdata/wmk lines for one wrapper; returns (ops, ty, size).  With known_ok the patterns of the
    open findings (K2, F-C09-1) are avoided unless the source flags say they are repaired."""
    n = r.choice([1, 2, 3, 4, 5, 7])
    d = r.choice([1, 2, 3])
    bs = r.range(1, n + 1)
    ty = ty or r.choice(WRAPPERS)
    lo, hi = (4, 12) if ty == "gauss" else (0, 16)          # gauss: squared distances stay small
    xs = [r.range(lo, hi) for _ in range(n * d)]            # coordinate = value - 8
    labels = [r.below(3) for _ in range(n)]
    diag = [r.below(5) for _ in range(n)]
    ops = ["wflags %d %d" % (flags["k2fixed"], flags["exfixed"]),
           "wdata %d %d %d %s" % (n, d, bs, " ".join(map(str, xs + labels + diag)))]
    size = n
    if ty == "mod":
        ops.append(f"wmk mod {r.range(0, 3)} {r.range(0, 3)}")
    elif ty == "pre":
        if n >= 2 and (flags["k2fixed"] or not known_ok) and r.chance(1, 2):
            i = r.below(n); j = (i + 1 + r.below(n - 1)) % n
            ops.append(f"wmk pre {i} {j}")        # precomputation of an already flipped base matrix (K2)
        else:
            ops.append("wmk pre")
    elif ty == "diff":
        m = r.range(1, 5); size = m
        ops.append("wmk diff " + " ".join(str(r.below(n)) for _ in range(2 * m)))
    elif ty == "partly":
        ops.append(f"wmk partly {r.range(n * 8, n * 8 * (n + 1))}")
    elif ty == "gauss":
        ops.append(f"wmk gauss 1 {r.range(4, 7)}")
    elif ty == "exmod":
        if flags["exfixed"] or not known_ok:
            sc = [r.below(3) for _ in range(n)]
        else:
            sc = [r.below(3)] * n                 # equal coefficients: flips are harmless (F-C09-1)
        ops.append("wmk exmod " + " ".join(map(str, sc)))
    else:
        ops.append("wmk " + ty)
        if ty == "block": size = 2 * n
    return ops, ty, size


def gen_wrapper_case(r, maxlen, flags, known_ok=True, ty=None):
    """wrapper matrices over integer points + linear kernel (exact)"""
    if ty is None and r.chance(1, 14):
        ops, _, n = wrapper_head(r, flags, "kernel")
        fl = " ".join(f"{r.below(n)} {r.below(n)}" for _ in range(r.below(4)))
        return ops[:2] + [f"wgauss {r.range(1, 8)} {r.range(0, 4)} {fl}".strip()]
    ops, ty, size = wrapper_head(r, flags, ty, known_ok)
    flipped = False
    matrix_ok = ty in ("kernel", "reg", "mod", "block", "diff", "gauss") or (ty == "exmod" and flags["exmod_matrix"])
    for _ in range(r.range(1, maxlen)):
        x = r.below(100)
        if x < 35 and ty != "partly":
            ops.append(f"wflip {r.below(size)} {r.below(size)}"); flipped = True
        elif x < 55:
            ops.append(f"wentry {r.below(size)} {r.below(size)}")
        elif x < 88:
            k = r.below(size)
            y = r.below(6)
            if y == 0: st, e = 0, size
            elif y == 1: e = k; st = r.range(0, e)
            elif y == 2: e = min(k + 1, size); st = r.range(0, e)
            elif y == 3: e = r.range(0, size); st = e
            elif y == 4: e = r.range(1, size); st = r.range(1, e)
            else: e = r.range(0, size); st = r.range(0, e)
            ops.append(f"wrow {k} {st} {e}")
        elif matrix_ok and (not flipped or flags["k2fixed"] or not known_ok or ty in ("block", "diff", "gauss", "exmod")):
            # matrix() of the KernelMatrix-based wrappers ignores flips as written (K2)
            ops.append("wmatrix")
    return ops


def gen_cw_case(r, maxlen, flags, known_ok=True, ty=None):
    """a CachedMatrix on top of a wrapper over flips: the combination the solvers use"""
    ty = ty or r.choice([t for t in WRAPPERS if t != "partly"])     # PartlyPrecomputedMatrix has no flips/ranged row
    ops, ty, size = wrapper_head(r, flags, ty, known_ok)
    cap = size + r.choice([0, 0, 1, size, 2 * size, size * size])
    ops.append(f"wcache {cap}")
    return ops + cm_ops(r, size, cap, maxlen, pre="c")


ENTRY_TAGS = {"wrong-entry", "wrong-row", "returned-row-wrong", "storage-row-wrong", "wrong-cached-entry",
              "matrix-differs-from-entry"}


def classify(ops, res):
    kinds = sorted({o.split()[0] for o in ops[1:]})
    tags = set(re.findall(r"!oracle (\S+)", " ".join(res.oracle)))
    wty = next((o.split()[1] for o in ops if o.startswith("wmk ")), "")
    flipped = any(o.split()[0] in ("wflip", "cflip") for o in ops)
    # the open findings: the model follows the code as written (no mismatch), only the property oracle fails
    if not res.crash and res.diff_at is None and tags and tags <= ENTRY_TAGS:
        if any(o.startswith("wmk pre ") for o in ops):
            return "K2:precomputed-after-flips", f"PrecomputedMatrix built from a flipped KernelMatrix holds the unflipped matrix; ops {ops}"
        if wty in ("kernel", "reg", "mod") and flipped and "wmatrix" in kinds and tags == {"matrix-differs-from-entry"}:
            return f"K2:matrix-after-flips:{wty}", f"matrix() of a flipped {wty} wrapper is not the matrix entry() describes; ops {ops}"
        if wty == "exmod" and flipped:
            return "F-C09-1:exmod-scaling-not-flipped", f"ExampleModifiedKernelMatrix::flipColumnsAndRows leaves the scaling coefficients in place; ops {ops}"
    if res.crash:
        m = re.search(r"ERROR: AddressSanitizer: (\S+)|runtime error: ([^\n]*)", res.stderr)
        tag = (m.group(1) or m.group(2)) if m else "crash"
        return f"crash:{tag}:{'+'.join(kinds)}", f"harness aborted ({tag}) on ops {ops}"
    if res.oracle:
        m = re.search(r"!oracle (\S+)", res.oracle[0])
        return f"oracle:{m.group(1)}:{'+'.join(kinds)}", f"property oracle failed ({m.group(1)}) on ops {ops}"
    return f"mismatch:{'+'.join(kinds)}", f"model and implementation disagree at line {res.diff_at} of ops {ops}"


def source_flags(ctx):
    """what the model has to know about the source to follow it: is KernelMatrix::matrix evaluated under the
    current order (K2 repaired), does ExampleModifiedKernelMatrix::flipColumnsAndRows exchange the scaling
    coefficients (F-C09-1 repaired).  A wrong guess shows up as a model/implementation mismatch."""
    def body(path, head):
        src = open(os.path.join(core.REPO, "include/shark/LinAlg", path)).read()
        i = src.index(head); j = src.index("{", i); depth = 0
        for k in range(j, len(src)):
            depth += src[k] == "{"; depth -= src[k] == "}"
            if depth == 0: return src[j:k + 1]
        return ""
    km = body("KernelMatrix.h", "void matrix(")
    ex = body("ExampleModifiedKernelMatrix.h", "void flipColumnsAndRows")
    return {"k2fixed": int("entry(" in km or "row(" in km or "x[" in km),
            "exfixed": int("m_scalingCoefficients" in ex)}


def probes(ctx):
    """compile probes for members nothing else instantiates; result cached by the hash of the headers"""
    inc = ctx.shark_h()
    out = {}
    procs = []
    for name, key, what in (
            ("PROBE_EXMOD_MATRIX", "F-C09-2:exmod-matrix-not-instantiable",
             "ExampleModifiedKernelMatrix::matrix() cannot be instantiated (storage(i,j) on a matrix_expression), hence neither can PrecomputedMatrix<ExampleModifiedKernelMatrix>"),
            ("PROBE_PARTLY_SIZE", "F-C09-3:partly-size-not-instantiable",
             "PartlyPrecomputedMatrix::size()/getMaxCacheSize() cannot be instantiated (blas::matrix has no size())")):
        deps = ["ExampleModifiedKernelMatrix.h", "PartlyPrecomputedMatrix.h", "PrecomputedMatrix.h", "KernelMatrix.h"]
        h = core.sha("|".join(core.file_sha(os.path.join(core.REPO, "include/shark/LinAlg", d)) for d in deps) +
                     core.file_sha(os.path.join(core.VERIF, "harness/c09_probe.cpp")) + name)[:16]
        stamp = os.path.join(core.CACHE, f"c09probe-{h}")
        if os.path.exists(stamp):
            out[name] = (open(stamp).read().split("\n", 1), key, what); continue
        cmd = ["g++", *ctx.BASE_FLAGS, "-fsyntax-only", "-D" + name, "-I" + inc, "-I" + os.path.join(core.REPO, "include"),
               os.path.join(core.VERIF, "harness/c09_probe.cpp")]
        import subprocess
        procs.append((name, key, what, stamp, subprocess.Popen(cmd, stdout=subprocess.PIPE, stderr=subprocess.STDOUT, text=True)))
    for name, key, what, stamp, p in procs:
        o, _ = p.communicate()
        err = "\n".join(l for l in o.splitlines() if "error" in l)[:600]
        with open(stamp, "w") as f: f.write(f"{p.returncode}\n{err}")
        out[name] = ([str(p.returncode), err], key, what)
    res = {}
    for name, ((rc, err), key, what) in out.items():
        ok = rc.strip() == "0"
        res[name] = ok
        ctx.hist("compile_probes", f"{name}:{'ok' if ok else 'fails'}")
        if not ok:
            ctx.violation(key, {"probe": name, "compiler_errors": err, "source": "harness/c09_probe.cpp"}, found_input=True, what=what)
    return res


def measure(ctx, drv, cases, prefix):
    """run the model alone on the generated cases and count what the histories actually do (evidence)"""
    import subprocess
    text = "\n".join(l for c in cases for l in c) + "\n"
    out = subprocess.run([drv], input=text, capture_output=True, text=True).stdout.splitlines()
    ops = [l for c in cases for l in c]
    prev = None
    for o, l in zip(ops, out):
        m = re.search(r"cached=(\d+) lru=\[([^\]]*)\].*ids=\[([^\]]*)\]", l)
        if not m:
            prev = None; continue
        cached = int(m.group(1)); lru = [int(x) for x in m.group(2).replace(" ", "").split(",") if x]
        ids = [int(x) for x in m.group(3).split(",") if x]
        op = o.split(); name = op[0][len(prefix):] if prefix and op[0].startswith(prefix) else op[0]
        if prev is not None:
            pc, plru, pids = prev
            if name in ("row", "get", "resize"):
                k = int(op[1])
                ev = len([i for i in plru if i not in lru])
                kind = "hit" if k in plru and pids[k] == ids[k] else ("extend" if k in plru else "miss")
                ctx.hist(prefix + "row_requests", f"{kind}/evicts{min(ev, 3)}{'+' if ev > 3 else ''}")
                if name == "row" and op[2] == "0": ctx.count(prefix + "zero_length_requests")
                if name == "row" and len(plru) >= 2 and k not in plru[:2]:
                    ctx.hist(prefix + "third_row_after_two", "both-kept" if all(i in lru and ids[i] == pids[i] for i in plru[:2]) else "one-lost")
            elif name in ("flip", "swap"):
                i, j = int(op[1]), int(op[2])
                if i == j: kind = "same-index"
                elif i in plru and j in plru:
                    d = abs(plru.index(i) - plru.index(j)); first = "i" if plru.index(i) < plru.index(j) else "j"
                    kind = f"both-cached/{'adjacent' if d == 1 else 'apart'}/{first}-first"
                elif i in plru or j in plru: kind = "one-cached"
                else: kind = "none-cached"
                ctx.hist(prefix + "swapLineIndices_cases", kind)
            elif name == "maxidx":
                ctx.hist(prefix + "maxidx", "cuts-cached-line" if any(len(x.split(",")) > int(op[1]) for x in re.findall(r"\[([^\]]+)\]", l.split("lru=")[1].split("]", 1)[1].split(" ids=")[0])) else "no-cut")
            elif name == "clear":
                ctx.hist(prefix + "clear", "nonempty" if pc else "empty")
        prev = (cached, lru, ids)


def load_corpus():
    d = os.path.join(core.VERIF, "corpus", "C09")
    out = []
    if os.path.isdir(d):
        for fn in sorted(os.listdir(d)):
            ops = [l.strip() for l in open(os.path.join(d, fn)) if l.strip() and not l.startswith("#")]
            if ops: out.append(ops)
    return out


def nontrivial(ops):
    return sum(1 for o in ops if o.split()[0] in ("flip", "swap", "resize")) >= 1 and len(ops) > 4


LAKE_TARGETS = ["SharkVerif.Props.C09", "drv_c09"]


def build(ctx, exmod_matrix=False):
    return (ctx.harness("c09", ["c09.cpp"]),
            ctx.harness("c09b", ["c09b.cpp"], flags=(["-DC09_EXMOD_MATRIX"] if exmod_matrix else [])))


def run(ctx):
    ctx.trusted += ["correspondence harnesses harness/c09.cpp, harness/c09b.cpp + generator checks/c09.py",
                    "hand-written models Model/Cache.lean, Model/KernelMatrices.lean (statement-level, tied by exact correspondence, not translated); "
                    "two source flags (KernelMatrix::matrix honours flips, ExampleModifiedKernelMatrix flips its scaling) are read off the source by checks/c09.py",
                    "ASan/UBSan runtime for the real code's memory safety (the theorem is about the model's bounds-checked accesses)",
                    "buffer identities are observed as serial numbers of distinct data pointers (relies on ASan's quarantine: no reuse of a freed buffer within one operation)"]
    ctx.assumptions += ["requests respect the C++ guards: indices < n, end <= n, request length <= capacity (SIZE_CHECK in ensureFreeMemory; "
                        "below it the NDEBUG code calls back() on an empty list -- theorem request_beyond_capacity_is_stuck), "
                        "length 0 only on a cached line (SIZE_CHECK(size > 0) in cacheCreateRow), resizeLine only on cached lines",
                        "base matrix: any class whose ranged row writes its entries and whose flip exchanges two variables (Lawful); "
                        "kernel evaluation itself is C05's subject"]
    ctx.prove(["SharkVerif.Props.C09"])
    if not ctx.quick:
        ctx.leanchecker(["SharkVerif.Props.C09"])
    flags = source_flags(ctx)
    pr = probes(ctx)
    flags["exmod_matrix"] = int(pr.get("PROBE_EXMOD_MATRIX", False))
    ctx.cov["source_flags"] = flags
    exe, exeb = build(ctx, bool(flags["exmod_matrix"]))
    drv = ctx.driver("drv_c09")
    if not exe or not exeb or not drv:
        return
    ncm, nlru, maxlen = (300, 150, 60) if ctx.quick else (2000, 1000, 400)
    corpus = load_corpus()
    cases = [c for c in corpus if not c[0].startswith("w")]
    ctx.cov["corpus_cases"] = len(corpus)
    r = ctx.rng.fork("c09")
    cases += [gen_cm_case(r, maxlen) for _ in range(ncm)]
    cases += [gen_lru_case(r, maxlen) for _ in range(nlru)]
    cases += [gen_pressure_case(r, min(maxlen, 40)) for _ in range(ncm // 2)]
    cases += [gen_evict_case(r, maxlen) for _ in range(ncm // 3)]
    cases += [gen_smo_case(r, min(maxlen, 80)) for _ in range(ncm // 2)]
    cases += [gen_swap_case(r, maxlen) for _ in range(ncm // 2)]
    for c in cases:
        for o in c:
            ctx.hist("op_mix", o.split()[0])
        ctx.hist("history_length", min(len(c) // 20 * 20, 400))
        n, cap = map(int, c[0].split()[1:3])
        ctx.hist("matrix_size", n)
        ctx.hist("capacity_in_rows", "minimum(=n)" if cap == n else ("<2 rows" if cap < 2 * n else ("<3 rows" if cap < 3 * n else ">=3 rows")))
    ctx.cov["evaluations"] = len(cases)
    ctx.cov["distinct_nontrivial"] = len({"\n".join(c) for c in cases if nontrivial(c)})
    ctx.sample({"ops": cases[len(cases) // 2][:12]})
    measure(ctx, drv, cases, "")
    for ty in ("double", "float"):
        core.correspond(ctx, f"K-C09[{ty}]", cases, [exe, ty], [drv], classify)
    # wrapper matrices, alone and under a CachedMatrix
    nw, wl = (300, 25) if ctx.quick else (2000, 80)
    wcorpus = [c for c in corpus if c[0].startswith("w")]
    wcases = []
    for c in wcorpus:
        # corpus files carry no flags line: the current source flags are put in front
        c = [f"wflags {flags['k2fixed']} {flags['exfixed']}"] + [o for o in c if not o.startswith("wflags")]
        wcases.append(c)
    is_known = lambda c: (any(o.startswith("wmk pre ") for o in c) and not flags["k2fixed"]) or \
                         (any(o.startswith("wmk exmod") and len(set(o.split()[2:])) > 1 for o in c) and not flags["exfixed"]) or \
                         (any(o.startswith("wmatrix") for o in c) and any(o.startswith("wflip") for o in c) and not flags["k2fixed"]
                          and any(o.startswith(("wmk kernel", "wmk reg", "wmk mod")) for o in c))
    fcases = [c for c in wcases if is_known(c)]
    wcases = [c for c in wcases if not is_known(c)]
    for t in WRAPPERS:                                       # every class on every run
        wcases.append(gen_wrapper_case(r, wl, flags, ty=t))
        if t != "partly": wcases.append(gen_cw_case(r, wl, flags, ty=t))
    wcases += [gen_wrapper_case(r, wl, flags) for _ in range(nw)]
    wcases += [gen_cw_case(r, 2 * wl, flags) for _ in range(nw)]
    # the patterns of the open findings, in a small batch of their own (each failing case is shrunk)
    for t in ("pre", "kernel", "reg", "mod", "exmod"):
        fcases.append(gen_wrapper_case(r, 12, flags, known_ok=False, ty=t))
        fcases.append(gen_cw_case(r, 16, flags, known_ok=False, ty=t))
    for c in wcases + fcases:
        ty = next((o.split()[1] for o in c if o.startswith("wmk ")), "wgauss")
        ctx.hist("wrapper_types", ty + ("+cache" if any(o.startswith("wcache") for o in c) else ""))
        for o in c:
            ctx.hist("op_mix", o.split()[0])
            if o.startswith(("wrow", "crows")):
                k, st, e = map(int, o.split()[1:4])
                ctx.hist("row_ranges", "empty" if st == e else ("end==k" if e == k else ("end==k+1" if e == k + 1 else ("start>0" if st > 0 else "prefix/whole"))))
    ctx.cov["evaluations"] += len(wcases) + len(fcases)
    ctx.cov["distinct_nontrivial"] += len({"\n".join(c) for c in wcases + fcases if any(o.startswith(("wflip", "cflip")) for o in c)})
    ctx.sample({"ops": wcases[-1][:10]})
    measure(ctx, drv, [c for c in wcases if any(o.startswith("wcache") for o in c)], "c")
    for ty in ("double", "float"):
        # KernelMatrix::row is an OpenMP loop: two threads exercise it; passive waiting, the machine is shared
        env = {"OMP_NUM_THREADS": "2", "OMP_WAIT_POLICY": "passive"}
        core.correspond(ctx, f"K-C09-wrappers[{ty}]", wcases, [exeb, ty], [drv], classify, keep_prefix=3, env=env)
        core.correspond(ctx, f"K-C09-open-findings[{ty}]", fcases, [exeb, ty], [drv], classify, keep_prefix=3, env=env)
    ctx.sample({"theorems": ["cachedMatrix_refines_spec", "swapLineIndicesIL_eq", "smo_three_rows_valid", "cache_entries_true",
                             "size_accounting", "lawful_row_true", "gaussian_entry_true", "exmod_entry_asCoded"]})


def replay(ctx, rep):
    if "probe" in rep:
        pr = probes(ctx); ok = pr.get(rep["probe"], False)
        print("OK" if ok else "FAILS: " + rep.get("compiler_errors", "")); return 0 if ok else 1
    flags = source_flags(ctx); pr = probes(ctx)
    exe, exeb = build(ctx, bool(pr.get("PROBE_EXMOD_MATRIX", False))); drv = ctx.driver("drv_c09")
    cmd = rep.get("harness_cmd", [exe, "double"])
    cmd[0] = exeb if any(o.startswith("w") for o in rep["ops"]) else exe
    res = core.run_case(ctx, cmd, [drv], rep["ops"])
    print("\n".join(f"impl : {a}\nmodel: {b}" for a, b in zip(res.impl, res.model)))
    print("stderr:", res.stderr[-2000:])
    print("OK" if res.ok else "FAILS")
    return 0 if res.ok else 1
